(* C17 — model of /repo/src/plugins/file_transfer.rs (FileTransferPlugin), no proofs in this file.

   Transcribed line by line from the Rust source (state after the two `fix:` commits recorded in
   known_findings.d/C17.json: duplicates of already received packages are ignored; the pre-allocation
   from announced sizes is saturating and capped).

   Input of the model = what `process_msg` looks at: ecu, lifecycle, extended header (apid, ctid,
   verb_mstp_mtin, noar) and the *decoded* verbose arguments (DltArg: type_info, endianness, raw
   payload) as yielded by the argument iterator of dlt/mod.rs (that iterator belongs to C18).

   External components, as explicit arguments:
     - glob::Pattern::matches        -> [c_glob : option (list N -> bool)]
     - the file system               -> [s_fs : list (path * content)]; `path.exists()` = membership;
                                        File::create + write_all on a non-existing path in an existing or
                                        creatable directory succeeds and stores exactly the bytes
     - String decoding of names      -> identity on bytes (harness restricts names to ASCII without NUL:
                                        Windows-1252 and UTF-8 decoding are the identity there)
     - std::path::Path::file_name    -> [file_name_of] below (Unix rules: split at '/', skip empty and
                                        non-leading "." components from the back, ".." / root / leading "." -> None)
     - Vec<u8> file_data                -> [t_data : list N] grows on demand: `extend_from_slice` always appends the
                                        whole payload; the capacity ([t_cap], requested with Vec::with_capacity) is only
                                        read as the keep-data flag `capacity() > 0` and is NEVER a bound on the
                                        stored data (neither the 512 of the lost-announcement recovery nor the
                                        MAX_PREALLOC cap of announced transfers limit what can be stored)
   Strings are lists of bytes (N < 256). *)
From Coq Require Import List NArith Bool.
From AdltV Require Import Base.Res Base.MachInt.
Import ListNotations.
Open Scope N_scope.

Definition lenN {A} (l : list A) : N := N.of_nat (length l).

Fixpoint bytes_eqb (a b : list N) : bool :=
  match a, b with
  | [], [] => true
  | x :: a', y :: b' => (x =? y) && bytes_eqb a' b'
  | _, _ => false
  end.

(* ------------------------------------------------------------------ decoded arguments *)
Record arg := mkArg { a_ti : N; a_be : bool; a_raw : list N }.

Definition TI_SINT : N := 32.          (* 0x20 *)
Definition TI_UINT : N := 64.          (* 0x40 *)
Definition TI_STRG : N := 512.         (* 0x200 *)
Definition TI_RAWD : N := 1024.        (* 0x400 *)
Definition TI_MASK_SCOD : N := 229376. (* 0x38000 *)
Definition SCOD_ASCII : N := 0.
Definition SCOD_UTF8 : N := 32768.     (* 0x8000 *)

Definition has_bit (ti mask : N) : bool := 0 <? N.land ti mask.
Definition scod (a : arg) : N := N.land (a_ti a) TI_MASK_SCOD.

Fixpoint le_val (l : list N) : N := match l with [] => 0 | b :: r => b + 256 * le_val r end.
Definition int_val (be : bool) (l : list N) : N := le_val (if be then rev l else l).

Definition int_width_ok (n : nat) : bool :=
  match n with 1%nat | 2%nat | 4%nat | 8%nat => true | _ => false end.

(* fn arg_as_uint: UINT of 1/2/4/8 bytes, or non-negative SINT of 1/2/4/8 bytes *)
Definition arg_as_uint (a : arg) : option N :=
  let n := length (a_raw a) in
  let v := int_val (a_be a) (a_raw a) in
  if has_bit (a_ti a) TI_UINT then
    if int_width_ok n then Some v else None
  else if has_bit (a_ti a) TI_SINT then
    if int_width_ok n then (if v <? 2 ^ (8 * N.of_nat n - 1) then Some v else None) else None
  else None.

(* fn arg_as_string: STRG with more than the terminator, ASCII or UTF-8; the last byte is cut *)
Definition arg_as_string (a : arg) : option (list N) :=
  if has_bit (a_ti a) TI_STRG && (1 <? lenN (a_raw a)) then
    if scod a =? SCOD_ASCII then Some (removelast (a_raw a))
    else if scod a =? SCOD_UTF8 then Some (removelast (a_raw a))
    else None
  else None.

Definition TAG_FLST : list N := [70; 76; 83; 84].
Definition TAG_FLDA : list N := [70; 76; 68; 65].
Definition TAG_FLFI : list N := [70; 76; 70; 73].

Definition is_tag_arg (tag : list N) (a : arg) : bool :=
  (scod a =? SCOD_ASCII) && (lenN (a_raw a) =? 5) && bytes_eqb (firstn 4 (a_raw a)) tag.

Fixpoint last_opt {A} (l : list A) : option A :=
  match l with [] => None | [x] => Some x | _ :: r => last_opt r end.

(* fn is_type: first argument and last of the remaining arguments carry the tag *)
Definition is_type (args : list arg) (tag : list N) : bool :=
  match args with
  | [] => false
  | a0 :: rest =>
      if is_tag_arg tag a0 then
        match last_opt rest with Some a1 => is_tag_arg tag a1 | None => false end
      else false
  end.

(* ------------------------------------------------------------------ messages *)
Record ext := mkExt { e_apid : N; e_ctid : N; e_vmm : N; e_noar : N }.
Record msg := mkMsg { m_ecu : N; m_lc : N; m_ext : option ext; m_args : list arg }.

Definition is_verbose (m : msg) : bool :=
  match m_ext m with Some e => N.land (e_vmm e) 1 =? 1 | None => false end.
(* msg.mstp() == Log(Info): mstp bits not 1,2,3 (those are AppTrace/NwTrace/Control) and mtin = 4;
   without extended header mstp() is Log(Fatal) *)
Definition is_log_info (m : msg) : bool :=
  match m_ext m with
  | Some e =>
      let mstp := (e_vmm e / 2) mod 8 in
      let mtin := (e_vmm e / 16) mod 16 in
      negb ((mstp =? 1) || (mstp =? 2) || (mstp =? 3)) && (mtin =? 4)
  | None => false
  end.
Definition noar (m : msg) : N := match m_ext m with Some e => e_noar e | None => 0 end.

(* ------------------------------------------------------------------ per-transfer state *)
Inductive tstate := MissingStart | Started | Complete | Incomplete.
Definition tstate_eqb (a b : tstate) : bool :=
  match a, b with
  | MissingStart, MissingStart | Started, Started | Complete, Complete | Incomplete, Incomplete => true
  | _, _ => false
  end.

Definition key := (N * N * N)%type.   (* ecu, lifecycle, serial *)
Definition key_eqb (a b : key) : bool :=
  let '(a1, a2, a3) := a in let '(b1, b2, b3) := b in (a1 =? b1) && (a2 =? b2) && (a3 =? b3).

Record transfer := mkT {
  t_key : key;
  t_name : list N;
  t_nr : N;               (* nr_packages *)
  t_state : tstate;
  t_size : N;             (* file_size *)
  t_bs : N;               (* buffer_size *)
  t_next : N;             (* next_package *)
  t_recvd : N;            (* recvd_packages *)
  t_payload : N;          (* recvd_payload *)
  t_cap : N;              (* capacity requested for file_data; `capacity() > 0` is the keep-data flag *)
  t_data : list N;        (* file_data *)
  t_saved : option (list N) (* auto_saved_to *)
}.

Definition set_state (v : tstate) (t : transfer) : transfer :=
  mkT (t_key t) (t_name t) (t_nr t) v (t_size t) (t_bs t) (t_next t) (t_recvd t) (t_payload t) (t_cap t) (t_data t) (t_saved t).
Definition set_size (v : N) (t : transfer) : transfer :=
  mkT (t_key t) (t_name t) (t_nr t) (t_state t) v (t_bs t) (t_next t) (t_recvd t) (t_payload t) (t_cap t) (t_data t) (t_saved t).
Definition set_bs (v : N) (t : transfer) : transfer :=
  mkT (t_key t) (t_name t) (t_nr t) (t_state t) (t_size t) v (t_next t) (t_recvd t) (t_payload t) (t_cap t) (t_data t) (t_saved t).
Definition set_next (v : N) (t : transfer) : transfer :=
  mkT (t_key t) (t_name t) (t_nr t) (t_state t) (t_size t) (t_bs t) v (t_recvd t) (t_payload t) (t_cap t) (t_data t) (t_saved t).
Definition set_recvd (v : N) (t : transfer) : transfer :=
  mkT (t_key t) (t_name t) (t_nr t) (t_state t) (t_size t) (t_bs t) (t_next t) v (t_payload t) (t_cap t) (t_data t) (t_saved t).
Definition set_payload (v : N) (t : transfer) : transfer :=
  mkT (t_key t) (t_name t) (t_nr t) (t_state t) (t_size t) (t_bs t) (t_next t) (t_recvd t) v (t_cap t) (t_data t) (t_saved t).
(* file_data replaced by a fresh / taken Vec: data and capacity together *)
Definition set_buf (cap : N) (d : list N) (t : transfer) : transfer :=
  mkT (t_key t) (t_name t) (t_nr t) (t_state t) (t_size t) (t_bs t) (t_next t) (t_recvd t) (t_payload t) cap d (t_saved t).
Definition set_data (d : list N) (t : transfer) : transfer := set_buf (t_cap t) d t.
Definition set_saved (v : option (list N)) (t : transfer) : transfer :=
  mkT (t_key t) (t_name t) (t_nr t) (t_state t) (t_size t) (t_bs t) (t_next t) (t_recvd t) (t_payload t) (t_cap t) (t_data t) v.

Definition is_active (s : tstate) : bool :=
  match s with Started | MissingStart => true | _ => false end.

Definition site_capacity : N := 17.

(* fn check_finished *)
Definition check_finished (t : transfer) (from_flfi : bool) : res (transfer * bool) :=
  if from_flfi then
    (nm1 <- sub_chk (t_next t) 1 ;;
     if t_recvd t =? nm1 then
       match t_state t with
       | MissingStart =>
           let t1 := set_state Complete t in
           Ok (if t_size t1 =? 0 then set_size (t_payload t1) t1 else t1, true)
       | _ => Ok (t, false)
       end
     else Ok (set_state Incomplete t, true))%res
  else if (t_nr t <? t_next t) && ((t_size t =? 0) || (t_size t =? t_payload t)) then
    Ok (set_state Complete (set_size (t_payload t) t), true)
  else if t_nr t <=? t_recvd t then Ok (set_state Incomplete t, true)
  else Ok (t, false).

(* fn add_flda.  `dupfix = true` is the code as it is now (a package number 1 <= n < next_package is a
   duplicate of an already received package and is ignored); `dupfix = false` is the code before the
   repair and only used by the recorded witness C17_duplicate_defect_before_fix. *)
Definition add_flda_gen (dupfix : bool) (t : transfer) (pnr : N) (raw : list N) : res (transfer * bool) :=
  let len := lenN raw in
  let t := if (pnr =? 1) && (t_bs t =? 0) then set_bs len t else t in
  if is_active (t_state t) then
    if dupfix && (0 <? pnr) && (pnr <? t_next t) then Ok (t, false)
    else
      (recvd <- add_chk u64max (t_recvd t) 1 ;;
       let t := set_recvd recvd t in
       t2 <- (if (pnr =? t_next t) &&
                 ((len =? t_bs t) || ((t_next t =? t_nr t) && (len <? t_bs t)))
              then
                next <- add_chk u64max (t_next t) 1 ;;
                pl <- add_chk usizemax (t_payload t) len ;;
                Ok (set_data (if 0 <? t_cap t then t_data t ++ raw else t_data t)
                      (set_payload pl (set_next next t)))
              else Ok t) ;;
       check_finished t2 false)%res
  else Ok (t, false).
Definition add_flda := add_flda_gen true.

(* ------------------------------------------------------------------ plugin *)
Record cfg := mkCfg {
  c_enabled : bool;
  c_allow_save : bool;
  c_keep_flda : bool;
  c_apid : option N;
  c_ctid : option N;
  c_dir : option (list N);             (* autoSavePath *)
  c_glob : option (list N -> bool)     (* autoSaveGlob, as its `matches` function *)
}.

Record st := mkSt {
  s_transfers : list transfer;
  s_idx : list (key * nat);            (* transfers_idx; newest binding first = HashMap::insert *)
  s_completed : list (nat * list N);   (* FileTransferStateData.completed_transfers, newest first *)
  s_fs : list (list N * list N);       (* files: path -> content (newest first) *)
  s_gen : N;                           (* PluginState.generation *)
  s_pub : list transfer                (* PluginState.value: the tree items as generated by the last update_state *)
}.

Definition init_st (fs : list (list N * list N)) : st := mkSt [] [] [] fs 1 [].

Fixpoint lookup_key (k : key) (l : list (key * nat)) : option nat :=
  match l with [] => None | (k', i) :: r => if key_eqb k k' then Some i else lookup_key k r end.
Fixpoint lookup_nat {A} (i : nat) (l : list (nat * A)) : option A :=
  match l with [] => None | (j, a) :: r => if Nat.eqb i j then Some a else lookup_nat i r end.
Fixpoint lookup_path {A} (p : list N) (l : list (list N * A)) : option A :=
  match l with [] => None | (q, a) :: r => if bytes_eqb p q then Some a else lookup_path p r end.
Definition path_exists (fs : list (list N * list N)) (p : list N) : bool :=
  match lookup_path p fs with Some _ => true | None => false end.

Fixpoint replace_nth {A} (i : nat) (x : A) (l : list A) : list A :=
  match l, i with
  | [], _ => []
  | _ :: r, O => x :: r
  | y :: r, S i' => y :: replace_nth i' x r
  end.

(* --- Path::file_name (Unix) *)
Definition SLASH : N := 47.
Definition DOT : N := 46.
(* split at '/', first component first *)
Fixpoint split_slash (cur : list N) (p : list N) : list (list N) :=
  match p with
  | [] => [rev cur]
  | b :: r => if b =? SLASH then rev cur :: split_slash [] r else split_slash (b :: cur) r
  end.
(* components from the back; the flag tells whether the component is the first one of the path *)
Fixpoint file_name_back (comps_rev : list (list N)) : option (list N) :=
  match comps_rev with
  | [] => None
  | c :: r =>
      if bytes_eqb c [] then file_name_back r
      else if bytes_eqb c [DOT] then (match r with [] => None | _ => file_name_back r end)
      else if bytes_eqb c [DOT; DOT] then None
      else Some c
  end.
Definition file_name_of (p : list N) : option (list N) := file_name_back (rev (split_slash [] p)).

(* decimal rendering of a number (format!("{}", serial)) *)
Fixpoint dec_digits (fuel : nat) (n : N) (acc : list N) : list N :=
  match fuel with
  | O => acc
  | S f => let acc' := (48 + n mod 10) :: acc in if n / 10 =? 0 then acc' else dec_digits f (n / 10) acc'
  end.
Definition dec (n : N) : list N := dec_digits 40 n [].

(* "<invalid_filename serial " *)
Definition INVALID_PREFIX : list N :=
  [60; 105; 110; 118; 97; 108; 105; 100; 95; 102; 105; 108; 101; 110; 97; 109; 101; 32; 115; 101; 114; 105; 97; 108; 32].
Definition serial_of (t : transfer) : N := snd (t_key t).

(* fn base_name_for_filetransfer *)
Definition base_name (t : transfer) : list N :=
  match file_name_of (t_name t) with
  | Some s => s
  | None => INVALID_PREFIX ++ dec (serial_of t) ++ [62]
  end.

(* Path::join for a relative or absolute second part *)
Definition path_join (dir base : list N) : list N :=
  match base with
  | b :: _ => if b =? SLASH then base
              else match dir with
                   | [] => base
                   | _ => if last dir 0 =? SLASH then dir ++ base else dir ++ SLASH :: base
                   end
  | [] => match dir with [] => [] | _ => if last dir 0 =? SLASH then dir else dir ++ [SLASH] end
  end.

Definition glob_matches (c : cfg) (name : list N) : bool :=
  match c_glob c with Some g => g name | None => false end.
Definition save_dir (c : cfg) : list N := match c_dir c with Some d => d | None => [DOT; SLASH] end.

(* fn check_auto_save *)
Definition check_auto_save (c : cfg) (t : transfer) (fs : list (list N * list N)) : transfer * list (list N * list N) :=
  match c_glob c with
  | None => (t, fs)
  | Some g =>
      if tstate_eqb (t_state t) Complete && negb (bytes_eqb (t_data t) []) && g (t_name t) then
        let path := path_join (save_dir c) (base_name t) in
        let '(t1, fs1) :=
          if negb (path_exists fs path) then (set_saved (Some path) t, (path, t_data t) :: fs) else (t, fs) in
        let t2 := if negb (c_allow_save c) && (0 <? t_cap t1) then set_buf 0 [] t1 else t1 in
        (t2, fs1)
      else (t, fs)
  end.

(* fn update_state: hand completed data over to completed_transfers, bump the generation, publish.
   `completed_transfers` = the (index, transfer) pairs with non-empty file_data and state Complete;
   each is inserted into the map and its file_data taken (mem::take leaves an empty Vec without capacity) *)
Definition takes (t : transfer) : bool :=
  negb (bytes_eqb (t_data t) []) && tstate_eqb (t_state t) Complete.
Definition ho_t (t : transfer) : transfer := if takes t then set_buf 0 [] t else t.
Fixpoint taken (i : nat) (ts : list transfer) : list (nat * list N) :=
  match ts with
  | [] => []
  | t :: r => if takes t then (i, t_data t) :: taken (S i) r else taken (S i) r
  end.

Definition update_state (s : st) : res st :=
  let ts := map ho_t (s_transfers s) in
  (* the indices are distinct, so the order of the insertions does not matter *)
  let comp := taken 0 (s_transfers s) ++ s_completed s in
  (g <- add_chk u32max (s_gen s) 1 ;;
   Ok (mkSt ts (s_idx s) comp (s_fs s) g ts))%res.

(* --- FLST *)
Record flst := mkFlst { f_serial : N; f_name : list N; f_size : N; f_nr : N; f_bs : N }.

(* the `for (i, arg) in args.enumerate()` loop of the FLST branch; `break` = return the accumulator *)
Fixpoint flst_loop (i : nat) (args : list arg) (acc : flst) : flst :=
  match args with
  | [] => acc
  | a :: r =>
      match i with
      | 0%nat => flst_loop 1 r acc
      | 1%nat => match arg_as_uint a with
                 | Some s => flst_loop 2 r (mkFlst s (f_name acc) (f_size acc) (f_nr acc) (f_bs acc))
                 | None => acc
                 end
      | 2%nat => flst_loop 3 r (match arg_as_string a with
                                | Some n => mkFlst (f_serial acc) (f_name acc ++ n) (f_size acc) (f_nr acc) (f_bs acc)
                                | None => acc
                                end)
      | 3%nat => match arg_as_uint a with
                 | Some s => flst_loop 4 r (mkFlst (f_serial acc) (f_name acc) s (f_nr acc) (f_bs acc))
                 | None => acc
                 end
      | 4%nat => flst_loop 5 r acc   (* creation date: only shown in the tooltip *)
      | 5%nat => match arg_as_uint a with
                 | Some s => flst_loop 6 r (mkFlst (f_serial acc) (f_name acc) (f_size acc) s (f_bs acc))
                 | None => acc
                 end
      | 6%nat => match arg_as_uint a with
                 | Some s => mkFlst (f_serial acc) (f_name acc) (f_size acc) (f_nr acc) s
                 | None => acc
                 end
      | _ => acc
      end
  end.
Definition parse_flst (args : list arg) : flst := flst_loop 0 args (mkFlst 0 [] 0 0 0).

(* pre-allocation for an announced transfer: saturating product, capped *)
Definition MAX_PREALLOC : N := 67108864.  (* 64 MiB *)
Definition flst_capacity (nr bs : N) : N := N.min (N.min (nr * bs) u64max) MAX_PREALLOC.
(* Vec::with_capacity(n) panics ("capacity overflow") above isize::MAX bytes *)
Definition with_capacity (n : N) : res N := if n <=? 9223372036854775807 then Ok n else Panic site_capacity.

(* `self.transfers.push(t); self.transfers_idx.insert(key, self.transfers.len() - 1)`: HashMap::insert OVERWRITES an
   existing binding of the key -- a re-announced (ecu, lifecycle, serial) points to the NEWEST transfer from now on
   (the new binding is put in front, [lookup_key] returns the first match; older transfers keep their number) *)
Definition push_transfer (s : st) (t : transfer) : st :=
  mkSt (s_transfers s ++ [t]) ((t_key t, length (s_transfers s)) :: s_idx s) (s_completed s) (s_fs s) (s_gen s) (s_pub s).

Definition step_flst (c : cfg) (s : st) (m : msg) : res st :=
  let f := parse_flst (m_args m) in
  if (0 <? f_nr f) && (0 <? f_bs f) then
    let keep := c_allow_save c || glob_matches c (f_name f) in
    (cap <- with_capacity (if keep then flst_capacity (f_nr f) (f_bs f) else 0) ;;
     let t := mkT (m_ecu m, m_lc m, f_serial f) (f_name f) (f_nr f) Started (f_size f) (f_bs f) 1 0 0 cap [] None in
     update_state (push_transfer s t))%res
  else Ok s.

(* --- FLDA *)
Definition MISSING_FLST : list N := [60; 109; 105; 115; 115; 105; 110; 103; 95; 102; 108; 115; 116; 62]. (* "<missing_flst>" *)

(* state change of a transfer reported by add_flda / check_finished: auto-save when complete, then update_state *)
Definition after_change (c : cfg) (s : st) (i : nat) (t : transfer) : res st :=
  let '(t1, fs1) := if tstate_eqb (t_state t) Complete then check_auto_save c t (s_fs s) else (t, s_fs s) in
  update_state (mkSt (replace_nth i t1 (s_transfers s)) (s_idx s) (s_completed s) fs1 (s_gen s) (s_pub s)).

(* the `for (i, arg)` loop of the FLDA branch up to the payload argument: serial, package number, payload;
   a `break` before index 3 (or fewer than four arguments) means that nothing happens *)
Definition flda_args (args : list arg) : option (N * N * list N) :=
  match args with
  | _ :: a1 :: a2 :: a3 :: _ =>
      match arg_as_uint a1 with
      | None => None
      | Some serial => match arg_as_uint a2 with None => None | Some pnr => Some (serial, pnr, a_raw a3) end
      end
  | _ => None
  end.

Definition put_transfer (s : st) (i : nat) (t : transfer) : st :=
  mkSt (replace_nth i t (s_transfers s)) (s_idx s) (s_completed s) (s_fs s) (s_gen s) (s_pub s).

Definition flda_apply (c : cfg) (s : st) (k : key) (pnr : N) (raw : list N) : res st :=
  match lookup_key k (s_idx s) with
  | Some i =>
      match nth_error (s_transfers s) i with
      | None => Panic site_unwrap
      | Some t =>
          ('(t', changed) <- add_flda t pnr raw ;;
           if changed then after_change c s i t' else Ok (put_transfer s i t'))%res
      end
  | None =>
      if pnr =? 1 then
        (* incomplete, but can recover as this is the first package *)
        (cap <- with_capacity (if c_allow_save c then 512 else 0) ;;
         let t := mkT k MISSING_FLST u64max MissingStart 0 0 1 0 0 cap [] None in
         '(t', _) <- add_flda t pnr raw ;;
         update_state (push_transfer s t'))%res
      else Ok s
  end.

Definition step_flda (c : cfg) (s : st) (m : msg) : res st :=
  match flda_args (m_args m) with
  | Some (serial, pnr, raw) => flda_apply c s (m_ecu m, m_lc m, serial) pnr raw
  | None => Ok s
  end.

(* --- FLFI *)
Definition flfi_serial (args : list arg) : N :=
  match args with
  | _ :: a1 :: _ => match arg_as_uint a1 with Some s => s | None => u64max end
  | _ => u64max
  end.

Definition flfi_apply (c : cfg) (s : st) (k : key) : res st :=
  match lookup_key k (s_idx s) with
  | Some i =>
      match nth_error (s_transfers s) i with
      | None => Panic site_unwrap
      | Some t =>
          ('(t', changed) <- check_finished t true ;;
           if changed then after_change c s i t' else Ok (put_transfer s i t'))%res
      end
  | None => Ok s
  end.

Definition step_flfi (c : cfg) (s : st) (m : msg) : res st :=
  flfi_apply c s (m_ecu m, m_lc m, flfi_serial (m_args m)).

(* message classification *)
Inductive mclass := KFlst | KFlda | KFlfi | KOther.
Definition passes_filter (f : option N) (v : option N) : bool :=
  match f with
  | None => true
  | Some x => match v with Some y => x =? y | None => false end
  end.
Definition classify (c : cfg) (m : msg) : mclass :=
  if negb (c_enabled c) then KOther
  else if negb (passes_filter (c_apid c) (option_map e_apid (m_ext m))) then KOther
  else if negb (passes_filter (c_ctid c) (option_map e_ctid (m_ext m))) then KOther
  else if is_verbose m && is_log_info m then
    if noar m =? 8 then (if is_type (m_args m) TAG_FLST then KFlst else KOther)
    else if noar m =? 5 then (if is_type (m_args m) TAG_FLDA then KFlda else KOther)
    else if noar m =? 3 then (if is_type (m_args m) TAG_FLFI then KFlfi else KOther)
    else KOther
  else KOther.

(* fn process_msg: new state and the return value (false = drop the message) *)
Definition step (c : cfg) (s : st) (m : msg) : res (st * bool) :=
  match classify c m with
  | KFlst => (s' <- step_flst c s m ;; Ok (s', true))%res
  | KFlda => (s' <- step_flda c s m ;; Ok (s', c_keep_flda c))%res
  | KFlfi => (s' <- step_flfi c s m ;; Ok (s', true))%res
  | KOther => Ok (s, true)
  end.

Fixpoint run (c : cfg) (s : st) (ms : list msg) : res (st * list bool) :=
  match ms with
  | [] => Ok (s, [])
  | m :: r =>
      ('(s1, b) <- step c s m ;;
       '(s2, bs) <- run c s1 r ;;
       Ok (s2, b :: bs))%res
  end.

(* the bytes a user can save for transfer number i (apply_command "save" with ctx.save.idx = i) *)
Definition saved_bytes (s : st) (i : nat) : option (list N) := lookup_nat i (s_completed s).

(* --- fn apply_command, command "save" (reached through PluginState.apply_command, e.g. by the remote plugin_cmd):
   `File::create(save_as).and_then(|f| f.write_all(data))` for the data of transfer number i.
   File-system interface: File::create TRUNCATES, so a successful save makes the WHOLE content of the path the
   data ([fs_write] replaces the binding); [creatable] is the oracle for "File::create + write_all succeed on this
   path" (false: the path is a directory, its directory is missing, no permission, ...), and a refused create
   changes nothing.  Unknown index (nothing handed over for this transfer): false, nothing touched. *)
Fixpoint remove_path (p : list N) (fs : list (list N * list N)) : list (list N * list N) :=
  match fs with
  | [] => []
  | (q, d) :: r => if bytes_eqb p q then remove_path p r else (q, d) :: remove_path p r
  end.
Definition fs_write (p d : list N) (fs : list (list N * list N)) : list (list N * list N) :=
  (p, d) :: remove_path p fs.
Definition save_cmd (creatable : bool) (s : st) (i : nat) (p : list N) : st * bool :=
  match saved_bytes s i with
  | None => (s, false)
  | Some d =>
      if creatable
      then (mkSt (s_transfers s) (s_idx s) (s_completed s) (fs_write p d (s_fs s)) (s_gen s) (s_pub s), true)
      else (s, false)
  end.
