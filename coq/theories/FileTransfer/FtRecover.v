(* C17 — proofs about the model: a transfer whose announcement (FLST) was lost and whose packages all have the
   same size is recovered completely and bit-exactly (positive counterpart of complete_implies_exact for
   MissingStart transfers).  Sizes are arbitrary: the 512 of Vec::with_capacity(512) is a flag, not a bound. *)
From Coq Require Import List NArith Bool Lia Arith.
From AdltV Require Import Base.Res Base.MachInt FileTransfer.Ft FileTransfer.FtProofs.
Import ListNotations.
Open Scope N_scope.

(* the index only learns keys that messages address *)
Lemma step_idx c s m s' b :
  step c s m = Ok (s', b) ->
  s_idx s' = s_idx s \/ exists k', s_idx s' = (k', length (s_transfers s)) :: s_idx s /\ msg_key c m = Some k'.
Proof.
  intros H. unfold step in H. unfold msg_key. destruct (classify c m) eqn:Ec.
  - unfold step_flst in H. destruct (_ && _); cbn [bind] in H; [|inversion H; subst; auto].
    destruct (with_capacity _); cbn [bind] in H; try discriminate.
    destruct (update_state _) as [s1| |] eqn:Eu; cbn [bind] in H; try discriminate. inversion H; subst s1 b.
    apply update_state_shape in Eu. destruct Eu as [_ [E _]]. right. eexists. split; [exact E|reflexivity].
  - unfold step_flda in H. destruct (flda_args (m_args m)) as [[[serial pnr] raw]|]; cbn [bind] in H; [|inversion H; subst; auto].
    destruct (flda_apply _ _ _ _ _) as [s1| |] eqn:Ef; cbn [bind] in H; try discriminate. inversion H; subst s1 b.
    unfold flda_apply in Ef. destruct (lookup_key _ _) as [j|].
    + destruct (nth_error _ _) as [tj|]; [|discriminate].
      destruct (add_flda tj pnr raw) as [[t' ch]| |]; cbn [bind] in Ef; try discriminate. destruct ch.
      * unfold after_change in Ef. destruct (if tstate_eqb _ _ then _ else _) as [t2 fs2].
        apply update_state_shape in Ef. cbn in Ef. left. tauto.
      * inversion Ef. left. reflexivity.
    + destruct (pnr =? 1); [|inversion Ef; subst; auto].
      destruct (with_capacity _) as [cap0| |]; cbn [bind] in Ef; try discriminate.
      destruct (add_flda _ _ _) as [[t' ch]| |] eqn:Ea; cbn [bind] in Ef; try discriminate.
      assert (Hkk : t_key t' = (m_ecu m, m_lc m, serial)).
      { assert (HT : TLoc [] (mkT (m_ecu m, m_lc m, serial) MISSING_FLST u64max MissingStart 0 0 1 0 0 cap0 [] None) []).
        { constructor; cbn; auto; try discriminate; try lia. apply sl_nil. intros _. unfold u64max. lia. }
        destruct (add_flda_TLoc _ _ _ _ _ _ _ HT Ea) as [acc' [_ HP]]. rewrite (fp_key _ _ _ _ _ _ _ HP). reflexivity. }
      apply update_state_shape in Ef. destruct Ef as [_ [E _]]. cbn in E. rewrite Hkk in E. right. eexists. split; [exact E|reflexivity].
  - unfold step_flfi in H. destruct (flfi_apply _ _ _) as [s1| |] eqn:Ef; cbn [bind] in H; try discriminate. inversion H; subst s1 b.
    unfold flfi_apply in Ef. destruct (lookup_key _ _) as [j|]; [|inversion Ef; subst; auto].
    destruct (nth_error _ _) as [tj|]; [|discriminate].
    destruct (check_finished tj true) as [[t' ch]| |]; cbn [bind] in Ef; try discriminate. destruct ch.
    + unfold after_change in Ef. destruct (if tstate_eqb _ _ then _ else _) as [t2 fs2].
      apply update_state_shape in Ef. cbn in Ef. left. tauto.
    + inversion Ef. left. reflexivity.
  - inversion H; subst. auto.
Qed.

Lemma add_flda_autolearn t pnr raw :
  add_flda t pnr raw = add_flda (if (pnr =? 1) && (t_bs t =? 0) then set_bs (lenN raw) t else t) pnr raw.
Proof.
  unfold add_flda, add_flda_gen. destruct ((pnr =? 1) && (t_bs t =? 0)) eqn:E; [|rewrite E; reflexivity].
  cbn [t_bs set_bs]. destruct ((pnr =? 1) && (lenN raw =? 0)) eqn:E2; [|reflexivity].
  replace (set_bs (lenN raw) (set_bs (lenN raw) t)) with (set_bs (lenN raw) t) by (destruct t; reflexivity). reflexivity.
Qed.

(* a key no message addressed is unknown to the index *)
Lemma run_unknown_key c k : forall ms s s' rets,
  Forall (fun m => msg_key c m <> Some k) ms -> lookup_key k (s_idx s) = None ->
  run c s ms = Ok (s', rets) -> lookup_key k (s_idx s') = None.
Proof.
  induction ms as [|m r IH]; intros s s' rets Hf Hn H; cbn in H.
  - inversion H; subst. exact Hn.
  - inversion Hf as [|? ? Hm Hr]; subst.
    destruct (step c s m) as [[s1 b]| |] eqn:Es; cbn [bind] in H; try discriminate.
    destruct (run c s1 r) as [[s2 bs0]| |] eqn:Er; cbn [bind] in H; try discriminate. inversion H; subst s2 rets.
    eapply IH; [exact Hr| |exact Er].
    destruct (step_idx _ _ _ _ _ Es) as [->|[k' [-> Hk']]]; [exact Hn|].
    cbn. rewrite key_eqb_neq; [exact Hn|]. congruence.
Qed.

Lemma step_flfi_at c s m s' b k i t :
  classify c m = KFlfi -> msg_key c m = Some k -> lookup_key k (s_idx s) = Some i -> nth_error (s_transfers s) i = Some t ->
  step c s m = Ok (s', b) ->
  exists t1 ch, check_finished t true = Ok (t1, ch) /\ (if ch then after_change c s i t1 = Ok s' else s' = put_transfer s i t1).
Proof.
  unfold msg_key, step. intros Ec. rewrite Ec. intros Hk El Ht Hs. inversion Hk; subst k; clear Hk.
  unfold step_flfi in Hs. destruct (flfi_apply _ _ _) as [s1| |] eqn:Ef; cbn [bind] in Hs; try discriminate. inversion Hs; subst s1 b.
  unfold flfi_apply in Ef. rewrite El, Ht in Ef.
  destruct (check_finished t true) as [[t1 ch]| |]; cbn [bind] in Ef; try discriminate.
  exists t1, ch. split; [reflexivity|]. destruct ch; [exact Ef|inversion Ef; reflexivity].
Qed.

(* the log after the first package, relative to key k: other messages, duplicates, the packages [chunks] numbered
   next, next+1, .. in order, then the end marker for k, then anything *)
Inductive InRec (c : cfg) (k : key) : N -> list (list N) -> list msg -> Prop :=
| ir_end next m ms : classify c m = KFlfi -> msg_key c m = Some k -> InRec c k next [] (m :: ms)
| ir_other next chunks m ms :
    msg_key c m <> Some k -> InRec c k next chunks ms -> InRec c k next chunks (m :: ms)
| ir_dup next chunks m ms pnr raw :
    flda_op c m = Some (k, (pnr, raw)) -> 0 < pnr -> pnr < next ->
    InRec c k next chunks ms -> InRec c k next chunks (m :: ms)
| ir_pkg next p chunks m ms :
    flda_op c m = Some (k, (next, p)) -> InRec c k (next + 1) chunks ms -> InRec c k next (p :: chunks) (m :: ms).

Section Recover.
  Variables (c : cfg) (k : key) (bs cap : N) (i : nat).
  Hypothesis Hbs : 0 < bs.

  Definition T_rec (next : N) (done : list (list N)) : transfer :=
    mkT k MISSING_FLST u64max MissingStart 0 bs next (next - 1) (lenN (concat done)) cap (if 0 <? cap then concat done else []) None.

  Definition PhR (next : N) (done : list (list N)) (s : st) : Prop :=
    lookup_key k (s_idx s) = Some i /\ (forall k', lookup_key k' (s_idx s) = Some i -> k' = k) /\
    nth_error (s_transfers s) i = Some (T_rec next done).

  Lemma takes_T_rec next done : takes (T_rec next done) = false.
  Proof. unfold takes. cbn. apply andb_false_r. Qed.

  Lemma PhR_other next done s m s' b :
    PhR next done s -> msg_key c m <> Some k -> step c s m = Ok (s', b) -> PhR next done s'.
  Proof.
    intros [P1 [P2 P3]] Hk Hs.
    destruct (step_at _ _ _ _ _ _ _ Hs P3 (takes_T_rec _ _)) as [Hidx Hcase].
    assert (Hl : (i < length (s_transfers s))%nat) by (apply nth_error_Some; rewrite P3; discriminate).
    destruct Hcase as [[H1 _]|[[km [pnr [raw [t1 [ch [Hop [Hl2 _]]]]]]]|[km [t1 [ch [_ [Hmk [Hl2 _]]]]]]]].
    - split; [|split; [|exact H1]].
      + destruct Hidx as [->|[k' [-> Hk']]]; [exact P1|]. cbn. rewrite key_eqb_neq; [exact P1|]. congruence.
      + intros k0 H0. destruct Hidx as [E|[k' [E Hk']]]; rewrite E in H0; [auto|]. cbn in H0.
        destruct (key_eqb k0 k'); [inversion H0; lia|auto].
    - exfalso. apply Hk. apply P2 in Hl2. subst km. eapply flda_op_msg_key. exact Hop.
    - exfalso. apply Hk. apply P2 in Hl2. subst km. exact Hmk.
  Qed.

  Lemma PhR_dup next done s m s' b pnr raw :
    PhR next done s -> flda_op c m = Some (k, (pnr, raw)) -> 0 < pnr -> pnr < next ->
    step c s m = Ok (s', b) -> PhR next done s'.
  Proof.
    intros [P1 [P2 P3]] Hop Hp1 Hp2 Hs.
    destruct (step_flda_at _ _ _ _ _ _ _ _ _ _ Hop P1 P3 Hs) as [t1 [ch [Ha Hr]]].
    unfold add_flda, add_flda_gen, T_rec in Ha. tcbn Ha.
    replace (bs =? 0) with false in Ha by (symmetry; apply N.eqb_neq; lia). rewrite andb_false_r in Ha. tcbn Ha.
    replace (0 <? pnr) with true in Ha by (symmetry; apply N.ltb_lt; exact Hp1).
    replace (pnr <? next) with true in Ha by (symmetry; apply N.ltb_lt; exact Hp2).
    cbn in Ha. inversion Ha; subst t1 ch; clear Ha. subst s'. unfold put_transfer. fold (T_rec next done).
    rewrite (replace_nth_id _ _ _ P3). split; [exact P1|split; [exact P2|exact P3]].
  Qed.

  Lemma add_flda_T_rec next done p t1 ch :
    1 <= next -> next + 1 < u64max -> lenN p = bs ->
    add_flda (T_rec next done) next p = Ok (t1, ch) -> t1 = T_rec (next + 1) (done ++ [p]) /\ ch = false.
  Proof.
    intros Hn1 Hn2 Hsz Ha. unfold add_flda, add_flda_gen, T_rec in Ha. tcbn Ha.
    replace (bs =? 0) with false in Ha by (symmetry; apply N.eqb_neq; lia). rewrite andb_false_r in Ha. tcbn Ha.
    replace (next <? next) with false in Ha by (symmetry; apply N.ltb_irrefl). rewrite andb_false_r in Ha.
    unfold add_chk in Ha.
    destruct (next - 1 + 1 <=? u64max) eqn:E1; cbn [bind] in Ha; [|discriminate].
    tcbn Ha. rewrite N.eqb_refl in Ha. cbn [andb] in Ha.
    replace (lenN p =? bs) with true in Ha by (symmetry; apply N.eqb_eq; exact Hsz). cbn [orb] in Ha.
    destruct (next + 1 <=? u64max) eqn:E2; cbn [bind] in Ha; [|discriminate].
    destruct (lenN (concat done) + lenN p <=? usizemax) eqn:E3; cbn [bind] in Ha; [|discriminate].
    assert (Hpl : lenN (concat done) + lenN p = lenN (concat (done ++ [p]))).
    { rewrite concat_app, lenN_app. cbn. rewrite app_nil_r. reflexivity. }
    assert (Hdata : (if 0 <? cap then (if 0 <? cap then concat done else []) ++ p else (if 0 <? cap then concat done else []))
                    = (if 0 <? cap then concat (done ++ [p]) else [])).
    { destruct (0 <? cap); [|reflexivity]. rewrite concat_app. cbn. rewrite app_nil_r. reflexivity. }
    tcbn Ha. rewrite Hdata, Hpl in Ha.
    unfold check_finished in Ha. tcbn Ha.
    assert (Hr : next - 1 + 1 = next) by lia. rewrite Hr in Ha.
    replace (u64max <? next + 1) with false in Ha by (symmetry; apply N.ltb_ge; lia). cbn [andb] in Ha.
    replace (u64max <=? next) with false in Ha by (symmetry; apply N.leb_gt; lia).
    inversion Ha; subst t1 ch. split; [|reflexivity].
    unfold T_rec, set_data, set_buf, set_payload, set_next, set_recvd.
    cbn [t_key t_name t_nr t_state t_size t_bs t_next t_recvd t_payload t_cap t_data t_saved]. f_equal. lia.
  Qed.

  Lemma PhR_pkg next done s m s' b p :
    PhR next done s -> flda_op c m = Some (k, (next, p)) -> 1 <= next -> next + 1 < u64max -> lenN p = bs ->
    step c s m = Ok (s', b) -> PhR (next + 1) (done ++ [p]) s'.
  Proof.
    intros [P1 [P2 P3]] Hop Hn1 Hn2 Hsz Hs.
    destruct (step_flda_at _ _ _ _ _ _ _ _ _ _ Hop P1 P3 Hs) as [t1 [ch [Ha Hr]]].
    apply add_flda_T_rec in Ha; try assumption. destruct Ha as [-> ->]. subst s'. unfold put_transfer. cbn.
    assert (Hl : (i < length (s_transfers s))%nat) by (apply nth_error_Some; rewrite P3; discriminate).
    split; [exact P1|split; [exact P2|]]. apply nth_error_replace_same. exact Hl.
  Qed.

  (* the end marker completes the recovered transfer *)
  Lemma PhR_end next done s m s' b :
    PhR next done s -> classify c m = KFlfi -> msg_key c m = Some k -> 1 <= next ->
    (c_allow_save c = true -> 0 < cap) ->
    step c s m = Ok (s', b) -> Done c k MISSING_FLST i (concat done) s'.
  Proof.
    intros [P1 [P2 P3]] Hc Hmk Hn1 Hcap Hs.
    destruct (step_flfi_at _ _ _ _ _ _ _ _ Hc Hmk P1 P3 Hs) as [t1 [ch [Ha Hr]]].
    unfold check_finished, sub_chk, T_rec in Ha. tcbn Ha.
    replace (1 <=? next) with true in Ha by (symmetry; apply N.leb_le; exact Hn1). cbn [bind] in Ha.
    rewrite N.eqb_refl in Ha. cbn zeta in Ha. tcbn Ha. cbn [N.eqb] in Ha. inversion Ha; subst t1 ch; clear Ha.
    set (file := concat done) in *.
    unfold after_change in Hr. tcbn Hr. cbn [tstate_eqb] in Hr.
    match type of Hr with context [check_auto_save c ?t0 ?fs0] =>
      pose proof (check_auto_save_fields c [] t0 fs0) as HF; destruct (check_auto_save c t0 fs0) as [t4 fs4] end.
    cbn [fst] in HF. tcbn HF.
    destruct HF as [F1 [F2 [F3 [F4 [F5 [F6 [F7 F8]]]]]]].
    assert (Hl : (i < length (s_transfers s))%nat) by (apply nth_error_Some; rewrite P3; discriminate).
    apply update_state_shape in Hr. cbn in Hr. destruct Hr as [E1 [_ [E3 _]]].
    exists (ho_t t4). rewrite E1, nth_error_map, nth_error_replace_same by exact Hl. cbn [option_map].
    destruct (ho_t_static t4) as [G1 [G2 [_ [G4 [_ [G6 [G7 [_ G9]]]]]]]].
    rewrite G1, G2, G4, G6, G7, G9, F1, F2, F3, F4, F5, F6.
    assert (Hrec : t_recvd (ho_t t4) = next - 1) by (unfold ho_t; destruct (takes t4); cbn; exact F7).
    rewrite Hrec. repeat split; auto; try lia.
    - unfold ho_t. destruct (takes t4) eqn:Et; [reflexivity|]. unfold takes in Et. rewrite F2 in Et. cbn in Et.
      rewrite andb_true_r in Et. apply negb_false_iff, bytes_eqb_spec in Et. exact Et.
    - intros Hal Hne. rewrite E3, lookup_nat_app.
      assert (Hd : t_data t4 = file).
      { rewrite F8 by auto. apply Hcap in Hal. apply N.ltb_lt in Hal. rewrite Hal. reflexivity. }
      assert (Htk : takes t4 = true).
      { unfold takes. rewrite F2, Hd. cbn. rewrite andb_true_r. apply negb_true_iff. apply bytes_eqb_nil_false. exact Hne. }
      pose proof (lookup_taken_some (replace_nth i t4 (s_transfers s)) i t4 (nth_error_replace_same _ _ _ Hl) Htk 0%nat) as Hlk.
      cbn in Hlk. rewrite Hlk, Hd. reflexivity.
  Qed.

  Lemma InRec_run next chunks post :
    InRec c k next chunks post ->
    forall s done s' rets,
      PhR next done s -> 1 <= next -> next + N.of_nat (length chunks) + 1 < u64max ->
      Forall (fun p => lenN p = bs) chunks -> (c_allow_save c = true -> 0 < cap) ->
      run c s post = Ok (s', rets) -> Done c k MISSING_FLST i (concat (done ++ chunks)) s'.
  Proof.
    induction 1 as [next m ms Hc Hmk|next chunks m ms Hk Hio IH|next chunks m ms pnr raw Hop Hp1 Hp2 Hio IH|next p chunks m ms Hop Hio IH];
      intros s done s' rets HP Hn1 Hcnt Hsz Hcap Hrun;
      cbn in Hrun; destruct (step c s m) as [[s1 b]| |] eqn:Es; cbn [bind] in Hrun; try discriminate;
      destruct (run c s1 ms) as [[s2 bs0]| |] eqn:Er; cbn [bind] in Hrun; try discriminate; inversion Hrun; subst s2 rets.
    - rewrite app_nil_r. apply (Done_run c k MISSING_FLST 1 1 i) with (ms := ms) (s := s1) (rets := bs0); try lia; [|exact Er].
      eapply PhR_end; eassumption.
    - apply (IH s1 done s' bs0); auto. eapply PhR_other; eassumption.
    - apply (IH s1 done s' bs0); auto. eapply PhR_dup; eassumption.
    - inversion Hsz as [|? ? Hp Hrest]; subst. cbn [length] in Hcnt.
      replace (done ++ p :: chunks) with ((done ++ [p]) ++ chunks) by (rewrite <- app_assoc; reflexivity).
      apply (IH s1 (done ++ [p]) s' bs0); auto; try lia.
      eapply PhR_pkg; eauto. lia.
  Qed.
End Recover.

(* Lost announcement: no message before addressed the key; package 1, then packages 2..n in order, all of the size
   of the first (interleaved with anything for other keys and with duplicates), then the end marker, then anything:
   the transfer is Complete, reported Complete, its size is the file's, and the save command delivers the file. *)
Theorem recovered_complete_exact c fs pre m1 post k p1 chunks s rets :
  Forall (fun m => msg_key c m <> Some k) pre ->
  flda_op c m1 = Some (k, (1, p1)) -> 0 < lenN p1 ->
  Forall (fun p => lenN p = lenN p1) chunks -> N.of_nat (length chunks) + 4 < u64max ->
  InRec c k 2 chunks post ->
  run c (init_st fs) (pre ++ m1 :: post) = Ok (s, rets) ->
  exists i t, nth_error (s_transfers s) i = Some t /\ t_key t = k /\ t_state t = Complete /\
              t_size t = lenN (p1 ++ concat chunks) /\
              (c_allow_save c = true -> saved_bytes s i = Some (p1 ++ concat chunks)) /\
              nth_error (map (fun t => (t_key t, t_state t)) (s_pub s)) i = Some (k, Complete).
Proof.
  intros Hpre Hop Hlen Hsz Hcnt Hio Hrun.
  pose proof (published_states_current _ _ _ _ _ Hrun) as Hpub.
  destruct (run_app _ _ _ _ _ _ Hrun) as [s1 [r1 [r2 [Hp Hrest]]]].
  assert (Hnone : lookup_key k (s_idx s1) = None) by (apply (run_unknown_key c k pre (init_st fs) s1 r1 Hpre eq_refl Hp)).
  destruct (run_Inv _ _ _ _ _ Hp) as [HI1 _].
  cbn in Hrest. destruct (step c s1 m1) as [[s2 b]| |] eqn:Es; cbn [bind] in Hrest; try discriminate.
  destruct (run c s2 post) as [[s3 r3]| |] eqn:Er; cbn [bind] in Hrest; try discriminate. inversion Hrest; subst s3 r2; clear Hrest.
  unfold flda_op in Hop. unfold step in Es. destruct (classify c m1); try discriminate.
  unfold step_flda in Es. destruct (flda_args (m_args m1)) as [[[serial pnr] raw]|]; [|discriminate].
  inversion Hop; subst k pnr raw; clear Hop. set (k := (m_ecu m1, m_lc m1, serial)) in *.
  destruct (flda_apply c s1 k 1 p1) as [s2'| |] eqn:Ef; cbn [bind] in Es; try discriminate. inversion Es; subst s2' b; clear Es.
  unfold flda_apply in Ef. rewrite Hnone in Ef. cbn [N.eqb Pos.eqb] in Ef.
  unfold with_capacity in Ef. set (capv := if c_allow_save c then 512 else 0) in Ef.
  replace (capv <=? 9223372036854775807) with true in Ef by (unfold capv; destruct (c_allow_save c); reflexivity).
  cbn [bind] in Ef.
  match type of Ef with context [add_flda ?tt 1 p1] => set (t0 := tt) in Ef end.
  destruct (add_flda t0 1 p1) as [[t1 ch]| |] eqn:Ea; cbn [bind] in Ef; try discriminate.
  set (bs := lenN p1) in *.
  assert (Ht1 : t1 = T_rec k bs capv 2 [p1]).
  { rewrite add_flda_autolearn in Ea.
    assert (Hset : (if (1 =? 1) && (t_bs t0 =? 0) then set_bs (lenN p1) t0 else t0) = T_rec k bs capv 1 []).
    { unfold t0, T_rec, set_bs, bs. cbn [t_bs t_key t_name t_nr t_state t_size t_next t_recvd t_payload t_cap t_data t_saved N.eqb Pos.eqb andb N.sub concat].
      destruct (0 <? capv); reflexivity. }
    rewrite Hset in Ea. apply (add_flda_T_rec k bs capv Hlen 1 [] p1 t1 ch) in Ea; [destruct Ea as [-> _]; reflexivity|lia|unfold u64max; lia|reflexivity]. }
  set (i := length (s_transfers s1)).
  assert (HPh : PhR k bs capv i 2 [p1] s2).
  { apply update_state_shape in Ef. cbn in Ef. destruct Ef as [E1 [E2 _]]. unfold PhR. rewrite E1, E2.
    assert (Hk1 : t_key t1 = k) by (rewrite Ht1; reflexivity). rewrite Hk1. split; [|split].
    - cbn [lookup_key]. rewrite key_eqb_refl. reflexivity.
    - intros k' Hk'. cbn [lookup_key] in Hk'. destruct (key_eqb k' k) eqn:E; [apply key_eqb_spec; exact E|].
      destruct (inv_idx _ _ _ HI1 k' i Hk') as [tx [Hx _]]. exfalso.
      assert (Hlt : (i < length (s_transfers s1))%nat) by (apply nth_error_Some; rewrite Hx; discriminate). unfold i in Hlt. lia.
    - rewrite nth_error_map, nth_error_app2 by (unfold i; lia). unfold i. rewrite Nat.sub_diag. cbn [nth_error option_map].
      rewrite Ht1. rewrite ho_t_id; [reflexivity|]. apply takes_T_rec. }
  assert (HD : Done c k MISSING_FLST i (concat ([p1] ++ chunks)) s).
  { apply (InRec_run c k bs capv i Hlen 2 chunks post Hio s2 [p1] s r3); auto; try lia.
    intros Ha. unfold capv. rewrite Ha. reflexivity. }
  cbn [app concat] in HD.
  destruct HD as [t [D1 [D2 [D3 [D4 [D5 [D6 [D7 [D8 [D9 D10]]]]]]]]]].
  exists i, t. repeat split; auto.
  - intros Ha. apply D10; [exact Ha|]. intros Hc. apply (f_equal lenN) in Hc. rewrite lenN_app in Hc. cbn in Hc. fold bs in Hc. lia.
  - rewrite Hpub, nth_error_map, D1. cbn. rewrite D2, D3. reflexivity.
Qed.
