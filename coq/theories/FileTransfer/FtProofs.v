(* C17 — proofs about the model FileTransfer/Ft.v *)
From Coq Require Import List NArith Bool Lia Arith.
From AdltV Require Import Base.Res Base.MachInt FileTransfer.Ft.
Import ListNotations.
Open Scope N_scope.

(* ------------------------------------------------------------------ small facts *)
Lemma bytes_eqb_spec a b : bytes_eqb a b = true <-> a = b.
Proof.
  revert b. induction a as [|x a IH]; intros [|y b]; cbn; split; intros H; try reflexivity; try discriminate.
  - apply andb_true_iff in H. destruct H as [H1 H2]. apply N.eqb_eq in H1. apply IH in H2. subst. reflexivity.
  - inversion H; subst. rewrite N.eqb_refl. cbn. apply IH. reflexivity.
Qed.
Lemma bytes_eqb_refl a : bytes_eqb a a = true.
Proof. apply bytes_eqb_spec. reflexivity. Qed.
Lemma bytes_eqb_nil_false a : bytes_eqb a [] = false <-> a <> [].
Proof.
  destruct a; cbn; split; intros H; try discriminate; try reflexivity. contradiction.
Qed.

Lemma key_eqb_spec a b : key_eqb a b = true <-> a = b.
Proof.
  destruct a as [[a1 a2] a3], b as [[b1 b2] b3]. cbn. rewrite !andb_true_iff, !N.eqb_eq.
  split; [intros [[? ?] ?]; subst; reflexivity|intros H; inversion H; auto].
Qed.
Lemma key_eqb_refl a : key_eqb a a = true.
Proof. apply key_eqb_spec. reflexivity. Qed.
Lemma key_eqb_neq a b : a <> b -> key_eqb a b = false.
Proof. intros H. destruct (key_eqb a b) eqn:E; [apply key_eqb_spec in E; contradiction|reflexivity]. Qed.

Lemma tstate_eqb_spec a b : tstate_eqb a b = true <-> a = b.
Proof. destruct a, b; cbn; split; intros H; try reflexivity; discriminate. Qed.

Lemma lenN_app {A} (a b : list A) : lenN (a ++ b) = lenN a + lenN b.
Proof. unfold lenN. rewrite app_length. lia. Qed.
Lemma lenN_nil {A} : lenN (@nil A) = 0.
Proof. reflexivity. Qed.

(* ------------------------------------------------------------------ sublists *)
Inductive sublist {A} : list A -> list A -> Prop :=
| sl_nil l : sublist [] l
| sl_skip x s l : sublist s l -> sublist s (x :: l)
| sl_take x s l : sublist s l -> sublist (x :: s) (x :: l).

Lemma sublist_app_r {A} (s l r : list A) : sublist s l -> sublist s (l ++ r).
Proof. induction 1; cbn; constructor; assumption. Qed.
Lemma sublist_single_end {A} (x : A) l : sublist [x] (l ++ [x]).
Proof. induction l; cbn; [apply sl_take, sl_nil|apply sl_skip; assumption]. Qed.
Lemma sublist_snoc {A} (s l : list A) x : sublist s l -> sublist (s ++ [x]) (l ++ [x]).
Proof.
  induction 1; cbn.
  - apply sublist_single_end.
  - apply sl_skip. assumption.
  - apply sl_take. assumption.
Qed.
Lemma sublist_refl {A} (l : list A) : sublist l l.
Proof. induction l; constructor; assumption. Qed.
Lemma sublist_app_l {A} (p s l : list A) : sublist s l -> sublist s (p ++ l).
Proof. induction p; cbn; intros H; [assumption|apply sl_skip; auto]. Qed.
Lemma sublist_In {A} (s l : list A) x : sublist s l -> In x s -> In x l.
Proof.
  induction 1; cbn; intros Hin; [contradiction|right; auto|].
  destruct Hin as [->|Hin]; [left; reflexivity|right; auto].
Qed.
Lemma sublist_length {A} (s l : list A) : sublist s l -> (length s <= length l)%nat.
Proof. induction 1; cbn; lia. Qed.

(* consecutive numbers *)
Fixpoint nums (start : N) (n : nat) : list N :=
  match n with O => [] | S k => start :: nums (start + 1) k end.
Lemma nums_snoc start n : nums start (S n) = nums start n ++ [start + N.of_nat n].
Proof.
  revert start. induction n as [|n IH]; intros start.
  - cbn. f_equal. lia.
  - change (nums start (S (S n))) with (start :: nums (start + 1) (S n)). rewrite IH. cbn [nums app].
    f_equal. f_equal. f_equal. lia.
Qed.
Lemma nums_length start n : length (nums start n) = n.
Proof. revert start; induction n; intros; cbn; auto. Qed.

(* ------------------------------------------------------------------ lookups, replace_nth *)
Lemma nth_error_replace_same {A} (l : list A) i x : (i < length l)%nat -> nth_error (replace_nth i x l) i = Some x.
Proof. revert i. induction l as [|y l IH]; intros [|i] H; cbn in *; try lia; auto. apply IH. lia. Qed.
Lemma nth_error_replace_other {A} (l : list A) i j x : i <> j -> nth_error (replace_nth i x l) j = nth_error l j.
Proof.
  revert i j. induction l as [|y l IH]; intros i j H.
  - destruct i; reflexivity.
  - destruct i as [|i], j as [|j]; cbn; try reflexivity; [exfalso; apply H; reflexivity|].
    apply IH. intros ->. apply H. reflexivity.
Qed.
Lemma replace_nth_length {A} (l : list A) i x : length (replace_nth i x l) = length l.
Proof. revert i. induction l as [|y l IH]; intros [|i]; cbn; auto. Qed.
Lemma nth_error_replace {A} (l : list A) i j x t :
  nth_error (replace_nth i x l) j = Some t ->
  (j = i /\ t = x /\ (i < length l)%nat) \/ (j <> i /\ nth_error l j = Some t).
Proof.
  intros H. destruct (Nat.eq_dec j i) as [->|Hne].
  - left. assert (Hl : (i < length l)%nat).
    { rewrite <- (replace_nth_length l i x). apply nth_error_Some. rewrite H. discriminate. }
    rewrite nth_error_replace_same in H by assumption. inversion H. auto.
  - right. rewrite nth_error_replace_other in H by auto. auto.
Qed.
Lemma replace_nth_id {A} (l : list A) i x : nth_error l i = Some x -> replace_nth i x l = l.
Proof. revert i. induction l as [|y l IH]; intros [|i] H; cbn in *; try discriminate; [inversion H; reflexivity|f_equal; auto]. Qed.

Lemma lookup_nat_app {A} i (a b : list (nat * A)) :
  lookup_nat i (a ++ b) = match lookup_nat i a with Some d => Some d | None => lookup_nat i b end.
Proof. induction a as [|[j d] a IH]; cbn; [reflexivity|]. destruct (Nat.eqb i j); auto. Qed.

Lemma lookup_taken i0 ts j d :
  lookup_nat j (taken i0 ts) = Some d ->
  exists t, (i0 <= j)%nat /\ nth_error ts (j - i0) = Some t /\ takes t = true /\ d = t_data t.
Proof.
  revert i0. induction ts as [|t r IH]; intros i0 H; cbn in H; [discriminate|].
  destruct (takes t) eqn:Et.
  - cbn in H. destruct (Nat.eqb j i0) eqn:E.
    + apply Nat.eqb_eq in E. subst. inversion H; subst. exists t. rewrite Nat.sub_diag. cbn. auto.
    + apply Nat.eqb_neq in E. apply IH in H. destruct H as [t' [H1 [H2 [H3 H4]]]].
      exists t'. split; [lia|]. split; [|auto]. replace (j - i0)%nat with (S (j - S i0)) by lia. exact H2.
  - apply IH in H. destruct H as [t' [H1 [H2 [H3 H4]]]].
    exists t'. split; [lia|]. split; [|auto]. replace (j - i0)%nat with (S (j - S i0)) by lia. exact H2.
Qed.
Lemma lookup_taken_none i0 ts j :
  (forall t, nth_error ts (j - i0) = Some t -> takes t = false) -> lookup_nat j (taken i0 ts) = None.
Proof.
  intros H. destruct (lookup_nat j (taken i0 ts)) eqn:E; [|reflexivity].
  apply lookup_taken in E. destruct E as [t [_ [H2 [H3 _]]]]. apply H in H2. congruence.
Qed.
Lemma lookup_taken_some ts j t :
  nth_error ts j = Some t -> takes t = true -> forall i0, lookup_nat (i0 + j) (taken i0 ts) = Some (t_data t).
Proof.
  revert j. induction ts as [|t0 r IH]; intros [|j] H Ht i0; cbn in H; try discriminate.
  - inversion H; subst. cbn. rewrite Ht. cbn. rewrite Nat.add_0_r, Nat.eqb_refl. reflexivity.
  - cbn. specialize (IH j H Ht (S i0)). replace (S i0 + j)%nat with (i0 + S j)%nat in IH by lia.
    destruct (takes t0); [|exact IH]. cbn. destruct (Nat.eqb (i0 + S j) i0) eqn:E; [apply Nat.eqb_eq in E; lia|exact IH].
Qed.

Lemma lookup_path_cons_new p q d fs x :
  lookup_path p fs = Some x -> path_exists fs q = false -> lookup_path p ((q, d) :: fs) = Some x.
Proof.
  intros H Hq. cbn. destruct (bytes_eqb p q) eqn:E; [|exact H].
  apply bytes_eqb_spec in E. subst. unfold path_exists in Hq. rewrite H in Hq. discriminate.
Qed.

(* ------------------------------------------------------------------ per-transfer invariant *)
(* [ops]: the (package number, payload) pairs of the FLDA messages seen so far for the transfer's key;
   [acc]: the packages that were accepted (appended) *)
Record TLoc (ops : list (N * list N)) (t : transfer) (acc : list (N * list N)) : Prop := {
  tl_sub : sublist acc ops;
  tl_nums : map fst acc = nums 1 (length acc);
  tl_next : t_next t = N.of_nat (length acc) + 1;
  tl_payload : t_payload t = lenN (concat (map snd acc));
  tl_recvd : N.of_nat (length acc) <= t_recvd t;
  tl_active : is_active (t_state t) = true -> t_next t <= t_nr t /\ t_recvd t < t_nr t;
  tl_complete : t_state t = Complete ->
                t_recvd t = N.of_nat (length acc) /\ (t_next t = t_nr t + 1 \/ t_nr t = u64max);
  tl_d1 : 0 < t_cap t -> is_active (t_state t) = true -> t_data t = concat (map snd acc);
  tl_d2 : t_data t = [] \/ t_data t = concat (map snd acc);
  tl_d3 : t_cap t = 0 -> t_data t = [];
  tl_ms : t_state t = MissingStart -> t_nr t = u64max
}.

Lemma TLoc_weaken ops x t acc : TLoc ops t acc -> TLoc (ops ++ x) t acc.
Proof. intros [H1 H2 H3 H4 H5 H6 H7 H8 H9 H10 H11]. constructor; auto. apply sublist_app_r. exact H1. Qed.

Lemma check_finished_false_spec t t' ch :
  check_finished t false = Ok (t', ch) ->
  (t' = set_state Complete (set_size (t_payload t) t) /\ ch = true /\ t_nr t < t_next t /\ (t_size t = 0 \/ t_size t = t_payload t))
  \/ (t' = set_state Incomplete t /\ ch = true /\ t_nr t <= t_recvd t)
  \/ (t' = t /\ ch = false /\ t_recvd t < t_nr t /\ ~ (t_nr t < t_next t /\ (t_size t = 0 \/ t_size t = t_payload t))).
Proof.
  unfold check_finished. intros H.
  destruct ((t_nr t <? t_next t) && ((t_size t =? 0) || (t_size t =? t_payload t))) eqn:E1.
  - inversion H; subst. left. apply andb_true_iff in E1. destruct E1 as [E1 E2]. apply N.ltb_lt in E1.
    apply orb_true_iff in E2. rewrite !N.eqb_eq in E2. auto.
  - destruct (t_nr t <=? t_recvd t) eqn:E2; inversion H; subst.
    + right. left. apply N.leb_le in E2. auto.
    + right. right. apply N.leb_gt in E2. repeat split; auto. intros [Ha Hb].
      apply N.ltb_lt in Ha. rewrite Ha in E1. cbn in E1. apply orb_false_iff in E1. rewrite !N.eqb_neq in E1.
      destruct E1, Hb; contradiction.
Qed.

Lemma check_finished_true_spec t t' ch :
  check_finished t true = Ok (t', ch) ->
  1 <= t_next t /\
  ((t_recvd t = t_next t - 1 /\ t_state t = MissingStart /\ ch = true /\
    t' = (let t1 := set_state Complete t in if t_size t1 =? 0 then set_size (t_payload t1) t1 else t1))
   \/ (t_recvd t = t_next t - 1 /\ t_state t <> MissingStart /\ ch = false /\ t' = t)
   \/ (t_recvd t <> t_next t - 1 /\ ch = true /\ t' = set_state Incomplete t)).
Proof.
  unfold check_finished, sub_chk. destruct (1 <=? t_next t) eqn:E0; cbn; [|discriminate].
  apply N.leb_le in E0. intros H. split; [exact E0|].
  destruct (t_recvd t =? t_next t - 1) eqn:E1.
  - apply N.eqb_eq in E1. destruct (t_state t) eqn:Es; inversion H; subst; cbn.
    + left. auto.
    + right. left. repeat split; auto. discriminate.
    + right. left. repeat split; auto. discriminate.
    + right. left. repeat split; auto. discriminate.
  - apply N.eqb_neq in E1. inversion H; subst. right. right. auto.
Qed.

Record flda_post (t t' : transfer) (acc acc' : list (N * list N)) (pnr : N) (raw : list N) (ch : bool) : Prop := {
  fp_key : t_key t' = t_key t;
  fp_name : t_name t' = t_name t;
  fp_nr : t_nr t' = t_nr t;
  fp_saved : t_saved t' = t_saved t;
  fp_cap : t_cap t' = t_cap t;
  fp_bs_le : t_bs t <= t_bs t';
  fp_bs_pos : 0 < t_bs t -> t_bs t' = t_bs t;
  fp_inactive : is_active (t_state t) = false ->
                t_state t' = t_state t /\ ch = false /\ acc' = acc /\ t_data t' = t_data t /\ t_size t' = t_size t /\
                t_payload t' = t_payload t /\ t_next t' = t_next t;
  fp_nochange : ch = false -> t_state t' = t_state t;
  fp_ms : t_state t' = MissingStart -> t_state t = MissingStart;
  fp_started : t_state t' = Started -> t_state t = Started;
  fp_size_active : is_active (t_state t') = true -> t_size t' = t_size t;
  fp_size_complete : t_state t' = Complete -> is_active (t_state t) = true ->
                     (t_size t = 0 \/ t_size t = t_size t') /\ t_size t' = t_payload t' /\ t_next t' = t_nr t + 1;
  fp_acc : acc' = acc \/
           (acc' = acc ++ [(pnr, raw)] /\ pnr = t_next t /\ (lenN raw = t_bs t' \/ (pnr = t_nr t /\ lenN raw < t_bs t')))
}.

Lemma concat_map_snd_snoc (acc : list (N * list N)) x :
  concat (map snd (acc ++ [x])) = concat (map snd acc) ++ snd x.
Proof. rewrite map_app, concat_app. cbn. rewrite app_nil_r. reflexivity. Qed.

Lemma add_flda_TLoc ops t acc pnr raw t' ch :
  TLoc ops t acc -> add_flda t pnr raw = Ok (t', ch) ->
  exists acc', TLoc (ops ++ [(pnr, raw)]) t' acc' /\ flda_post t t' acc acc' pnr raw ch.
Proof.
  intros HT H. unfold add_flda, add_flda_gen in H.
  set (t1 := if (pnr =? 1) && (t_bs t =? 0) then set_bs (lenN raw) t else t) in H.
  assert (Hbs : t_bs t <= t_bs t1 /\ (0 < t_bs t -> t_bs t1 = t_bs t)).
  { unfold t1. destruct ((pnr =? 1) && (t_bs t =? 0)) eqn:E; cbn; [|lia].
    apply andb_true_iff in E. destruct E as [_ E]. apply N.eqb_eq in E. lia. }
  assert (Ht1 : TLoc ops t1 acc).
  { unfold t1. destruct ((pnr =? 1) && (t_bs t =? 0)); [|exact HT].
    destruct HT as [H1 H2 H3 H4 H5 H6 H7 H8 H9 H10 H11]. constructor; cbn; auto. }
  assert (Hst : t_key t1 = t_key t /\ t_name t1 = t_name t /\ t_nr t1 = t_nr t /\ t_saved t1 = t_saved t /\
                t_cap t1 = t_cap t /\ t_state t1 = t_state t /\ t_data t1 = t_data t /\ t_size t1 = t_size t /\ t_next t1 = t_next t
                /\ t_payload t1 = t_payload t).
  { unfold t1. destruct ((pnr =? 1) && (t_bs t =? 0)); cbn; repeat split; reflexivity. }
  destruct Hst as [Hk [Hn [Hnr [Hsv [Hcap [Hstate [Hdata [Hsize [Hnext Hpayl]]]]]]]]].
  clearbody t1.
  destruct (is_active (t_state t1)) eqn:Eact.
  2:{ inversion H; subst t' ch. exists acc. split; [apply TLoc_weaken; exact Ht1|].
      constructor; try tauto; try congruence; try lia;
        try (intros Hc; rewrite Hc in Eact; discriminate); try (intros _; repeat split; congruence);
        try (intros; congruence). }
  assert (Eact0 : is_active (t_state t) = true) by congruence.
  destruct (true && (0 <? pnr) && (pnr <? t_next t1)) eqn:Edup.
  { (* duplicate of an already received package *)
    inversion H; subst t' ch. exists acc. split; [apply TLoc_weaken; exact Ht1|].
    constructor; try tauto; try congruence; try lia; try (intros; congruence);
      try (intros Hc; rewrite Hc in Eact; discriminate). }
  unfold add_chk in H.
  destruct (t_recvd t1 + 1 <=? u64max) eqn:Er; cbn [bind] in H; [|discriminate].
  destruct HT as [_ _ _ _ _ _ _ _ _ _ _].
  destruct Ht1 as [S1 S2 S3 S4 S5 S6 S7 S8 S9 S10 S11].
  specialize (S6 Eact). destruct S6 as [S6a S6b].
  destruct ((pnr =? t_next (set_recvd (t_recvd t1 + 1) t1)) &&
            ((lenN raw =? t_bs (set_recvd (t_recvd t1 + 1) t1)) ||
             ((t_next (set_recvd (t_recvd t1 + 1) t1) =? t_nr (set_recvd (t_recvd t1 + 1) t1)) &&
              (lenN raw <? t_bs (set_recvd (t_recvd t1 + 1) t1))))) eqn:Eacc; cbn [t_next t_bs t_nr set_recvd] in Eacc, H.
  - (* accepted *)
    apply andb_true_iff in Eacc. destruct Eacc as [Ep Esz]. apply N.eqb_eq in Ep.
    assert (Hsz : lenN raw = t_bs t1 \/ (pnr = t_nr t1 /\ lenN raw < t_bs t1)).
    { apply orb_true_iff in Esz. destruct Esz as [Esz|Esz]; [left; apply N.eqb_eq; exact Esz|right].
      apply andb_true_iff in Esz. destruct Esz as [Ea Eb]. apply N.eqb_eq in Ea. apply N.ltb_lt in Eb. split; [congruence|exact Eb]. }
    destruct (t_next t1 + 1 <=? u64max) eqn:En; cbn [bind] in H; [|discriminate].
    change (t_payload (set_recvd (t_recvd t1 + 1) t1)) with (t_payload t1) in H.
    change (t_cap (set_recvd (t_recvd t1 + 1) t1)) with (t_cap t1) in H.
    change (t_data (set_recvd (t_recvd t1 + 1) t1)) with (t_data t1) in H.
    destruct (t_payload t1 + lenN raw <=? usizemax) eqn:Epl; cbn [bind] in H; [|discriminate].
    set (t2 := set_data _ _) in H.
    assert (HT2 : forall st' sz', 
               (st' = t_state t1 /\ t_recvd t1 + 1 < t_nr t1 /\ sz' = t_size t1 \/
                st' = Incomplete /\ sz' = t_size t1 \/
                st' = Complete /\ t_nr t1 < t_next t1 + 1 /\ sz' = t_payload t1 + lenN raw) ->
               TLoc (ops ++ [(pnr, raw)]) (set_state st' (set_size sz' t2)) (acc ++ [(pnr, raw)])).
    { intros st' sz' Hc. unfold t2. constructor; cbn.
      - apply sublist_snoc. exact S1.
      - rewrite map_app, app_length, S2. cbn. rewrite Nat.add_1_r, nums_snoc. f_equal. f_equal. lia.
      - rewrite app_length. cbn. lia.
      - rewrite concat_map_snd_snoc, lenN_app. cbn. lia.
      - rewrite app_length. cbn. lia.
      - intros Ha. destruct Hc as [[-> [Hc1 _]]|[[-> _]|[-> _]]]; [|discriminate|discriminate]. lia.
      - intros ->. destruct Hc as [[Hc _]|[[Hc _]|[_ [Hc1 Hc2]]]]; [rewrite <- Hc in Eact; discriminate|discriminate|].
        rewrite app_length. cbn. repeat split; try lia.
      - intros Hc0 Ha. rewrite concat_map_snd_snoc. cbn. rewrite (S8 Hc0 Eact). apply N.ltb_lt in Hc0. rewrite Hc0. reflexivity.
      - rewrite concat_map_snd_snoc. cbn. destruct (0 <? t_cap t1) eqn:Ec.
        + right. apply N.ltb_lt in Ec. rewrite (S8 Ec Eact). reflexivity.
        + left. apply N.ltb_ge in Ec. apply S10. lia.
      - intros Hc0. rewrite Hc0. cbn. apply S10. exact Hc0.
      - intros ->. destruct Hc as [[Hc _]|[[Hc _]|[Hc _]]]; try discriminate. apply S11. auto. }
    apply check_finished_false_spec in H.
    assert (Hfr : t_key t2 = t_key t /\ t_name t2 = t_name t /\ t_nr t2 = t_nr t /\ t_saved t2 = t_saved t /\ t_cap t2 = t_cap t /\ t_bs t2 = t_bs t1 /\ t_state t2 = t_state t1 /\ t_size t2 = t_size t1
                  /\ t_next t2 = t_next t1 + 1 /\ t_recvd t2 = t_recvd t1 + 1 /\ t_payload t2 = t_payload t1 + lenN raw).
    { unfold t2. cbn. repeat split; congruence. }
    destruct Hfr as [F1 [F2 [F3 [F4 [F5 [F6 [F7 [F8 [F9 [F10 F11]]]]]]]]]].
    exists (acc ++ [(pnr, raw)]).
    assert (Hlast : acc ++ [(pnr, raw)] = acc \/
                    acc ++ [(pnr, raw)] = acc ++ [(pnr, raw)] /\ pnr = t_next t /\
                    (lenN raw = t_bs t1 \/ pnr = t_nr t /\ lenN raw < t_bs t1)).
    { right. split; [reflexivity|]. split; [congruence|]. rewrite Hnr in Hsz. exact Hsz. }
    destruct H as [[-> [-> [Ha Hb]]]|[[-> [-> Ha]]|[-> [-> [Ha Hb]]]]].
    + split.
      * replace (set_state Complete (set_size (t_payload t2) t2)) with (set_state Complete (set_size (t_payload t1 + lenN raw) t2)) by (rewrite F11; reflexivity).
        apply HT2. right. right. repeat split; lia.
      * constructor; cbn; try congruence; try lia; try (intros; congruence); try (intros; lia); try exact Hlast.
    + split.
      * replace (set_state Incomplete t2) with (set_state Incomplete (set_size (t_size t1) t2)).
        2:{ unfold t2. destruct t1; reflexivity. }
        apply HT2. right. left. auto.
      * constructor; cbn; try congruence; try lia; try (intros; congruence); try (intros; lia); try exact Hlast.
    + split.
      * replace t2 with (set_state (t_state t1) (set_size (t_size t1) t2)) at 1.
        2:{ unfold t2. destruct t1; reflexivity. }
        apply HT2. left. repeat split; lia.
      * constructor; try congruence; try lia; try (intros; congruence); try (intros; lia); try exact Hlast.
        intros Hc. rewrite F7 in Hc. rewrite Hc in Eact. discriminate.
  - (* not accepted: counted only *)
    cbn [bind] in H. apply check_finished_false_spec in H. cbn [t_nr t_next t_recvd t_size t_payload set_recvd] in H.
    exists acc.
    assert (HT2 : forall st', (st' = t_state t1 /\ t_recvd t1 + 1 < t_nr t1 \/ st' = Incomplete) ->
                              TLoc (ops ++ [(pnr, raw)]) (set_state st' (set_recvd (t_recvd t1 + 1) t1)) acc).
    { intros st' Hc. constructor; cbn; auto; try lia.
      all: try (apply sublist_app_r; exact S1).
      all: try (intros Ha; destruct Hc as [[-> Hc]| ->]; [lia|discriminate]).
      all: try (intros ->; destruct Hc as [[Hc _]|Hc]; [rewrite <- Hc in Eact; discriminate|discriminate]).
      all: try (intros Hc0 Ha; destruct Hc as [[-> Hc]| ->]; [auto|discriminate]).
      all: try (intros ->; destruct Hc as [[Hc _]|Hc]; [auto|discriminate]). }
    destruct H as [[-> [-> [Ha Hb]]]|[[-> [-> Ha]]|[-> [-> [Ha Hb]]]]].
    + exfalso. lia.
    + split; [apply HT2; right; reflexivity|].
      constructor; cbn; try congruence; try lia; try tauto; try (intros; congruence); try (intros; lia).
    + split.
      * replace (set_recvd (t_recvd t1 + 1) t1) with (set_state (t_state t1) (set_recvd (t_recvd t1 + 1) t1)) by (destruct t1; reflexivity).
        apply HT2. left. split; [reflexivity|lia].
      * constructor; cbn; try congruence; try lia; try tauto; try (intros; congruence); try (intros; lia).
        intros Hc. rewrite Hc in Eact. discriminate.
Qed.

(* ------------------------------------------------------------------ what the log says about a key *)
(* the call of add_flda a message leads to: key, package number, payload *)
Definition flda_op (c : cfg) (m : msg) : option (key * (N * list N)) :=
  match classify c m with
  | KFlda => match flda_args (m_args m) with
             | Some (serial, pnr, raw) => Some ((m_ecu m, m_lc m, serial), (pnr, raw))
             | None => None
             end
  | _ => None
  end.
Definition ops_of (c : cfg) (k : key) (m : msg) : list (N * list N) :=
  match flda_op c m with Some (k', op) => if key_eqb k k' then [op] else [] | None => [] end.
(* all (package number, payload) pairs the log holds for key k, in log order *)
Definition ops_for (c : cfg) (k : key) (ms : list msg) : list (N * list N) := flat_map (ops_of c k) ms.
Lemma ops_for_app c k a b : ops_for c k (a ++ b) = ops_for c k a ++ ops_for c k b.
Proof. apply flat_map_app. Qed.
Lemma ops_for_snoc c k a m : ops_for c k (a ++ [m]) = ops_for c k a ++ ops_of c k m.
Proof. rewrite ops_for_app. cbn. rewrite app_nil_r. reflexivity. Qed.

(* an announcement that creates a transfer *)
Definition flst_of (c : cfg) (m : msg) : option (key * flst) :=
  match classify c m with
  | KFlst => let f := parse_flst (m_args m) in
             if (0 <? f_nr f) && (0 <? f_bs f) then Some ((m_ecu m, m_lc m, f_serial f), f) else None
  | _ => None
  end.

(* every package has the announced size, the one numbered nr_packages may be shorter *)
Definition sizes_ok (bs nr : N) (acc : list (N * list N)) : Prop :=
  Forall (fun op => if fst op =? nr then lenN (snd op) <= bs else lenN (snd op) = bs) acc.

(* provenance: announced by a FLST message of the log, or recovered from a first package *)
Definition Announced (c : cfg) (pre : list msg) (t : transfer) (acc : list (N * list N)) : Prop :=
  exists m f, In m pre /\ flst_of c m = Some (t_key t, f) /\ t_name t = f_name f /\ t_nr t = f_nr f /\ t_bs t = f_bs f /\
    0 < f_bs f /\ 0 < f_nr f /\ t_state t <> MissingStart /\
    (t_state t = Started -> t_size t = f_size f) /\
    (t_state t = Complete -> (f_size f = 0 \/ f_size f = t_size t) /\ t_size t = t_payload t /\ t_next t = t_nr t + 1) /\
    sizes_ok (f_bs f) (f_nr f) acc.
Definition Recovered (t : transfer) (acc : list (N * list N)) : Prop :=
  t_nr t = u64max /\ t_name t = MISSING_FLST /\ t_state t <> Started /\ (t_state t = MissingStart -> t_size t = 0) /\
  (t_state t = Complete -> t_size t = t_payload t) /\ Forall (fun op => lenN (snd op) <= t_bs t) acc.
Definition Prov (c : cfg) (pre : list msg) (t : transfer) (acc : list (N * list N)) : Prop :=
  Announced c pre t acc \/ Recovered t acc.

Lemma Prov_weaken c pre x t acc : Prov c pre t acc -> Prov c (pre ++ x) t acc.
Proof.
  intros [[m [f [H1 H2]]]|H]; [left|right; exact H].
  exists m, f. split; [apply in_or_app; left; exact H1|exact H2].
Qed.

Lemma Prov_add_flda c pre t t' acc acc' pnr raw ch :
  Prov c pre t acc -> flda_post t t' acc acc' pnr raw ch -> Prov c pre t' acc'.
Proof.
  intros HP [K1 K2 K3 K4 K5 K6 K7 K8 K9 K10 K11 K12 K13 K14].
  destruct HP as [[m [f [A1 [A2 [A3 [A4 [A5 [A6 [A7 [A8 [A9 [A10 A11]]]]]]]]]]]]|[R1 [R2 [R3 [R4 [R5 R6]]]]]].
  - left. exists m, f. rewrite K1, K2, K3. assert (Hb : t_bs t' = t_bs t) by (apply K7; lia).
    rewrite Hb. repeat split; auto.
    + intros Hc. pose proof (K11 Hc) as Hc0. rewrite K12 by (rewrite Hc; reflexivity). auto.
    + destruct (is_active (t_state t)) eqn:Ea.
      * destruct (K13 H eq_refl) as [Hs _]. assert (Hst : t_state t = Started) by (destruct (t_state t); try discriminate; [contradiction|reflexivity]).
        rewrite <- (A9 Hst). exact Hs.
      * destruct (K8 eq_refl) as [Hs [_ [_ [_ [Hsz _]]]]]. rewrite Hs in H. rewrite Hsz. apply A10. exact H.
    + destruct (is_active (t_state t)) eqn:Ea.
      * apply (K13 H eq_refl).
      * destruct (K8 eq_refl) as [Hs [_ [_ [_ [Hsz [Hpl _]]]]]]. rewrite Hs in H. rewrite Hsz, Hpl. apply A10. exact H.
    + destruct (is_active (t_state t)) eqn:Ea.
      * apply (K13 H eq_refl).
      * destruct (K8 eq_refl) as [Hs [_ [_ [_ [_ [_ Hnx]]]]]]. rewrite Hs in H. rewrite Hnx. apply A10. exact H.
    + destruct K14 as [->|[-> [Hp Hl]]]; [exact A11|]. apply Forall_app. split; [exact A11|]. constructor; [|constructor].
      cbn. rewrite Hb, A5, A4 in Hl. destruct (pnr =? f_nr f) eqn:E.
      * destruct Hl as [Hl|[_ Hl]]; lia.
      * apply N.eqb_neq in E. destruct Hl as [Hl|[Hl _]]; [exact Hl|contradiction].
  - right. unfold Recovered. rewrite K2, K3. repeat split; auto.
    + intros Hc. rewrite K12 by (rewrite Hc; reflexivity). apply R4. apply K10. exact Hc.
    + intros Hc. destruct (is_active (t_state t)) eqn:Ea.
      * apply (K13 Hc eq_refl).
      * destruct (K8 eq_refl) as [Hs [_ [_ [_ [Hsz [Hpl _]]]]]]. rewrite Hs in Hc. rewrite Hsz, Hpl. apply R5. exact Hc.
    + assert (Ho : Forall (fun op => lenN (snd op) <= t_bs t') acc).
      { eapply Forall_impl; [|exact R6]. cbn. intros a Ha. lia. }
      destruct K14 as [->|[-> [Hp Hl]]]; [exact Ho|]. apply Forall_app. split; [exact Ho|]. constructor; [|constructor].
      cbn. destruct Hl as [Hl|[_ Hl]]; lia.
Qed.

Record flfi_post (t t' : transfer) (ch : bool) : Prop := {
  ff_key : t_key t' = t_key t;
  ff_name : t_name t' = t_name t;
  ff_nr : t_nr t' = t_nr t;
  ff_bs : t_bs t' = t_bs t;
  ff_saved : t_saved t' = t_saved t;
  ff_cap : t_cap t' = t_cap t;
  ff_data : t_data t' = t_data t;
  ff_nochange : ch = false -> t' = t;
  ff_complete : t_state t = Complete -> t' = t /\ ch = false;
  ff_complete' : t_state t' = Complete -> t_state t = Complete \/ t_state t = MissingStart
}.

Lemma flfi_TLoc c pre ops t acc t' ch :
  TLoc ops t acc -> Prov c pre t acc -> check_finished t true = Ok (t', ch) ->
  TLoc ops t' acc /\ Prov c pre t' acc /\ flfi_post t t' ch.
Proof.
  intros HT HP H. apply check_finished_true_spec in H. destruct H as [Hn H].
  destruct HT as [S1 S2 S3 S4 S5 S6 S7 S8 S9 S10 S11].
  destruct H as [[Hr [Hs [-> ->]]]|[[Hr [Hs [-> ->]]]|[Hr [-> ->]]]].
  - (* MissingStart, everything received: complete *)
    assert (Hsz : t_size t = 0).
    { destruct HP as [[m [f [_ [_ [_ [_ [_ [_ [_ [A8 _]]]]]]]]]]|[_ [_ [_ [R4 _]]]]]; [contradiction|auto]. }
    cbn zeta. cbn [t_size set_state]. rewrite Hsz. cbn [N.eqb].
    split; [|split].
    + constructor; cbn; auto; try discriminate. intros _. split; [lia|right; auto].
    + destruct HP as [[m [f [_ [_ [_ [_ [_ [_ [_ [A8 _]]]]]]]]]]|[R1 [R2 [R3 [R4 [R5 R6]]]]]]; [contradiction|].
      right. unfold Recovered. cbn. repeat split; auto; discriminate.
    + constructor; cbn; auto; try discriminate. intros Hc. congruence.
  - split; [constructor; auto|]. split; [exact HP|]. constructor; auto.
  - split; [|split].
    + constructor; cbn; auto; discriminate.
    + destruct HP as [[m [f [A1 [A2 [A3 [A4 [A5 [A6 [A7 [A8 [A9 [A10 A11]]]]]]]]]]]]|[R1 [R2 [R3 [R4 [R5 R6]]]]]].
      * left. exists m, f. cbn. repeat split; auto; discriminate.
      * right. unfold Recovered. cbn. repeat split; auto; discriminate.
    + constructor; cbn; auto; try discriminate.
      intros Hc. exfalso. apply S7 in Hc. destruct Hc as [Hc _]. lia.
Qed.

(* ------------------------------------------------------------------ state-level invariant *)
(* what is stored outside the transfer: handed-over data and the auto-saved file *)
Definition SI (comp : list (nat * list N)) (fs : list (list N * list N)) (i : nat) (t : transfer)
    (acc : list (N * list N)) : Prop :=
  (forall d, lookup_nat i comp = Some d -> t_state t = Complete /\ d = concat (map snd acc)) /\
  (forall p, t_saved t = Some p -> t_state t = Complete /\ lookup_path p fs = Some (concat (map snd acc))).

Definition TInv (c : cfg) (pre : list msg) (comp : list (nat * list N)) (fs : list (list N * list N))
    (i : nat) (t : transfer) : Prop :=
  exists acc, TLoc (ops_for c (t_key t) pre) t acc /\ SI comp fs i t acc /\ Prov c pre t acc.

(* the file system only grows, by files that did not exist *)
Definition fs_ext (fs fs' : list (list N * list N)) : Prop :=
  fs' = fs \/ exists p d, fs' = (p, d) :: fs /\ path_exists fs p = false.
Lemma fs_ext_lookup fs fs' q x : fs_ext fs fs' -> lookup_path q fs = Some x -> lookup_path q fs' = Some x.
Proof. intros [->|[p [d [-> Hp]]]] H; [exact H|]. apply lookup_path_cons_new; assumption. Qed.
Lemma fs_ext_refl fs : fs_ext fs fs.
Proof. left. reflexivity. Qed.

Lemma SI_fs_ext comp fs fs' i t acc : fs_ext fs fs' -> SI comp fs i t acc -> SI comp fs' i t acc.
Proof.
  intros He [H1 H2]. split; [exact H1|]. intros p Hp. destruct (H2 p Hp) as [Ha Hb]. split; [exact Ha|].
  eapply fs_ext_lookup; eassumption.
Qed.
Lemma TInv_fs_ext c pre comp fs fs' i t : fs_ext fs fs' -> TInv c pre comp fs i t -> TInv c pre comp fs' i t.
Proof. intros He [acc [H1 [H2 H3]]]. exists acc. split; [exact H1|]. split; [eapply SI_fs_ext; eassumption|exact H3]. Qed.
Lemma TInv_weaken c pre x comp fs i t : TInv c pre comp fs i t -> TInv c (pre ++ x) comp fs i t.
Proof.
  intros [acc [H1 [H2 H3]]]. exists acc. rewrite ops_for_app. split; [apply TLoc_weaken; exact H1|].
  split; [exact H2|apply Prov_weaken; exact H3].
Qed.

Record Inv0 (c : cfg) (pre : list msg) (s : st) : Prop := {
  inv_idx : forall k i, lookup_key k (s_idx s) = Some i ->
                        exists t, nth_error (s_transfers s) i = Some t /\ t_key t = k;
  inv_t : forall i t, nth_error (s_transfers s) i = Some t -> TInv c pre (s_completed s) (s_fs s) i t;
  inv_comp : forall i d, lookup_nat i (s_completed s) = Some d -> (i < length (s_transfers s))%nat
}.
Definition pub_ok (s : st) : Prop :=
  map (fun t => (t_key t, t_state t)) (s_pub s) = map (fun t => (t_key t, t_state t)) (s_transfers s).
Definition Inv (c : cfg) (pre : list msg) (s : st) : Prop := Inv0 c pre s /\ pub_ok s.

Lemma Inv0_weaken c pre x s : Inv0 c pre s -> Inv0 c (pre ++ x) s.
Proof. intros [H1 H2 H3]. constructor; auto. intros i t Hi. apply TInv_weaken. auto. Qed.

(* --- update_state *)
Lemma TLoc_ho_t ops t acc : TLoc ops t acc -> TLoc ops (ho_t t) acc.
Proof.
  unfold ho_t. destruct (takes t); [|auto]. intros [S1 S2 S3 S4 S5 S6 S7 S8 S9 S10 S11].
  constructor; cbn; auto. intros Hc. lia.
Qed.
Lemma ho_t_static t : t_key (ho_t t) = t_key t /\ t_state (ho_t t) = t_state t /\ t_saved (ho_t t) = t_saved t /\
                      t_name (ho_t t) = t_name t /\ t_nr (ho_t t) = t_nr t /\ t_bs (ho_t t) = t_bs t /\ t_size (ho_t t) = t_size t
                      /\ t_payload (ho_t t) = t_payload t /\ t_next (ho_t t) = t_next t.
Proof. unfold ho_t. destruct (takes t); cbn; repeat split; reflexivity. Qed.
Lemma Prov_ho_t c pre t acc : Prov c pre t acc -> Prov c pre (ho_t t) acc.
Proof.
  destruct (ho_t_static t) as [E1 [E2 [E3 [E4 [E5 [E6 [E7 [E8 E9]]]]]]]].
  intros [[m [f H]]|H]; [left; exists m, f|right; unfold Recovered in *]; rewrite ?E1, ?E2, ?E4, ?E5, ?E6, ?E7, ?E8, ?E9; exact H.
Qed.

Lemma update_state_inv c pre s s' : update_state s = Ok s' -> Inv0 c pre s -> Inv c pre s'.
Proof.
  unfold update_state, add_chk. destruct (s_gen s + 1 <=? u32max); cbn [bind]; [|discriminate].
  intros H [H1 H2 H3]. inversion H; subst s'; clear H. split; [|reflexivity]. constructor; cbn.
  - intros k i Hk. destruct (H1 k i Hk) as [t [Ht Hkey]]. exists (ho_t t). rewrite nth_error_map, Ht. cbn.
    split; [reflexivity|]. destruct (ho_t_static t) as [E1 _]. congruence.
  - intros i t' Hi. rewrite nth_error_map in Hi. destruct (nth_error (s_transfers s) i) as [t|] eqn:Et; [|discriminate].
    cbn in Hi. inversion Hi; subst t'; clear Hi. destruct (H2 i t Et) as [acc [T1 [[T2 T3] T4]]].
    exists acc. destruct (ho_t_static t) as [E1 [E2 [E3 _]]]. rewrite E1. split; [apply TLoc_ho_t; exact T1|].
    split; [|apply Prov_ho_t; exact T4]. split.
    + intros d Hd. rewrite lookup_nat_app in Hd. destruct (lookup_nat i (taken 0 (s_transfers s))) as [d0|] eqn:Ek.
      * inversion Hd; subst d0. apply lookup_taken in Ek. destruct Ek as [t0 [_ [Hn [Htk ->]]]].
        rewrite Nat.sub_0_r, Et in Hn. inversion Hn; subst t0. unfold takes in Htk. apply andb_true_iff in Htk.
        destruct Htk as [Hne Hst]. apply tstate_eqb_spec in Hst. rewrite E2. split; [exact Hst|].
        apply negb_true_iff, bytes_eqb_nil_false in Hne. destruct (tl_d2 _ _ _ T1) as [Hd0|Hd0]; [contradiction|exact Hd0].
      * rewrite E2. apply T2. exact Hd.
    + rewrite E2, E3. exact T3.
  - intros i d Hd. rewrite map_length. rewrite lookup_nat_app in Hd.
    destruct (lookup_nat i (taken 0 (s_transfers s))) as [d0|] eqn:Ek; [|eauto].
    apply lookup_taken in Ek. destruct Ek as [t0 [_ [Hn _]]]. rewrite Nat.sub_0_r in Hn.
    apply nth_error_Some. rewrite Hn. discriminate.
Qed.

(* --- check_auto_save *)
Lemma check_auto_save_spec c t fs t1 fs1 acc ops :
  check_auto_save c t fs = (t1, fs1) -> TLoc ops t acc -> t_state t = Complete ->
  fs_ext fs fs1 /\ TLoc ops t1 acc /\
  t_key t1 = t_key t /\ t_state t1 = t_state t /\ t_name t1 = t_name t /\ t_nr t1 = t_nr t /\ t_bs t1 = t_bs t /\
  t_size t1 = t_size t /\ t_payload t1 = t_payload t /\ t_next t1 = t_next t /\
  (forall p, t_saved t1 = Some p -> t_saved t = Some p \/ lookup_path p fs1 = Some (concat (map snd acc))).
Proof.
  unfold check_auto_save. intros H HT Hst.
  assert (Hid : (t1, fs1) = (t, fs) -> fs_ext fs fs1 /\ TLoc ops t1 acc /\
    t_key t1 = t_key t /\ t_state t1 = t_state t /\ t_name t1 = t_name t /\ t_nr t1 = t_nr t /\ t_bs t1 = t_bs t /\
    t_size t1 = t_size t /\ t_payload t1 = t_payload t /\ t_next t1 = t_next t /\
    (forall p, t_saved t1 = Some p -> t_saved t = Some p \/ lookup_path p fs1 = Some (concat (map snd acc)))).
  { intros E. inversion E; subst. split; [apply fs_ext_refl|]. split; [exact HT|]. repeat split; auto. }
  destruct (c_glob c) as [g|]; [|apply Hid; congruence].
  destruct (tstate_eqb (t_state t) Complete && negb (bytes_eqb (t_data t) []) && g (t_name t)) eqn:Ec; [|apply Hid; congruence].
  apply andb_true_iff in Ec. destruct Ec as [Ec _]. apply andb_true_iff in Ec. destruct Ec as [_ Ene].
  apply negb_true_iff, bytes_eqb_nil_false in Ene.
  assert (Hdata : t_data t = concat (map snd acc)) by (destruct (tl_d2 _ _ _ HT); [contradiction|assumption]).
  set (path := path_join (save_dir c) (base_name t)) in H.
  assert (Hdrop : forall t0, TLoc ops t0 acc -> t_state t0 = Complete ->
                    TLoc ops (if negb (c_allow_save c) && (0 <? t_cap t0) then set_buf 0 [] t0 else t0) acc).
  { intros t0 [S1 S2 S3 S4 S5 S6 S7 S8 S9 S10 S11] Hc. destruct (negb (c_allow_save c) && (0 <? t_cap t0)); [|constructor; auto].
    constructor; cbn; auto. intros Hx; lia. }
  destruct (negb (path_exists fs path)) eqn:Ex.
  - inversion H; subst t1 fs1; clear H. split.
    { right. exists path, (t_data t). split; [reflexivity|]. apply negb_true_iff in Ex. exact Ex. }
    split.
    { apply (Hdrop (set_saved (Some path) t)); [|exact Hst]. destruct HT as [S1 S2 S3 S4 S5 S6 S7 S8 S9 S10 S11]. constructor; cbn; auto. }
    cbn [t_cap set_saved]. destruct (negb (c_allow_save c) && (0 <? t_cap t)); cbn; repeat split; auto.
    + intros p Hp. inversion Hp; subst p. right. rewrite bytes_eqb_refl. rewrite Hdata. reflexivity.
    + intros p Hp. inversion Hp; subst p. right. rewrite bytes_eqb_refl. rewrite Hdata. reflexivity.
  - inversion H; subst t1 fs1; clear H. split; [apply fs_ext_refl|]. split; [apply Hdrop; assumption|].
    destruct (negb (c_allow_save c) && (0 <? t_cap t)); cbn; repeat split; auto.
Qed.

(* --- pushing and replacing a transfer *)
Lemma push_inv0 c pre s t acc :
  Inv0 c pre s -> TLoc (ops_for c (t_key t) pre) t acc -> Prov c pre t acc -> t_saved t = None ->
  Inv0 c pre (push_transfer s t).
Proof.
  intros [H1 H2 H3] HT HP Hs. constructor; cbn.
  - intros k i Hk. destruct (key_eqb k (t_key t)) eqn:E.
    + inversion Hk; subst i. exists t. rewrite nth_error_app2 by lia. rewrite Nat.sub_diag. cbn.
      apply key_eqb_spec in E. auto.
    + destruct (H1 k i Hk) as [t0 [Ht0 Hk0]]. exists t0. split; [|exact Hk0].
      rewrite nth_error_app1; [exact Ht0|]. apply nth_error_Some. rewrite Ht0. discriminate.
  - intros i t0 Hi. destruct (Nat.lt_ge_cases i (length (s_transfers s))) as [Hlt|Hge].
    + rewrite nth_error_app1 in Hi by exact Hlt. apply H2. exact Hi.
    + rewrite nth_error_app2 in Hi by exact Hge. destruct (i - length (s_transfers s))%nat as [|n] eqn:En; cbn in Hi.
      2:{ destruct n; discriminate. }
      inversion Hi; subst t0. exists acc. split; [exact HT|]. split; [|exact HP]. split.
      * intros d Hd. apply H3 in Hd. lia.
      * intros p Hp. congruence.
  - intros i d Hd. rewrite app_length. cbn. apply H3 in Hd. lia.
Qed.

Lemma put_inv0 c pre s i t t1 fs1 :
  Inv0 c pre s -> nth_error (s_transfers s) i = Some t -> t_key t1 = t_key t -> fs_ext (s_fs s) fs1 ->
  TInv c pre (s_completed s) fs1 i t1 ->
  Inv0 c pre (mkSt (replace_nth i t1 (s_transfers s)) (s_idx s) (s_completed s) fs1 (s_gen s) (s_pub s)).
Proof.
  intros [H1 H2 H3] Ht Hk He HT.
  assert (Hl : (i < length (s_transfers s))%nat) by (apply nth_error_Some; rewrite Ht; discriminate).
  constructor; cbn.
  - intros k j Hj. destruct (H1 k j Hj) as [t0 [Ht0 Hk0]]. destruct (Nat.eq_dec j i) as [->|Hne].
    + exists t1. rewrite nth_error_replace_same by exact Hl. split; [reflexivity|]. congruence.
    + exists t0. rewrite nth_error_replace_other by auto. auto.
  - intros j t0 Hj. apply nth_error_replace in Hj. destruct Hj as [[-> [-> _]]|[Hne Hj]]; [exact HT|].
    eapply TInv_fs_ext; [exact He|]. apply H2. exact Hj.
  - intros j d Hd. rewrite replace_nth_length. eauto.
Qed.

Lemma pub_ok_put s i t t1 fs1 :
  pub_ok s -> nth_error (s_transfers s) i = Some t -> t_key t1 = t_key t -> t_state t1 = t_state t ->
  pub_ok (mkSt (replace_nth i t1 (s_transfers s)) (s_idx s) (s_completed s) fs1 (s_gen s) (s_pub s)).
Proof.
  unfold pub_ok. cbn. intros -> Ht Hk Hs. clear fs1.
  revert i Ht. induction (s_transfers s) as [|a l IH]; intros [|i] Ht; cbn in *; try discriminate.
  - inversion Ht; subst. rewrite Hk, Hs. reflexivity.
  - f_equal. apply IH. exact Ht.
Qed.

(* --- one message *)
Lemma ops_of_not_flda c k m : flda_op c m = None -> ops_of c k m = [].
Proof. unfold ops_of. intros ->. reflexivity. Qed.

Lemma after_change_inv c pre s i t t' s' acc' :
  Inv0 c pre s -> nth_error (s_transfers s) i = Some t -> t_key t' = t_key t ->
  TLoc (ops_for c (t_key t') pre) t' acc' -> Prov c pre t' acc' ->
  (forall d, lookup_nat i (s_completed s) = Some d -> t_state t' = Complete /\ d = concat (map snd acc')) ->
  (forall p, t_saved t' = Some p -> t_state t' = Complete /\ lookup_path p (s_fs s) = Some (concat (map snd acc'))) ->
  after_change c s i t' = Ok s' -> Inv c pre s'.
Proof.
  intros HI Ht Hk HT HP Hc Hs H. unfold after_change in H.
  destruct (tstate_eqb (t_state t') Complete) eqn:Est.
  - apply tstate_eqb_spec in Est. destruct (check_auto_save c t' (s_fs s)) as [t1 fs1] eqn:Eas.
    destruct (check_auto_save_spec _ _ _ _ _ _ _ Eas HT Est) as [He [HT1 [K1 [K2 [K3 [K4 [K5 [K6 [K7 [K9 K8]]]]]]]]]].
    eapply update_state_inv; [exact H|]. eapply put_inv0; eauto; [congruence|].
    exists acc'. rewrite K1. split; [exact HT1|]. split.
    + split; [intros d Hd; rewrite K2; auto|]. intros p Hp. rewrite K2. split; [exact Est|].
      destruct (K8 p Hp) as [Ho|Hn]; [|exact Hn]. eapply fs_ext_lookup; [exact He|]. apply Hs. exact Ho.
    + destruct HP as [[m [f HA]]|HR]; [left; exists m, f|right; unfold Recovered in *]; rewrite ?K1, ?K2, ?K3, ?K4, ?K5, ?K6, ?K7, ?K9; assumption.
  - eapply update_state_inv; [exact H|]. eapply put_inv0; eauto; [apply fs_ext_refl|].
    exists acc'. split; [exact HT|]. split; [split; assumption|exact HP].
Qed.

Lemma step_inv c pre s m s' b : step c s m = Ok (s', b) -> Inv c pre s -> Inv c (pre ++ [m]) s'.
Proof.
  intros H [HI Hpub]. assert (HW : Inv0 c (pre ++ [m]) s) by (apply Inv0_weaken; exact HI).
  unfold step in H. destruct (classify c m) eqn:Ec.
  - (* FLST *)
    unfold step_flst in H.
    destruct ((0 <? f_nr (parse_flst (m_args m))) && (0 <? f_bs (parse_flst (m_args m)))) eqn:Econd; cbn [bind] in H.
    2:{ inversion H; subst. split; assumption. }
    destruct (with_capacity _) as [cap| |] eqn:Ecap; cbn [bind] in H; try discriminate.
    match type of H with context [update_state (push_transfer s ?t0)] => set (t := t0) in H end.
    destruct (update_state (push_transfer s t)) as [s1| |] eqn:Eu; cbn [bind] in H; try discriminate.
    inversion H; subst s1 b; clear H. eapply update_state_inv; [exact Eu|].
    pose proof Econd as Econd'. apply andb_true_iff in Econd'. destruct Econd' as [En Eb]. apply N.ltb_lt in En, Eb.
    apply (push_inv0 _ _ _ _ []); auto.
    + constructor; cbn; auto; try discriminate; try lia. apply sl_nil.
    + left. exists m, (parse_flst (m_args m)). split; [apply in_or_app; right; left; reflexivity|].
      split; [unfold flst_of; rewrite Ec; cbn zeta; rewrite Econd; reflexivity|].
      cbn. repeat split; auto; try discriminate. constructor.
  - (* FLDA *)
    unfold step_flda in H. destruct (flda_args (m_args m)) as [[[serial pnr] raw]|] eqn:Ea; cbn [bind] in H.
    2:{ inversion H; subst. split; assumption. }
    set (k := (m_ecu m, m_lc m, serial)) in *.
    assert (Hop : flda_op c m = Some (k, (pnr, raw))) by (unfold flda_op; rewrite Ec, Ea; reflexivity).
    assert (Hops : ops_for c k (pre ++ [m]) = ops_for c k pre ++ [(pnr, raw)]).
    { rewrite ops_for_snoc. unfold ops_of. rewrite Hop, key_eqb_refl. reflexivity. }
    destruct (flda_apply c s k pnr raw) as [s1| |] eqn:Ef; cbn [bind] in H; try discriminate.
    inversion H; subst s1 b; clear H. unfold flda_apply in Ef.
    destruct (lookup_key k (s_idx s)) as [i|] eqn:El.
    + destruct (inv_idx _ _ _ HI k i El) as [t [Ht Hk]]. rewrite Ht in Ef.
      destruct (add_flda t pnr raw) as [[t' ch]| |] eqn:Eadd; cbn [bind] in Ef; try discriminate.
      destruct (inv_t _ _ _ HI i t Ht) as [acc [T1 [[T2 T3] T4]]]. rewrite Hk in T1.
      destruct (add_flda_TLoc _ _ _ _ _ _ _ T1 Eadd) as [acc' [T1' HP]].
      rewrite <- Hops in T1'. pose proof (Prov_add_flda _ (pre ++ [m]) _ _ _ _ _ _ _ (Prov_weaken _ _ [m] _ _ T4) HP) as T4'.
      assert (Hk' : t_key t' = k) by (rewrite (fp_key _ _ _ _ _ _ _ HP); exact Hk).
      assert (Hcomp : forall d, lookup_nat i (s_completed s) = Some d -> t_state t' = Complete /\ d = concat (map snd acc')).
      { intros d Hd. destruct (T2 d Hd) as [Hst ->]. assert (Hin : is_active (t_state t) = false) by (rewrite Hst; reflexivity).
        destruct (fp_inactive _ _ _ _ _ _ _ HP Hin) as [E1 [_ [E2 _]]]. rewrite E1, E2. auto. }
      assert (Hsav : forall p, t_saved t' = Some p -> t_state t' = Complete /\ lookup_path p (s_fs s) = Some (concat (map snd acc'))).
      { intros p Hp. rewrite (fp_saved _ _ _ _ _ _ _ HP) in Hp. destruct (T3 p Hp) as [Hst Hl].
        assert (Hin : is_active (t_state t) = false) by (rewrite Hst; reflexivity).
        destruct (fp_inactive _ _ _ _ _ _ _ HP Hin) as [E1 [_ [E2 _]]]. rewrite E1, E2. auto. }
      destruct ch.
      * eapply after_change_inv; try exact Ef; eauto; try congruence.
      * inversion Ef; subst s'; clear Ef. unfold put_transfer. split.
        -- eapply put_inv0; eauto; [congruence|apply fs_ext_refl|]. exists acc'. rewrite Hk'. split; [exact T1'|]. split; [split; assumption|exact T4'].
        -- eapply pub_ok_put; eauto; [congruence|]. apply (fp_nochange _ _ _ _ _ _ _ HP). reflexivity.
    + destruct (pnr =? 1) eqn:Ep.
      2:{ inversion Ef; subst. split; assumption. }
      apply N.eqb_eq in Ep. subst pnr.
      destruct (with_capacity _) as [cap| |] eqn:Ecap; cbn [bind] in Ef; try discriminate.
      match type of Ef with context [add_flda ?t0 1 raw] => set (t := t0) in Ef end.
      destruct (add_flda t 1 raw) as [[t' ch]| |] eqn:Eadd; cbn [bind] in Ef; try discriminate.
      assert (T1 : TLoc (ops_for c k pre) t []).
      { unfold t. constructor; cbn; auto; try discriminate; try lia. apply sl_nil. intros _. unfold u64max. lia. }
      assert (T4 : Prov c (pre ++ [m]) t []).
      { right. unfold t, Recovered. cbn. repeat split; auto; try discriminate. }
      destruct (add_flda_TLoc _ _ _ _ _ _ _ T1 Eadd) as [acc' [T1' HP]].
      rewrite <- Hops in T1'. pose proof (Prov_add_flda _ _ _ _ _ _ _ _ _ T4 HP) as T4'.
      assert (Hk' : t_key t' = k) by (rewrite (fp_key _ _ _ _ _ _ _ HP); reflexivity).
      eapply update_state_inv; [exact Ef|]. apply (push_inv0 _ _ _ _ acc'); auto.
      * rewrite Hk'. exact T1'.
      * rewrite (fp_saved _ _ _ _ _ _ _ HP). reflexivity.
  - (* FLFI *)
    unfold step_flfi in H. set (k := (m_ecu m, m_lc m, flfi_serial (m_args m))) in *.
    destruct (flfi_apply c s k) as [s1| |] eqn:Ef; cbn [bind] in H; try discriminate.
    inversion H; subst s1 b; clear H. unfold flfi_apply in Ef.
    destruct (lookup_key k (s_idx s)) as [i|] eqn:El.
    2:{ inversion Ef; subst. split; assumption. }
    destruct (inv_idx _ _ _ HW k i El) as [t [Ht Hk]]. rewrite Ht in Ef.
    destruct (check_finished t true) as [[t' ch]| |] eqn:Ecf; cbn [bind] in Ef; try discriminate.
    destruct (inv_t _ _ _ HW i t Ht) as [acc [T1 [[T2 T3] T4]]].
    destruct (flfi_TLoc _ _ _ _ _ _ _ T1 T4 Ecf) as [T1' [T4' HP]].
    destruct ch.
    + eapply after_change_inv; try exact Ef; eauto.
      * apply (ff_key _ _ _ HP).
      * rewrite (ff_key _ _ _ HP). exact T1'.
      * intros d Hd. destruct (T2 d Hd) as [Hst ->]. destruct (ff_complete _ _ _ HP Hst) as [-> _]. auto.
      * intros p Hp. rewrite (ff_saved _ _ _ HP) in Hp. destruct (T3 p Hp) as [Hst Hl]. destruct (ff_complete _ _ _ HP Hst) as [-> _]. auto.
    + pose proof (ff_nochange _ _ _ HP eq_refl) as ->. inversion Ef; subst s'; clear Ef. unfold put_transfer.
      rewrite (replace_nth_id _ _ _ Ht). destruct s; cbn. split; [exact HW|exact Hpub].
  - inversion H; subst. split; assumption.
Qed.

(* ------------------------------------------------------------------ whole runs *)
Lemma run_app_inv (P : list msg -> st -> Prop) c :
  (forall pre s m s' b, P pre s -> step c s m = Ok (s', b) -> P (pre ++ [m]) s') ->
  forall ms pre s s' rets, P pre s -> run c s ms = Ok (s', rets) -> P (pre ++ ms) s'.
Proof.
  intros Hstep. induction ms as [|m r IH]; intros pre s s' rets HP H; cbn in H.
  - inversion H; subst. rewrite app_nil_r. exact HP.
  - destruct (step c s m) as [[s1 b]| |] eqn:Es; cbn [bind] in H; try discriminate.
    destruct (run c s1 r) as [[s2 bs]| |] eqn:Er; cbn [bind] in H; try discriminate.
    inversion H; subst s2 rets; clear H.
    replace (pre ++ m :: r) with ((pre ++ [m]) ++ r) by (rewrite <- app_assoc; reflexivity).
    eapply IH; [|exact Er]. eapply Hstep; eassumption.
Qed.

Lemma Inv_init c fs : Inv c [] (init_st fs).
Proof.
  split; [|reflexivity]. constructor; cbn.
  - intros k i H. discriminate.
  - intros i t H. destruct i; discriminate.
  - intros i d H. discriminate.
Qed.

Lemma run_Inv c fs ms s rets : run c (init_st fs) ms = Ok (s, rets) -> Inv c ms s.
Proof.
  intros H. change ms with ([] ++ ms).
  apply (run_app_inv (Inv c) c) with (s := init_st fs) (rets := rets); [|apply Inv_init|exact H].
  intros pre s0 m s' b HI Hs. eapply step_inv; eassumption.
Qed.

(* whatever the package sequence: a transfer that is Complete holds exactly packages 1..n of the log *)
Theorem complete_implies_exact c fs ms s rets i t :
  run c (init_st fs) ms = Ok (s, rets) ->
  nth_error (s_transfers s) i = Some t -> t_state t = Complete ->
  exists pk : list (N * list N),
    sublist pk (ops_for c (t_key t) ms) /\
    map fst pk = nums 1 (length pk) /\
    t_size t = lenN (concat (map snd pk)) /\
    (forall d, saved_bytes s i = Some d -> d = concat (map snd pk)) /\
    (forall p, t_saved t = Some p -> lookup_path p (s_fs s) = Some (concat (map snd pk))) /\
    (t_data t = [] \/ t_data t = concat (map snd pk)) /\
    ((exists m f, In m ms /\ flst_of c m = Some (t_key t, f) /\ t_name t = f_name f /\
                  N.of_nat (length pk) = f_nr f /\ sizes_ok (f_bs f) (f_nr f) pk /\
                  (f_size f = 0 \/ f_size f = lenN (concat (map snd pk))))
     \/ (t_name t = MISSING_FLST /\ Forall (fun op => lenN (snd op) <= t_bs t) pk)).
Proof.
  intros Hrun Ht Hst. destruct (run_Inv _ _ _ _ _ Hrun) as [HI _].
  destruct (inv_t _ _ _ HI i t Ht) as [acc [T1 [[T2 T3] T4]]].
  exists acc. destruct T1 as [S1 S2 S3 S4 S5 S6 S7 S8 S9 S10 S11].
  assert (Hsz : t_size t = lenN (concat (map snd acc))).
  { rewrite <- S4. destruct T4 as [[m [f [_ [_ [_ [_ [_ [_ [_ [_ [_ [A10 _]]]]]]]]]]]]|[_ [_ [_ [_ [R5 _]]]]]]; [apply A10; exact Hst|auto]. }
  split; [exact S1|]. split; [exact S2|]. split; [exact Hsz|].
  split; [intros d Hd; apply (T2 d Hd)|]. split; [intros p Hp; apply (T3 p Hp)|]. split; [exact S9|].
  destruct T4 as [[m [f [A1 [A2 [A3 [A4 [A5 [A6 [A7 [A8 [A9 [A10 A11]]]]]]]]]]]]|[R1 [R2 [R3 [R4 [R5 R6]]]]]].
  - left. exists m, f. destruct (A10 Hst) as [B1 [B2 B3]]. repeat split; auto; try lia.
  - right. auto.
Qed.

(* a Complete transfer stays Complete, and what is reported (the published tree) shows the current state *)
Theorem published_states_current c fs ms s rets :
  run c (init_st fs) ms = Ok (s, rets) ->
  map (fun t => (t_key t, t_state t)) (s_pub s) = map (fun t => (t_key t, t_state t)) (s_transfers s).
Proof. intros H. destruct (run_Inv _ _ _ _ _ H) as [_ Hp]. exact Hp. Qed.

(* only data of Complete transfers is handed out by the save command *)
Theorem saved_only_complete c fs ms s rets i d :
  run c (init_st fs) ms = Ok (s, rets) -> saved_bytes s i = Some d ->
  exists t, nth_error (s_transfers s) i = Some t /\ t_state t = Complete.
Proof.
  intros H Hd. destruct (run_Inv _ _ _ _ _ H) as [HI _].
  pose proof (inv_comp _ _ _ HI i d Hd) as Hl. apply nth_error_Some in Hl.
  destruct (nth_error (s_transfers s) i) as [t|] eqn:Et; [|contradiction].
  exists t. split; [reflexivity|]. destruct (inv_t _ _ _ HI i t Et) as [acc [_ [[T2 _] _]]]. apply (T2 d Hd).
Qed.

(* ------------------------------------------------------------------ auto save: confinement, no overwrite *)
(* a single normal path component: not empty, no separator, neither "." nor ".." *)
Definition single_normal (b : list N) : Prop :=
  b <> [] /\ ~ In SLASH b /\ b <> [DOT] /\ b <> [DOT; DOT].

Lemma split_slash_no_slash p : forall cur c, ~ In SLASH cur -> In c (split_slash cur p) -> ~ In SLASH c.
Proof.
  induction p as [|b r IH]; intros cur c Hcur Hin; cbn in Hin.
  - destruct Hin as [<-|[]]. intros H. apply in_rev in H. contradiction.
  - destruct (b =? SLASH) eqn:E.
    + destruct Hin as [<-|Hin].
      * intros H. apply in_rev in H. contradiction.
      * eapply IH; [|exact Hin]. intros [].
    + eapply IH; [|exact Hin]. intros [H|H]; [|contradiction]. apply N.eqb_neq in E. congruence.
Qed.

Lemma file_name_back_spec l s : file_name_back l = Some s -> In s l /\ s <> [] /\ s <> [DOT] /\ s <> [DOT; DOT].
Proof.
  induction l as [|c r IH]; cbn; intros H; [discriminate|].
  destruct (bytes_eqb c []) eqn:E1.
  { destruct (IH H) as [Ha Hb]. split; [right; exact Ha|exact Hb]. }
  destruct (bytes_eqb c [DOT]) eqn:E2.
  { destruct r; [discriminate|]. destruct (IH H) as [Ha Hb]. split; [right; exact Ha|exact Hb]. }
  destruct (bytes_eqb c [DOT; DOT]) eqn:E3; [discriminate|].
  inversion H; subst s. split; [left; reflexivity|].
  repeat split; intros Hc; subst c; cbn in *; discriminate.
Qed.

Lemma file_name_of_single_normal p s : file_name_of p = Some s -> single_normal s.
Proof.
  unfold file_name_of. intros H. apply file_name_back_spec in H. destruct H as [Hin [H1 [H2 H3]]].
  split; [exact H1|]. split; [|split; assumption].
  apply in_rev in Hin. eapply split_slash_no_slash; [|exact Hin]. intros [].
Qed.

Lemma dec_digits_digits fuel : forall n acc, Forall (fun d => 48 <= d <= 57) acc -> Forall (fun d => 48 <= d <= 57) (dec_digits fuel n acc).
Proof.
  induction fuel as [|f IH]; intros n acc Ha; cbn [dec_digits]; [exact Ha|].
  assert (Hd : Forall (fun d => 48 <= d <= 57) ((48 + n mod 10) :: acc)).
  { constructor; [|exact Ha]. assert (Hm : n mod 10 < 10) by (apply N.mod_upper_bound; discriminate). cbn beta. generalize dependent (n mod 10). intros r Hr. lia. }
  destruct (n / 10 =? 0); [exact Hd|apply IH; exact Hd].
Qed.

Lemma base_name_single_normal t : single_normal (base_name t).
Proof.
  unfold base_name. destruct (file_name_of (t_name t)) as [s|] eqn:E; [eapply file_name_of_single_normal; exact E|].
  assert (Hd : Forall (fun d => 48 <= d <= 57) (dec (serial_of t))) by (apply dec_digits_digits; constructor).
  split; [discriminate|]. split; [|split; discriminate].
  intros H. apply in_app_or in H. destruct H as [H|H].
  - cbn in H. unfold SLASH in H. repeat (destruct H as [H|H]; [discriminate|]). contradiction.
  - apply in_app_or in H. destruct H as [H|H].
    + rewrite Forall_forall in Hd. apply Hd in H. unfold SLASH in H. lia.
    + cbn in H. unfold SLASH in H. destruct H as [H|[]]. discriminate.
Qed.

(* Path::join with a single normal component appends it to the directory *)
Lemma path_join_single dir base : single_normal base ->
  path_join dir base = base /\ dir = [] \/
  (dir <> [] /\ last dir 0 = SLASH /\ path_join dir base = dir ++ base) \/
  (dir <> [] /\ last dir 0 <> SLASH /\ path_join dir base = dir ++ SLASH :: base).
Proof.
  intros [H1 [H2 _]]. unfold path_join. destruct base as [|b r]; [contradiction|].
  destruct (b =? SLASH) eqn:E; [apply N.eqb_eq in E; exfalso; apply H2; left; auto|].
  destruct dir as [|d dr]; [left; auto|]. right.
  destruct (last (d :: dr) 0 =? SLASH) eqn:El.
  - left. apply N.eqb_eq in El. repeat split; auto; discriminate.
  - right. apply N.eqb_neq in El. repeat split; auto; discriminate.
Qed.

(* the file system after one message: unchanged, or one new file at dir/base_name that did not exist *)
Definition fs_grow (c : cfg) (fs fs' : list (list N * list N)) : Prop :=
  fs' = fs \/ exists t d, fs' = (path_join (save_dir c) (base_name t), d) :: fs /\
                          path_exists fs (path_join (save_dir c) (base_name t)) = false.

Lemma check_auto_save_fs c t fs : fs_grow c fs (snd (check_auto_save c t fs)).
Proof.
  unfold check_auto_save. destruct (c_glob c) as [g|]; [|left; reflexivity].
  destruct (tstate_eqb (t_state t) Complete && negb (bytes_eqb (t_data t) []) && g (t_name t)); [|left; reflexivity].
  destruct (negb (path_exists fs (path_join (save_dir c) (base_name t)))) eqn:E; cbn; [|left; reflexivity].
  right. exists t, (t_data t). split; [reflexivity|]. apply negb_true_iff in E. exact E.
Qed.

Lemma update_state_fs s s' : update_state s = Ok s' -> s_fs s' = s_fs s.
Proof.
  unfold update_state, add_chk. destruct (s_gen s + 1 <=? u32max); cbn [bind]; [|discriminate].
  intros H. inversion H. reflexivity.
Qed.

Lemma after_change_fs c s i t s' : after_change c s i t = Ok s' -> fs_grow c (s_fs s) (s_fs s').
Proof.
  unfold after_change. intros H. destruct (tstate_eqb (t_state t) Complete).
  - pose proof (check_auto_save_fs c t (s_fs s)) as Hg. destruct (check_auto_save c t (s_fs s)) as [t1 fs1].
    apply update_state_fs in H. cbn in H, Hg. rewrite H. exact Hg.
  - apply update_state_fs in H. cbn in H. rewrite H. left. reflexivity.
Qed.

Lemma step_fs c s m s' b : step c s m = Ok (s', b) -> fs_grow c (s_fs s) (s_fs s').
Proof.
  unfold step. intros H. destruct (classify c m).
  - unfold step_flst in H. destruct ((0 <? f_nr (parse_flst (m_args m))) && (0 <? f_bs (parse_flst (m_args m)))); cbn [bind] in H.
    2:{ inversion H. left. reflexivity. }
    destruct (with_capacity _); cbn [bind] in H; try discriminate.
    destruct (update_state _) as [s1| |] eqn:Eu; cbn [bind] in H; try discriminate. inversion H; subst.
    apply update_state_fs in Eu. left. rewrite Eu. reflexivity.
  - unfold step_flda in H. destruct (flda_args (m_args m)) as [[[serial pnr] raw]|]; cbn [bind] in H.
    2:{ inversion H. left. reflexivity. }
    destruct (flda_apply _ _ _ _ _) as [s1| |] eqn:Ef; cbn [bind] in H; try discriminate. inversion H; subst. clear H.
    unfold flda_apply in Ef. destruct (lookup_key _ _) as [i|].
    + destruct (nth_error _ _) as [t|]; [|discriminate].
      destruct (add_flda t pnr raw) as [[t' ch]| |]; cbn [bind] in Ef; try discriminate. destruct ch.
      * eapply after_change_fs. exact Ef.
      * inversion Ef. left. reflexivity.
    + destruct (pnr =? 1); [|inversion Ef; left; reflexivity].
      destruct (with_capacity _); cbn [bind] in Ef; try discriminate.
      destruct (add_flda _ _ _) as [[t' ch]| |]; cbn [bind] in Ef; try discriminate.
      apply update_state_fs in Ef. left. rewrite Ef. reflexivity.
  - unfold step_flfi in H. destruct (flfi_apply _ _ _) as [s1| |] eqn:Ef; cbn [bind] in H; try discriminate. inversion H; subst. clear H.
    unfold flfi_apply in Ef. destruct (lookup_key _ _) as [i|]; [|inversion Ef; left; reflexivity].
    destruct (nth_error _ _) as [t|]; [|discriminate].
    destruct (check_finished t true) as [[t' ch]| |]; cbn [bind] in Ef; try discriminate. destruct ch.
    + eapply after_change_fs. exact Ef.
    + inversion Ef. left. reflexivity.
  - inversion H. left. reflexivity.
Qed.

Lemma path_exists_cons fs p q d : path_exists ((q, d) :: fs) p = true -> p = q \/ path_exists fs p = true.
Proof.
  unfold path_exists. cbn. destruct (bytes_eqb p q) eqn:E; [left; apply bytes_eqb_spec; exact E|right; exact H].
Qed.

(* never overwrites: every file that existed keeps its content *)
Theorem autosave_no_overwrite c fs ms s rets p d :
  run c (init_st fs) ms = Ok (s, rets) -> lookup_path p fs = Some d -> lookup_path p (s_fs s) = Some d.
Proof.
  intros H Hp.
  refine (run_app_inv (fun _ s => lookup_path p (s_fs s) = Some d) c _ ms [] (init_st fs) s rets Hp H).
  intros pre s0 m s' b H0 Hs. apply step_fs in Hs. destruct Hs as [->|[t [d0 [-> He]]]]; [exact H0|].
  apply lookup_path_cons_new; assumption.
Qed.

(* never writes outside: every file that exists after the run existed before or is dir/<single normal component> *)
Theorem autosave_confined c fs ms s rets p :
  run c (init_st fs) ms = Ok (s, rets) -> path_exists (s_fs s) p = true ->
  path_exists fs p = true \/ exists base, single_normal base /\ p = path_join (save_dir c) base.
Proof.
  intros H.
  refine (run_app_inv (fun _ s => path_exists (s_fs s) p = true ->
     path_exists fs p = true \/ exists base, single_normal base /\ p = path_join (save_dir c) base) c _ ms [] (init_st fs) s rets _ H);
    [|auto].
  intros pre s0 m s' b H0 Hs Hp. apply step_fs in Hs. destruct Hs as [E|[t [d0 [E He]]]]; rewrite E in Hp; [auto|].
  apply path_exists_cons in Hp. destruct Hp as [->|Hp]; [|auto].
  right. exists (base_name t). split; [apply base_name_single_normal|reflexivity].
Qed.

(* ------------------------------------------------------------------ what one message does to one transfer *)
(* the transfer key a message addresses *)
Definition msg_key (c : cfg) (m : msg) : option key :=
  match classify c m with
  | KFlst => Some (m_ecu m, m_lc m, f_serial (parse_flst (m_args m)))
  | KFlda => match flda_args (m_args m) with Some (serial, _, _) => Some (m_ecu m, m_lc m, serial) | None => None end
  | KFlfi => Some (m_ecu m, m_lc m, flfi_serial (m_args m))
  | KOther => None
  end.

Lemma update_state_shape s s' :
  update_state s = Ok s' ->
  s_transfers s' = map ho_t (s_transfers s) /\ s_idx s' = s_idx s /\
  s_completed s' = taken 0 (s_transfers s) ++ s_completed s /\ s_pub s' = map ho_t (s_transfers s).
Proof.
  unfold update_state, add_chk. destruct (s_gen s + 1 <=? u32max); cbn [bind]; [|discriminate].
  intros H. inversion H. cbn. auto.
Qed.

Lemma ho_t_id t : takes t = false -> ho_t t = t.
Proof. unfold ho_t. intros ->. reflexivity. Qed.

(* transfer i after update_state of a state where it does not hand over data *)
Lemma update_state_at s s' i t :
  update_state s = Ok s' -> nth_error (s_transfers s) i = Some t -> takes t = false ->
  nth_error (s_transfers s') i = Some t /\ lookup_nat i (s_completed s') = lookup_nat i (s_completed s) /\
  nth_error (s_pub s') i = Some t.
Proof.
  intros H Ht Hk. apply update_state_shape in H. destruct H as [E1 [_ [E3 E4]]].
  rewrite E1, E3, E4, nth_error_map, Ht. cbn. rewrite (ho_t_id _ Hk). split; [reflexivity|]. split; [|reflexivity].
  rewrite lookup_nat_app, lookup_taken_none; [reflexivity|]. intros t0. rewrite Nat.sub_0_r, Ht. intros E. inversion E; subst. exact Hk.
Qed.

Lemma after_change_other c s j t1 s' i t :
  after_change c s j t1 = Ok s' -> i <> j -> nth_error (s_transfers s) i = Some t -> takes t = false ->
  nth_error (s_transfers s') i = Some t /\ lookup_nat i (s_completed s') = lookup_nat i (s_completed s) /\ s_idx s' = s_idx s.
Proof.
  unfold after_change. intros H Hne Ht Hk.
  destruct (if tstate_eqb (t_state t1) Complete then check_auto_save c t1 (s_fs s) else (t1, s_fs s)) as [t2 fs2].
  pose proof (update_state_shape _ _ H) as [_ [E2 _]].
  apply (update_state_at _ _ i t) in H; [|cbn; rewrite nth_error_replace_other by auto; exact Ht|exact Hk].
  cbn in *. destruct H as [H1 [H2 _]]. auto.
Qed.

Lemma push_update_at s t0 s' i t :
  update_state (push_transfer s t0) = Ok s' -> nth_error (s_transfers s) i = Some t -> takes t = false ->
  nth_error (s_transfers s') i = Some t /\ lookup_nat i (s_completed s') = lookup_nat i (s_completed s) /\
  s_idx s' = (t_key t0, length (s_transfers s)) :: s_idx s.
Proof.
  intros H Ht Hk. pose proof (update_state_shape _ _ H) as [_ [E2 _]].
  apply (update_state_at _ _ i t) in H; [|cbn; rewrite nth_error_app1; [exact Ht|apply nth_error_Some; rewrite Ht; discriminate]|exact Hk].
  cbn in *. destruct H as [H1 [H2 _]]. auto.
Qed.

(* a step either leaves transfer i (and its handed-over data) alone, or applies add_flda / check_finished(true) to it *)
Lemma step_at c s m s' b i t :
  step c s m = Ok (s', b) -> nth_error (s_transfers s) i = Some t -> takes t = false ->
  (s_idx s' = s_idx s \/ exists k', s_idx s' = (k', length (s_transfers s)) :: s_idx s /\ msg_key c m = Some k') /\
  ((nth_error (s_transfers s') i = Some t /\ lookup_nat i (s_completed s') = lookup_nat i (s_completed s))
   \/ (exists km pnr raw t1 ch, flda_op c m = Some (km, (pnr, raw)) /\ lookup_key km (s_idx s) = Some i /\
         add_flda t pnr raw = Ok (t1, ch) /\
         (if ch then after_change c s i t1 = Ok s' else s' = put_transfer s i t1))
   \/ (exists km t1 ch, classify c m = KFlfi /\ msg_key c m = Some km /\ lookup_key km (s_idx s) = Some i /\
         check_finished t true = Ok (t1, ch) /\
         (if ch then after_change c s i t1 = Ok s' else s' = put_transfer s i t1))).
Proof.
  intros H Ht Hk. unfold step in H. unfold msg_key, flda_op. destruct (classify c m) eqn:Ec.
  - unfold step_flst in H. destruct ((0 <? f_nr (parse_flst (m_args m))) && (0 <? f_bs (parse_flst (m_args m)))); cbn [bind] in H.
    2:{ inversion H; subst. auto. }
    destruct (with_capacity _); cbn [bind] in H; try discriminate.
    destruct (update_state _) as [s1| |] eqn:Eu; cbn [bind] in H; try discriminate. inversion H; subst s1 b; clear H.
    destruct (push_update_at _ _ _ _ _ Eu Ht Hk) as [H1 [H2 H3]]. split; [right; eexists; split; [exact H3|reflexivity]|left; auto].
  - unfold step_flda in H. destruct (flda_args (m_args m)) as [[[serial pnr] raw]|]; cbn [bind] in H.
    2:{ inversion H; subst. auto. }
    destruct (flda_apply _ _ _ _ _) as [s1| |] eqn:Ef; cbn [bind] in H; try discriminate. inversion H; subst s1 b; clear H.
    unfold flda_apply in Ef. destruct (lookup_key _ _) as [j|] eqn:El.
    + destruct (nth_error (s_transfers s) j) as [tj|] eqn:Ej; [|discriminate].
      destruct (add_flda tj pnr raw) as [[t' ch]| |] eqn:Ea; cbn [bind] in Ef; try discriminate.
      destruct (Nat.eq_dec i j) as [->|Hne].
      * rewrite Ht in Ej. inversion Ej; subst tj. split.
        { left. destruct ch; [|inversion Ef; reflexivity]. unfold after_change in Ef.
          destruct (if tstate_eqb _ _ then _ else _) as [t2 fs2]. apply update_state_shape in Ef. cbn in Ef. tauto. }
        right. left. exists (m_ecu m, m_lc m, serial), pnr, raw, t', ch. repeat split; auto.
        destruct ch; [exact Ef|inversion Ef; reflexivity].
      * destruct ch.
        -- destruct (after_change_other _ _ _ _ _ _ _ Ef Hne Ht Hk) as [H1 [H2 H3]]. auto.
        -- inversion Ef; subst s'. cbn. rewrite nth_error_replace_other by auto. auto.
    + destruct (pnr =? 1); [|inversion Ef; subst; auto].
      destruct (with_capacity _) as [cap0| |]; cbn [bind] in Ef; try discriminate.
      destruct (add_flda _ _ _) as [[t' ch]| |] eqn:Ea; cbn [bind] in Ef; try discriminate.
      destruct (push_update_at _ _ _ _ _ Ef Ht Hk) as [H1 [H2 H3]]. split; [|left; auto]. right.
      assert (Hkk : t_key t' = (m_ecu m, m_lc m, serial)).
      { unfold add_flda in Ea. assert (HT : TLoc [] (mkT (m_ecu m, m_lc m, serial) MISSING_FLST u64max MissingStart 0 0 1 0 0 cap0 [] None) []).
        { constructor; cbn; auto; try discriminate; try lia. apply sl_nil. intros _. unfold u64max. lia. }
        destruct (add_flda_TLoc _ _ _ _ _ _ _ HT Ea) as [acc' [_ HP]]. rewrite (fp_key _ _ _ _ _ _ _ HP). reflexivity. }
      rewrite Hkk in H3. eexists; split; [exact H3|reflexivity].
  - unfold step_flfi in H. destruct (flfi_apply _ _ _) as [s1| |] eqn:Ef; cbn [bind] in H; try discriminate. inversion H; subst s1 b; clear H.
    unfold flfi_apply in Ef. destruct (lookup_key _ _) as [j|] eqn:El; [|inversion Ef; subst; auto].
    destruct (nth_error (s_transfers s) j) as [tj|] eqn:Ej; [|discriminate].
    destruct (check_finished tj true) as [[t' ch]| |] eqn:Ea; cbn [bind] in Ef; try discriminate.
    destruct (Nat.eq_dec i j) as [->|Hne].
    + rewrite Ht in Ej. inversion Ej; subst tj. split.
      { left. destruct ch; [|inversion Ef; reflexivity]. unfold after_change in Ef.
        destruct (if tstate_eqb _ _ then _ else _) as [t2 fs2]. apply update_state_shape in Ef. cbn in Ef. tauto. }
      right. right. exists (m_ecu m, m_lc m, flfi_serial (m_args m)), t', ch. repeat split; auto.
      destruct ch; [exact Ef|inversion Ef; reflexivity].
    + destruct ch.
      * destruct (after_change_other _ _ _ _ _ _ _ Ef Hne Ht Hk) as [H1 [H2 H3]]. auto.
      * inversion Ef; subst s'. cbn. rewrite nth_error_replace_other by auto. auto.
  - inversion H; subst. auto.
Qed.

(* ------------------------------------------------------------------ the in-order run *)
(* the part of the log after the announcement, relative to key k: messages for other keys / unrelated
   messages, duplicates of packages already sent, and the packages [chunks] numbered next, next+1, ...
   in this order; after the last package anything may follow *)
Inductive InOrder (c : cfg) (k : key) : N -> list (list N) -> list msg -> Prop :=
| io_done next ms : InOrder c k next [] ms
| io_other next chunks m ms :
    msg_key c m <> Some k -> InOrder c k next chunks ms -> InOrder c k next chunks (m :: ms)
| io_dup next chunks m ms pnr raw :
    flda_op c m = Some (k, (pnr, raw)) -> 0 < pnr -> pnr < next ->
    InOrder c k next chunks ms -> InOrder c k next chunks (m :: ms)
| io_pkg next p chunks m ms :
    flda_op c m = Some (k, (next, p)) -> InOrder c k (next + 1) chunks ms -> InOrder c k next (p :: chunks) (m :: ms).

(* every package has the announced size, the one numbered nr may be shorter *)
Fixpoint chunks_ok (bs nr next : N) (chunks : list (list N)) : Prop :=
  match chunks with
  | [] => True
  | p :: r => (if next =? nr then lenN p <= bs else lenN p = bs) /\ chunks_ok bs nr (next + 1) r
  end.

Lemma flda_op_msg_key c m km op : flda_op c m = Some (km, op) -> msg_key c m = Some km.
Proof.
  unfold flda_op, msg_key. destruct (classify c m); try discriminate.
  destruct (flda_args (m_args m)) as [[[serial pnr] raw]|]; [|discriminate]. intros H. inversion H. reflexivity.
Qed.

Lemma step_flda_at c s m s' b k pnr raw i t :
  flda_op c m = Some (k, (pnr, raw)) -> lookup_key k (s_idx s) = Some i -> nth_error (s_transfers s) i = Some t ->
  step c s m = Ok (s', b) ->
  exists t1 ch, add_flda t pnr raw = Ok (t1, ch) /\ (if ch then after_change c s i t1 = Ok s' else s' = put_transfer s i t1).
Proof.
  unfold flda_op, step. destruct (classify c m); try discriminate.
  unfold step_flda. destruct (flda_args (m_args m)) as [[[serial pnr0] raw0]|]; [|discriminate].
  intros H El Ht Hs. inversion H; subst k pnr0 raw0; clear H.
  destruct (flda_apply _ _ _ _ _) as [s1| |] eqn:Ef; cbn [bind] in Hs; try discriminate. inversion Hs; subst s1 b; clear Hs.
  unfold flda_apply in Ef. rewrite El, Ht in Ef.
  destruct (add_flda t pnr raw) as [[t1 ch]| |]; cbn [bind] in Ef; try discriminate.
  exists t1, ch. split; [reflexivity|]. destruct ch; [exact Ef|inversion Ef; reflexivity].
Qed.

Ltac tcbn H := cbn [t_key t_name t_nr t_state t_size t_bs t_next t_recvd t_payload t_cap t_data t_saved set_recvd set_next set_payload set_data set_buf set_state set_size set_saved set_bs is_active] in H.

Ltac tcbng := cbn [t_key t_name t_nr t_state t_size t_bs t_next t_recvd t_payload t_cap t_data t_saved set_recvd set_next set_payload set_data set_buf set_state set_size set_saved set_bs is_active].

Section InOrderRun.
  Variables (c : cfg) (k : key) (name : list N) (nr size bs cap : N) (i : nat).
  Hypothesis Hbs : 0 < bs.
  Hypothesis Hnr : 0 < nr.

  Definition T_run (next : N) (done : list (list N)) : transfer :=
    mkT k name nr Started size bs next (next - 1) (lenN (concat done)) cap (if 0 <? cap then concat done else []) None.

  Definition Ph (next : N) (done : list (list N)) (s : st) : Prop :=
    lookup_key k (s_idx s) = Some i /\ (forall k', lookup_key k' (s_idx s) = Some i -> k' = k) /\
    nth_error (s_transfers s) i = Some (T_run next done).

  Definition Done (file : list N) (s : st) : Prop :=
    exists t, nth_error (s_transfers s) i = Some t /\ t_key t = k /\ t_state t = Complete /\ t_name t = name /\
              t_size t = lenN file /\ t_data t = [] /\ 0 < t_bs t /\ 1 <= t_next t /\ t_recvd t = t_next t - 1 /\
              (c_allow_save c = true -> file <> [] -> lookup_nat i (s_completed s) = Some file).

  Lemma takes_T_run next done : takes (T_run next done) = false.
  Proof. unfold takes. cbn. apply andb_false_r. Qed.

  Lemma Ph_other next done s m s' b :
    Ph next done s -> msg_key c m <> Some k -> step c s m = Ok (s', b) -> Ph next done s'.
  Proof.
    intros [P1 [P2 P3]] Hk Hs.
    destruct (step_at _ _ _ _ _ _ _ Hs P3 (takes_T_run _ _)) as [Hidx Hcase].
    assert (Hl : (i < length (s_transfers s))%nat) by (apply nth_error_Some; rewrite P3; discriminate).
    destruct Hcase as [[H1 _]|[[km [pnr [raw [t1 [ch [Hop [Hl2 _]]]]]]]|[km [t1 [ch [_ [Hmk [Hl2 _]]]]]]]].
    - split; [|split; [|exact H1]].
      + destruct Hidx as [->|[k' [-> Hk']]]; [exact P1|]. cbn. rewrite key_eqb_neq; [exact P1|]. congruence.
      + intros k0 H0. destruct Hidx as [E|[k' [E Hk']]]; rewrite E in H0; [auto|]. cbn in H0.
        destruct (key_eqb k0 k'); [inversion H0; lia|auto].
    - exfalso. apply Hk. apply P2 in Hl2. subst km. eapply flda_op_msg_key. exact Hop.
    - exfalso. apply Hk. apply P2 in Hl2. subst km. exact Hmk.
  Qed.

  Lemma Ph_dup next done s m s' b pnr raw :
    Ph next done s -> flda_op c m = Some (k, (pnr, raw)) -> 0 < pnr -> pnr < next ->
    step c s m = Ok (s', b) -> Ph next done s'.
  Proof.
    intros [P1 [P2 P3]] Hop Hp1 Hp2 Hs.
    destruct (step_flda_at _ _ _ _ _ _ _ _ _ _ Hop P1 P3 Hs) as [t1 [ch [Ha Hr]]].
    unfold add_flda, add_flda_gen, T_run in Ha. tcbn Ha.
    replace (bs =? 0) with false in Ha by (symmetry; apply N.eqb_neq; lia). rewrite andb_false_r in Ha. tcbn Ha.
    replace (0 <? pnr) with true in Ha by (symmetry; apply N.ltb_lt; exact Hp1).
    replace (pnr <? next) with true in Ha by (symmetry; apply N.ltb_lt; exact Hp2).
    cbn in Ha. inversion Ha; subst t1 ch; clear Ha. subst s'. unfold put_transfer. fold (T_run next done).
    rewrite (replace_nth_id _ _ _ P3). split; [exact P1|split; [exact P2|exact P3]].
  Qed.

  (* add_flda on the running transfer with the expected package *)
  Lemma add_flda_T_run next done p t1 ch :
    1 <= next -> next <= nr -> (if next =? nr then lenN p <= bs else lenN p = bs) ->
    add_flda (T_run next done) next p = Ok (t1, ch) ->
    (next < nr /\ t1 = T_run (next + 1) (done ++ [p]) /\ ch = false) \/
    (next = nr /\ ch = true /\
       ((size = 0 \/ size = lenN (concat (done ++ [p]))) /\
        t1 = mkT k name nr Complete (lenN (concat (done ++ [p]))) bs (next + 1) next (lenN (concat (done ++ [p]))) cap
                 (if 0 <? cap then concat (done ++ [p]) else []) None
        \/ ~ (size = 0 \/ size = lenN (concat (done ++ [p]))) /\ t_state t1 = Incomplete)).
  Proof.
    intros Hn1 Hn2 Hsz Ha. unfold add_flda, add_flda_gen, T_run in Ha. tcbn Ha.
    replace (bs =? 0) with false in Ha by (symmetry; apply N.eqb_neq; lia). rewrite andb_false_r in Ha. tcbn Ha.
    replace (next <? next) with false in Ha by (symmetry; apply N.ltb_irrefl). rewrite andb_false_r in Ha.
    unfold add_chk in Ha.
    destruct (next - 1 + 1 <=? u64max) eqn:E1; cbn [bind] in Ha; [|discriminate].
    tcbn Ha. rewrite N.eqb_refl in Ha. cbn [andb] in Ha.
    replace ((lenN p =? bs) || (next =? nr) && (lenN p <? bs)) with true in Ha.
    2:{ symmetry. destruct (next =? nr) eqn:En.
        - destruct (lenN p =? bs) eqn:E2; [reflexivity|]. apply N.eqb_neq in E2. cbn. apply N.ltb_lt. lia.
        - apply orb_true_iff. left. apply N.eqb_eq. exact Hsz. }
    destruct (next + 1 <=? u64max) eqn:E2; cbn [bind] in Ha; [|discriminate].
    destruct (lenN (concat done) + lenN p <=? usizemax) eqn:E3; cbn [bind] in Ha; [|discriminate].
    assert (Hpl : lenN (concat done) + lenN p = lenN (concat (done ++ [p]))).
    { rewrite concat_app, lenN_app. cbn. rewrite app_nil_r. reflexivity. }
    assert (Hdata : (if 0 <? cap then (if 0 <? cap then concat done else []) ++ p else (if 0 <? cap then concat done else []))
                    = (if 0 <? cap then concat (done ++ [p]) else [])).
    { destruct (0 <? cap); [|reflexivity]. rewrite concat_app. cbn. rewrite app_nil_r. reflexivity. }
    tcbn Ha. rewrite Hdata, Hpl in Ha.
    unfold check_finished in Ha. tcbn Ha.
    assert (Hr : next - 1 + 1 = next) by lia. rewrite Hr in Ha.
    destruct (next =? nr) eqn:En.
    - apply N.eqb_eq in En. right. split; [exact En|]. subst next.
      replace (nr <? nr + 1) with true in Ha by (symmetry; apply N.ltb_lt; lia). cbn [andb] in Ha.
      destruct ((size =? 0) || (size =? lenN (concat (done ++ [p])))) eqn:Es.
      + inversion Ha; subst t1 ch. split; [reflexivity|]. left. apply orb_true_iff in Es. rewrite !N.eqb_eq in Es.
        split; [exact Es|]. reflexivity.
      + replace (nr <=? nr) with true in Ha by (symmetry; apply N.leb_le; lia).
        inversion Ha; subst t1 ch. split; [reflexivity|]. right. apply orb_false_iff in Es. rewrite !N.eqb_neq in Es.
        split; [tauto|reflexivity].
    - apply N.eqb_neq in En. left. assert (Hlt : next < nr) by lia. split; [exact Hlt|].
      replace (nr <? next + 1) with false in Ha by (symmetry; apply N.ltb_ge; lia). cbn [andb] in Ha.
      replace (nr <=? next) with false in Ha by (symmetry; apply N.leb_gt; lia).
      inversion Ha; subst t1 ch. split; [|reflexivity].
      unfold T_run, set_data, set_buf, set_payload, set_next, set_recvd.
      cbn [t_key t_name t_nr t_state t_size t_bs t_next t_recvd t_payload t_cap t_data t_saved]. f_equal. lia.
  Qed.

  Lemma Ph_pkg next done s m s' b p :
    Ph next done s -> flda_op c m = Some (k, (next, p)) -> 1 <= next -> next < nr -> lenN p = bs ->
    step c s m = Ok (s', b) -> Ph (next + 1) (done ++ [p]) s'.
  Proof.
    intros [P1 [P2 P3]] Hop Hn1 Hn2 Hsz Hs.
    destruct (step_flda_at _ _ _ _ _ _ _ _ _ _ Hop P1 P3 Hs) as [t1 [ch [Ha Hr]]].
    apply add_flda_T_run in Ha; try lia.
    2:{ replace (next =? nr) with false by (symmetry; apply N.eqb_neq; lia). exact Hsz. }
    destruct Ha as [[_ [-> ->]]|[Hc _]]; [|lia]. subst s'. unfold put_transfer. cbn.
    assert (Hl : (i < length (s_transfers s))%nat) by (apply nth_error_Some; rewrite P3; discriminate).
    split; [exact P1|split; [exact P2|]]. apply nth_error_replace_same. exact Hl.
  Qed.

  Lemma check_auto_save_fields t fs :
    t_key (fst (check_auto_save c t fs)) = t_key t /\ t_state (fst (check_auto_save c t fs)) = t_state t /\
    t_name (fst (check_auto_save c t fs)) = t_name t /\ t_size (fst (check_auto_save c t fs)) = t_size t /\
    t_bs (fst (check_auto_save c t fs)) = t_bs t /\ t_next (fst (check_auto_save c t fs)) = t_next t /\
    t_recvd (fst (check_auto_save c t fs)) = t_recvd t /\
    (c_allow_save c = true -> t_data (fst (check_auto_save c t fs)) = t_data t).
  Proof.
    unfold check_auto_save. destruct (c_glob c) as [g|]; [|cbn; tauto].
    destruct (tstate_eqb (t_state t) Complete && negb (bytes_eqb (t_data t) []) && g (t_name t)); [|cbn; tauto].
    destruct (negb (path_exists fs (path_join (save_dir c) (base_name t)))); cbn [fst t_cap set_saved].
    - destruct (c_allow_save c); cbn; [tauto|]. destruct (0 <? t_cap t); cbn; repeat split; intros; discriminate.
    - destruct (c_allow_save c); cbn; [tauto|]. destruct (0 <? t_cap t); cbn; repeat split; intros; discriminate.
  Qed.

  Lemma Ph_last next done s m s' b p :
    Ph next done s -> flda_op c m = Some (k, (next, p)) -> 1 <= next -> next = nr -> lenN p <= bs ->
    (size = 0 \/ size = lenN (concat (done ++ [p]))) -> (c_allow_save c = true -> 0 < cap) ->
    step c s m = Ok (s', b) -> Done (concat (done ++ [p])) s'.
  Proof.
    intros [P1 [P2 P3]] Hop Hn1 Hn2 Hsz Hsize Hcap Hs.
    destruct (step_flda_at _ _ _ _ _ _ _ _ _ _ Hop P1 P3 Hs) as [t1 [ch [Ha Hr]]].
    apply add_flda_T_run in Ha; try lia.
    2:{ replace (next =? nr) with true by (symmetry; apply N.eqb_eq; exact Hn2). exact Hsz. }
    destruct Ha as [[Hc _]|[_ [-> [[_ ->]|[Hc _]]]]]; [lia| |contradiction].
    set (file := concat (done ++ [p])) in *.
    unfold after_change in Hr. cbn [t_state tstate_eqb] in Hr.
    match type of Hr with context [check_auto_save c ?t0 ?fs0] => 
      pose proof (check_auto_save_fields t0 fs0) as HF; destruct (check_auto_save c t0 fs0) as [t4 fs4] end.
    cbn [fst] in HF. cbn [t_key t_state t_name t_size t_bs t_next t_recvd t_data] in HF.
    destruct HF as [F1 [F2 [F3 [F4 [F5 [F6 [F7 F8]]]]]]].
    assert (Hl : (i < length (s_transfers s))%nat) by (apply nth_error_Some; rewrite P3; discriminate).
    apply update_state_shape in Hr. cbn in Hr. destruct Hr as [E1 [_ [E3 _]]].
    exists (ho_t t4). rewrite E1, nth_error_map, nth_error_replace_same by exact Hl. cbn [option_map].
    destruct (ho_t_static t4) as [G1 [G2 [_ [G4 [_ [G6 [G7 [_ G9]]]]]]]].
    rewrite G1, G2, G4, G6, G7, G9, F1, F2, F3, F4, F5, F6.
    assert (Hrec : t_recvd (ho_t t4) = next) by (unfold ho_t; destruct (takes t4); cbn; exact F7).
    rewrite Hrec. repeat split; auto; try lia.
    - unfold ho_t. destruct (takes t4) eqn:Et; [reflexivity|]. unfold takes in Et. rewrite F2 in Et. cbn in Et.
      rewrite andb_true_r in Et. apply negb_false_iff, bytes_eqb_spec in Et. exact Et.
    - intros Hc Hne. rewrite E3, lookup_nat_app.
      assert (Hd : t_data t4 = file).
      { rewrite F8 by auto. apply Hcap in Hc. apply N.ltb_lt in Hc. rewrite Hc. reflexivity. }
      assert (Htk : takes t4 = true).
      { unfold takes. rewrite F2, Hd. cbn. rewrite andb_true_r. apply negb_true_iff. apply bytes_eqb_nil_false. exact Hne. }
      pose proof (lookup_taken_some (replace_nth i t4 (s_transfers s)) i t4 (nth_error_replace_same _ _ _ Hl) Htk 0%nat) as Hlk.
      cbn in Hlk. rewrite Hlk, Hd. reflexivity.
  Qed.

  Lemma Done_step file s m s' b : Done file s -> step c s m = Ok (s', b) -> Done file s'.
  Proof.
    intros [t [D1 [D2 [D3 [D4 [D5 [D6 [D7 [D8 [D9 D10]]]]]]]]]] Hs.
    assert (Htk : takes t = false) by (unfold takes; rewrite D6; reflexivity).
    assert (Hl : (i < length (s_transfers s))%nat) by (apply nth_error_Some; rewrite D1; discriminate).
    destruct (step_at _ _ _ _ _ _ _ Hs D1 Htk) as [_ Hcase].
    assert (Hsame : s' = put_transfer s i t -> Done file s').
    { intros ->. exists t. unfold put_transfer. cbn. rewrite nth_error_replace_same by exact Hl. repeat split; auto. }
    destruct Hcase as [[H1 H2]|[[km [pnr [raw [t1 [ch [_ [_ [Ha Hr]]]]]]]]|[km [t1 [ch [_ [_ [_ [Ha Hr]]]]]]]]].
    - exists t. rewrite H2. repeat split; auto.
    - unfold add_flda, add_flda_gen in Ha.
      replace (t_bs t =? 0) with false in Ha by (symmetry; apply N.eqb_neq; lia). rewrite andb_false_r in Ha.
      rewrite D3 in Ha. cbn in Ha. inversion Ha; subst t1 ch. auto.
    - unfold check_finished, sub_chk in Ha.
      replace (1 <=? t_next t) with true in Ha by (symmetry; apply N.leb_le; exact D8). cbn [bind] in Ha.
      rewrite D9, N.eqb_refl, D3 in Ha. inversion Ha; subst t1 ch. auto.
  Qed.

  Lemma Done_run file ms : forall s s' rets, Done file s -> run c s ms = Ok (s', rets) -> Done file s'.
  Proof.
    induction ms as [|m r IH]; intros s s' rets HD H; cbn in H.
    - inversion H; subst. exact HD.
    - destruct (step c s m) as [[s1 b]| |] eqn:Es; cbn [bind] in H; try discriminate.
      destruct (run c s1 r) as [[s2 bs0]| |] eqn:Er; cbn [bind] in H; try discriminate.
      inversion H; subst s2 rets. eapply IH; [|exact Er]. eapply Done_step; eassumption.
  Qed.

  Lemma InOrder_run next chunks post :
    InOrder c k next chunks post ->
    forall s done s' rets,
      Ph next done s -> chunks <> [] -> 1 <= next -> next + N.of_nat (length chunks) = nr + 1 ->
      chunks_ok bs nr next chunks ->
      (size = 0 \/ size = lenN (concat (done ++ chunks))) -> (c_allow_save c = true -> 0 < cap) ->
      run c s post = Ok (s', rets) -> Done (concat (done ++ chunks)) s'.
  Proof.
    induction 1 as [next ms|next chunks m ms Hk Hio IH|next chunks m ms pnr raw Hop Hp1 Hp2 Hio IH|next p chunks m ms Hop Hio IH];
      intros s done s' rets HP Hne Hn1 Hcnt Hok Hsize Hcap Hrun.
    - contradiction.
    - cbn in Hrun. destruct (step c s m) as [[s1 b]| |] eqn:Es; cbn [bind] in Hrun; try discriminate.
      destruct (run c s1 ms) as [[s2 bs0]| |] eqn:Er; cbn [bind] in Hrun; try discriminate. inversion Hrun; subst s2 rets.
      apply (IH s1 done s' bs0); auto. eapply Ph_other; eassumption.
    - cbn in Hrun. destruct (step c s m) as [[s1 b]| |] eqn:Es; cbn [bind] in Hrun; try discriminate.
      destruct (run c s1 ms) as [[s2 bs0]| |] eqn:Er; cbn [bind] in Hrun; try discriminate. inversion Hrun; subst s2 rets.
      apply (IH s1 done s' bs0); auto. eapply Ph_dup; eassumption.
    - cbn in Hrun. destruct (step c s m) as [[s1 b]| |] eqn:Es; cbn [bind] in Hrun; try discriminate.
      destruct (run c s1 ms) as [[s2 bs0]| |] eqn:Er; cbn [bind] in Hrun; try discriminate. inversion Hrun; subst s2 rets.
      cbn [chunks_ok] in Hok. destruct Hok as [Hsz Hok]. cbn [length] in Hcnt.
      replace (done ++ p :: chunks) with ((done ++ [p]) ++ chunks) in * by (rewrite <- app_assoc; reflexivity).
      destruct chunks as [|q chunks].
      + (* last package *)
        assert (Hnn : next = nr) by (cbn in Hcnt; lia).
        rewrite app_nil_r in *. eapply Done_run; [|exact Er].
        eapply Ph_last; eauto. rewrite Hnn, N.eqb_refl in Hsz. exact Hsz.
      + assert (Hlt : next < nr) by (cbn [length] in Hcnt; lia).
        apply (IH s1 (done ++ [p]) s' bs0); auto; try discriminate; try lia.
        eapply Ph_pkg; eauto. replace (next =? nr) with false in Hsz by (symmetry; apply N.eqb_neq; lia). exact Hsz.
  Qed.
End InOrderRun.

Lemma run_app c : forall a b s s' rets,
  run c s (a ++ b) = Ok (s', rets) -> exists s1 r1 r2, run c s a = Ok (s1, r1) /\ run c s1 b = Ok (s', r2).
Proof.
  induction a as [|m a IH]; intros b s s' rets H; cbn in H.
  - exists s, [], rets. split; [reflexivity|exact H].
  - destruct (step c s m) as [[s1 b0]| |] eqn:Es; cbn [bind] in H; try discriminate.
    destruct (run c s1 (a ++ b)) as [[s2 bs0]| |] eqn:Er; cbn [bind] in H; try discriminate.
    inversion H; subst s2 rets. destruct (IH _ _ _ _ Er) as [sa [r1 [r2 [Ha Hb]]]].
    exists sa, (b0 :: r1), r2. split; [|exact Hb]. cbn. rewrite Es. cbn [bind]. rewrite Ha. reflexivity.
Qed.

Lemma flst_capacity_pos nr bs : 0 < nr -> 0 < bs -> 0 < flst_capacity nr bs.
Proof. intros H1 H2. unfold flst_capacity, MAX_PREALLOC, u64max. nia. Qed.

(* announcement, packages 1..n in order (interleaved with anything that does not address the key and
   with duplicates of packages already sent), then anything: Complete, the stored bytes are the file *)
Theorem inorder_complete_exact c fs pre mflst post k f chunks s rets :
  flst_of c mflst = Some (k, f) ->
  chunks <> [] -> N.of_nat (length chunks) = f_nr f -> chunks_ok (f_bs f) (f_nr f) 1 chunks ->
  (f_size f = 0 \/ f_size f = lenN (concat chunks)) ->
  InOrder c k 1 chunks post ->
  run c (init_st fs) (pre ++ mflst :: post) = Ok (s, rets) ->
  exists i t, nth_error (s_transfers s) i = Some t /\ t_key t = k /\ t_state t = Complete /\ t_name t = f_name f /\
              t_size t = lenN (concat chunks) /\
              (c_allow_save c = true -> concat chunks <> [] -> saved_bytes s i = Some (concat chunks)) /\
              nth_error (map (fun t => (t_key t, t_state t)) (s_pub s)) i = Some (k, Complete).
Proof.
  intros Hf Hne Hcnt Hok Hsize Hio Hrun.
  pose proof (published_states_current _ _ _ _ _ Hrun) as Hpub.
  destruct (run_app _ _ _ _ _ _ Hrun) as [s1 [r1 [r2 [Hpre Hrest]]]].
  destruct (run_Inv _ _ _ _ _ Hpre) as [HI1 _].
  cbn in Hrest. destruct (step c s1 mflst) as [[s2 b]| |] eqn:Es; cbn [bind] in Hrest; try discriminate.
  destruct (run c s2 post) as [[s3 r3]| |] eqn:Er; cbn [bind] in Hrest; try discriminate. inversion Hrest; subst s3 r2; clear Hrest.
  unfold flst_of in Hf. unfold step in Es. destruct (classify c mflst); try discriminate. cbn zeta in Hf.
  unfold step_flst in Es.
  destruct ((0 <? f_nr (parse_flst (m_args mflst))) && (0 <? f_bs (parse_flst (m_args mflst)))) eqn:Econd; [|discriminate].
  inversion Hf; subst k f; clear Hf. set (f := parse_flst (m_args mflst)) in *.
  set (k := (m_ecu mflst, m_lc mflst, f_serial f)) in *.
  apply andb_true_iff in Econd. destruct Econd as [En Eb]. apply N.ltb_lt in En, Eb.
  unfold with_capacity in Es.
  set (capv := if c_allow_save c || glob_matches c (f_name f) then flst_capacity (f_nr f) (f_bs f) else 0) in Es.
  destruct (capv <=? 9223372036854775807); cbn [bind] in Es; [|discriminate].
  match type of Es with context [update_state (push_transfer s1 ?tt)] => set (t0 := tt) in Es end.
  destruct (update_state (push_transfer s1 t0)) as [s2'| |] eqn:Eu; cbn [bind] in Es; try discriminate.
  inversion Es; subst s2' b; clear Es.
  set (i := length (s_transfers s1)).
  assert (Ht0 : t0 = T_run k (f_name f) (f_nr f) (f_size f) (f_bs f) capv 1 []).
  { unfold t0, T_run. cbn. destruct (0 <? capv); reflexivity. }
  assert (HPh : Ph k (f_name f) (f_nr f) (f_size f) (f_bs f) capv i 1 [] s2).
  { apply update_state_shape in Eu. cbn in Eu. destruct Eu as [E1 [E2 _]]. unfold Ph. rewrite E1, E2. split; [|split].
    - cbn [lookup_key]. rewrite key_eqb_refl. reflexivity.
    - intros k' Hk'. cbn [lookup_key] in Hk'. destruct (key_eqb k' k) eqn:E; [apply key_eqb_spec; exact E|].
      destruct (inv_idx _ _ _ HI1 k' i Hk') as [tx [Hx _]]. exfalso.
      assert (Hlt : (i < length (s_transfers s1))%nat) by (apply nth_error_Some; rewrite Hx; discriminate). unfold i in Hlt. lia.
    - rewrite nth_error_map, nth_error_app2 by (unfold i; lia). unfold i. rewrite Nat.sub_diag. cbn.
      rewrite <- Ht0. reflexivity. }
  assert (HD : Done c k (f_name f) i (concat chunks) s).
  { apply (InOrder_run c k (f_name f) (f_nr f) (f_size f) (f_bs f) capv i Eb En 1 chunks post Hio s2 [] s r3); auto; try lia.
    intros Ha. unfold capv. rewrite Ha. cbn. apply flst_capacity_pos; assumption. }
  destruct HD as [t [D1 [D2 [D3 [D4 [D5 [D6 [D7 [D8 [D9 D10]]]]]]]]]].
  exists i, t. repeat split; auto.
  rewrite Hpub, nth_error_map, D1. cbn. rewrite D2, D3. reflexivity.
Qed.

(* ------------------------------------------------------------------ no panic, bounded pre-allocation *)
(* DLT string / raw arguments carry a 16 bit length *)
Definition wf_msg (m : msg) : Prop := Forall (fun a => lenN (a_raw a) <= 65535) (m_args m).

(* counters of a transfer after n messages *)
Definition tb (n : N) (t : transfer) : Prop :=
  1 <= t_next t /\ t_next t <= t_recvd t + 1 /\ t_recvd t <= n /\ t_payload t <= 65535 * t_recvd t /\ t_cap t <= MAX_PREALLOC.
Definition CInv (n : N) (s : st) : Prop := s_gen s <= 1 + n /\ Forall (tb n) (s_transfers s).

Lemma tb_mono n n' t : tb n t -> n <= n' -> tb n' t.
Proof. unfold tb. intros [H1 [H2 [H3 [H4 H5]]]] Hn. repeat split; auto; lia. Qed.

Lemma flst_capacity_le nr bs : flst_capacity nr bs <= MAX_PREALLOC.
Proof. unfold flst_capacity. lia. Qed.

Lemma check_finished_false_ok t : exists t' ch, check_finished t false = Ok (t', ch) /\
  t_next t' = t_next t /\ t_recvd t' = t_recvd t /\ t_payload t' = t_payload t /\ t_cap t' = t_cap t.
Proof.
  unfold check_finished.
  destruct ((t_nr t <? t_next t) && ((t_size t =? 0) || (t_size t =? t_payload t))); [eexists; eexists; split; [reflexivity|cbn; auto]|].
  destruct (t_nr t <=? t_recvd t); eexists; eexists; (split; [reflexivity|cbn; auto]).
Qed.

Lemma add_flda_ok n t pnr raw :
  tb n t -> lenN raw <= 65535 -> n < u32max ->
  exists t' ch, add_flda t pnr raw = Ok (t', ch) /\ tb (n + 1) t'.
Proof.
  intros Ht Hraw Hn. unfold add_flda, add_flda_gen.
  set (t1 := if (pnr =? 1) && (t_bs t =? 0) then set_bs (lenN raw) t else t).
  assert (Ht1 : tb n t1) by (unfold t1; destruct ((pnr =? 1) && (t_bs t =? 0)); [exact Ht|exact Ht]).
  clearbody t1. destruct Ht1 as [B1 [B2 [B3 [B4 B5]]]]. unfold u32max in Hn.
  destruct (is_active (t_state t1)); [|exists t1, false; split; [reflexivity|unfold tb; repeat split; auto; lia]].
  destruct (true && (0 <? pnr) && (pnr <? t_next t1)); [exists t1, false; split; [reflexivity|unfold tb; repeat split; auto; lia]|].
  unfold add_chk. replace (t_recvd t1 + 1 <=? u64max) with true by (symmetry; apply N.leb_le; unfold u64max; lia).
  cbn [bind]. tcbng.
  match goal with |- context [if ?cond then _ else Ok (set_recvd _ _)] => destruct cond end.
  - replace (t_next t1 + 1 <=? u64max) with true by (symmetry; apply N.leb_le; unfold u64max; lia). cbn [bind].
    replace (t_payload t1 + lenN raw <=? usizemax) with true by (symmetry; apply N.leb_le; unfold usizemax, u64max; lia). cbn [bind].
    match goal with |- context [check_finished ?t2 false] => destruct (check_finished_false_ok t2) as [t' [ch [E [F1 [F2 [F3 F4]]]]]] end.
    exists t', ch. split; [exact E|]. unfold tb. rewrite F1, F2, F3, F4. tcbng. repeat split; auto; lia.
  - cbn [bind].
    match goal with |- context [check_finished ?t2 false] => destruct (check_finished_false_ok t2) as [t' [ch [E [F1 [F2 [F3 F4]]]]]] end.
    exists t', ch. split; [exact E|]. unfold tb. rewrite F1, F2, F3, F4. tcbng. repeat split; auto; lia.
Qed.

Lemma check_finished_true_ok n t : tb n t -> exists t' ch, check_finished t true = Ok (t', ch) /\ tb n t'.
Proof.
  intros [B1 [B2 [B3 [B4 B5]]]]. unfold check_finished, sub_chk.
  replace (1 <=? t_next t) with true by (symmetry; apply N.leb_le; exact B1). cbn [bind].
  destruct (t_recvd t =? t_next t - 1).
  - destruct (t_state t); try (exists t, false; split; [reflexivity|unfold tb; auto]).
    eexists; eexists; split; [reflexivity|]. cbn. destruct (t_size t =? 0); unfold tb; cbn; auto.
  - eexists; eexists; split; [reflexivity|]. unfold tb; cbn; auto.
Qed.

Lemma check_auto_save_tb c n t fs : tb n t -> tb n (fst (check_auto_save c t fs)).
Proof.
  intros Ht. unfold check_auto_save. destruct (c_glob c) as [g|]; [|exact Ht].
  destruct (tstate_eqb (t_state t) Complete && negb (bytes_eqb (t_data t) []) && g (t_name t)); [|exact Ht].
  destruct Ht as [B1 [B2 [B3 [B4 B5]]]].
  destruct (negb (path_exists fs (path_join (save_dir c) (base_name t)))); cbn [fst t_cap set_saved];
    destruct (negb (c_allow_save c) && (0 <? t_cap t)); unfold tb; cbn; repeat split; auto; lia.
Qed.

Lemma ho_t_tb n t : tb n t -> tb n (ho_t t).
Proof. intros [B1 [B2 [B3 [B4 B5]]]]. unfold ho_t. destruct (takes t); unfold tb; cbn; repeat split; auto; lia. Qed.

Lemma update_state_ok n s :
  s_gen s + 1 <= u32max -> Forall (tb n) (s_transfers s) ->
  exists s', update_state s = Ok s' /\ s_gen s' = s_gen s + 1 /\ Forall (tb n) (s_transfers s').
Proof.
  intros Hg Ht. unfold update_state, add_chk. replace (s_gen s + 1 <=? u32max) with true by (symmetry; apply N.leb_le; exact Hg).
  cbn [bind]. eexists. split; [reflexivity|]. cbn. split; [reflexivity|].
  apply Forall_forall. intros t Hin. apply in_map_iff in Hin. destruct Hin as [t0 [<- Hin]]. apply ho_t_tb.
  rewrite Forall_forall in Ht. auto.
Qed.

Lemma Forall_replace_nth {A} (P : A -> Prop) l i x : Forall P l -> P x -> Forall P (replace_nth i x l).
Proof.
  intros Hl Hx. revert i. induction Hl as [|y l Hy Hl IH]; intros [|i]; cbn; constructor; auto.
Qed.

Lemma after_change_ok c n s i t :
  s_gen s + 1 <= u32max -> Forall (tb n) (s_transfers s) -> tb n t ->
  exists s', after_change c s i t = Ok s' /\ s_gen s' = s_gen s + 1 /\ Forall (tb n) (s_transfers s').
Proof.
  intros Hg Hts Ht. unfold after_change.
  assert (H2 : tb n (fst (if tstate_eqb (t_state t) Complete then check_auto_save c t (s_fs s) else (t, s_fs s)))).
  { destruct (tstate_eqb (t_state t) Complete); [apply check_auto_save_tb; exact Ht|exact Ht]. }
  destruct (if tstate_eqb (t_state t) Complete then check_auto_save c t (s_fs s) else (t, s_fs s)) as [t1 fs1]. cbn [fst] in H2.
  match goal with |- context [update_state ?s0] => destruct (update_state_ok n s0) as [s' [E [G T]]] end.
  - cbn. exact Hg.
  - cbn. apply Forall_replace_nth; assumption.
  - exists s'. split; [exact E|]. split; [exact G|exact T].
Qed.

Lemma flda_args_wf m serial pnr raw : wf_msg m -> flda_args (m_args m) = Some (serial, pnr, raw) -> lenN raw <= 65535.
Proof.
  unfold wf_msg, flda_args. destruct (m_args m) as [|a0 [|a1 [|a2 [|a3 r]]]]; try discriminate.
  intros Hw H. destruct (arg_as_uint a1); [|discriminate]. destruct (arg_as_uint a2); [|discriminate].
  inversion H; subst. inversion Hw as [|? ? _ Hw1]. inversion Hw1 as [|? ? _ Hw2]. inversion Hw2 as [|? ? _ Hw3].
  inversion Hw3 as [|? ? Hfin _]. exact Hfin.
Qed.

Lemma step_ok c pre n s m :
  Inv0 c pre s -> CInv n s -> n + 2 <= u32max -> wf_msg m ->
  exists s' b, step c s m = Ok (s', b) /\ CInv (n + 1) s'.
Proof.
  intros HI [Hg Hts] Hn Hw.
  assert (Hts1 : Forall (tb (n + 1)) (s_transfers s)).
  { eapply Forall_impl; [|exact Hts]. intros t Ht. eapply tb_mono; [exact Ht|lia]. }
  assert (Hsame : CInv (n + 1) s) by (split; [lia|exact Hts1]).
  assert (Hgen : s_gen s + 1 <= u32max) by lia.
  unfold step. destruct (classify c m).
  - unfold step_flst. destruct ((0 <? f_nr (parse_flst (m_args m))) && (0 <? f_bs (parse_flst (m_args m)))); cbn [bind].
    2:{ eexists; eexists; split; [reflexivity|exact Hsame]. }
    unfold with_capacity.
    match goal with |- context [if ?x <=? 9223372036854775807 then _ else _] =>
      assert (Hc : x <= MAX_PREALLOC) by (destruct (c_allow_save c || glob_matches c (f_name (parse_flst (m_args m)))); [apply flst_capacity_le|unfold MAX_PREALLOC; lia]);
      replace (x <=? 9223372036854775807) with true by (symmetry; apply N.leb_le; unfold MAX_PREALLOC in Hc; lia) end.
    cbn [bind].
    match goal with |- context [update_state ?s0] => destruct (update_state_ok (n + 1) s0) as [s' [E [G T]]] end.
    + cbn. exact Hgen.
    + cbn. apply Forall_app. split; [exact Hts1|]. constructor; [|constructor]. unfold tb. cbn. repeat split; auto; lia.
    + rewrite E. cbn [bind]. eexists; eexists; split; [reflexivity|]. split; [rewrite G; cbn [s_gen push_transfer]; lia|exact T].
  - unfold step_flda. destruct (flda_args (m_args m)) as [[[serial pnr] raw]|] eqn:Ea.
    2:{ cbn [bind]. eexists; eexists; split; [reflexivity|exact Hsame]. }
    pose proof (flda_args_wf _ _ _ _ Hw Ea) as Hraw.
    assert (Hnn : n < u32max) by lia.
    unfold flda_apply. destruct (lookup_key (m_ecu m, m_lc m, serial) (s_idx s)) as [i|] eqn:El.
    + destruct (inv_idx _ _ _ HI _ _ El) as [t [Ht _]]. rewrite Ht.
      assert (Htb : tb n t) by (rewrite Forall_forall in Hts; apply Hts; eapply nth_error_In; exact Ht).
      destruct (add_flda_ok n t pnr raw Htb Hraw Hnn) as [t' [ch [E Tb']]]. rewrite E. cbn [bind]. destruct ch.
      * destruct (after_change_ok c (n + 1) s i t' Hgen Hts1 Tb') as [s' [E2 [G T]]]. rewrite E2. cbn [bind].
        eexists; eexists; split; [reflexivity|]. split; [lia|exact T].
      * cbn [bind]. eexists; eexists; split; [reflexivity|]. unfold put_transfer. split; cbn [s_gen s_transfers]; [lia|].
        apply Forall_replace_nth; assumption.
    + destruct (pnr =? 1) eqn:Ep.
      2:{ cbn [bind]. eexists; eexists; split; [reflexivity|exact Hsame]. }
      apply N.eqb_eq in Ep. subst pnr.
      unfold with_capacity.
      replace ((if c_allow_save c then 512 else 0) <=? 9223372036854775807) with true by (destruct (c_allow_save c); reflexivity).
      cbn [bind].
      match goal with |- context [add_flda ?t0 1 raw] =>
        destruct (add_flda_ok n t0 1 raw) as [t' [ch [E Tb']]]; [unfold tb; cbn; repeat split; try lia; destruct (c_allow_save c); unfold MAX_PREALLOC; lia|exact Hraw|exact Hnn|] end.
      rewrite E. cbn [bind].
      match goal with |- context [update_state ?s0] => destruct (update_state_ok (n + 1) s0) as [s' [E2 [G T]]] end.
      * cbn. exact Hgen.
      * cbn. apply Forall_app. split; [exact Hts1|]. constructor; [exact Tb'|constructor].
      * rewrite E2. cbn [bind]. eexists; eexists; split; [reflexivity|]. split; [rewrite G; cbn [s_gen push_transfer]; lia|exact T].
  - unfold step_flfi, flfi_apply. destruct (lookup_key _ (s_idx s)) as [i|] eqn:El.
    2:{ cbn [bind]. eexists; eexists; split; [reflexivity|exact Hsame]. }
    destruct (inv_idx _ _ _ HI _ _ El) as [t [Ht _]]. rewrite Ht.
    assert (Htb : tb (n + 1) t) by (rewrite Forall_forall in Hts1; apply Hts1; eapply nth_error_In; exact Ht).
    destruct (check_finished_true_ok (n + 1) t Htb) as [t' [ch [E Tb']]]. rewrite E. cbn [bind]. destruct ch.
    + destruct (after_change_ok c (n + 1) s i t' Hgen Hts1 Tb') as [s' [E2 [G T]]]. rewrite E2. cbn [bind].
      eexists; eexists; split; [reflexivity|]. split; [lia|exact T].
    + cbn [bind]. eexists; eexists; split; [reflexivity|]. unfold put_transfer. split; cbn [s_gen s_transfers]; [lia|].
      apply Forall_replace_nth; assumption.
  - eexists; eexists; split; [reflexivity|exact Hsame].
Qed.

Lemma run_ok c : forall ms pre n s,
  Inv c pre s -> CInv n s -> n + N.of_nat (length ms) + 1 <= u32max -> Forall wf_msg ms ->
  exists s' rets, run c s ms = Ok (s', rets).
Proof.
  induction ms as [|m r IH]; intros pre n s HI HC Hn Hw; cbn.
  - eexists; eexists; reflexivity.
  - inversion Hw as [|? ? Hm Hr]; subst. cbn [length] in Hn.
    destruct (step_ok c pre n s m (proj1 HI) HC) as [s1 [b [Es HC1]]]; [lia|exact Hm|].
    rewrite Es. cbn [bind].
    destruct (IH (pre ++ [m]) (n + 1) s1) as [s2 [rets Er]]; [eapply step_inv; eassumption|exact HC1|lia|exact Hr|].
    rewrite Er. cbn [bind]. eexists; eexists; reflexivity.
Qed.

(* no panic on any log of fewer than 2^32 - 2 messages whose arguments respect the 16 bit length field *)
Theorem no_panic c fs ms :
  N.of_nat (length ms) + 1 <= u32max -> Forall wf_msg ms -> exists s rets, run c (init_st fs) ms = Ok (s, rets).
Proof.
  intros Hn Hw. apply (run_ok c ms [] 0 (init_st fs)); [apply Inv_init| |lia|exact Hw].
  split; cbn; [lia|constructor].
Qed.

(* the buffer requested for any transfer is at most MAX_PREALLOC, whatever was announced *)
Theorem prealloc_bounded c fs ms s rets t :
  run c (init_st fs) ms = Ok (s, rets) -> In t (s_transfers s) -> t_cap t <= MAX_PREALLOC.
Proof.
  intros H. revert t.
  refine (run_app_inv (fun _ s => forall t, In t (s_transfers s) -> t_cap t <= MAX_PREALLOC) c _ ms [] (init_st fs) s rets _ H);
    [|intros t []].
  intros pre s0 m s' b H0 Hs. unfold step in Hs.
  assert (Hho : forall l, (forall t, In t l -> t_cap t <= MAX_PREALLOC) -> forall t, In t (map ho_t l) -> t_cap t <= MAX_PREALLOC).
  { intros l Hl t Hin. apply in_map_iff in Hin. destruct Hin as [t0 [<- Hin]]. unfold ho_t. destruct (takes t0); cbn; [lia|auto]. }
  assert (Hrep : forall i x, t_cap x <= MAX_PREALLOC -> forall t, In t (replace_nth i x (s_transfers s0)) -> t_cap t <= MAX_PREALLOC).
  { intros i x Hx t Hin. apply In_nth_error in Hin. destruct Hin as [j Hj]. apply nth_error_replace in Hj.
    destruct Hj as [[_ [-> _]]|[_ Hj]]; [exact Hx|]. apply H0. eapply nth_error_In. exact Hj. }
  assert (Hac : forall i x s1, t_cap x <= MAX_PREALLOC -> after_change c s0 i x = Ok s1 -> forall t, In t (s_transfers s1) -> t_cap t <= MAX_PREALLOC).
  { intros i x s1 Hx Ha. unfold after_change in Ha.
    assert (Hc2 : t_cap (fst (if tstate_eqb (t_state x) Complete then check_auto_save c x (s_fs s0) else (x, s_fs s0))) <= MAX_PREALLOC).
    { destruct (tstate_eqb (t_state x) Complete); [|exact Hx]. unfold check_auto_save. destruct (c_glob c); [|exact Hx].
      destruct (_ && _ && _); [|exact Hx]. destruct (negb (path_exists _ _)); cbn [fst t_cap set_saved];
        destruct (negb (c_allow_save c) && (0 <? t_cap x)); cbn; lia. }
    destruct (if tstate_eqb (t_state x) Complete then check_auto_save c x (s_fs s0) else (x, s_fs s0)) as [x1 fs1]. cbn [fst] in Hc2.
    apply update_state_shape in Ha. destruct Ha as [E _]. rewrite E. cbn. apply Hho. apply Hrep. exact Hc2. }
  assert (Hadd : forall t0 pnr raw t1 ch, add_flda t0 pnr raw = Ok (t1, ch) -> t_cap t1 = t_cap t0).
  { intros t0 pnr raw t1 ch Ha. unfold add_flda, add_flda_gen in Ha.
    set (tt := if (pnr =? 1) && (t_bs t0 =? 0) then set_bs (lenN raw) t0 else t0) in Ha.
    assert (Ht : t_cap tt = t_cap t0) by (unfold tt; destruct ((pnr =? 1) && (t_bs t0 =? 0)); reflexivity). clearbody tt.
    destruct (is_active (t_state tt)); [|inversion Ha; subst; exact Ht].
    destruct (true && (0 <? pnr) && (pnr <? t_next tt)); [inversion Ha; subst; exact Ht|].
    destruct (add_chk u64max (t_recvd tt) 1) as [rv| |]; cbn [bind] in Ha; try discriminate.
    match type of Ha with context [if ?cond then _ else Ok (set_recvd _ _)] => destruct cond end.
    - destruct (add_chk u64max _ 1) as [nx| |]; cbn [bind] in Ha; try discriminate.
      destruct (add_chk usizemax _ _) as [pl| |]; cbn [bind] in Ha; try discriminate.
      match type of Ha with check_finished ?t2 false = _ => destruct (check_finished_false_ok t2) as [t' [ch' [E [_ [_ [_ F4]]]]]]; rewrite E in Ha end.
      inversion Ha; subst. rewrite F4. cbn. exact Ht.
    - cbn [bind] in Ha.
      match type of Ha with check_finished ?t2 false = _ => destruct (check_finished_false_ok t2) as [t' [ch' [E [_ [_ [_ F4]]]]]]; rewrite E in Ha end.
      inversion Ha; subst. rewrite F4. cbn. exact Ht. }
  destruct (classify c m).
  - unfold step_flst in Hs. destruct (_ && _); cbn [bind] in Hs; [|inversion Hs; subst; exact H0].
    unfold with_capacity in Hs.
    match type of Hs with context [if ?x <=? 9223372036854775807 then _ else _] =>
      assert (Hc : x <= MAX_PREALLOC) by (destruct (c_allow_save c || glob_matches c (f_name (parse_flst (m_args m)))); [apply flst_capacity_le|unfold MAX_PREALLOC; lia]);
      destruct (x <=? 9223372036854775807) end; cbn [bind] in Hs; [|discriminate].
    destruct (update_state _) as [s1| |] eqn:Eu; cbn [bind] in Hs; try discriminate. inversion Hs; subst s1 b.
    apply update_state_shape in Eu. destruct Eu as [E _]. rewrite E. cbn. apply Hho. intros t Hin.
    apply in_app_or in Hin. destruct Hin as [Hin|[<-|[]]]; [auto|exact Hc].
  - unfold step_flda in Hs. destruct (flda_args (m_args m)) as [[[serial pnr] raw]|]; cbn [bind] in Hs; [|inversion Hs; subst; exact H0].
    destruct (flda_apply _ _ _ _ _) as [s1| |] eqn:Ef; cbn [bind] in Hs; try discriminate. inversion Hs; subst s1 b.
    unfold flda_apply in Ef. destruct (lookup_key _ _) as [i|].
    + destruct (nth_error (s_transfers s0) i) as [t0|] eqn:Et; [|discriminate].
      destruct (add_flda t0 pnr raw) as [[t1 ch]| |] eqn:Ea; cbn [bind] in Ef; try discriminate.
      assert (Hc1 : t_cap t1 <= MAX_PREALLOC) by (rewrite (Hadd _ _ _ _ _ Ea); apply H0; eapply nth_error_In; exact Et).
      destruct ch; [eapply Hac; eassumption|]. inversion Ef; subst s'. cbn. apply Hrep. exact Hc1.
    + destruct (pnr =? 1); [|inversion Ef; subst; exact H0].
      unfold with_capacity in Ef. destruct (_ <=? _); cbn [bind] in Ef; [|discriminate].
      destruct (add_flda _ pnr raw) as [[t1 ch]| |] eqn:Ea; cbn [bind] in Ef; try discriminate.
      apply Hadd in Ea. cbn in Ea.
      apply update_state_shape in Ef. destruct Ef as [E _]. rewrite E. cbn. apply Hho. intros t Hin.
      apply in_app_or in Hin. destruct Hin as [Hin|[<-|[]]]; [auto|]. rewrite Ea. destruct (c_allow_save c); unfold MAX_PREALLOC; lia.
  - unfold step_flfi in Hs. destruct (flfi_apply _ _ _) as [s1| |] eqn:Ef; cbn [bind] in Hs; try discriminate. inversion Hs; subst s1 b.
    unfold flfi_apply in Ef. destruct (lookup_key _ _) as [i|]; [|inversion Ef; subst; exact H0].
    destruct (nth_error (s_transfers s0) i) as [t0|] eqn:Et; [|discriminate].
    destruct (check_finished t0 true) as [[t1 ch]| |] eqn:Ea; cbn [bind] in Ef; try discriminate.
    assert (Hc1 : t_cap t1 <= MAX_PREALLOC).
    { apply check_finished_true_spec in Ea. destruct Ea as [_ [[_ [_ [_ ->]]]|[[_ [_ [_ ->]]]|[_ [_ ->]]]]]; cbn;
        try (destruct (t_size t0 =? 0); cbn); apply H0; eapply nth_error_In; exact Et. }
    destruct ch; [eapply Hac; eassumption|]. inversion Ef; subst s'. cbn. apply Hrep. exact Hc1.
  - inversion Hs; subst. exact H0.
Qed.

(* process_msg returns false (drop the message) only for FLDA messages and only when keepFLDA is off *)
Theorem drops_only_flda c s m s' : step c s m = Ok (s', false) -> classify c m = KFlda /\ c_keep_flda c = false.
Proof.
  unfold step. destruct (classify c m); intros H.
  - destruct (step_flst c s m); cbn in H; inversion H.
  - destruct (step_flda c s m); cbn in H; inversion H. auto.
  - destruct (step_flfi c s m); cbn in H; inversion H.
  - inversion H.
Qed.

(* ------------------------------------------------------------------ corollary: nothing missing, nothing resized *)
Lemma nth_error_nums n : forall s i, (i < n)%nat -> nth_error (nums s n) i = Some (s + N.of_nat i).
Proof.
  induction n as [|n IH]; intros s i Hi; [lia|]. destruct i as [|i]; cbn [nums nth_error].
  - f_equal. lia.
  - rewrite IH by lia. f_equal. lia.
Qed.

(* a Complete announced transfer: every package number 1..n occurs in the log for this key, with the announced size *)
Theorem complete_needs_every_package c fs ms s rets i t :
  run c (init_st fs) ms = Ok (s, rets) ->
  nth_error (s_transfers s) i = Some t -> t_state t = Complete ->
  (exists m f, In m ms /\ flst_of c m = Some (t_key t, f) /\ t_name t = f_name f /\
     forall j, 1 <= j -> j <= f_nr f ->
       exists raw, In (j, raw) (ops_for c (t_key t) ms) /\
                   (if j =? f_nr f then lenN raw <= f_bs f else lenN raw = f_bs f))
  \/ t_name t = MISSING_FLST.
Proof.
  intros Hrun Ht Hst.
  destruct (complete_implies_exact _ _ _ _ _ _ _ Hrun Ht Hst) as [pk [Hsub [Hnum [_ [_ [_ [_ [[m [f [H1 [H2 [H3 [H4 [H5 _]]]]]]]|[Hn _]]]]]]]]];
    [left|right; exact Hn].
  exists m, f. split; [exact H1|]. split; [exact H2|]. split; [exact H3|].
  intros j Hj1 Hj2. set (ix := N.to_nat (j - 1)).
  assert (Hix : (ix < length pk)%nat) by (unfold ix; lia).
  destruct (nth_error pk ix) as [[a raw]|] eqn:En; [|apply nth_error_None in En; lia].
  assert (Ha : a = j).
  { pose proof (map_nth_error fst _ _ En) as Hm. rewrite Hnum, nth_error_nums in Hm by exact Hix. cbn [fst] in Hm.
    assert (Hm' : 1 + N.of_nat ix = a) by congruence. rewrite <- Hm'. unfold ix. rewrite N2Nat.id. lia. }
  subst a. exists raw. apply nth_error_In in En. split; [eapply sublist_In; eassumption|].
  unfold sizes_ok in H5. rewrite Forall_forall in H5. apply (H5 _ En).
Qed.

(* ------------------------------------------------------------------ what is counted is what is stored *)
(* Modelling assumption (stated in Ft.v): a Vec grows on demand, its capacity is only the keep-data flag and never
   bounds file_data.  Then for every package sequence (with or without announcement): while a transfer is running
   and keeps data, the stored bytes are as many as the counted payload; once Complete, the reported file size is the
   counted payload and everything that can be saved (save command, auto-saved file) has exactly that length. *)
Theorem stored_equals_counted c fs ms s rets i t :
  run c (init_st fs) ms = Ok (s, rets) -> nth_error (s_transfers s) i = Some t ->
  (is_active (t_state t) = true -> 0 < t_cap t -> lenN (t_data t) = t_payload t) /\
  (t_state t = Complete ->
     t_size t = t_payload t /\
     (forall d, saved_bytes s i = Some d -> lenN d = t_size t) /\
     (forall p, t_saved t = Some p -> exists d, lookup_path p (s_fs s) = Some d /\ lenN d = t_size t) /\
     (t_data t = [] \/ lenN (t_data t) = t_size t)).
Proof.
  intros Hrun Ht. destruct (run_Inv _ _ _ _ _ Hrun) as [HI _].
  destruct (inv_t _ _ _ HI i t Ht) as [acc [T1 [[T2 T3] T4]]].
  destruct T1 as [S1 S2 S3 S4 S5 S6 S7 S8 S9 S10 S11]. split.
  - intros Ha Hc. rewrite (S8 Hc Ha). symmetry. exact S4.
  - intros Hst.
    assert (Hsz : t_size t = t_payload t).
    { destruct T4 as [[m [f [_ [_ [_ [_ [_ [_ [_ [_ [_ [A10 _]]]]]]]]]]]]|[_ [_ [_ [_ [R5 _]]]]]]; [apply A10; exact Hst|auto]. }
    split; [exact Hsz|]. rewrite Hsz, S4. split; [|split].
    + intros d Hd. destruct (T2 d Hd) as [_ ->]. reflexivity.
    + intros p Hp. destruct (T3 p Hp) as [_ Hl]. eexists. split; [exact Hl|reflexivity].
    + destruct S9 as [E|E]; [left; exact E|right; rewrite E; reflexivity].
Qed.
