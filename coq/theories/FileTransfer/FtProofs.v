(* C17 — proofs about the model FileTransfer/Ft.v *)
From Coq Require Import List NArith Bool Lia Arith.
From AdltV Require Import Base.Res Base.MachInt FileTransfer.Ft.
Import ListNotations.
Open Scope N_scope.

(* ------------------------------------------------------------------ small facts *)
Lemma bytes_eqb_spec a b : bytes_eqb a b = true <-> a = b.
Proof.
  revert b. induction a as [|x a IH]; intros [|y b]; cbn; split; intros H; try reflexivity; try discriminate.
  - apply andb_true_iff in H. destruct H as [H1 H2]. apply N.eqb_eq in H1. apply IH in H2. subst. reflexivity.
  - inversion H; subst. rewrite N.eqb_refl. cbn. apply IH. reflexivity.
Qed.
Lemma bytes_eqb_refl a : bytes_eqb a a = true.
Proof. apply bytes_eqb_spec. reflexivity. Qed.
Lemma bytes_eqb_nil_false a : bytes_eqb a [] = false <-> a <> [].
Proof.
  destruct a; cbn; split; intros H; try discriminate; try reflexivity. contradiction.
Qed.

Lemma key_eqb_spec a b : key_eqb a b = true <-> a = b.
Proof.
  destruct a as [[a1 a2] a3], b as [[b1 b2] b3]. cbn. rewrite !andb_true_iff, !N.eqb_eq.
  split; [intros [[? ?] ?]; subst; reflexivity|intros H; inversion H; auto].
Qed.
Lemma key_eqb_refl a : key_eqb a a = true.
Proof. apply key_eqb_spec. reflexivity. Qed.
Lemma key_eqb_neq a b : a <> b -> key_eqb a b = false.
Proof. intros H. destruct (key_eqb a b) eqn:E; [apply key_eqb_spec in E; contradiction|reflexivity]. Qed.

Lemma tstate_eqb_spec a b : tstate_eqb a b = true <-> a = b.
Proof. destruct a, b; cbn; split; intros H; try reflexivity; discriminate. Qed.

Lemma lenN_app {A} (a b : list A) : lenN (a ++ b) = lenN a + lenN b.
Proof. unfold lenN. rewrite app_length. lia. Qed.
Lemma lenN_nil {A} : lenN (@nil A) = 0.
Proof. reflexivity. Qed.

(* ------------------------------------------------------------------ sublists *)
Inductive sublist {A} : list A -> list A -> Prop :=
| sl_nil l : sublist [] l
| sl_skip x s l : sublist s l -> sublist s (x :: l)
| sl_take x s l : sublist s l -> sublist (x :: s) (x :: l).

Lemma sublist_app_r {A} (s l r : list A) : sublist s l -> sublist s (l ++ r).
Proof. induction 1; cbn; constructor; assumption. Qed.
Lemma sublist_single_end {A} (x : A) l : sublist [x] (l ++ [x]).
Proof. induction l; cbn; [apply sl_take, sl_nil|apply sl_skip; assumption]. Qed.
Lemma sublist_snoc {A} (s l : list A) x : sublist s l -> sublist (s ++ [x]) (l ++ [x]).
Proof.
  induction 1; cbn.
  - apply sublist_single_end.
  - apply sl_skip. assumption.
  - apply sl_take. assumption.
Qed.
Lemma sublist_refl {A} (l : list A) : sublist l l.
Proof. induction l; constructor; assumption. Qed.
Lemma sublist_app_l {A} (p s l : list A) : sublist s l -> sublist s (p ++ l).
Proof. induction p; cbn; intros H; [assumption|apply sl_skip; auto]. Qed.
Lemma sublist_In {A} (s l : list A) x : sublist s l -> In x s -> In x l.
Proof.
  induction 1; cbn; intros Hin; [contradiction|right; auto|].
  destruct Hin as [->|Hin]; [left; reflexivity|right; auto].
Qed.
Lemma sublist_length {A} (s l : list A) : sublist s l -> (length s <= length l)%nat.
Proof. induction 1; cbn; lia. Qed.

(* consecutive numbers *)
Fixpoint nums (start : N) (n : nat) : list N :=
  match n with O => [] | S k => start :: nums (start + 1) k end.
Lemma nums_snoc start n : nums start (S n) = nums start n ++ [start + N.of_nat n].
Proof.
  revert start. induction n as [|n IH]; intros start.
  - cbn. f_equal. lia.
  - change (nums start (S (S n))) with (start :: nums (start + 1) (S n)). rewrite IH. cbn [nums app].
    f_equal. f_equal. f_equal. lia.
Qed.
Lemma nums_length start n : length (nums start n) = n.
Proof. revert start; induction n; intros; cbn; auto. Qed.

(* ------------------------------------------------------------------ lookups, replace_nth *)
Lemma nth_error_replace_same {A} (l : list A) i x : (i < length l)%nat -> nth_error (replace_nth i x l) i = Some x.
Proof. revert i. induction l as [|y l IH]; intros [|i] H; cbn in *; try lia; auto. apply IH. lia. Qed.
Lemma nth_error_replace_other {A} (l : list A) i j x : i <> j -> nth_error (replace_nth i x l) j = nth_error l j.
Proof.
  revert i j. induction l as [|y l IH]; intros i j H.
  - destruct i; reflexivity.
  - destruct i as [|i], j as [|j]; cbn; try reflexivity; [exfalso; apply H; reflexivity|].
    apply IH. intros ->. apply H. reflexivity.
Qed.
Lemma replace_nth_length {A} (l : list A) i x : length (replace_nth i x l) = length l.
Proof. revert i. induction l as [|y l IH]; intros [|i]; cbn; auto. Qed.
Lemma nth_error_replace {A} (l : list A) i j x t :
  nth_error (replace_nth i x l) j = Some t ->
  (j = i /\ t = x /\ (i < length l)%nat) \/ (j <> i /\ nth_error l j = Some t).
Proof.
  intros H. destruct (Nat.eq_dec j i) as [->|Hne].
  - left. assert (Hl : (i < length l)%nat).
    { rewrite <- (replace_nth_length l i x). apply nth_error_Some. rewrite H. discriminate. }
    rewrite nth_error_replace_same in H by assumption. inversion H. auto.
  - right. rewrite nth_error_replace_other in H by auto. auto.
Qed.
Lemma replace_nth_id {A} (l : list A) i x : nth_error l i = Some x -> replace_nth i x l = l.
Proof. revert i. induction l as [|y l IH]; intros [|i] H; cbn in *; try discriminate; [inversion H; reflexivity|f_equal; auto]. Qed.

Lemma lookup_nat_app {A} i (a b : list (nat * A)) :
  lookup_nat i (a ++ b) = match lookup_nat i a with Some d => Some d | None => lookup_nat i b end.
Proof. induction a as [|[j d] a IH]; cbn; [reflexivity|]. destruct (Nat.eqb i j); auto. Qed.

Lemma lookup_taken i0 ts j d :
  lookup_nat j (taken i0 ts) = Some d ->
  exists t, (i0 <= j)%nat /\ nth_error ts (j - i0) = Some t /\ takes t = true /\ d = t_data t.
Proof.
  revert i0. induction ts as [|t r IH]; intros i0 H; cbn in H; [discriminate|].
  destruct (takes t) eqn:Et.
  - cbn in H. destruct (Nat.eqb j i0) eqn:E.
    + apply Nat.eqb_eq in E. subst. inversion H; subst. exists t. rewrite Nat.sub_diag. cbn. auto.
    + apply Nat.eqb_neq in E. apply IH in H. destruct H as [t' [H1 [H2 [H3 H4]]]].
      exists t'. split; [lia|]. split; [|auto]. replace (j - i0)%nat with (S (j - S i0)) by lia. exact H2.
  - apply IH in H. destruct H as [t' [H1 [H2 [H3 H4]]]].
    exists t'. split; [lia|]. split; [|auto]. replace (j - i0)%nat with (S (j - S i0)) by lia. exact H2.
Qed.
Lemma lookup_taken_none i0 ts j :
  (forall t, nth_error ts (j - i0) = Some t -> takes t = false) -> lookup_nat j (taken i0 ts) = None.
Proof.
  intros H. destruct (lookup_nat j (taken i0 ts)) eqn:E; [|reflexivity].
  apply lookup_taken in E. destruct E as [t [_ [H2 [H3 _]]]]. apply H in H2. congruence.
Qed.
Lemma lookup_taken_some ts j t :
  nth_error ts j = Some t -> takes t = true -> forall i0, lookup_nat (i0 + j) (taken i0 ts) = Some (t_data t).
Proof.
  revert j. induction ts as [|t0 r IH]; intros [|j] H Ht i0; cbn in H; try discriminate.
  - inversion H; subst. cbn. rewrite Ht. cbn. rewrite Nat.add_0_r, Nat.eqb_refl. reflexivity.
  - cbn. specialize (IH j H Ht (S i0)). replace (S i0 + j)%nat with (i0 + S j)%nat in IH by lia.
    destruct (takes t0); [|exact IH]. cbn. destruct (Nat.eqb (i0 + S j) i0) eqn:E; [apply Nat.eqb_eq in E; lia|exact IH].
Qed.

Lemma lookup_path_cons_new p q d fs x :
  lookup_path p fs = Some x -> path_exists fs q = false -> lookup_path p ((q, d) :: fs) = Some x.
Proof.
  intros H Hq. cbn. destruct (bytes_eqb p q) eqn:E; [|exact H].
  apply bytes_eqb_spec in E. subst. unfold path_exists in Hq. rewrite H in Hq. discriminate.
Qed.

(* ------------------------------------------------------------------ per-transfer invariant *)
(* [ops]: the (package number, payload) pairs of the FLDA messages seen so far for the transfer's key;
   [acc]: the packages that were accepted (appended) *)
Record TLoc (ops : list (N * list N)) (t : transfer) (acc : list (N * list N)) : Prop := {
  tl_sub : sublist acc ops;
  tl_nums : map fst acc = nums 1 (length acc);
  tl_next : t_next t = N.of_nat (length acc) + 1;
  tl_payload : t_payload t = lenN (concat (map snd acc));
  tl_recvd : N.of_nat (length acc) <= t_recvd t;
  tl_active : is_active (t_state t) = true -> t_next t <= t_nr t /\ t_recvd t < t_nr t;
  tl_complete : t_state t = Complete ->
                t_recvd t = N.of_nat (length acc) /\ (t_next t = t_nr t + 1 \/ t_nr t = u64max) /\ t_size t = t_payload t;
  tl_d1 : 0 < t_cap t -> is_active (t_state t) = true -> t_data t = concat (map snd acc);
  tl_d2 : t_data t = [] \/ t_data t = concat (map snd acc);
  tl_d3 : t_cap t = 0 -> t_data t = [];
  tl_ms : t_state t = MissingStart -> t_nr t = u64max
}.

Lemma TLoc_weaken ops x t acc : TLoc ops t acc -> TLoc (ops ++ x) t acc.
Proof. intros [H1 H2 H3 H4 H5 H6 H7 H8 H9 H10 H11]. constructor; auto. apply sublist_app_r. exact H1. Qed.

Lemma check_finished_false_spec t t' ch :
  check_finished t false = Ok (t', ch) ->
  (t' = set_state Complete (set_size (t_payload t) t) /\ ch = true /\ t_nr t < t_next t /\ (t_size t = 0 \/ t_size t = t_payload t))
  \/ (t' = set_state Incomplete t /\ ch = true /\ t_nr t <= t_recvd t)
  \/ (t' = t /\ ch = false /\ t_recvd t < t_nr t /\ ~ (t_nr t < t_next t /\ (t_size t = 0 \/ t_size t = t_payload t))).
Proof.
  unfold check_finished. intros H.
  destruct ((t_nr t <? t_next t) && ((t_size t =? 0) || (t_size t =? t_payload t))) eqn:E1.
  - inversion H; subst. left. apply andb_true_iff in E1. destruct E1 as [E1 E2]. apply N.ltb_lt in E1.
    apply orb_true_iff in E2. rewrite !N.eqb_eq in E2. auto.
  - destruct (t_nr t <=? t_recvd t) eqn:E2; inversion H; subst.
    + right. left. apply N.leb_le in E2. auto.
    + right. right. apply N.leb_gt in E2. repeat split; auto. intros [Ha Hb].
      apply N.ltb_lt in Ha. rewrite Ha in E1. cbn in E1. apply orb_false_iff in E1. rewrite !N.eqb_neq in E1.
      destruct E1, Hb; contradiction.
Qed.

Lemma check_finished_true_spec t t' ch :
  check_finished t true = Ok (t', ch) ->
  1 <= t_next t /\
  ((t_recvd t = t_next t - 1 /\ t_state t = MissingStart /\ ch = true /\
    t' = (let t1 := set_state Complete t in if t_size t1 =? 0 then set_size (t_payload t1) t1 else t1))
   \/ (t_recvd t = t_next t - 1 /\ t_state t <> MissingStart /\ ch = false /\ t' = t)
   \/ (t_recvd t <> t_next t - 1 /\ ch = true /\ t' = set_state Incomplete t)).
Proof.
  unfold check_finished, sub_chk. destruct (1 <=? t_next t) eqn:E0; cbn; [|discriminate].
  apply N.leb_le in E0. intros H. split; [exact E0|].
  destruct (t_recvd t =? t_next t - 1) eqn:E1.
  - apply N.eqb_eq in E1. destruct (t_state t) eqn:Es; inversion H; subst; cbn.
    + left. auto.
    + right. left. repeat split; auto. discriminate.
    + right. left. repeat split; auto. discriminate.
    + right. left. repeat split; auto. discriminate.
  - apply N.eqb_neq in E1. inversion H; subst. right. right. auto.
Qed.

Record flda_post (t t' : transfer) (acc acc' : list (N * list N)) (pnr : N) (raw : list N) (ch : bool) : Prop := {
  fp_key : t_key t' = t_key t;
  fp_name : t_name t' = t_name t;
  fp_nr : t_nr t' = t_nr t;
  fp_saved : t_saved t' = t_saved t;
  fp_cap : t_cap t' = t_cap t;
  fp_bs_le : t_bs t <= t_bs t';
  fp_bs_pos : 0 < t_bs t -> t_bs t' = t_bs t;
  fp_inactive : is_active (t_state t) = false ->
                t_state t' = t_state t /\ ch = false /\ acc' = acc /\ t_data t' = t_data t /\ t_size t' = t_size t;
  fp_nochange : ch = false -> t_state t' = t_state t;
  fp_ms : t_state t' = MissingStart -> t_state t = MissingStart;
  fp_started : t_state t' = Started -> t_state t = Started;
  fp_size_active : is_active (t_state t') = true -> t_size t' = t_size t;
  fp_size_complete : t_state t' = Complete -> is_active (t_state t) = true -> t_size t = 0 \/ t_size t = t_size t';
  fp_acc : acc' = acc \/
           (acc' = acc ++ [(pnr, raw)] /\ pnr = t_next t /\ (lenN raw = t_bs t' \/ (pnr = t_nr t /\ lenN raw < t_bs t')))
}.

Lemma concat_map_snd_snoc (acc : list (N * list N)) x :
  concat (map snd (acc ++ [x])) = concat (map snd acc) ++ snd x.
Proof. rewrite map_app, concat_app. cbn. rewrite app_nil_r. reflexivity. Qed.

Lemma add_flda_TLoc ops t acc pnr raw t' ch :
  TLoc ops t acc -> add_flda t pnr raw = Ok (t', ch) ->
  exists acc', TLoc (ops ++ [(pnr, raw)]) t' acc' /\ flda_post t t' acc acc' pnr raw ch.
Proof.
  intros HT H. unfold add_flda, add_flda_gen in H.
  set (t1 := if (pnr =? 1) && (t_bs t =? 0) then set_bs (lenN raw) t else t) in H.
  assert (Hbs : t_bs t <= t_bs t1 /\ (0 < t_bs t -> t_bs t1 = t_bs t)).
  { unfold t1. destruct ((pnr =? 1) && (t_bs t =? 0)) eqn:E; cbn; [|lia].
    apply andb_true_iff in E. destruct E as [_ E]. apply N.eqb_eq in E. lia. }
  assert (Ht1 : TLoc ops t1 acc).
  { unfold t1. destruct ((pnr =? 1) && (t_bs t =? 0)); [|exact HT].
    destruct HT as [H1 H2 H3 H4 H5 H6 H7 H8 H9 H10 H11]. constructor; cbn; auto. }
  assert (Hst : t_key t1 = t_key t /\ t_name t1 = t_name t /\ t_nr t1 = t_nr t /\ t_saved t1 = t_saved t /\
                t_cap t1 = t_cap t /\ t_state t1 = t_state t /\ t_data t1 = t_data t /\ t_size t1 = t_size t /\ t_next t1 = t_next t).
  { unfold t1. destruct ((pnr =? 1) && (t_bs t =? 0)); cbn; repeat split; reflexivity. }
  destruct Hst as [Hk [Hn [Hnr [Hsv [Hcap [Hstate [Hdata [Hsize Hnext]]]]]]]].
  clearbody t1.
  destruct (is_active (t_state t1)) eqn:Eact.
  2:{ inversion H; subst t' ch. exists acc. split; [apply TLoc_weaken; exact Ht1|].
      constructor; try tauto; try congruence; try lia;
        try (intros Hc; rewrite Hc in Eact; discriminate); try (intros _; repeat split; congruence). }
  assert (Eact0 : is_active (t_state t) = true) by congruence.
  destruct (true && (0 <? pnr) && (pnr <? t_next t1)) eqn:Edup.
  { (* duplicate of an already received package *)
    inversion H; subst t' ch. exists acc. split; [apply TLoc_weaken; exact Ht1|].
    constructor; try tauto; try congruence; try lia.
    - intros Hc. congruence.
    - intros _ _. right. congruence. }
  unfold add_chk in H.
  destruct (t_recvd t1 + 1 <=? u64max) eqn:Er; cbn [bind] in H; [|discriminate].
  destruct HT as [_ _ _ _ _ _ _ _ _ _ _].
  destruct Ht1 as [S1 S2 S3 S4 S5 S6 S7 S8 S9 S10 S11].
  specialize (S6 Eact). destruct S6 as [S6a S6b].
  destruct ((pnr =? t_next (set_recvd (t_recvd t1 + 1) t1)) &&
            ((lenN raw =? t_bs (set_recvd (t_recvd t1 + 1) t1)) ||
             ((t_next (set_recvd (t_recvd t1 + 1) t1) =? t_nr (set_recvd (t_recvd t1 + 1) t1)) &&
              (lenN raw <? t_bs (set_recvd (t_recvd t1 + 1) t1))))) eqn:Eacc; cbn [t_next t_bs t_nr set_recvd] in Eacc, H.
  - (* accepted *)
    apply andb_true_iff in Eacc. destruct Eacc as [Ep Esz]. apply N.eqb_eq in Ep.
    assert (Hsz : lenN raw = t_bs t1 \/ (pnr = t_nr t1 /\ lenN raw < t_bs t1)).
    { apply orb_true_iff in Esz. destruct Esz as [Esz|Esz]; [left; apply N.eqb_eq; exact Esz|right].
      apply andb_true_iff in Esz. destruct Esz as [Ea Eb]. apply N.eqb_eq in Ea. apply N.ltb_lt in Eb. split; [congruence|exact Eb]. }
    destruct (t_next t1 + 1 <=? u64max) eqn:En; cbn [bind] in H; [|discriminate].
    destruct (t_payload t1 + lenN raw <=? usizemax) eqn:Epl; cbn [bind] in H; [|discriminate].
    set (t2 := set_data _ _) in H.
    assert (HT2 : forall st' sz', 
               (st' = t_state t1 /\ t_recvd t1 + 1 < t_nr t1 /\ sz' = t_size t1 \/
                st' = Incomplete /\ sz' = t_size t1 \/
                st' = Complete /\ t_nr t1 < t_next t1 + 1 /\ sz' = t_payload t1 + lenN raw) ->
               TLoc (ops ++ [(pnr, raw)]) (set_state st' (set_size sz' t2)) (acc ++ [(pnr, raw)])).
    { intros st' sz' Hc. unfold t2. constructor; cbn.
      - apply sublist_snoc. exact S1.
      - rewrite map_app, app_length, S2. cbn. rewrite Nat.add_1_r, nums_snoc. f_equal. f_equal. lia.
      - rewrite app_length. cbn. lia.
      - rewrite concat_map_snd_snoc, lenN_app. cbn. lia.
      - rewrite app_length. cbn. lia.
      - intros Ha. destruct Hc as [[-> [Hc1 _]]|[[-> _]|[-> _]]]; [|discriminate|discriminate]. lia.
      - intros ->. destruct Hc as [[Hc _]|[[Hc _]|[_ [Hc1 Hc2]]]]; [rewrite <- Hc in Eact; discriminate|discriminate|].
        rewrite app_length. cbn. repeat split; try lia.
      - intros Hcap Ha. rewrite concat_map_snd_snoc. cbn. apply N.ltb_lt in Hcap. rewrite Hcap. rewrite (S8 (proj1 (N.ltb_lt _ _) Hcap) Eact). reflexivity.
      - rewrite concat_map_snd_snoc. cbn. destruct (0 <? t_cap t1) eqn:Ec.
        + right. apply N.ltb_lt in Ec. rewrite (S8 Ec Eact). reflexivity.
        + left. apply N.ltb_ge in Ec. apply S10. lia.
      - intros Hc0. rewrite Hc0. cbn. apply S10. exact Hc0.
      - intros ->. destruct Hc as [[Hc _]|[[Hc _]|[Hc _]]]; try discriminate. apply S11. auto. }
    apply check_finished_false_spec in H.
    assert (Hfr : t_key t2 = t_key t /\ t_name t2 = t_name t /\ t_nr t2 = t_nr t /\ t_saved t2 = t_saved t /\ t_cap t2 = t_cap t /\ t_bs t2 = t_bs t1 /\ t_state t2 = t_state t1 /\ t_size t2 = t_size t1
                  /\ t_next t2 = t_next t1 + 1 /\ t_recvd t2 = t_recvd t1 + 1 /\ t_payload t2 = t_payload t1 + lenN raw).
    { unfold t2. cbn. repeat split; congruence. }
    destruct Hfr as [F1 [F2 [F3 [F4 [F5 [F6 [F7 [F8 [F9 [F10 F11]]]]]]]]]].
    exists (acc ++ [(pnr, raw)]).
    destruct H as [[-> [-> [Ha Hb]]]|[[-> [-> Ha]]|[-> [-> [Ha Hb]]]]].
    + split.
      * replace (set_state Complete (set_size (t_payload t2) t2)) with (set_state Complete (set_size (t_payload t1 + lenN raw) t2)) by (rewrite F11; reflexivity).
        apply HT2. right. right. repeat split; lia.
      * constructor; cbn; try congruence; try lia.
        -- intros Hc. congruence.
        -- intros Hc. congruence.
        -- intros _ _. rewrite F8, F11 in Hb. rewrite F11. lia.
        -- right. split; [reflexivity|]. split; [congruence|]. rewrite F6. rewrite Hnr in Hsz. exact Hsz.
    + split.
      * replace (set_state Incomplete t2) with (set_state Incomplete (set_size (t_size t1) t2)).
        2:{ unfold t2. destruct t1; reflexivity. }
        apply HT2. right. left. auto.
      * constructor; cbn; try congruence; try lia.
        -- intros Hc. congruence.
        -- intros Hc. congruence.
        -- right. split; [reflexivity|]. split; [congruence|]. rewrite F6. rewrite Hnr in Hsz. exact Hsz.
    + split.
      * replace t2 with (set_state (t_state t1) (set_size (t_size t1) t2)) at 1.
        2:{ unfold t2. destruct t1; reflexivity. }
        apply HT2. left. repeat split; lia.
      * constructor; try congruence; try lia.
        -- intros Hc. congruence.
        -- intros Hc. rewrite Hc in Eact0. discriminate.
        -- right. split; [reflexivity|]. split; [congruence|]. rewrite F6. rewrite Hnr in Hsz. exact Hsz.
  - (* not accepted: counted only *)
    cbn [bind] in H. apply check_finished_false_spec in H. cbn [t_nr t_next t_recvd t_size t_payload set_recvd] in H.
    exists acc.
    assert (HT2 : forall st', (st' = t_state t1 /\ t_recvd t1 + 1 < t_nr t1 \/ st' = Incomplete) ->
                              TLoc (ops ++ [(pnr, raw)]) (set_state st' (set_recvd (t_recvd t1 + 1) t1)) acc).
    { intros st' Hc. constructor; cbn; auto.
      - apply sublist_app_r. exact S1.
      - lia.
      - intros Ha. destruct Hc as [[-> Hc]|->]; [lia|discriminate].
      - intros ->. destruct Hc as [[Hc _]|Hc]; [rewrite <- Hc in Eact; discriminate|discriminate].
      - intros Hcap Ha. destruct Hc as [[-> Hc]|->]; [auto|discriminate].
      - intros ->. destruct Hc as [[Hc _]|Hc]; [auto|discriminate]. }
    destruct H as [[-> [-> [Ha Hb]]]|[[-> [-> Ha]]|[-> [-> [Ha Hb]]]]].
    + exfalso. lia.
    + split; [apply HT2; right; reflexivity|].
      constructor; cbn; try congruence; try lia; try tauto.
      * intros Hc. congruence.
      * intros Hc. congruence.
    + split.
      * replace (set_recvd (t_recvd t1 + 1) t1) with (set_state (t_state t1) (set_recvd (t_recvd t1 + 1) t1)) by (destruct t1; reflexivity).
        apply HT2. left. split; [reflexivity|lia].
      * constructor; cbn; try congruence; try lia; try tauto.
        -- intros Hc. congruence.
        -- intros Hc. rewrite Hc in Eact0. discriminate.
Qed.
