(* Model of src/utils/mod.rs : buffer_sort_messages (lines 603-852) and what it calls
   (SortedDltMessage's Ord, DltMessage::timestamp_us, DltMessage::is_ctrl_request as a message flag).

   - the BinaryHeap<Reverse<SortedDltMessage>> is a list of (calculated time, message); `pop` may return
     ANY entry whose key (calculated_time_us, index) is minimal.  The choice is made by a function
     [pick : nat -> heap -> nat] (number of pops so far, current list representation) |-> position;
     a proposal that is not the position of a minimal entry is replaced by the first minimal position,
     so that every [pick] describes a legal run of a binary heap and every legal run is described by
     some [pick].  The theorems quantify over all [pick].
   - lc_map (BTreeMap cache of lifecycle start times, filled on first sight; 0 when the id is unknown or
     the evmap handle yields no map).  The evmap read handle is the function argument
     [lcs : nat -> nat -> id -> option start]: the table as it is when the message at input position i is
     looked up after np messages have been delivered (the table may change while the function runs: a
     concurrent writer, or the outflow closure itself).  [fixed t] is a table that does not change.
   - max_buffering_delays : HashMap ecu -> (lifecycle id, VecDeque<MaxBufferDelayEntry>, max) as an association
     list.  The only iteration over the HashMap is `max_by_key` whose result is used through its key value
     alone, so the iteration order is unobservable and not modelled.
   - all u64/u8 arithmetic that can overflow in a debug build is checked ([Panic]).
   - the outflow closure is assumed to return Ok (an Err makes the real function return early; that is the
     caller dropping the receiver, not part of the property).
   No proofs in this file. *)
From Coq Require Import List NArith Bool.
From AdltV Require Import Base.Res Base.MachInt.
Import ListNotations.
Open Scope N_scope.
Local Open Scope res_scope.

Definition US_PER_SEC : N := 1000000.
Definition YOUNG_DELAY : N := 1000 * US_PER_SEC.

(* the fields of DltMessage the function reads, plus [m_tag] standing for everything else
   (headers, payload, ...) which the function never touches *)
Record msg := mkmsg {
  m_index : N;     (* index: u32 *)
  m_rt : N;        (* reception_time_us: u64 *)
  m_ecu : N;       (* ecu: DltChar4 as a number *)
  m_ts : N;        (* timestamp_dms: u32 *)
  m_ctrl : bool;   (* is_ctrl_request() *)
  m_lc : N;        (* lifecycle: LifecycleId *)
  m_tag : N
}.

(* DltMessage::is_ctrl_request on the extended header, coded as 0 = no extended header,
   1 + verb_mstp_mtin otherwise:  (v >> 1) & 7 == 3 (TYPE_CONTROL)  &&  v >> 4 == 1 (request) *)
Definition is_ctrl_request (ext : N) : bool :=
  match ext with
  | 0 => false
  | _ => let v := ext - 1 in (((v / 2) mod 8) =? 3) && ((v / 16) =? 1)
  end.

(* ---------------------------------------------------------------- heap *)
(* SortedDltMessage { m, calculated_time_us } *)
Definition entry := (N * msg)%type.
Definition heap := list entry.

(* Ord for SortedDltMessage: calculated time, then index *)
Definition key_le (a b : entry) : bool :=
  (fst a <? fst b) || ((fst a =? fst b) && (m_index (snd a) <=? m_index (snd b))).

Definition is_min (h : heap) (e : entry) : bool := forallb (key_le e) h.

Fixpoint first_min_from (h all : heap) (k : nat) : nat :=
  match h with
  | [] => k
  | e :: r => if is_min all e then k else first_min_from r all (S k)
  end.

Definition valid_choice (h : heap) (k : nat) : bool :=
  match nth_error h k with Some e => is_min h e | None => false end.

Definition choose (k : nat) (h : heap) : nat :=
  if valid_choice h k then k else first_min_from h h 0.

Definition remove_nth (k : nat) (h : heap) : heap := firstn k h ++ skipn (S k) h.

(* BinaryHeap::pop on the min-heap: None iff empty (proved), else some minimal entry.
   BinaryHeap::peek returns an entry with the same key. *)
Definition pop_min (k : nat) (h : heap) : option (entry * heap) :=
  let k' := choose k h in
  match nth_error h k' with
  | Some e => if is_min h e then Some (e, remove_nth k' h) else None
  | None => None
  end.

Definition picker := nat -> heap -> nat.

(* ---------------------------------------------------------------- lifecycle start cache *)
Definition cache := list (N * N).
Fixpoint cache_get (c : cache) (id : N) : option N :=
  match c with
  | [] => None
  | (i, s) :: r => if i =? id then Some s else cache_get r id
  end.

(* get_lc_start_time *)
Definition get_lc_start (lcs : N -> option N) (c : cache) (id : N) : N * cache :=
  match cache_get c id with
  | Some t => (t, c)
  | None =>
      let s := match lcs id with Some s => s | None => 0 end in
      (s, (id, s) :: c)
  end.

(* calculated_time_us, already capped at the reception time (lines 808-818) *)
Definition calc_time (lcs : N -> option N) (c : cache) (m : msg) : res (N * cache) :=
  if m_ctrl m then Ok (m_rt m, c)
  else
    let '(s, c') := get_lc_start lcs c (m_lc m) in
    t <- add_chk u64max s (m_ts m * 100);;
    Ok (if m_rt m <? t then m_rt m else t, c').

(* ---------------------------------------------------------------- sliding window of delays *)
Record wentry := mkw { w_start : N; w_max : N }.           (* MaxBufferDelayEntry *)
Record ecu_st := mke { e_lc : N; e_win : list wentry; e_max : N }.  (* (lifecycle id, deque (front = head), max) *)
Definition delays := list (N * ecu_st).

Fixpoint d_get (d : delays) (ecu : N) : option ecu_st :=
  match d with
  | [] => None
  | (k, e) :: r => if k =? ecu then Some e else d_get r ecu
  end.
Fixpoint d_set (d : delays) (ecu : N) (e : ecu_st) : delays :=
  match d with
  | [] => [(ecu, e)]
  | (k, e0) :: r => if k =? ecu then (k, e) :: r else (k, e0) :: d_set r ecu e
  end.

(* deque.back() / split into (all but last, last) *)
Fixpoint split_last {A} (l : list A) : option (list A * A) :=
  match l with
  | [] => None
  | x :: r => match split_last r with None => Some ([], x) | Some (i, b) => Some (x :: i, b) end
  end.

Fixpoint max_wmax (l : list wentry) (acc : N) : N :=
  match l with [] => acc | x :: r => max_wmax r (N.max acc (w_max x)) end.

(* `if recalc_buffering_delay { entry.2 = entry.1.iter().max_by_key(..).unwrap().max_buffering_delay; recalc_max = true }` *)
Definition finish_entry (e : ecu_st) (recalc_delay recalc_thr : bool) : res (ecu_st * bool) :=
  if recalc_delay then
    match e_win e with
    | [] => Panic site_unwrap
    | x :: r => Ok (mke (e_lc e) (e_win e) (max_wmax r (w_max x)), true)
    end
  else Ok (e, recalc_thr).

(* body of update_max_buffering_delays up to (not including) `if recalc_max_buffer_time_us` (lines 717-769) *)
Definition update_entry (w : N) (e0 : ecu_st) (lc rt delay : N) : res (ecu_st * bool) :=
  (* is it from an older lifecycle? *)
  let '(e1, r1) := if e_lc e0 =? lc then (e0, false) else (mke lc [] delay, true) in
  (* insert_new = is_empty || back.start_time + US_PER_SEC < msg_reception_time_us *)
  insert_new <- match split_last (e_win e1) with
                | None => Ok true
                | Some (_, b) => s <- add_chk u64max (w_start b) US_PER_SEC;; Ok (s <? rt)
                end;;
  if (insert_new : bool) then
    (* do we need to remove one first? *)
    '(win2, rd) <- (if N.of_nat (length (e_win e1)) =? w then
                      match e_win e1 with
                      | [] => Panic site_unwrap                         (* front().unwrap() *)
                      | f :: rest => Ok (rest, w_max f =? e_max e1)     (* pop_front *)
                      end
                    else Ok (e_win e1, false));;
    let win3 := win2 ++ [mkw rt delay] in
    if e_max e1 <? delay then finish_entry (mke (e_lc e1) win3 delay) false true
    else finish_entry (mke (e_lc e1) win3 (e_max e1)) rd true
  else
    match split_last (e_win e1) with
    | None => Panic site_unwrap                                          (* back_mut().unwrap() *)
    | Some (init, b) =>
        if w_max b <? delay then
          let win' := init ++ [mkw (w_start b) delay] in
          if e_max e1 <? delay then finish_entry (mke (e_lc e1) win' delay) false true
          else finish_entry (mke (e_lc e1) win' (e_max e1)) false r1
        else finish_entry e1 false r1
    end.

(* the key closure of the `max_by_key` over all ECUs (lines 775-782) *)
Definition thr_key (w rt : N) (e : ecu_st) : res N :=
  match e_win e with
  | [] => Panic site_unwrap                                              (* front().unwrap() *)
  | f :: _ =>
      w1 <- sub_chk w 1;;                                                 (* windows_size_secs - 1 : u8 *)
      s <- add_chk u64max (w_start f) (w1 * US_PER_SEC);;
      Ok (if rt <? s then YOUNG_DELAY else e_max e)
  end.

Fixpoint thr_keys (w rt : N) (d : delays) : res (list N) :=
  match d with
  | [] => Ok []
  | (_, e) :: r => k <- thr_key w rt e;; ks <- thr_keys w rt r;; Ok (k :: ks)
  end.

(* new_max_buffer_time_us (lines 771-799) *)
Definition new_thr (w mind rt : N) (d : delays) : res N :=
  ks <- thr_keys w rt d;;
  match ks with
  | [] => Panic site_unwrap                                              (* max_by_key(..).unwrap() *)
  | k :: r => add_chk u64max mind (fold_left N.max r k)
  end.

(* update_max_buffering_delays: returns the new map and the new max_buffer_time_us *)
Definition update_delays (w mind : N) (d : delays) (thr ecu lc rt delay : N) : res (delays * N) :=
  let e0 := match d_get d ecu with Some e => e | None => mke lc [] 0 end in
  '(e', recalc) <- update_entry w e0 lc rt delay;;
  let d' := d_set d ecu e' in
  if (recalc : bool) then t <- new_thr w mind rt d';; Ok (d', t) else Ok (d', thr).

(* ---------------------------------------------------------------- main loop *)
Definition table := N -> option N.
Definition tables := nat -> nat -> table.
Definition fixed (t : table) : tables := fun _ _ => t.

(* A table entry (LifecycleItem = struct Lifecycle of src/lifecycle/mod.rs) as its public interface shows it.
   `get_lc_start_time` reads the FIELD `start_time` of the entry found under the message's lifecycle id and
   nothing else — in particular none of the derived times:
     resume_start_time() = start of the resumed lifecycle + 1 us when the entry is a resume (is_resume()) whose
                           start_time is <= the start recorded for the lifecycle it resumes, else start_time;
     resume_time()       = start_time + min timestamp - max(0, start_time - start of the resumed lifecycle);
     end_time()          = start_time + max timestamp (last reception time when that is 0);
     suspend_duration()  = max(0, start_time - start of the resumed lifecycle).
   [table_by f] is the table the sort would see if it read the entries through [f]; the model uses
   [table_of_items = table_by li_start]. *)
Record lc_item := mkitem {
  li_start : N;          (* start_time *)
  li_is_resume : bool;   (* is_resume() *)
  li_resume_start : N;   (* resume_start_time() *)
  li_resume_time : N;    (* resume_time() *)
  li_end : N;            (* end_time() *)
  li_suspend : N;        (* suspend_duration() *)
  li_nr : N              (* nr_msgs *)
}.
Definition item_table := N -> option lc_item.
Definition table_by (f : lc_item -> N) (t : item_table) : table :=
  fun id => match t id with Some it => Some (f it) | None => None end.
Definition table_of_items : item_table -> table := table_by li_start.
(* an entry that is not a resume, without messages carrying a timestamp: all times coincide *)
Definition plain_item (s : N) : lc_item := mkitem s false s s s 0 1.

(* s_pos: messages consumed so far; s_np: messages delivered so far *)
Record st := mkst { s_cache : cache; s_delays : delays; s_thr : N; s_heap : heap; s_np : nat; s_pos : nat }.

Definition init (mind : N) : st := mkst [] [] mind [] 0 0.

(* `while let Some(sm) = buffer.peek() { if sm.calc + max_buffer_time_us < rt { pop; outflow } else { break } }`
   fuel = number of entries in the heap (every iteration removes one) *)
Fixpoint release (pick : picker) (fuel : nat) (thr rt : N) (np : nat) (h : heap) : res (list entry * heap * nat) :=
  match pop_min (pick np h) h with
  | None => Ok ([], h, np)
  | Some (e, h') =>
      s <- add_chk u64max (fst e) thr;;
      if s <? rt then
        match fuel with
        | O => OutOfFuel
        | S f => '(out, h'', np') <- release pick f thr rt (S np) h';; Ok (e :: out, h'', np')
        end
      else Ok ([], h, np)
  end.

(* `while let Some(sm) = buffer.pop() { outflow(sm.0.m)?; }` *)
Fixpoint flush (pick : picker) (fuel : nat) (np : nat) (h : heap) : res (list entry) :=
  match pop_min (pick np h) h with
  | None => Ok []
  | Some (e, h') =>
      match fuel with
      | O => OutOfFuel
      | S f => out <- flush pick f (S np) h';; Ok (e :: out)
      end
  end.

(* body of `for m in inflow` *)
Definition process (pick : picker) (w mind : N) (lcs : tables) (s : st) (m : msg) : res (list entry * st) :=
  '(calc, c') <- calc_time (lcs (s_pos s) (s_np s)) (s_cache s) m;;
  delay <- sub_chk (m_rt m) calc;;
  '(d', thr') <- update_delays w mind (s_delays s) (s_thr s) (m_ecu m) (m_lc m) (m_rt m) delay;;
  let h := s_heap s ++ [(calc, m)] in
  '(out, h', np') <- release pick (length h) thr' (m_rt m) (s_np s) h;;
  Ok (out, mkst c' d' thr' h' np' (S (s_pos s))).

Fixpoint run_state (pick : picker) (w mind : N) (lcs : tables) (s : st) (input : list msg) : res (list entry * st) :=
  match input with
  | [] => Ok ([], s)
  | m :: r =>
      '(o, s') <- process pick w mind lcs s m;;
      '(o', s'') <- run_state pick w mind lcs s' r;;
      Ok (o ++ o', s'')
  end.

(* released entries (with their calculated times), in outflow order *)
Definition run_entries (pick : picker) (w mind : N) (lcs : tables) (input : list msg) : res (list entry) :=
  '(o, s) <- run_state pick w mind lcs (init mind) input;;
  o' <- flush pick (length (s_heap s)) (s_np s) (s_heap s);;
  Ok (o ++ o').

(* the sequence passed to the outflow closure *)
Definition run (pick : picker) (w mind : N) (lcs : tables) (input : list msg) : res (list msg) :=
  o <- run_entries pick w mind lcs input;; Ok (map snd o).

(* the picker that always proposes an invalid position: the first minimal entry is popped *)
Definition pick_first : picker := fun _ h => length h.

(* the picker reconstructed from an observed output: pop number n takes the entry carrying the n-th observed tag *)
Fixpoint find_tag (h : heap) (t : N) (k : nat) : nat :=
  match h with
  | [] => k
  | e :: r => if m_tag (snd e) =? t then k else find_tag r t (S k)
  end.
Definition pick_obs (tags : list N) : picker :=
  fun n h => match nth_error tags n with Some t => find_tag h t 0 | None => length h end.

(* ---------------------------------------------------------------- specification-side notions *)
(* the calculated time as the property words it: lifecycle start plus timestamp, capped at the reception
   time; the reception time for control requests *)
Definition lc_start (lcs : N -> option N) (id : N) : N := match lcs id with Some s => s | None => 0 end.
Definition calc_spec (lcs : N -> option N) (m : msg) : N :=
  if m_ctrl m then m_rt m else N.min (lc_start lcs (m_lc m) + m_ts m * 100) (m_rt m).
