(* Proofs about Sort/BufferSort.v *)
From Coq Require Import List NArith Bool Lia Permutation Sorted Arith.
From AdltV Require Import Base.Res Base.MachInt Sort.BufferSort.
Import ListNotations.
Open Scope N_scope.

(* ---------------------------------------------------------------- monad inversion *)
Lemma bind_ok' {A B} (r : res A) (f : A -> res B) b :
  bind r f = Ok b -> exists a, r = Ok a /\ f a = Ok b.
Proof. apply bind_ok. Qed.

Ltac inv_ok H :=
  match type of H with
  | bind _ _ = Ok _ =>
      let a := fresh "a" in let H1 := fresh H "a" in let H2 := fresh H "b" in
      apply bind_ok' in H; destruct H as [a [H1 H2]]; cbn beta in H2
  | Ok _ = Ok _ => inversion H; subst; clear H
  end.

Lemma add_chk_ok max a b c : add_chk max a b = Ok c -> c = a + b /\ a + b <= max.
Proof.
  unfold add_chk. destruct (a + b <=? max) eqn:E; [|discriminate].
  intros H. inversion H. split; [reflexivity|apply N.leb_le; exact E].
Qed.
Lemma sub_chk_ok a b c : sub_chk a b = Ok c -> c = a - b /\ b <= a.
Proof.
  unfold sub_chk. destruct (b <=? a) eqn:E; [|discriminate].
  intros H. inversion H. split; [reflexivity|apply N.leb_le; exact E].
Qed.

(* ---------------------------------------------------------------- the key order *)
Definition kle (a b : entry) : Prop := fst a < fst b \/ (fst a = fst b /\ m_index (snd a) <= m_index (snd b)).

Lemma key_le_spec a b : key_le a b = true <-> kle a b.
Proof.
  unfold key_le, kle. rewrite orb_true_iff, andb_true_iff, N.ltb_lt, N.eqb_eq, N.leb_le. reflexivity.
Qed.
Lemma kle_refl a : kle a a.
Proof. right. split; [reflexivity|lia]. Qed.
Lemma kle_trans a b c : kle a b -> kle b c -> kle a c.
Proof. unfold kle. intros [H1|[H1 H1']] [H2|[H2 H2']]; [left|left|left|right]; try lia. Qed.
Lemma kle_total a b : kle a b \/ kle b a.
Proof. unfold kle. lia. Qed.
Lemma key_le_false a b : key_le a b = false -> kle b a.
Proof.
  intros H. destruct (kle_total a b) as [H1|H1]; [|exact H1].
  apply key_le_spec in H1. congruence.
Qed.

Lemma is_min_spec h e : is_min h e = true <-> Forall (kle e) h.
Proof.
  unfold is_min. rewrite forallb_forall, Forall_forall.
  split; intros H x Hx; apply key_le_spec; apply H; exact Hx.
Qed.

Lemma exists_min (h : heap) : h <> [] -> exists e, In e h /\ Forall (kle e) h.
Proof.
  induction h as [|x r IH]; [congruence|]. intros _.
  destruct r as [|y r'].
  - exists x. split; [left; reflexivity|]. constructor; [apply kle_refl|constructor].
  - destruct IH as [e [He Hm]]; [discriminate|].
    destruct (kle_total x e) as [Hxe|Hex].
    + exists x. split; [left; reflexivity|]. constructor; [apply kle_refl|].
      eapply Forall_impl; [|exact Hm]. intros z Hz. eapply kle_trans; eassumption.
    + exists e. split; [right; exact He|]. constructor; [exact Hex|exact Hm].
Qed.

Lemma first_min_from_spec (all : heap) : forall h pre k,
  all = pre ++ h -> length pre = k ->
  (exists e, In e h /\ is_min all e = true) ->
  exists e, nth_error all (first_min_from h all k) = Some e /\ is_min all e = true.
Proof.
  induction h as [|x r IH]; intros pre k Hall Hk [e [He Hm]]; [destruct He|].
  cbn [first_min_from]. destruct (is_min all x) eqn:Ex.
  - exists x. split; [|exact Ex]. subst all k. rewrite nth_error_app2, Nat.sub_diag; [reflexivity|lia].
  - apply (IH (pre ++ [x]) (S k)).
    + rewrite <- app_assoc. exact Hall.
    + rewrite app_length. cbn. lia.
    + destruct He as [He|He]; [subst x; congruence|]. exists e. split; assumption.
Qed.

Lemma remove_nth_split (l1 l2 : heap) e : remove_nth (length l1) (l1 ++ e :: l2) = l1 ++ l2.
Proof.
  unfold remove_nth. rewrite firstn_app, Nat.sub_diag, firstn_all. cbn [firstn]. rewrite app_nil_r.
  replace (S (length l1)) with (length (l1 ++ [e])) by (rewrite app_length; cbn; lia).
  replace (l1 ++ e :: l2) with ((l1 ++ [e]) ++ l2) by (rewrite <- app_assoc; reflexivity).
  rewrite skipn_app, Nat.sub_diag, skipn_all. reflexivity.
Qed.

Lemma pop_min_some k h e h' :
  pop_min k h = Some (e, h') ->
  exists l1 l2, h = l1 ++ e :: l2 /\ h' = l1 ++ l2 /\ Forall (kle e) h.
Proof.
  unfold pop_min. destruct (nth_error h (choose k h)) as [e0|] eqn:En; [|discriminate].
  destruct (is_min h e0) eqn:Em; [|discriminate].
  intros H. inversion H; subst e0 h'. clear H.
  apply nth_error_split in En. destruct En as [l1 [l2 [Hh Hl]]].
  exists l1, l2. split; [exact Hh|]. split.
  - rewrite <- Hl. rewrite Hh. apply remove_nth_split.
  - apply is_min_spec. exact Em.
Qed.

Lemma pop_min_none k h : pop_min k h = None -> h = [].
Proof.
  intros H. destruct h as [|x r]; [reflexivity|exfalso].
  set (h := x :: r) in *.
  assert (Hex : exists e, nth_error h (choose k h) = Some e /\ is_min h e = true).
  { unfold choose. destruct (valid_choice h k) eqn:Ev.
    - unfold valid_choice in Ev. destruct (nth_error h k) as [e|]; [|discriminate]. exists e. auto.
    - apply (first_min_from_spec h h [] 0%nat); [reflexivity|reflexivity|].
      destruct (exists_min h) as [e [He Hm]]; [discriminate|].
      exists e. split; [exact He|apply is_min_spec; exact Hm]. }
  destruct Hex as [e [He Hm]]. unfold pop_min in H. rewrite He, Hm in H. discriminate.
Qed.

Lemma pop_min_nil k : pop_min k [] = None.
Proof. unfold pop_min. destruct (choose k []); reflexivity. Qed.

Lemma pop_min_length k h e h' : pop_min k h = Some (e, h') -> length h = S (length h').
Proof.
  intros H. apply pop_min_some in H. destruct H as [l1 [l2 [Hh [Hh' _]]]]. subst.
  rewrite !app_length. cbn. lia.
Qed.

Lemma pop_min_perm k h e h' : pop_min k h = Some (e, h') -> Permutation h (e :: h').
Proof.
  intros H. apply pop_min_some in H. destruct H as [l1 [l2 [Hh [Hh' _]]]]. subst.
  symmetry. apply Permutation_middle.
Qed.

(* ---------------------------------------------------------------- release / flush *)
Lemma release_nil_facts (h : heap) (np : nat) thr rt :
  Permutation h ([] ++ h) /\
  StronglySorted kle [] /\
  Forall (fun x => Forall (kle x) h) [] /\
  Forall (fun x : entry => fst x + thr < rt) [] /\
  np = (np + @length entry [])%nat.
Proof. cbn. repeat split; try constructor; try reflexivity. lia. Qed.

Lemma release_spec pick thr rt : forall fuel np h out h' np',
  release pick fuel thr rt np h = Ok (out, h', np') ->
  Permutation h (out ++ h') /\
  StronglySorted kle out /\
  Forall (fun x => Forall (kle x) h') out /\
  Forall (fun x => fst x + thr < rt) out /\
  np' = (np + length out)%nat.
Proof.
  induction fuel as [|f IH]; intros np h out h' np' H; cbn [release] in H.
  - destruct (pop_min (pick np h) h) as [[e h1]|] eqn:Ep.
    + inv_ok H. destruct (a <? rt); [discriminate|]. inv_ok Hb.
      apply release_nil_facts.
    + inv_ok H. apply release_nil_facts.
  - destruct (pop_min (pick np h) h) as [[e h1]|] eqn:Ep.
    + inv_ok H. destruct (a <? rt) eqn:Elt.
      * inv_ok Hb. destruct a0 as [[out1 h2] np2]. inv_ok Hbb.
        apply IH in Hba. destruct Hba as [Hp [Hs [Hle [Hthr Hnp]]]].
        pose proof (pop_min_perm _ _ _ _ Ep) as Hp0.
        pose proof (pop_min_some _ _ _ _ Ep) as [l1 [l2 [_ [_ Hmin]]]].
        assert (Hall : Forall (kle e) (out1 ++ h')).
        { eapply Permutation_Forall; [exact Hp|].
          eapply Permutation_Forall in Hmin; [|exact Hp0]. inversion Hmin; assumption. }
        apply Forall_app in Hall. destruct Hall as [Ho Hh'].
        repeat split.
        -- cbn [app]. eapply Permutation_trans; [exact Hp0|]. apply perm_skip. exact Hp.
        -- constructor; assumption.
        -- constructor; assumption.
        -- constructor; [|exact Hthr]. apply add_chk_ok in Ha. apply N.ltb_lt in Elt. lia.
        -- cbn [length]. lia.
      * inv_ok Hb. apply release_nil_facts.
    + inv_ok H. apply release_nil_facts.
Qed.

Lemma flush_spec pick : forall fuel np h out,
  flush pick fuel np h = Ok out -> Permutation h out /\ StronglySorted kle out.
Proof.
  induction fuel as [|f IH]; intros np h out H; cbn [flush] in H.
  - destruct (pop_min (pick np h) h) as [[e h1]|] eqn:Ep; [discriminate|].
    inv_ok H. apply pop_min_none in Ep. subst. split; constructor.
  - destruct (pop_min (pick np h) h) as [[e h1]|] eqn:Ep.
    + inv_ok H. inv_ok Hb. apply IH in Ha. destruct Ha as [Hp Hs].
      pose proof (pop_min_perm _ _ _ _ Ep) as Hp0.
      pose proof (pop_min_some _ _ _ _ Ep) as [l1 [l2 [_ [_ Hmin]]]].
      split.
      * eapply Permutation_trans; [exact Hp0|]. apply perm_skip. exact Hp.
      * constructor; [exact Hs|].
        eapply Permutation_Forall in Hmin; [|exact Hp0]. inversion Hmin; subst.
        eapply Permutation_Forall; eassumption.
    + inv_ok H. apply pop_min_none in Ep. subst. split; constructor.
Qed.

(* fuel is sufficient: with fuel >= number of entries OutOfFuel is unreachable *)
Lemma release_fuel pick thr rt : forall fuel np h,
  (length h <= fuel)%nat -> release pick fuel thr rt np h <> OutOfFuel.
Proof.
  induction fuel as [|f IH]; intros np h Hl; cbn [release].
  - destruct h; [|cbn in Hl; lia]. rewrite pop_min_nil. discriminate.
  - destruct (pop_min (pick np h) h) as [[e h1]|] eqn:Ep; [|discriminate].
    unfold add_chk. destruct (fst e + thr <=? u64max); cbn [bind]; try discriminate.
    destruct (fst e + thr <? rt); [|discriminate].
    apply pop_min_length in Ep.
    specialize (IH (S np) h1). destruct (release pick f thr rt (S np) h1) as [[[o h2] n2]| |]; cbn [bind]; try discriminate.
    apply IH. lia.
Qed.

Lemma flush_ok pick : forall fuel np h,
  (length h <= fuel)%nat -> exists out, flush pick fuel np h = Ok out.
Proof.
  induction fuel as [|f IH]; intros np h Hl; cbn [flush].
  - destruct h; [|cbn in Hl; lia]. rewrite pop_min_nil. eexists; reflexivity.
  - destruct (pop_min (pick np h) h) as [[e h1]|] eqn:Ep; [|eexists; reflexivity].
    apply pop_min_length in Ep.
    destruct (IH (S np) h1) as [out Ho]; [lia|]. rewrite Ho. cbn [bind]. eexists; reflexivity.
Qed.

(* ---------------------------------------------------------------- calculated time, cache *)
Definition ekey (lcs : N -> option N) (m : msg) : entry := (calc_spec lcs m, m).
Definition coherent (lcs : N -> option N) (c : cache) : Prop :=
  forall id s, cache_get c id = Some s -> s = lc_start lcs id.

Lemma coherent_nil lcs : coherent lcs [].
Proof. intros id s H. discriminate. Qed.

Lemma calc_time_spec lcs c m calc c' :
  calc_time lcs c m = Ok (calc, c') -> coherent lcs c ->
  calc = calc_spec lcs m /\ coherent lcs c' /\ calc <= m_rt m.
Proof.
  unfold calc_time, calc_spec. intros H Hc. destruct (m_ctrl m).
  - inv_ok H. split; [reflexivity|]. split; [exact Hc|lia].
  - unfold get_lc_start in H.
    assert (Hs : exists s c1, (match cache_get c (m_lc m) with
                               | Some t => (t, c)
                               | None => (match lcs (m_lc m) with Some s => s | None => 0 end,
                                          (m_lc m, match lcs (m_lc m) with Some s => s | None => 0 end) :: c)
                               end) = (s, c1) /\ s = lc_start lcs (m_lc m) /\ coherent lcs c1).
    { destruct (cache_get c (m_lc m)) as [t|] eqn:Eg.
      - exists t, c. split; [reflexivity|]. split; [apply Hc; exact Eg|exact Hc].
      - eexists _, _. split; [reflexivity|]. split; [reflexivity|].
        intros id s. cbn [cache_get]. destruct (m_lc m =? id) eqn:Ei.
        + apply N.eqb_eq in Ei. subst id. intros H1. inversion H1. reflexivity.
        + apply Hc. }
    destruct Hs as [s [c1 [Hs [Hs1 Hc1]]]]. rewrite Hs in H.
    inv_ok H. apply add_chk_ok in Ha. destruct Ha as [Ha _]. inv_ok Hb.
    subst. split; [|split; [exact Hc1|]].
    + destruct (m_rt m <? lc_start lcs (m_lc m) + m_ts m * 100) eqn:El.
      * apply N.ltb_lt in El. lia.
      * apply N.ltb_ge in El. lia.
    + destruct (m_rt m <? lc_start lcs (m_lc m) + m_ts m * 100) eqn:El.
      * lia.
      * apply N.ltb_ge in El. exact El.
Qed.

(* ---------------------------------------------------------------- threshold *)
Lemma update_delays_thr w mind d thr ecu lc rt delay d' thr' :
  update_delays w mind d thr ecu lc rt delay = Ok (d', thr') -> mind <= thr -> mind <= thr'.
Proof.
  unfold update_delays. intros H Hm. inv_ok H. destruct a as [e' recalc]. destruct recalc.
  - inv_ok Hb. inv_ok Hbb. unfold new_thr in Hba. inv_ok Hba.
    destruct a as [|k r]; [discriminate|]. apply add_chk_ok in Hbab. lia.
  - inv_ok Hb. exact Hm.
Qed.

(* ---------------------------------------------------------------- one message *)
Lemma process_inv pick w mind (lcs : tables) s m out s' :
  process pick w mind lcs s m = Ok (out, s') ->
  exists calc delay np',
    calc_time (lcs (s_pos s) (s_np s)) (s_cache s) m = Ok (calc, s_cache s') /\
    sub_chk (m_rt m) calc = Ok delay /\
    update_delays w mind (s_delays s) (s_thr s) (m_ecu m) (m_lc m) (m_rt m) delay = Ok (s_delays s', s_thr s') /\
    release pick (length (s_heap s ++ [(calc, m)])) (s_thr s') (m_rt m) (s_np s) (s_heap s ++ [(calc, m)])
      = Ok (out, s_heap s', np') /\
    s_np s' = np'.
Proof.
  unfold process. intros H. inv_ok H. destruct a as [calc c']. inv_ok Hb. inv_ok Hbb.
  destruct a0 as [d' thr']. inv_ok Hbbb. destruct a0 as [[o h'] np']. inv_ok Hbbbb.
  exists calc, a, np'. cbn. auto.
Qed.

(* the calculated time never exceeds the reception time; the cache only grows by values of the current table *)
Lemma calc_time_gen (tbl : table) c m calc c' :
  calc_time tbl c m = Ok (calc, c') ->
  calc <= m_rt m /\
  (forall id s, cache_get c' id = Some s -> cache_get c id = Some s \/ s = lc_start tbl id).
Proof.
  unfold calc_time. destruct (m_ctrl m).
  - intros H. inv_ok H. split; [lia|]. intros id s Hs. left. exact Hs.
  - unfold get_lc_start. destruct (cache_get c (m_lc m)) as [t|] eqn:Eg; intros H; inv_ok H; inv_ok Hb.
    + split; [destruct (m_rt m <? a) eqn:El; [lia|apply N.ltb_ge in El; exact El]|]. intros id s Hs. left. exact Hs.
    + split; [destruct (m_rt m <? a) eqn:El; [lia|apply N.ltb_ge in El; exact El]|].
      intros id s. cbn [cache_get]. destruct (m_lc m =? id) eqn:Ei.
      * apply N.eqb_eq in Ei. subst id. intros H1. inversion H1. right. reflexivity.
      * intros Hs. left. exact Hs.
Qed.

(* ---------------------------------------------------------------- any (changing) table *)
Section AnyTable.
  Variables (pick : picker) (w mind : N) (lcs : tables).

  Lemma run_state_perm_gen : forall input s o s',
    run_state pick w mind lcs s input = Ok (o, s') ->
    Permutation (map snd (s_heap s) ++ input) (map snd o ++ map snd (s_heap s')).
  Proof.
    induction input as [|m r IH]; intros s o s' H; cbn [run_state] in H.
    - inv_ok H. cbn. rewrite app_nil_r. apply Permutation_refl.
    - inv_ok H. destruct a as [o1 s1]. inv_ok Hb. destruct a as [o2 s2]. inv_ok Hbb.
      apply process_inv in Ha. destruct Ha as [calc [delay [np' [_ [_ [_ [Hrel _]]]]]]].
      apply release_spec in Hrel. destruct Hrel as [Hp _].
      apply IH in Hba. apply (Permutation_map snd) in Hp. rewrite !map_app in Hp. cbn [map snd] in Hp.
      replace (map snd (s_heap s) ++ m :: r) with ((map snd (s_heap s) ++ [m]) ++ r) by (rewrite <- app_assoc; reflexivity).
      eapply Permutation_trans; [apply Permutation_app_tail; exact Hp|].
      rewrite map_app, <- !app_assoc. apply Permutation_app_head. exact Hba.
  Qed.

  Lemma run_state_thr : forall input s o s',
    run_state pick w mind lcs s input = Ok (o, s') -> mind <= s_thr s -> mind <= s_thr s'.
  Proof.
    induction input as [|m r IH]; intros s o s' H Hm; cbn [run_state] in H.
    - inv_ok H. exact Hm.
    - inv_ok H. destruct a as [o1 s1]. inv_ok Hb. destruct a as [o2 s2]. inv_ok Hbb.
      apply process_inv in Ha. destruct Ha as [calc [delay [np' [_ [_ [Hupd _]]]]]].
      apply update_delays_thr in Hupd; [|exact Hm]. eapply IH; eassumption.
  Qed.

  (* every entry released while processing a message is older than that message by more than the minimum delay *)
  Lemma process_released_old s m out s' :
    process pick w mind lcs s m = Ok (out, s') -> mind <= s_thr s ->
    Forall (fun x => fst x + mind < m_rt m) out.
  Proof.
    intros H Hm. apply process_inv in H. destruct H as [calc [delay [np' [_ [_ [Hupd [Hrel _]]]]]]].
    apply update_delays_thr in Hupd; [|exact Hm].
    apply release_spec in Hrel. destruct Hrel as [_ [_ [_ [Hthr _]]]].
    eapply Forall_impl; [|exact Hthr]. cbn beta. intros x Hx. lia.
  Qed.
End AnyTable.

Lemma StronglySorted_app {A} (R : A -> A -> Prop) l1 l2 :
  StronglySorted R l1 -> StronglySorted R l2 -> Forall (fun x => Forall (R x) l2) l1 ->
  StronglySorted R (l1 ++ l2).
Proof.
  induction l1 as [|x r IH]; intros H1 H2 H12; [exact H2|].
  inversion H1; subst. inversion H12; subst. cbn. constructor.
  - apply IH; assumption.
  - apply Forall_app. split; assumption.
Qed.

Section Ordered.
  Variables (pick : picker) (w mind : N) (lcs : table).

  (* what is known after processing [input] from state [s]; no hypothesis on the stream *)
  Lemma run_state_perm : forall input s o s',
    run_state pick w mind (fixed lcs) s input = Ok (o, s') ->
    coherent lcs (s_cache s) ->
    coherent lcs (s_cache s') /\ Permutation (s_heap s ++ map (ekey lcs) input) (o ++ s_heap s').
  Proof.
    induction input as [|m r IH]; intros s o s' H Hc; cbn [run_state] in H.
    - inv_ok H. split; [exact Hc|]. cbn. rewrite app_nil_r. apply Permutation_refl.
    - inv_ok H. destruct a as [o1 s1]. inv_ok Hb. destruct a as [o2 s2]. inv_ok Hbb.
      apply process_inv in Ha. destruct Ha as [calc [delay [np' [Hcalc [_ [_ [Hrel _]]]]]]].
      apply calc_time_spec in Hcalc; [|exact Hc]. destruct Hcalc as [Hcalc [Hc1 _]].
      apply release_spec in Hrel. destruct Hrel as [Hp _].
      apply IH in Hba; [|exact Hc1]. destruct Hba as [Hc2 Hp2]. split; [exact Hc2|].
      cbn [map]. subst calc. fold (ekey lcs m) in Hp.
      replace (s_heap s ++ ekey lcs m :: map (ekey lcs) r) with ((s_heap s ++ [ekey lcs m]) ++ map (ekey lcs) r)
        by (rewrite <- app_assoc; reflexivity).
      eapply Permutation_trans; [apply Permutation_app_tail; exact Hp|].
      rewrite <- !app_assoc. apply Permutation_app_head. exact Hp2.
  Qed.

  Lemma run_state_sorted : forall input s o s',
    run_state pick w mind (fixed lcs) s input = Ok (o, s') ->
    coherent lcs (s_cache s) -> mind <= s_thr s ->
    StronglySorted (fun a b => m_rt a <= m_rt b) input ->
    Forall (fun m => m_rt m <= calc_spec lcs m + mind) input ->
    StronglySorted kle o /\
    Forall (fun x => Forall (kle x) (s_heap s')) o /\
    (forall p, Forall (kle p) (s_heap s) -> Forall (fun m => kle p (ekey lcs m)) input ->
               Forall (kle p) o /\ Forall (kle p) (s_heap s')).
  Proof.
    induction input as [|m r IH]; intros s o s' H Hc Hm Hrt Hb; cbn [run_state] in H.
    - inv_ok H. split; [constructor|]. split; [constructor|]. intros p Hp _. split; [constructor|exact Hp].
    - inv_ok H. destruct a as [o1 s1]. inv_ok Hb0. destruct a as [o2 s2]. inv_ok Hb0b.
      pose proof (process_released_old _ _ _ _ _ _ _ _ Ha Hm) as Hold.
      apply process_inv in Ha. destruct Ha as [calc [delay [np' [Hcalc [_ [Hupd [Hrel _]]]]]]].
      apply calc_time_spec in Hcalc; [|exact Hc]. destruct Hcalc as [Hcalc [Hc1 _]].
      apply update_delays_thr in Hupd; [|exact Hm].
      apply release_spec in Hrel. destruct Hrel as [Hp [Hs1 [Hle1 _]]].
      subst calc. fold (ekey lcs m) in Hp.
      inversion Hrt as [|? ? Hrt_r Hrt_m]; subst. inversion Hb as [|? ? Hb_m Hb_r]; subst.
      specialize (IH s1 o2 s' Hb0a Hc1 Hupd Hrt_r Hb_r). destruct IH as [Hs2 [Hle2 Hlow]].
      (* every entry released now is below everything that is still to come *)
      assert (Hfut : Forall (fun x => Forall (fun m' => kle x (ekey lcs m')) r) o1).
      { eapply Forall_impl; [|exact Hold]. cbn beta. intros x Hx.
        rewrite Forall_forall in Hrt_m, Hb_r. apply Forall_forall. intros m' Hm'.
        left. cbn [ekey fst]. specialize (Hrt_m m' Hm'). specialize (Hb_r m' Hm'). lia. }
      assert (H12 : Forall (fun x => Forall (kle x) o2 /\ Forall (kle x) (s_heap s')) o1).
      { rewrite Forall_forall in Hle1, Hfut. apply Forall_forall. intros x Hx.
        apply Hlow; [apply Hle1; exact Hx|apply Hfut; exact Hx]. }
      split; [|split].
      + apply StronglySorted_app; [exact Hs1|exact Hs2|].
        eapply Forall_impl; [|exact H12]. cbn beta. intros x [Hx _]. exact Hx.
      + apply Forall_app. split; [|exact Hle2].
        eapply Forall_impl; [|exact H12]. cbn beta. intros x [_ Hx]. exact Hx.
      + intros p Hp0 Hpin. inversion Hpin as [|? ? Hpm Hpr]; subst.
        assert (Hall : Forall (kle p) (o1 ++ s_heap s1)).
        { eapply Permutation_Forall; [exact Hp|]. apply Forall_app. split; [exact Hp0|]. constructor; [exact Hpm|constructor]. }
        apply Forall_app in Hall. destruct Hall as [Hpo1 Hph1].
        destruct (Hlow p Hph1 Hpr) as [Hpo2 Hph2].
        split; [apply Forall_app; split; assumption|exact Hph2].
  Qed.
End Ordered.

(* ---------------------------------------------------------------- whole runs *)
Lemma run_entries_inv pick w mind (lcs : tables) input o :
  run_entries pick w mind lcs input = Ok o ->
  exists o1 s o2,
    run_state pick w mind lcs (init mind) input = Ok (o1, s) /\
    flush pick (length (s_heap s)) (s_np s) (s_heap s) = Ok o2 /\ o = o1 ++ o2.
Proof.
  unfold run_entries. intros H. inv_ok H. destruct a as [o1 s]. inv_ok Hb. inv_ok Hbb.
  exists o1, s, a. auto.
Qed.

Lemma run_entries_perm pick w mind (lcs : table) input o :
  run_entries pick w mind (fixed lcs) input = Ok o -> Permutation o (map (ekey lcs) input).
Proof.
  intros H. apply run_entries_inv in H. destruct H as [o1 [s [o2 [H1 [H2 Ho]]]]]. subst o.
  apply run_state_perm in H1; [|apply coherent_nil]. destruct H1 as [_ Hp]. cbn [init s_heap app] in Hp.
  apply flush_spec in H2. destruct H2 as [Hp2 _].
  symmetry. eapply Permutation_trans; [exact Hp|]. apply Permutation_app_head. exact Hp2.
Qed.

Lemma map_snd_ekey lcs l : map snd (map (ekey lcs) l) = l.
Proof. induction l as [|x r IH]; [reflexivity|]. cbn. rewrite IH. reflexivity. Qed.

Theorem run_perm pick w mind (lcs : tables) input out :
  run pick w mind lcs input = Ok out -> Permutation out input.
Proof.
  unfold run. intros H. inv_ok H. inv_ok Hb.
  apply run_entries_inv in Ha. destruct Ha as [o1 [s [o2 [H1 [H2 Ho]]]]]. subst a.
  apply run_state_perm_gen in H1. cbn [init s_heap map app] in H1.
  apply flush_spec in H2. destruct H2 as [Hp2 _].
  rewrite map_app. symmetry. eapply Permutation_trans; [exact H1|]. apply Permutation_app_head.
  apply Permutation_map. exact Hp2.
Qed.

(* the entries handed out carry the calculated time of the specification *)
Lemma run_entries_keys pick w mind (lcs : table) input o :
  run_entries pick w mind (fixed lcs) input = Ok o -> o = map (ekey lcs) (map snd o).
Proof.
  intros H. apply run_entries_perm in H.
  assert (Hin : Forall (fun e => e = ekey lcs (snd e)) o).
  { apply Forall_forall. intros e He. eapply Permutation_in in He; [|exact H].
    apply in_map_iff in He. destruct He as [m [Hm _]]. subst e. reflexivity. }
  clear H. induction Hin as [|e r He _ IH]; [reflexivity|]. cbn [map]. rewrite <- He, <- IH. reflexivity.
Qed.

Theorem run_entries_sorted pick w mind (lcs : table) input o :
  run_entries pick w mind (fixed lcs) input = Ok o ->
  StronglySorted (fun a b => m_rt a <= m_rt b) input ->
  Forall (fun m => m_rt m <= calc_spec lcs m + mind) input ->
  StronglySorted kle o.
Proof.
  intros H Hrt Hb. apply run_entries_inv in H. destruct H as [o1 [s [o2 [H1 [H2 Ho]]]]]. subst o.
  apply run_state_sorted in H1; [|apply coherent_nil|cbn; lia|exact Hrt|exact Hb].
  destruct H1 as [Hs1 [Hle _]].
  apply flush_spec in H2. destruct H2 as [Hp2 Hs2].
  apply StronglySorted_app; [exact Hs1|exact Hs2|].
  eapply Forall_impl; [|exact Hle]. cbn beta. intros x Hx. eapply Permutation_Forall; eassumption.
Qed.

(* ---------------------------------------------------------------- the order on messages *)
Definition before (lcs : N -> option N) (a b : msg) : Prop :=
  calc_spec lcs a < calc_spec lcs b \/ (calc_spec lcs a = calc_spec lcs b /\ m_index a < m_index b).

Lemma StronglySorted_map_inv {A B} (f : A -> B) (R : B -> B -> Prop) l :
  StronglySorted R (map f l) -> StronglySorted (fun a b => R (f a) (f b)) l.
Proof.
  induction l as [|x r IH]; intros H; [constructor|]. cbn [map] in H. inversion H; subst.
  constructor; [apply IH; assumption|]. rewrite Forall_map in H3. exact H3.
Qed.

Lemma StronglySorted_NoDup_strict {A} (R : A -> A -> Prop) (f : A -> N) l :
  StronglySorted R l -> NoDup (map f l) -> StronglySorted (fun a b => R a b /\ f a <> f b) l.
Proof.
  induction l as [|x r IH]; intros Hs Hn; [constructor|]. inversion Hs; subst. cbn [map] in Hn. inversion Hn; subst.
  constructor; [apply IH; assumption|].
  rewrite Forall_forall in *. intros y Hy. split; [apply H2; exact Hy|].
  intros E. apply H3. rewrite E. apply in_map. exact Hy.
Qed.

Lemma StronglySorted_lt_NoDup {A} (f : A -> N) l :
  StronglySorted (fun a b => f a < f b) l -> NoDup (map f l).
Proof.
  induction l as [|x r IH]; intros H; [constructor|]. inversion H; subst. cbn [map]. constructor; [|apply IH; assumption].
  intros Hin. apply in_map_iff in Hin. destruct Hin as [y [Hy Hyin]].
  rewrite Forall_forall in H3. specialize (H3 y Hyin). lia.
Qed.

Lemma StronglySorted_impl {A} (R S : A -> A -> Prop) l :
  (forall a b, R a b -> S a b) -> StronglySorted R l -> StronglySorted S l.
Proof.
  intros HRS. induction 1 as [|x r _ IH Hx]; constructor; [exact IH|].
  eapply Forall_impl; [|exact Hx]. intros y. apply HRS.
Qed.

Theorem run_sorted pick w mind (lcs : table) input out :
  StronglySorted (fun a b => m_rt a <= m_rt b) input ->
  StronglySorted (fun a b => m_index a < m_index b) input ->
  Forall (fun m => m_rt m - calc_spec lcs m <= mind) input ->
  run pick w mind (fixed lcs) input = Ok out ->
  StronglySorted (before lcs) out.
Proof.
  intros Hrt Hidx Hb H. pose proof (run_perm _ _ _ _ _ _ H) as Hperm.
  unfold run in H. inv_ok H. inv_ok Hb0.
  pose proof (run_entries_keys _ _ _ _ _ _ Ha) as Hk.
  apply run_entries_sorted in Ha; [|exact Hrt|].
  - rewrite Hk in Ha. apply StronglySorted_map_inv in Ha.
    apply StronglySorted_NoDup_strict with (f := m_index) in Ha.
    + eapply StronglySorted_impl; [|exact Ha]. cbn beta. unfold before, kle, ekey. cbn [fst snd].
      intros x y [[H1|[H1 H2]] H3]; [left; exact H1|right; split; [exact H1|lia]].
    + apply StronglySorted_lt_NoDup in Hidx.
      eapply Permutation_NoDup; [|exact Hidx]. apply Permutation_map. symmetry. exact Hperm.
  - eapply Forall_impl; [|exact Hb]. cbn beta. intros m Hm. lia.
Qed.

(* ---------------------------------------------------------------- no panic (window size >= 1, sums within u64) *)
Lemma split_last_some {A} (l : list A) i b : split_last l = Some (i, b) -> l = i ++ [b].
Proof.
  revert i b. induction l as [|x r IH]; intros i b H; [discriminate|]. cbn [split_last] in H.
  destruct (split_last r) as [[i' b']|] eqn:E.
  - inversion H; subst. rewrite (IH i' b eq_refl). reflexivity.
  - inversion H; subst. destruct r as [|y r']; [reflexivity|].
    cbn [split_last] in E. destruct (split_last r') as [[? ?]|]; discriminate.
Qed.
Lemma split_last_none {A} (l : list A) : split_last l = None -> l = [].
Proof.
  destruct l as [|x r]; [reflexivity|]. cbn [split_last]. destruct (split_last r) as [[? ?]|]; discriminate.
Qed.

Section NoPanic.
  Variables (w mind B : N).
  Hypothesis Hw : 1 <= w.
  Hypothesis Hov : 2 * B + mind + YOUNG_DELAY + w * US_PER_SEC <= u64max.

  Definition wb (x : wentry) : Prop := w_start x <= B /\ w_max x <= B.
  Definition ebound (e : ecu_st) : Prop := Forall wb (e_win e) /\ e_max e <= B.
  Definition win_ok (e : ecu_st) : Prop := e_win e <> [] /\ ebound e.
  Definition delays_ok (d : delays) : Prop := Forall (fun p => win_ok (snd p)) d.
  Definition M : N := N.max YOUNG_DELAY B.

  Lemma max_wmax_bound l : forall acc, Forall wb l -> acc <= B -> max_wmax l acc <= B.
  Proof.
    induction l as [|x r IH]; intros acc Hl Ha; cbn [max_wmax]; [exact Ha|].
    inversion Hl as [|? ? [_ Hx] Hr]; subst. apply IH; [exact Hr|lia].
  Qed.

  Lemma finish_entry_ok e rd rt :
    win_ok e -> exists e' r', finish_entry e rd rt = Ok (e', r') /\ win_ok e'.
  Proof.
    intros [Hne [Hwin Hmax]]. unfold finish_entry. destruct rd.
    - destruct (e_win e) as [|x r] eqn:Ew; [congruence|].
      eexists _, _. split; [reflexivity|]. unfold win_ok, ebound. cbn [e_win e_max].
      split; [discriminate|]. split; [exact Hwin|].
      inversion Hwin as [|? ? [_ Hx] Hr]; subst. apply max_wmax_bound; assumption.
    - eexists _, _. split; [reflexivity|]. split; [exact Hne|split; assumption].
  Qed.

  Lemma app_one_ne {A} (l : list A) x : l ++ [x] <> [].
  Proof. destruct l; discriminate. Qed.

  Lemma update_entry_ok e0 lc rt delay :
    ebound e0 -> rt <= B -> delay <= B ->
    exists e' r, update_entry w e0 lc rt delay = Ok (e', r) /\ win_ok e'.
  Proof.
    intros He0 Hrt Hd. unfold update_entry.
    assert (He1 : exists e1 r1, (if e_lc e0 =? lc then (e0, false) else (mke lc [] delay, true)) = (e1, r1) /\ ebound e1).
    { destruct (e_lc e0 =? lc); eexists _, _; (split; [reflexivity|]); [exact He0|].
      split; [constructor|exact Hd]. }
    destruct He1 as [e1 [r1 [E1 [Hwin Hmax]]]]. rewrite E1. clear E1 He0.
    assert (Hnew : wb (mkw rt delay)) by (split; assumption).
    destruct (split_last (e_win e1)) as [[init b]|] eqn:Es.
    - pose proof (split_last_some _ _ _ Es) as Hl.
      assert (Hb : wb b /\ Forall wb init).
      { rewrite Hl in Hwin. apply Forall_app in Hwin. destruct Hwin as [Hi Hb]. inversion Hb; subst. split; assumption. }
      destruct Hb as [[Hbs Hbm] Hinit].
      unfold add_chk. assert (Ha : w_start b + US_PER_SEC <=? u64max = true).
      { apply N.leb_le. unfold US_PER_SEC, YOUNG_DELAY in *. lia. }
      rewrite Ha. cbn [bind]. destruct (w_start b + US_PER_SEC <? rt).
      + (* insert *)
        destruct (N.of_nat (length (e_win e1)) =? w) eqn:Elen.
        * destruct (e_win e1) as [|f rest] eqn:Ew; [destruct init; discriminate|]. cbn [bind].
          inversion Hwin as [|? ? Hf Hrest]; subst.
          destruct (e_max e1 <? delay); apply finish_entry_ok; (split; [apply app_one_ne|]);
            (split; [apply Forall_app; split; [exact Hrest|constructor; [exact Hnew|constructor]]|cbn; assumption]).
        * cbn [bind].
          destruct (e_max e1 <? delay); apply finish_entry_ok; (split; [apply app_one_ne|]);
            (split; [apply Forall_app; split; [exact Hwin|constructor; [exact Hnew|constructor]]|cbn; assumption]).
      + (* update the last entry *)
        destruct (w_max b <? delay).
        * destruct (e_max e1 <? delay); apply finish_entry_ok; (split; [apply app_one_ne|]);
            (split; [apply Forall_app; split; [exact Hinit|constructor; [split; cbn; assumption|constructor]]|cbn; assumption]).
        * apply finish_entry_ok. split; [rewrite Hl; apply app_one_ne|split; assumption].
    - pose proof (split_last_none _ Es) as Hl. cbn [bind].
      rewrite Hl. cbn [length]. replace (N.of_nat 0 =? w) with false by (symmetry; apply N.eqb_neq; lia).
      cbn [bind app].
      destruct (e_max e1 <? delay); apply finish_entry_ok; (split; [discriminate|]);
        (split; [constructor; [exact Hnew|constructor]|cbn; assumption]).
  Qed.

  Lemma thr_key_ok rt e : win_ok e -> exists k, thr_key w rt e = Ok k /\ k <= M.
  Proof.
    intros [Hne [Hwin Hmax]]. unfold thr_key. destruct (e_win e) as [|f r]; [congruence|].
    inversion Hwin as [|? ? [Hf _] _]; subst.
    unfold sub_chk. replace (1 <=? w) with true by (symmetry; apply N.leb_le; exact Hw). cbn [bind].
    unfold add_chk. replace (w_start f + (w - 1) * US_PER_SEC <=? u64max) with true.
    - cbn [bind]. eexists. split; [reflexivity|]. unfold M. destruct (rt <? _); lia.
    - symmetry. apply N.leb_le. unfold US_PER_SEC, YOUNG_DELAY in *. nia.
  Qed.

  Lemma thr_keys_ok rt d : delays_ok d -> exists ks, thr_keys w rt d = Ok ks /\ Forall (fun k => k <= M) ks /\ length ks = length d.
  Proof.
    induction d as [|[k e] r IH]; intros Hd; cbn [thr_keys].
    - exists []. repeat split; constructor.
    - inversion Hd as [|? ? He Hr]; subst. cbn [snd] in He.
      destruct (thr_key_ok rt e He) as [k0 [Hk0 Hk0b]]. destruct (IH Hr) as [ks [Hks [Hksb Hlen]]].
      rewrite Hk0, Hks. cbn [bind]. eexists. split; [reflexivity|]. split; [constructor; assumption|cbn; lia].
  Qed.

  Lemma fold_max_bound l : forall k, Forall (fun x => x <= M) l -> k <= M -> fold_left N.max l k <= M.
  Proof.
    induction l as [|x r IH]; intros k Hl Hk; cbn [fold_left]; [exact Hk|].
    inversion Hl; subst. apply IH; [assumption|lia].
  Qed.

  Lemma new_thr_ok rt d : delays_ok d -> d <> [] -> exists t, new_thr w mind rt d = Ok t /\ t <= mind + M.
  Proof.
    intros Hd Hne. unfold new_thr. destruct (thr_keys_ok rt d Hd) as [ks [Hks [Hb Hlen]]]. rewrite Hks. cbn [bind].
    destruct ks as [|k r]; [destruct d; [congruence|discriminate]|].
    inversion Hb; subst. pose proof (fold_max_bound r k H2 H1) as Hf.
    unfold add_chk. replace (mind + fold_left N.max r k <=? u64max) with true.
    - eexists. split; [reflexivity|]. lia.
    - symmetry. apply N.leb_le. unfold M in *. lia.
  Qed.

  Lemma d_get_ok d ecu e : delays_ok d -> d_get d ecu = Some e -> win_ok e.
  Proof.
    induction d as [|[k e0] r IH]; intros Hd H; [discriminate|]. cbn [d_get] in H.
    inversion Hd; subst. destruct (k =? ecu); [inversion H; subst; assumption|auto].
  Qed.
  Lemma d_set_ok d ecu e : delays_ok d -> win_ok e -> delays_ok (d_set d ecu e) /\ d_set d ecu e <> [].
  Proof.
    induction d as [|[k e0] r IH]; intros Hd He; cbn [d_set].
    - split; [constructor; [exact He|constructor]|discriminate].
    - inversion Hd; subst. destruct (k =? ecu).
      + split; [constructor; assumption|discriminate].
      + split; [|discriminate]. constructor; [assumption|]. apply IH; assumption.
  Qed.

  Lemma update_delays_ok d thr ecu lc rt delay :
    delays_ok d -> thr <= mind + M -> rt <= B -> delay <= B ->
    exists d' thr', update_delays w mind d thr ecu lc rt delay = Ok (d', thr') /\ delays_ok d' /\ thr' <= mind + M.
  Proof.
    intros Hd Ht Hrt Hdl. unfold update_delays.
    assert (He0 : ebound (match d_get d ecu with Some e => e | None => mke lc [] 0 end)).
    { destruct (d_get d ecu) as [e|] eqn:Eg.
      - apply d_get_ok in Eg; [|exact Hd]. apply Eg.
      - split; [constructor|cbn; lia]. }
    destruct (update_entry_ok _ lc rt delay He0 Hrt Hdl) as [e' [r [Hu He']]]. rewrite Hu. cbn [bind].
    destruct (d_set_ok d ecu e' Hd He') as [Hd' Hne]. destruct r.
    - destruct (new_thr_ok rt _ Hd' Hne) as [t [Hn Hb]]. rewrite Hn. cbn [bind]. eexists _, _. split; [reflexivity|]. split; assumption.
    - eexists _, _. split; [reflexivity|]. split; assumption.
  Qed.

  Lemma release_ok pick thr rt : forall fuel np h,
    (length h <= fuel)%nat -> Forall (fun e => fst e + thr <= u64max) h ->
    exists r, release pick fuel thr rt np h = Ok r.
  Proof.
    induction fuel as [|f IH]; intros np h Hl Hb; cbn [release].
    - destruct h; [|cbn in Hl; lia]. rewrite pop_min_nil. eexists; reflexivity.
    - destruct (pop_min (pick np h) h) as [[e h1]|] eqn:Ep; [|eexists; reflexivity].
      pose proof (pop_min_perm _ _ _ _ Ep) as Hp. pose proof (pop_min_length _ _ _ _ Ep) as Hlen.
      eapply Permutation_Forall in Hb; [|exact Hp]. inversion Hb; subst.
      unfold add_chk. replace (fst e + thr <=? u64max) with true by (symmetry; apply N.leb_le; assumption).
      cbn [bind]. destruct (fst e + thr <? rt); [|eexists; reflexivity].
      destruct (IH (S np) h1) as [[[o h2] n2] Hr]; [unfold heap, entry in *; lia|assumption|]. rewrite Hr. cbn [bind]. eexists; reflexivity.
  Qed.

  Variable lcs : tables.
  (* reception time bounded; for a non-control message every table version gives a start that fits with the timestamp *)
  Definition msg_ok (m : msg) : Prop :=
    m_rt m <= B /\ (m_ctrl m = false -> forall i np, lc_start (lcs i np) (m_lc m) + m_ts m * 100 <= u64max).
  Definition cached_from (c : cache) : Prop :=
    forall id s, cache_get c id = Some s -> exists i np, s = lc_start (lcs i np) id.
  Definition inv (s : st) : Prop :=
    cached_from (s_cache s) /\ delays_ok (s_delays s) /\ s_thr s <= mind + M /\ Forall (fun e => fst e <= B) (s_heap s).

  Lemma calc_time_ok i np c m : cached_from c -> msg_ok m -> exists calc c', calc_time (lcs i np) c m = Ok (calc, c').
  Proof.
    intros Hc [_ Hts]. unfold calc_time. destruct (m_ctrl m); [eexists _, _; reflexivity|].
    unfold get_lc_start. destruct (cache_get c (m_lc m)) as [t|] eqn:Eg.
    - apply Hc in Eg. destruct Eg as [i0 [np0 Eg]]. subst t. unfold add_chk.
      replace (lc_start (lcs i0 np0) (m_lc m) + m_ts m * 100 <=? u64max) with true by (symmetry; apply N.leb_le; auto).
      cbn [bind]. eexists _, _; reflexivity.
    - fold (lc_start (lcs i np) (m_lc m)). unfold add_chk.
      replace (lc_start (lcs i np) (m_lc m) + m_ts m * 100 <=? u64max) with true by (symmetry; apply N.leb_le; auto).
      cbn [bind]. eexists _, _; reflexivity.
  Qed.

  Lemma process_ok pick s m : inv s -> msg_ok m -> exists out s', process pick w mind lcs s m = Ok (out, s') /\ inv s'.
  Proof.
    intros [Hc [Hd [Ht Hh]]] Hm. unfold process.
    destruct (calc_time_ok (s_pos s) (s_np s) _ m Hc Hm) as [calc [c' Hcalc]]. rewrite Hcalc. cbn [bind].
    destruct (calc_time_gen _ _ _ _ _ Hcalc) as [Hle Hc']. destruct Hm as [Hrt _].
    unfold sub_chk. replace (calc <=? m_rt m) with true by (symmetry; apply N.leb_le; exact Hle). cbn [bind].
    destruct (update_delays_ok (s_delays s) (s_thr s) (m_ecu m) (m_lc m) (m_rt m) (m_rt m - calc) Hd Ht Hrt) as [d' [thr' [Hu [Hd' Ht']]]]; [lia|].
    rewrite Hu. cbn [bind].
    assert (Hh2 : Forall (fun e => fst e <= B) (s_heap s ++ [(calc, m)])).
    { apply Forall_app. split; [exact Hh|]. constructor; [cbn; lia|constructor]. }
    destruct (release_ok pick thr' (m_rt m) (length (s_heap s ++ [(calc, m)])) (s_np s) (s_heap s ++ [(calc, m)])) as [[[o h'] np'] Hr].
    - apply Nat.le_refl.
    - eapply Forall_impl; [|exact Hh2]. cbn beta. intros e He. unfold M in *. lia.
    - rewrite Hr. cbn [bind]. eexists _, _. split; [reflexivity|]. unfold inv. cbn [s_cache s_delays s_thr s_heap].
      split; [|split; [exact Hd'|split; [exact Ht'|]]].
      + intros id s0 Hs0. destruct (Hc' id s0 Hs0) as [Hold|Hnew]; [apply Hc; exact Hold|].
        exists (s_pos s), (s_np s). exact Hnew.
      + apply release_spec in Hr. destruct Hr as [Hp _].
        eapply Permutation_Forall in Hh2; [|exact Hp]. apply Forall_app in Hh2. apply Hh2.
  Qed.

  Lemma run_state_ok pick : forall input s, inv s -> Forall msg_ok input ->
    exists o s', run_state pick w mind lcs s input = Ok (o, s') /\ inv s'.
  Proof.
    induction input as [|m r IH]; intros s Hs Hin; cbn [run_state].
    - eexists _, _. split; [reflexivity|exact Hs].
    - inversion Hin; subst. destruct (process_ok pick s m Hs H1) as [o1 [s1 [Hp Hs1]]]. rewrite Hp. cbn [bind].
      destruct (IH s1 Hs1 H2) as [o2 [s2 [Hr Hs2]]]. rewrite Hr. cbn [bind]. eexists _, _. split; [reflexivity|exact Hs2].
  Qed.

  Lemma inv_init : inv (init mind).
  Proof.
    unfold inv, init. cbn. split; [intros id s H; discriminate|]. split; [constructor|]. split; [lia|constructor].
  Qed.

  Theorem run_ok pick input : Forall msg_ok input -> exists out, run pick w mind lcs input = Ok out.
  Proof.
    intros Hin. unfold run, run_entries.
    destruct (run_state_ok pick input (init mind) inv_init Hin) as [o [s [Hr _]]]. rewrite Hr. cbn [bind].
    destruct (flush_ok pick (length (s_heap s)) (s_np s) (s_heap s)) as [o2 Hf]; [lia|]. rewrite Hf. cbn [bind].
    eexists; reflexivity.
  Qed.
End NoPanic.

(* ---------------------------------------------------------------- window size 0: the first message panics *)
Lemma run_window_zero_panics pick mind (lcs : tables) m r :
  (m_ctrl m = false -> lc_start (lcs 0%nat 0%nat) (m_lc m) + m_ts m * 100 <= u64max) ->
  run pick 0 mind lcs (m :: r) = Panic site_unwrap.
Proof.
  intros Hts. unfold run, run_entries. cbn [run_state]. unfold process. cbn [init s_cache s_delays s_thr s_heap s_np s_pos].
  assert (Hc : exists calc c', calc_time (lcs 0%nat 0%nat) [] m = Ok (calc, c')).
  { unfold calc_time. destruct (m_ctrl m); [eexists _, _; reflexivity|].
    unfold get_lc_start. cbn [cache_get]. fold (lc_start (lcs 0%nat 0%nat) (m_lc m)). unfold add_chk.
    replace (lc_start (lcs 0%nat 0%nat) (m_lc m) + m_ts m * 100 <=? u64max) with true by (symmetry; apply N.leb_le; auto).
    cbn [bind]. eexists _, _; reflexivity. }
  destruct Hc as [calc [c' Hc]]. rewrite Hc. cbn [bind].
  destruct (calc_time_gen _ _ _ _ _ Hc) as [Hle _].
  unfold sub_chk. replace (calc <=? m_rt m) with true by (symmetry; apply N.leb_le; exact Hle). cbn [bind].
  unfold update_delays. cbn [d_get]. unfold update_entry. cbn [e_lc]. rewrite N.eqb_refl. cbn. reflexivity.
Qed.

(* ---------------------------------------------------------------- ties in original order, explicitly *)
Lemma StronglySorted_split {A} (R : A -> A -> Prop) l1 a l2 :
  StronglySorted R (l1 ++ a :: l2) -> Forall (fun x => R x a) l1 /\ Forall (R a) l2.
Proof.
  induction l1 as [|x r IH]; intros H; cbn [app] in H; inversion H; subst.
  - split; [constructor|assumption].
  - destruct (IH H2) as [H4 H5]. split; [|exact H5]. constructor; [|exact H4].
    rewrite Forall_forall in H3. apply H3. apply in_or_app. right. left. reflexivity.
Qed.

Lemma run_ties_original_order pick w mind (lcs : table) input out l1 a l2 b l3 :
  StronglySorted (fun a b => m_rt a <= m_rt b) input ->
  StronglySorted (fun a b => m_index a < m_index b) input ->
  Forall (fun m => m_rt m - calc_spec lcs m <= mind) input ->
  run pick w mind (fixed lcs) input = Ok out ->
  out = l1 ++ a :: l2 ++ b :: l3 -> calc_spec lcs a = calc_spec lcs b ->
  exists i1 i2 i3, input = i1 ++ a :: i2 ++ b :: i3.
Proof.
  intros Hrt Hidx Hb H Hout Hcalc.
  pose proof (run_perm _ _ _ _ _ _ H) as Hperm.
  pose proof (run_sorted _ _ _ _ _ _ Hrt Hidx Hb H) as Hs.
  rewrite Hout in Hs. apply StronglySorted_split in Hs. destruct Hs as [_ Hs].
  rewrite Forall_forall in Hs. assert (Hab : before lcs a b) by (apply Hs; apply in_or_app; right; left; reflexivity).
  assert (Hlt : m_index a < m_index b) by (destruct Hab as [Hab|[_ Hab]]; [lia|exact Hab]).
  assert (Ha : In a input) by (eapply Permutation_in; [exact Hperm|]; rewrite Hout; apply in_or_app; right; left; reflexivity).
  assert (Hbin : In b input).
  { eapply Permutation_in; [exact Hperm|]. rewrite Hout. apply in_or_app. right. right. apply in_or_app. right. left. reflexivity. }
  apply in_split in Ha. destruct Ha as [i1 [rest Hin]]. rewrite Hin in Hidx, Hbin.
  apply StronglySorted_split in Hidx. destruct Hidx as [Hpre _].
  apply in_app_or in Hbin. destruct Hbin as [Hb1|[Hb1|Hb1]].
  - rewrite Forall_forall in Hpre. specialize (Hpre b Hb1). cbn beta in Hpre. lia.
  - subst b. lia.
  - apply in_split in Hb1. destruct Hb1 as [i2 [i3 Hr]]. exists i1, i2, i3. rewrite Hin, Hr. reflexivity.
Qed.

(* ---------------------------------------------------------------- distinct indices: the heap has no freedom *)
Lemma NoDup_app_remove_l {A} (l l' : list A) : NoDup (l ++ l') -> NoDup l'.
Proof. induction l as [|x r IH]; intros H; [exact H|]. cbn in H. inversion H; auto. Qed.
Lemma NoDup_app_remove_r {A} (l l' : list A) : NoDup (l ++ l') -> NoDup l.
Proof.
  induction l as [|x r IH]; intros H; [constructor|]. cbn in H. inversion H; subst. constructor; [|auto].
  intros Hin. apply H2. apply in_or_app. left. exact Hin.
Qed.

Definition eidx (e : entry) : N := m_index (snd e).

Lemma choose_spec k (h : heap) : h <> [] -> exists e, nth_error h (choose k h) = Some e /\ is_min h e = true.
Proof.
  intros Hne. unfold choose. destruct (valid_choice h k) eqn:Ev.
  - unfold valid_choice in Ev. destruct (nth_error h k) as [e|]; [|discriminate]. exists e. auto.
  - apply (first_min_from_spec h h [] 0%nat); [reflexivity|reflexivity|].
    destruct (exists_min h Hne) as [e [He Hm]].
    exists e. split; [exact He|apply is_min_spec; exact Hm].
Qed.

Lemma choose_unique k1 k2 (h : heap) : NoDup (map eidx h) -> choose k1 h = choose k2 h.
Proof.
  intros Hn. destruct h as [|x r] eqn:Eh.
  - unfold choose, valid_choice. destruct k1, k2; reflexivity.
  - rewrite <- Eh in *. assert (Hne : h <> []) by (rewrite Eh; discriminate).
    destruct (choose_spec k1 h Hne) as [e1 [Hn1 Hm1]]. destruct (choose_spec k2 h Hne) as [e2 [Hn2 Hm2]].
    apply is_min_spec in Hm1, Hm2. rewrite Forall_forall in Hm1, Hm2.
    pose proof (Hm1 e2 (nth_error_In _ _ Hn2)) as H12. pose proof (Hm2 e1 (nth_error_In _ _ Hn1)) as H21.
    assert (Hi : eidx e1 = eidx e2) by (unfold kle, eidx in *; lia).
    rewrite NoDup_nth_error in Hn. apply Hn.
    + rewrite map_length. apply nth_error_Some. rewrite Hn1. discriminate.
    + rewrite !nth_error_map, Hn1, Hn2. cbn. rewrite Hi. reflexivity.
Qed.

Lemma pop_min_unique k1 k2 h : NoDup (map eidx h) -> pop_min k1 h = pop_min k2 h.
Proof. intros Hn. unfold pop_min. rewrite (choose_unique k1 k2 h Hn). reflexivity. Qed.

Lemma pop_min_nodup k h e h' : pop_min k h = Some (e, h') -> NoDup (map eidx h) -> NoDup (map eidx h').
Proof.
  intros H Hn. apply pop_min_perm in H. apply (Permutation_map eidx) in H.
  eapply Permutation_NoDup in Hn; [|exact H]. cbn [map] in Hn. inversion Hn; assumption.
Qed.

Lemma release_unique p1 p2 thr rt : forall fuel np h,
  NoDup (map eidx h) -> release p1 fuel thr rt np h = release p2 fuel thr rt np h.
Proof.
  induction fuel as [|f IH]; intros np h Hn; cbn [release]; rewrite (pop_min_unique (p1 np h) (p2 np h) h Hn); [reflexivity|].
  destruct (pop_min (p2 np h) h) as [[e h1]|] eqn:Ep; [|reflexivity].
  rewrite (IH (S np) h1); [reflexivity|]. eapply pop_min_nodup; eassumption.
Qed.

Lemma flush_unique p1 p2 : forall fuel np h,
  NoDup (map eidx h) -> flush p1 fuel np h = flush p2 fuel np h.
Proof.
  induction fuel as [|f IH]; intros np h Hn; cbn [flush]; rewrite (pop_min_unique (p1 np h) (p2 np h) h Hn); [reflexivity|].
  destruct (pop_min (p2 np h) h) as [[e h1]|] eqn:Ep; [|reflexivity].
  rewrite (IH (S np) h1); [reflexivity|]. eapply pop_min_nodup; eassumption.
Qed.

Lemma process_unique p1 p2 w mind (lcs : tables) s m :
  NoDup (map eidx (s_heap s) ++ [m_index m]) -> process p1 w mind lcs s m = process p2 w mind lcs s m.
Proof.
  intros Hn. unfold process. destruct (calc_time (lcs (s_pos s) (s_np s)) (s_cache s) m) as [[calc c']| |]; [|reflexivity|reflexivity]. cbn [bind].
  destruct (sub_chk (m_rt m) calc) as [delay| |]; [|reflexivity|reflexivity]. cbn [bind].
  destruct (update_delays w mind (s_delays s) (s_thr s) (m_ecu m) (m_lc m) (m_rt m) delay) as [[d' thr']| |]; [|reflexivity|reflexivity].
  cbn [bind]. rewrite (release_unique p1 p2); [reflexivity|]. rewrite map_app. exact Hn.
Qed.

Lemma run_state_unique p1 p2 w mind (lcs : tables) : forall input s,
  NoDup (map eidx (s_heap s) ++ map m_index input) ->
  run_state p1 w mind lcs s input = run_state p2 w mind lcs s input.
Proof.
  induction input as [|m r IH]; intros s Hn; cbn [run_state]; [reflexivity|].
  cbn [map] in Hn.
  assert (Hn1 : NoDup (map eidx (s_heap s) ++ [m_index m])).
  { replace (map eidx (s_heap s) ++ m_index m :: map m_index r) with ((map eidx (s_heap s) ++ [m_index m]) ++ map m_index r) in Hn
      by (rewrite <- app_assoc; reflexivity).
    eapply NoDup_app_remove_r. exact Hn. }
  rewrite (process_unique p1 p2 w mind lcs s m Hn1).
  destruct (process p2 w mind lcs s m) as [[o1 s1]| |] eqn:Ep; [|reflexivity|reflexivity]. cbn [bind].
  rewrite (IH s1); [reflexivity|].
  apply process_inv in Ep. destruct Ep as [calc [delay [np' [_ [_ [_ [Hrel _]]]]]]].
  apply release_spec in Hrel. destruct Hrel as [Hp _].
  apply (Permutation_map eidx) in Hp. rewrite !map_app in Hp. cbn [map] in Hp. unfold eidx at 2 in Hp. cbn [snd] in Hp.
  replace (map eidx (s_heap s) ++ m_index m :: map m_index r) with ((map eidx (s_heap s) ++ [m_index m]) ++ map m_index r) in Hn
    by (rewrite <- app_assoc; reflexivity).
  eapply Permutation_NoDup in Hn; [|apply Permutation_app_tail; exact Hp].
  rewrite <- app_assoc in Hn. eapply NoDup_app_remove_l. exact Hn.
Qed.

Theorem run_unique p1 p2 w mind (lcs : tables) input :
  NoDup (map m_index input) -> run p1 w mind lcs input = run p2 w mind lcs input.
Proof.
  intros Hn. unfold run, run_entries. rewrite (run_state_unique p1 p2 w mind lcs input (init mind)); [|exact Hn].
  destruct (run_state p2 w mind lcs (init mind) input) as [[o s]| |] eqn:Er; [|reflexivity|reflexivity]. cbn [bind].
  rewrite (flush_unique p1 p2); [reflexivity|].
  apply run_state_perm_gen in Er. cbn [init s_heap map app] in Er.
  apply (Permutation_map m_index) in Er. rewrite map_app, !map_map in Er.
  eapply Permutation_NoDup in Hn; [|exact Er]. eapply NoDup_app_remove_l. exact Hn.
Qed.

(* ---------------------------------------------------------------- what the function reads of the lifecycle table *)
(* the table enters through [lc_start] of the looked-up id only: (changing) tables that give the same start for the
   lifecycle ids of the non-control messages of the stream give the same run — same output, same panic *)
Lemma calc_time_ext (t1 t2 : table) c m :
  (m_ctrl m = false -> lc_start t1 (m_lc m) = lc_start t2 (m_lc m)) -> calc_time t1 c m = calc_time t2 c m.
Proof.
  unfold calc_time, get_lc_start, lc_start. intros H. destruct (m_ctrl m); [reflexivity|].
  rewrite (H eq_refl). reflexivity.
Qed.

Lemma process_ext pick w mind (l1 l2 : tables) s m :
  (m_ctrl m = false -> forall i np, lc_start (l1 i np) (m_lc m) = lc_start (l2 i np) (m_lc m)) ->
  process pick w mind l1 s m = process pick w mind l2 s m.
Proof.
  intros H. unfold process.
  rewrite (calc_time_ext (l1 (s_pos s) (s_np s)) (l2 (s_pos s) (s_np s))); [reflexivity|].
  intros Hc. apply H. exact Hc.
Qed.

Lemma run_state_ext pick w mind (l1 l2 : tables) : forall input s,
  (forall m, In m input -> m_ctrl m = false -> forall i np, lc_start (l1 i np) (m_lc m) = lc_start (l2 i np) (m_lc m)) ->
  run_state pick w mind l1 s input = run_state pick w mind l2 s input.
Proof.
  induction input as [|m r IH]; intros s H; [reflexivity|]. cbn [run_state].
  rewrite (process_ext pick w mind l1 l2 s m); [|apply H; left; reflexivity].
  destruct (process pick w mind l2 s m) as [[o s']| |]; [|reflexivity|reflexivity]. cbn [bind].
  rewrite (IH s'); [reflexivity|]. intros m' Hm'. apply H. right. exact Hm'.
Qed.

Theorem run_ext pick w mind (l1 l2 : tables) input :
  (forall m, In m input -> m_ctrl m = false -> forall i np, lc_start (l1 i np) (m_lc m) = lc_start (l2 i np) (m_lc m)) ->
  run pick w mind l1 input = run pick w mind l2 input.
Proof.
  intros H. unfold run, run_entries. rewrite (run_state_ext pick w mind l1 l2 input (init mind) H). reflexivity.
Qed.

(* the key under which a message is sorted (fixed table) is the calculated time of the specification *)
Lemma run_entries_key_spec pick w mind (lcs : table) input o :
  run_entries pick w mind (fixed lcs) input = Ok o -> Forall (fun e => fst e = calc_spec lcs (snd e)) o.
Proof.
  intros H. apply run_entries_keys in H. rewrite H. apply Forall_forall. intros e He.
  apply in_map_iff in He. destruct He as [m [Hm _]]. subst e. reflexivity.
Qed.
