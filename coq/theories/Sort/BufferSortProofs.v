(* Proofs about Sort/BufferSort.v *)
From Coq Require Import List NArith Bool Lia Permutation Sorted Arith.
From AdltV Require Import Base.Res Base.MachInt Sort.BufferSort.
Import ListNotations.
Open Scope N_scope.

(* ---------------------------------------------------------------- monad inversion *)
Lemma bind_ok' {A B} (r : res A) (f : A -> res B) b :
  bind r f = Ok b -> exists a, r = Ok a /\ f a = Ok b.
Proof. apply bind_ok. Qed.

Ltac inv_ok H :=
  match type of H with
  | bind _ _ = Ok _ =>
      let a := fresh "a" in let H1 := fresh H "a" in let H2 := fresh H "b" in
      apply bind_ok' in H; destruct H as [a [H1 H2]]; cbn beta in H2
  | Ok _ = Ok _ => inversion H; subst; clear H
  end.

Lemma add_chk_ok max a b c : add_chk max a b = Ok c -> c = a + b /\ a + b <= max.
Proof.
  unfold add_chk. destruct (a + b <=? max) eqn:E; [|discriminate].
  intros H. inversion H. split; [reflexivity|apply N.leb_le; exact E].
Qed.
Lemma sub_chk_ok a b c : sub_chk a b = Ok c -> c = a - b /\ b <= a.
Proof.
  unfold sub_chk. destruct (b <=? a) eqn:E; [|discriminate].
  intros H. inversion H. split; [reflexivity|apply N.leb_le; exact E].
Qed.

(* ---------------------------------------------------------------- the key order *)
Definition kle (a b : entry) : Prop := fst a < fst b \/ (fst a = fst b /\ m_index (snd a) <= m_index (snd b)).

Lemma key_le_spec a b : key_le a b = true <-> kle a b.
Proof.
  unfold key_le, kle. rewrite orb_true_iff, andb_true_iff, N.ltb_lt, N.eqb_eq, N.leb_le. reflexivity.
Qed.
Lemma kle_refl a : kle a a.
Proof. right. split; [reflexivity|lia]. Qed.
Lemma kle_trans a b c : kle a b -> kle b c -> kle a c.
Proof. unfold kle. intros [H1|[H1 H1']] [H2|[H2 H2']]; [left|left|left|right]; try lia. Qed.
Lemma kle_total a b : kle a b \/ kle b a.
Proof. unfold kle. lia. Qed.
Lemma key_le_false a b : key_le a b = false -> kle b a.
Proof.
  intros H. destruct (kle_total a b) as [H1|H1]; [|exact H1].
  apply key_le_spec in H1. congruence.
Qed.

Lemma is_min_spec h e : is_min h e = true <-> Forall (kle e) h.
Proof.
  unfold is_min. rewrite forallb_forall, Forall_forall.
  split; intros H x Hx; apply key_le_spec; apply H; exact Hx.
Qed.

Lemma exists_min (h : heap) : h <> [] -> exists e, In e h /\ Forall (kle e) h.
Proof.
  induction h as [|x r IH]; [congruence|]. intros _.
  destruct r as [|y r'].
  - exists x. split; [left; reflexivity|]. constructor; [apply kle_refl|constructor].
  - destruct IH as [e [He Hm]]; [discriminate|].
    destruct (kle_total x e) as [Hxe|Hex].
    + exists x. split; [left; reflexivity|]. constructor; [apply kle_refl|].
      eapply Forall_impl; [|exact Hm]. intros z Hz. eapply kle_trans; eassumption.
    + exists e. split; [right; exact He|]. constructor; [exact Hex|exact Hm].
Qed.

Lemma first_min_from_spec (all : heap) : forall h pre k,
  all = pre ++ h -> length pre = k ->
  (exists e, In e h /\ is_min all e = true) ->
  exists e, nth_error all (first_min_from h all k) = Some e /\ is_min all e = true.
Proof.
  induction h as [|x r IH]; intros pre k Hall Hk [e [He Hm]]; [destruct He|].
  cbn [first_min_from]. destruct (is_min all x) eqn:Ex.
  - exists x. split; [|exact Ex]. subst all k. rewrite nth_error_app2, Nat.sub_diag; [reflexivity|lia].
  - apply (IH (pre ++ [x]) (S k)).
    + rewrite <- app_assoc. exact Hall.
    + rewrite app_length. cbn. lia.
    + destruct He as [He|He]; [subst x; congruence|]. exists e. split; assumption.
Qed.

Lemma remove_nth_split (l1 l2 : heap) e : remove_nth (length l1) (l1 ++ e :: l2) = l1 ++ l2.
Proof.
  unfold remove_nth. rewrite firstn_app, Nat.sub_diag, firstn_all. cbn [firstn]. rewrite app_nil_r.
  replace (S (length l1)) with (length (l1 ++ [e])) by (rewrite app_length; cbn; lia).
  replace (l1 ++ e :: l2) with ((l1 ++ [e]) ++ l2) by (rewrite <- app_assoc; reflexivity).
  rewrite skipn_app, Nat.sub_diag, skipn_all. reflexivity.
Qed.

Lemma pop_min_some k h e h' :
  pop_min k h = Some (e, h') ->
  exists l1 l2, h = l1 ++ e :: l2 /\ h' = l1 ++ l2 /\ Forall (kle e) h.
Proof.
  unfold pop_min. destruct (nth_error h (choose k h)) as [e0|] eqn:En; [|discriminate].
  destruct (is_min h e0) eqn:Em; [|discriminate].
  intros H. inversion H; subst e0 h'. clear H.
  apply nth_error_split in En. destruct En as [l1 [l2 [Hh Hl]]].
  exists l1, l2. split; [exact Hh|]. split.
  - rewrite <- Hl. rewrite Hh. apply remove_nth_split.
  - apply is_min_spec. exact Em.
Qed.

Lemma pop_min_none k h : pop_min k h = None -> h = [].
Proof.
  intros H. destruct h as [|x r]; [reflexivity|exfalso].
  set (h := x :: r) in *.
  assert (Hex : exists e, nth_error h (choose k h) = Some e /\ is_min h e = true).
  { unfold choose. destruct (valid_choice h k) eqn:Ev.
    - unfold valid_choice in Ev. destruct (nth_error h k) as [e|]; [|discriminate]. exists e. auto.
    - apply (first_min_from_spec h h [] 0%nat); [reflexivity|reflexivity|].
      destruct (exists_min h) as [e [He Hm]]; [discriminate|].
      exists e. split; [exact He|apply is_min_spec; exact Hm]. }
  destruct Hex as [e [He Hm]]. unfold pop_min in H. rewrite He, Hm in H. discriminate.
Qed.

Lemma pop_min_nil k : pop_min k [] = None.
Proof. unfold pop_min. destruct (choose k []); reflexivity. Qed.

Lemma pop_min_length k h e h' : pop_min k h = Some (e, h') -> length h = S (length h').
Proof.
  intros H. apply pop_min_some in H. destruct H as [l1 [l2 [Hh [Hh' _]]]]. subst.
  rewrite !app_length. cbn. lia.
Qed.

Lemma pop_min_perm k h e h' : pop_min k h = Some (e, h') -> Permutation h (e :: h').
Proof.
  intros H. apply pop_min_some in H. destruct H as [l1 [l2 [Hh [Hh' _]]]]. subst.
  symmetry. apply Permutation_middle.
Qed.

(* ---------------------------------------------------------------- release / flush *)
Lemma release_nil_facts (h : heap) (np : nat) thr rt :
  Permutation h ([] ++ h) /\
  StronglySorted kle [] /\
  Forall (fun x => Forall (kle x) h) [] /\
  Forall (fun x : entry => fst x + thr < rt) [] /\
  np = (np + @length entry [])%nat.
Proof. cbn. repeat split; try constructor; try reflexivity. lia. Qed.

Lemma release_spec pick thr rt : forall fuel np h out h' np',
  release pick fuel thr rt np h = Ok (out, h', np') ->
  Permutation h (out ++ h') /\
  StronglySorted kle out /\
  Forall (fun x => Forall (kle x) h') out /\
  Forall (fun x => fst x + thr < rt) out /\
  np' = (np + length out)%nat.
Proof.
  induction fuel as [|f IH]; intros np h out h' np' H; cbn [release] in H.
  - destruct (pop_min (pick np h) h) as [[e h1]|] eqn:Ep.
    + inv_ok H. destruct (a <? rt); [discriminate|]. inv_ok Hb.
      apply release_nil_facts.
    + inv_ok H. apply release_nil_facts.
  - destruct (pop_min (pick np h) h) as [[e h1]|] eqn:Ep.
    + inv_ok H. destruct (a <? rt) eqn:Elt.
      * inv_ok Hb. destruct a0 as [[out1 h2] np2]. inv_ok Hbb.
        apply IH in Hba. destruct Hba as [Hp [Hs [Hle [Hthr Hnp]]]].
        pose proof (pop_min_perm _ _ _ _ Ep) as Hp0.
        pose proof (pop_min_some _ _ _ _ Ep) as [l1 [l2 [_ [_ Hmin]]]].
        assert (Hall : Forall (kle e) (out1 ++ h')).
        { eapply Permutation_Forall; [exact Hp|].
          eapply Permutation_Forall in Hmin; [|exact Hp0]. inversion Hmin; assumption. }
        apply Forall_app in Hall. destruct Hall as [Ho Hh'].
        repeat split.
        -- cbn [app]. eapply Permutation_trans; [exact Hp0|]. apply perm_skip. exact Hp.
        -- constructor; assumption.
        -- constructor; assumption.
        -- constructor; [|exact Hthr]. apply add_chk_ok in Ha. apply N.ltb_lt in Elt. lia.
        -- cbn [length]. lia.
      * inv_ok Hb. apply release_nil_facts.
    + inv_ok H. apply release_nil_facts.
Qed.

Lemma flush_spec pick : forall fuel np h out,
  flush pick fuel np h = Ok out -> Permutation h out /\ StronglySorted kle out.
Proof.
  induction fuel as [|f IH]; intros np h out H; cbn [flush] in H.
  - destruct (pop_min (pick np h) h) as [[e h1]|] eqn:Ep; [discriminate|].
    inv_ok H. apply pop_min_none in Ep. subst. split; constructor.
  - destruct (pop_min (pick np h) h) as [[e h1]|] eqn:Ep.
    + inv_ok H. inv_ok Hb. apply IH in Ha. destruct Ha as [Hp Hs].
      pose proof (pop_min_perm _ _ _ _ Ep) as Hp0.
      pose proof (pop_min_some _ _ _ _ Ep) as [l1 [l2 [_ [_ Hmin]]]].
      split.
      * eapply Permutation_trans; [exact Hp0|]. apply perm_skip. exact Hp.
      * constructor; [exact Hs|].
        eapply Permutation_Forall in Hmin; [|exact Hp0]. inversion Hmin; subst.
        eapply Permutation_Forall; eassumption.
    + inv_ok H. apply pop_min_none in Ep. subst. split; constructor.
Qed.

(* fuel is sufficient: with fuel >= number of entries OutOfFuel is unreachable *)
Lemma release_fuel pick thr rt : forall fuel np h,
  (length h <= fuel)%nat -> release pick fuel thr rt np h <> OutOfFuel.
Proof.
  induction fuel as [|f IH]; intros np h Hl; cbn [release].
  - destruct h; [|cbn in Hl; lia]. rewrite pop_min_nil. discriminate.
  - destruct (pop_min (pick np h) h) as [[e h1]|] eqn:Ep; [|discriminate].
    unfold add_chk. destruct (fst e + thr <=? u64max); cbn [bind]; try discriminate.
    destruct (fst e + thr <? rt); [|discriminate].
    apply pop_min_length in Ep.
    specialize (IH (S np) h1). destruct (release pick f thr rt (S np) h1) as [[[o h2] n2]| |]; cbn [bind]; try discriminate.
    apply IH. lia.
Qed.

Lemma flush_ok pick : forall fuel np h,
  (length h <= fuel)%nat -> exists out, flush pick fuel np h = Ok out.
Proof.
  induction fuel as [|f IH]; intros np h Hl; cbn [flush].
  - destruct h; [|cbn in Hl; lia]. rewrite pop_min_nil. eexists; reflexivity.
  - destruct (pop_min (pick np h) h) as [[e h1]|] eqn:Ep; [|eexists; reflexivity].
    apply pop_min_length in Ep.
    destruct (IH (S np) h1) as [out Ho]; [lia|]. rewrite Ho. cbn [bind]. eexists; reflexivity.
Qed.
