(* Proofs about Convert/Select.v (part 1: the selection pipeline) *)
From Coq Require Import List NArith Bool Lia Permutation Arith.
From AdltV Require Import Base.Res Base.MachInt Merge.Multi Merge.MultiProofs Filter.Sets Filter.SetsProofs
     Lifecycle.Model Lifecycle.ForwardProofs Convert.Select.
Import ListNotations.
Open Scope N_scope.
(* Filter/SetsProofs.v has a [number] of its own *)
Notation number := Multi.number.

(* ------------------------------------------------------------------ small facts *)
Lemma c_index_set i x : c_index (c_set_index i x) = i. Proof. reflexivity. Qed.
Lemma c_rt_set i x : c_rt (c_set_index i x) = c_rt x. Proof. reflexivity. Qed.
Lemma c_uid_set i x : c_uid (c_set_index i x) = c_uid x. Proof. reflexivity. Qed.
Lemma c_set_set i j x : c_set_index i (c_set_index j x) = c_set_index i x. Proof. reflexivity. Qed.
Lemma c_index_set_lc x i : c_index (c_set_lc x i) = c_index x. Proof. reflexivity. Qed.
Lemma c_uid_set_lc x i : c_uid (c_set_lc x i) = c_uid x. Proof. reflexivity. Qed.
Lemma c_fv_set_lc x i : c_fv (c_set_lc x i) = c_fv x. Proof. reflexivity. Qed.
Lemma c_lc_set_lc x i : c_lc (c_set_lc x i) = i. Proof. reflexivity. Qed.

Lemma filter_true {A} (l : list A) : filter (fun _ => true) l = l.
Proof. induction l as [|a r IH]; [reflexivity|]. cbn. rewrite IH. reflexivity. Qed.

Lemma in_nseq x : forall n s, In x (nseq s n) -> s <= x < s + N.of_nat n.
Proof.
  induction n as [|n IH]; intros s H; [destruct H|].
  cbn [nseq] in H. destruct H as [H|H]; [subst; lia|]. apply IH in H. lia.
Qed.
Lemma NoDup_nseq : forall n s, NoDup (nseq s n).
Proof.
  induction n as [|n IH]; intros s; cbn [nseq]; constructor; [|apply IH].
  intros H. apply in_nseq in H. lia.
Qed.
Lemma nseq_length : forall n s, length (nseq s n) = n.
Proof. induction n as [|n IH]; intros s; cbn; [reflexivity|]. rewrite IH. reflexivity. Qed.

Lemma number_length {A} (si : N -> A -> A) (l : list A) : forall i, length (number si i l) = length l.
Proof. induction l as [|a r IH]; intros i; cbn; [reflexivity|]. rewrite IH. reflexivity. Qed.
Lemma number_map {A B} (si : N -> A -> A) (f : A -> B) (Hf : forall i a, f (si i a) = f a) (l : list A) :
  forall i, map f (number si i l) = map f l.
Proof. induction l as [|a r IH]; intros i; cbn; [reflexivity|]. rewrite Hf, IH. reflexivity. Qed.

(* ------------------------------------------------------------------ output thread *)
Definition passes (o : opts) (x : cmsg) : bool := lc_pass o x && in_window o x.

Lemma t4_loop_spec o l : forall s,
  t4_loop o l s =
  mkt (if has_style o then rev (filter (passes o) l) ++ t_screen s else t_screen s)
      (if o_file o then rev (filter (passes o) l) ++ t_file s else t_file s)
      (if has_style o || o_file o then t_output s + N.of_nat (length (filter (passes o) l)) else t_output s).
Proof.
  induction l as [|x r IH]; intros s.
  - cbn. destruct s as [a b c]. cbn. destruct (has_style o), (o_file o); cbn; rewrite ?N.add_0_r; reflexivity.
  - cbn [t4_loop filter]. destruct (lc_pass o x) eqn:El; cbn [negb].
    + destruct (in_window o x) eqn:Ew.
      * assert (Hp : passes o x = true) by (unfold passes; rewrite El, Ew; reflexivity). rewrite Hp.
        rewrite IH. cbn [t_screen t_file t_output rev length]. rewrite Nat2N.inj_succ.
        destruct (has_style o), (o_file o); cbn [orb]; rewrite <- ?app_assoc; cbn [app]; f_equal; lia.
      * assert (Hp : passes o x = false) by (unfold passes; rewrite El, Ew; reflexivity). rewrite Hp. apply IH.
    + assert (Hp : passes o x = false) by (unfold passes; rewrite El; reflexivity). rewrite Hp. apply IH.
Qed.

Lemma t4_spec o merged l :
  let sel := filter (passes o) l in
  r_screen (t4 o merged l) = (if has_style o then sel else []) /\
  r_file (t4 o merged l) = (if o_file o then Some sel else None) /\
  r_output (t4 o merged l) = (if has_style o || o_file o then N.of_nat (length sel) else 0) /\
  r_processed (t4 o merged l) = N.of_nat (length merged) /\
  r_table (t4 o merged l) = lc_table merged.
Proof.
  cbv zeta. unfold t4. rewrite t4_loop_spec. cbn [r_screen r_file r_output r_processed r_table t_screen t_file t_output].
  destruct (has_style o), (o_file o); cbn [orb]; rewrite ?app_nil_r, ?rev_involutive, ?N.add_0_l; auto.
Qed.

(* ------------------------------------------------------------------ filter thread *)
Lemma filter_stage_spec fs l : filter_stage fs l = filter (keep_spec fmatches fs) l.
Proof.
  unfold filter_stage. destruct fs as [|f r]; cbn [is_empty].
  - rewrite (filter_ext _ (fun _ => true)); [rewrite filter_true; reflexivity|]. intros a. reflexivity.
  - destruct (filter_as_streams_spec fmatches (f :: r) l) as [p [q [E _]]]. rewrite E. reflexivity.
Qed.

(* ------------------------------------------------------------------ lifecycle thread *)
Definition map2lc (l : list cmsg) (ids : list N) : list cmsg :=
  map (fun p => c_set_lc (fst p) (snd p)) (combine l ids).

Lemma combine_map_r {A B C} (g : B -> C) (l : list A) : forall (d : list B),
  combine l (map g d) = map (fun p => (fst p, g (snd p))) (combine l d).
Proof.
  induction l as [|a r IH]; intros d; [reflexivity|]. destruct d as [|b d]; [reflexivity|].
  cbn. rewrite IH. reflexivity.
Qed.

(* the lifecycle thread forwards the same messages, in order; only the lifecycle field is set (C05) *)
Lemma lc_stage_shape l : exists ids, length ids = length l /\ lc_stage l = map2lc l ids.
Proof.
  exists (map (fun x : msg * table => m_lc (fst x)) (fst (detect 1 [] (map c_m l)))). split.
  - pose proof (detect_forward 1 [] (map c_m l)) as H. apply (f_equal (@length _)) in H.
    rewrite !map_length in H. rewrite map_length. exact H.
  - unfold lc_stage, map2lc. rewrite combine_map_r, map_map. reflexivity.
Qed.

Lemma map2lc_map {B} (f : cmsg -> B) (Hf : forall x i, f (c_set_lc x i) = f x) l : forall ids,
  length ids = length l -> map f (map2lc l ids) = map f l.
Proof.
  unfold map2lc. induction l as [|a r IH]; intros ids H; [reflexivity|].
  destruct ids as [|i ids]; [discriminate|]. cbn in H. cbn. rewrite Hf, IH; [reflexivity|lia].
Qed.

Lemma lc_stage_map {B} (f : cmsg -> B) (Hf : forall x i, f (c_set_lc x i) = f x) l :
  map f (lc_stage l) = map f l.
Proof. destruct (lc_stage_shape l) as [ids [Hl E]]. rewrite E. apply map2lc_map; assumption. Qed.

Lemma lc_stage_length l : length (lc_stage l) = length l.
Proof. rewrite <- (map_length c_uid), (lc_stage_map c_uid c_uid_set_lc), map_length. reflexivity. Qed.

(* ------------------------------------------------------------------ chaining and merging *)
Definition stream_msgs (s : fstream) : list cmsg := concat (map (fun e => f_msgs (snd e)) s).
(* what one stream yields: its files' messages, concatenated, numbered from 0 *)
Definition chain (s : fstream) : list cmsg := number c_set_index 0 (stream_msgs s).
(* all messages that go into the merge (a file that is named twice and not de-duplicated counts twice) *)
Definition all_msgs (args : list arg) : list cmsg := concat (map stream_msgs (streams_of args)).
(* no u32 index overflow: fewer than 2^32 messages *)
Definition InRange (args : list arg) : Prop := N.of_nat (length (all_msgs args)) <= u32max.

Definition same_but_index (a b : cmsg) : Prop := forall k, c_set_index k a = c_set_index k b.

Lemma number_same_but_index l l' : Forall2 same_but_index l l' -> forall i, number c_set_index i l = number c_set_index i l'.
Proof. induction 1 as [|a b r r' Hab _ IH]; intros i; cbn; [reflexivity|]. rewrite Hab, IH. reflexivity. Qed.

Lemma number_forall2 l : forall i, Forall2 same_but_index (number c_set_index i l) l.
Proof. induction l as [|a r IH]; intros i; cbn; constructor; [intros k; reflexivity|apply IH]. Qed.

Lemma concat_file_it (s : fstream) :
  Forall2 same_but_index (concat (map (fun e => file_it (snd e)) s)) (stream_msgs s).
Proof.
  unfold stream_msgs. induction s as [|e r IH]; cbn; [constructor|].
  apply Forall2_app; [apply number_forall2|exact IH].
Qed.

Lemma Forall2_length {A B} (R : A -> B -> Prop) l l' : Forall2 R l l' -> length l = length l'.
Proof. induction 1; cbn; auto. Qed.

Lemma stream_it_ok (s : fstream) :
  N.of_nat (length (stream_msgs s)) <= u32max -> stream_it s = Ok (chain s).
Proof.
  intros Hb. unfold stream_it, chain.
  assert (Hgen : seq_run c_set_index 0 (map (fun e => file_it (snd e)) s) = Ok (number c_set_index 0 (stream_msgs s))).
  { rewrite seq_run_concat.
    - rewrite (number_same_but_index _ _ (concat_file_it s)). reflexivity.
    - rewrite (Forall2_length _ _ _ (concat_file_it s)). lia. }
  destruct s as [|e [|e2 r]]; cbn [map seq_run_or_single]; try exact Hgen.
  unfold stream_msgs. cbn. rewrite app_nil_r. reflexivity.
Qed.

Lemma length_concat_in {A B} (g : A -> list B) s ss : In s ss -> (length (g s) <= length (concat (map g ss)))%nat.
Proof.
  induction ss as [|a r IH]; intros H; [destruct H|]. cbn. rewrite app_length.
  destruct H as [H|H]; [subst; lia|]. apply IH in H. lia.
Qed.

Lemma all_its_ok (ss : list fstream) :
  N.of_nat (length (concat (map stream_msgs ss))) <= u32max -> all_its ss = Ok (map chain ss).
Proof.
  induction ss as [|s r IH]; intros Hb; [reflexivity|].
  cbn in Hb. rewrite app_length in Hb. cbn [all_its map].
  rewrite stream_it_ok by lia. rewrite IH by lia. reflexivity.
Qed.

Lemma concat_chain_uids ss : map c_uid (concat (map chain ss)) = map c_uid (concat (map stream_msgs ss)).
Proof.
  induction ss as [|s r IH]; [reflexivity|]. cbn. rewrite !map_app, IH. unfold chain.
  rewrite (number_map c_set_index c_uid c_uid_set). reflexivity.
Qed.

(* the merged stream: numbered 0.. by position, every message of every stream exactly once *)
Lemma merged_spec args merged :
  InRange args -> Merged args merged ->
  map c_index merged = nseq 0 (length merged) /\
  Permutation (map c_uid merged) (map c_uid (all_msgs args)).
Proof.
  intros Hb [its [Hits Hm]]. unfold InRange, all_msgs in Hb. rewrite all_its_ok in Hits by exact Hb.
  inversion Hits; subst its. clear Hits.
  destruct Hm as [it E|out Hl Hr].
  - destruct (streams_of args) as [|s [|s2 r]] eqn:Es; try discriminate. cbn in E. inversion E; subst it.
    unfold all_msgs. rewrite Es. cbn. rewrite app_nil_r. unfold chain. split.
    + rewrite (number_indices c_set_index c_index c_index_set), number_length. reflexivity.
    + rewrite (number_map c_set_index c_uid c_uid_set). apply Permutation_refl.
  - split.
    + exact (run_indices c_rt c_set_index c_index c_index_set _ _ _ Hr).
    + pose proof (run_perm_gen c_rt c_set_index c_uid c_uid_set _ _ _ Hr) as P.
      rewrite contents_new_heap in P. unfold all_msgs. rewrite <- concat_chain_uids. exact P.
Qed.

(* ------------------------------------------------------------------ the selection *)
(* the property's predicate: inside the index window, lifecycle selected, kept by the filter set *)
Definition selected (o : opts) (x : cmsg) : bool :=
  in_window o x && lc_pass o x && keep_spec fmatches (o_filters o) x.

(* the unfiltered input as convert numbers and labels it: the merged stream after lifecycle detection *)
Definition Input (args : list arg) (inp : list cmsg) : Prop :=
  exists merged, Merged args merged /\ inp = lc_stage merged.

Lemma Input_spec args inp :
  InRange args -> Input args inp ->
  map c_index inp = nseq 0 (length inp) /\ NoDup (map c_index inp) /\
  Permutation (map c_uid inp) (map c_uid (all_msgs args)).
Proof.
  intros Hb [merged [Hm E]]. subst inp. destruct (merged_spec _ _ Hb Hm) as [Hi Hp].
  rewrite (lc_stage_map c_index c_index_set_lc), (lc_stage_map c_uid c_uid_set_lc), lc_stage_length.
  split; [exact Hi|]. split; [rewrite Hi; apply NoDup_nseq|exact Hp].
Qed.

Lemma filter_filter {A} (p q : A -> bool) l : filter p (filter q l) = filter (fun x => q x && p x) l.
Proof.
  induction l as [|a r IH]; [reflexivity|]. cbn. destruct (q a); cbn; [destruct (p a); rewrite IH; reflexivity|exact IH].
Qed.

Lemma Permutation_filter {A} (p : A -> bool) l l' : Permutation l l' -> Permutation (filter p l) (filter p l').
Proof.
  induction 1 as [|x l l' _ IH|x y l|l l' l'' _ IH1 _ IH2]; cbn.
  - constructor.
  - destruct (p x); [constructor|]; exact IH.
  - destruct (p x), (p y); try apply Permutation_refl. apply perm_swap.
  - eapply Permutation_trans; eassumption.
Qed.

Section Selection.
  Variable sorter : list cmsg -> list cmsg -> Prop.
  Hypothesis sorter_perm : forall l out, sorter l out -> Permutation out l.

  (* what leaves the pipeline in front of the screen / the file *)
  Definition emitted (o : opts) (r : outcome) (em : list cmsg) : Prop :=
    r_screen r = (if has_style o then em else []) /\
    r_file r = (if o_file o then Some em else None) /\
    r_output r = (if has_style o || o_file o then N.of_nat (length em) else 0).

  Theorem convert_selects_exactly args o r :
    InRange args -> Convert sorter args o (Some r) ->
    exists inp em,
      Input args inp /\ emitted o r em /\
      (o_sort o = false -> em = filter (selected o) inp) /\
      Permutation em (filter (selected o) inp) /\
      NoDup (map c_index em) /\
      r_processed r = N.of_nat (length inp) /\
      map c_index inp = nseq 0 (length inp).
  Proof.
    intros Hb H. inversion H as [|merged sorted Hne Hm Hs E]; subst.
    set (inp := lc_stage merged).
    assert (Hin : Input args inp) by (exists merged; split; [exact Hm|reflexivity]).
    destruct (Input_spec _ _ Hb Hin) as [Hidx [Hnd _]].
    exists inp, (filter (passes o) (filter_stage (o_filters o) sorted)).
    destruct (t4_spec o merged (filter_stage (o_filters o) sorted)) as [H1 [H2 [H3 [H4 _]]]].
    assert (Hsel : forall l, filter (passes o) (filter_stage (o_filters o) l) = filter (selected o) l).
    { intros l. rewrite filter_stage_spec, filter_filter. apply filter_ext. intros a.
      unfold selected, passes. destruct (keep_spec fmatches (o_filters o) a), (lc_pass o a), (in_window o a); reflexivity. }
    assert (Hperm : Permutation sorted inp).
    { unfold sort_stage in Hs. destruct (o_sort o); [apply sorter_perm; exact Hs|subst; apply Permutation_refl]. }
    split; [exact Hin|]. split; [split; [exact H1|split; [exact H2|exact H3]]|].
    rewrite Hsel. split; [|split; [|split; [|split]]].
    - intros Ho. unfold sort_stage in Hs. rewrite Ho in Hs. subst sorted. reflexivity.
    - apply Permutation_filter. exact Hperm.
    - assert (P : Permutation (map c_index (filter (selected o) sorted)) (map c_index (filter (selected o) inp)))
        by (apply Permutation_map, Permutation_filter; exact Hperm).
      apply (Permutation_NoDup (Permutation_sym P)).
      clear -Hnd. induction inp as [|a r IH]; [constructor|]. cbn in Hnd. inversion Hnd as [|? ? Hni Hr]; subst.
      cbn. destruct (selected o a); [|apply IH; exact Hr]. cbn. constructor; [|apply IH; exact Hr].
      intros Hc. apply Hni. apply in_map_iff in Hc. destruct Hc as [y [Hy1 Hy2]]. apply filter_In in Hy2.
      apply in_map_iff. exists y. tauto.
    - rewrite H4. unfold inp. rewrite lc_stage_length. reflexivity.
    - exact Hidx.
  Qed.

  (* without any selection option the screen shows the whole input: "the unfiltered input" of the property is
     what convert itself prints *)
  Theorem convert_no_selection_shows_input args style r :
    InRange args -> style <> 0 ->
    Convert sorter args (mko 0 u32max [] [] false style false) (Some r) ->
    Input args (r_screen r) /\ r_file r = None.
  Proof.
    intros Hb Hst H. destruct (convert_selects_exactly _ _ _ Hb H) as [inp [em [Hin [[E1 [E2 _]] [Hns [_ [_ [_ Hidx]]]]]]]].
    specialize (Hns eq_refl). cbn [o_file] in E2. split; [|exact E2].
    assert (Hs : has_style (mko 0 u32max [] [] false style false) = true).
    { unfold has_style. cbn [o_style]. apply N.eqb_neq in Hst. rewrite Hst. reflexivity. }
    rewrite Hs in E1. rewrite E1, Hns.
    assert (Hall : filter (selected (mko 0 u32max [] [] false style false)) inp = inp).
    { rewrite (filter_ext_in _ (fun _ => true)); [apply filter_true|].
      intros a Ha. unfold selected, in_window, lc_pass. cbn [o_first o_last o_lcs o_filters is_empty orb andb].
      assert (Hi : In (c_index a) (map c_index inp)) by (apply in_map; exact Ha).
      rewrite Hidx in Hi. apply in_nseq in Hi.
      destruct (Input_spec _ _ Hb Hin) as [_ [_ Hp]].
      apply Permutation_length in Hp. rewrite !map_length in Hp. unfold InRange in Hb.
      replace (0 <=? c_index a) with true by (symmetry; apply N.leb_le; lia).
      replace (c_index a <=? u32max) with true by (symmetry; apply N.leb_le; lia).
      reflexivity. }
    rewrite Hall. exact Hin.
  Qed.
End Selection.

(* the executable run is a run *)
Lemma merged_first_Merged args merged : InRange args -> merged_first args = Ok merged -> Merged args merged.
Proof.
  intros Hb H. unfold merged_first in H. unfold InRange, all_msgs in Hb.
  pose proof (all_its_ok _ Hb) as Hits. rewrite Hits in H. exists (map chain (streams_of args)). split; [exact Hits|].
  destruct (map chain (streams_of args)) as [|it [|it2 r]] eqn:E.
  - apply SRS_multi; [discriminate|]. cbn in H. inversion H. constructor.
  - inversion H; subst. apply SRS_single. reflexivity.
  - apply SRS_multi; [cbn; discriminate|].
    destruct (run_first_ok c_rt c_set_index (length (concat (it :: it2 :: r))) 0 (new_heap (it :: it2 :: r))) as [out [Ho Hr]].
    + unfold hsize. rewrite contents_new_heap. reflexivity.
    + rewrite <- E. rewrite <- (map_length c_uid), concat_chain_uids, map_length. cbn. exact Hb.
    + rewrite Ho in H. inversion H; subst. exact Hr.
Qed.

Lemma convert_first_Convert sorter args o r :
  InRange args -> o_sort o = false -> convert_first args o = Ok (Some r) -> Convert sorter args o (Some r).
Proof.
  intros Hb Ho H. unfold convert_first in H. destruct (files_ok args) as [|f fs] eqn:Ef; [discriminate|].
  destruct (merged_first args) as [merged| |] eqn:Em; try discriminate. inversion H; subst r.
  apply Conv_run with (sorted := lc_stage merged).
  - rewrite Ef. discriminate.
  - apply merged_first_Merged; assumption.
  - unfold sort_stage. rewrite Ho. reflexivity.
Qed.

Lemma memN_In x l : memN x l = true <-> In x l.
Proof.
  unfold memN. rewrite existsb_exists. split.
  - intros [y [Hy E]]. apply N.eqb_eq in E. subst. exact Hy.
  - intros H. exists x. split; [exact H|apply N.eqb_refl].
Qed.

(* the selection predicate, spelled out *)
Lemma selected_meaning o x :
  selected o x = true <->
  (o_first o <= c_index x <= o_last o) /\
  (o_lcs o = [] \/ In (c_lc x) (o_lcs o)) /\
  ((~ (exists f, In f (o_filters o) /\ f_enabled f = true /\ f_kind f = Positive) \/
    (exists f, In f (o_filters o) /\ f_enabled f = true /\ f_kind f = Positive /\ fmatches f x = true)) /\
   ~ (exists f, In f (o_filters o) /\ f_enabled f = true /\ f_kind f = Negative /\ fmatches f x = true)).
Proof.
  unfold selected, in_window, lc_pass. rewrite !andb_true_iff, orb_true_iff, !N.leb_le, memN_In.
  rewrite (keep_spec_prop fmatches (o_filters o) x).
  assert (He : is_empty (o_lcs o) = true <-> o_lcs o = []) by (destruct (o_lcs o); cbn; split; intros; congruence).
  rewrite He. tauto.
Qed.
