(* C14 — the verdict [fmatches] the selection (Convert/Select.v, C14_selected_meaning) reads for the k-th filter of
   the filter vector of an elaborated case (Exec/C14.v [elab]) IS the model of Filter::matches (C11) for the k-th
   loaded filter and the message's header parts; kind and enabled flag are the loaded filter's. *)
From Coq Require Import List NArith Bool Lia.
From AdltV Require Import Base.Obs Base.Res Base.MachInt Merge.Multi Filter.Sets Lifecycle.Model Convert.Select Exec.C14.
From AdltV Require Filter.Match Filter.MatchProofs Filter.Frontends Convert.VerdictProofs.
Import ListNotations.
Open Scope N_scope.

Lemma mk_filters_nth l : forall k0 k d,
  (k < length l)%nat ->
  nth k (mk_filters k0 l) d =
  mkFlt (mk_kind (fst (nth k l (0, false)))) (snd (nth k l (0, false))) (k0 + N.of_nat k).
Proof.
  induction l as [|[kd en] r IH]; intros k0 k d Hk; cbn [length] in Hk; [lia|].
  cbn [mk_filters]. destruct k as [|k].
  - cbn [nth fst snd]. rewrite N.add_0_r. reflexivity.
  - cbn [nth]. rewrite IH by lia. f_equal. lia.
Qed.

Lemma mk_cmsg_elab_fv fv_of (sm : src_msg) : c_fv (mk_cmsg (elab_msg fv_of sm)) = fv_of (snd sm).
Proof. destruct sm as [[[[[[uid e] rt] ts] has_ts] creq] h]. reflexivity. Qed.

Section Elab.
  Variable valid : Match.engine -> Match.pattern -> bool.
  Variable re : Match.engine -> Match.pattern -> Match.text -> bool.

  Theorem elaborated_verdict srcs fs k (sm : src_msg) :
    load_all valid srcs = Some fs -> (k < length fs)%nat ->
    let x := mk_cmsg (elab_msg (verdicts re fs) sm) in
    let f := nth k (mk_filters 0 (map kind_enabled fs)) (mkFlt Positive false 0) in
    let g := nth k fs (Match.filter_new 0) in
    let m := msg_of_hdr (snd sm) in
    f_kind f = mk_kind (Match.f_kind g) /\
    f_enabled f = Match.f_enabled g /\
    fmatches f x = Match.matches re g m /\
    fmatches f x = Match.f_enabled g && Match.criteria_hold re g m /\
    (snd (snd sm) = None -> Match.needs_ext_header g = true -> fmatches f x = false).
  Proof.
    intros Hl Hk x f g m.
    assert (Hf : f = mkFlt (mk_kind (Match.f_kind g)) (Match.f_enabled g) (N.of_nat k)).
    { unfold f. rewrite mk_filters_nth by (rewrite map_length; exact Hk).
      rewrite (nth_indep _ (0, false) (kind_enabled (Match.filter_new 0))) by (rewrite map_length; exact Hk).
      rewrite (map_nth kind_enabled). reflexivity. }
    assert (Hm : fmatches f x = Match.matches re g m).
    { unfold fmatches, x. rewrite mk_cmsg_elab_fv, Hf. cbn [f_id]. rewrite Nat2N.id.
      apply VerdictProofs.verdicts_nth. exact Hk. }
    assert (Hin : In g fs) by (apply nth_In; exact Hk).
    rewrite Hf. cbn [f_kind f_enabled]. repeat split.
    - rewrite <- Hf. exact Hm.
    - rewrite <- Hf, Hm. exact (VerdictProofs.loaded_verdict_is_criteria valid re srcs fs g m Hl Hin).
    - intros He Hn. rewrite <- Hf, Hm.
      apply (VerdictProofs.loaded_verdict_no_ext valid re srcs fs g m Hl Hin); [|exact Hn].
      unfold m, msg_of_hdr. cbn [Match.m_ext]. rewrite He. reflexivity.
  Qed.
End Elab.
