(* Proofs about Convert/Select.v (part 3): without reception-time ties between messages of different streams the
   heap merge has exactly one run, so the merged stream is a function of the file arguments. *)
From Coq Require Import List NArith Bool Lia Permutation Arith.
From AdltV Require Import Base.Res Base.MachInt Merge.Multi Merge.MultiProofs Filter.Sets Lifecycle.Model
     Convert.Select Convert.SelectProofs.
Import ListNotations.
Open Scope N_scope.

Section Det.
  Context {A : Type}.
  Variable rt : A -> N.
  Variable set_index : N -> A -> A.
  Variable src : A -> nat.     (* which source a message comes from *)

  Notation Run := (Run rt set_index).
  Notation next := (next rt set_index).

  (* equal reception times only inside one source *)
  Definition TieFree (l : list A) : Prop := forall x y, In x l -> In y l -> rt x = rt y -> src x = src y.

  Lemma split_unique {B C} (f : B -> C) (l1 : list B) : forall x l2 l1' x' l2',
    NoDup (map f (l1 ++ x :: l2)) -> l1 ++ x :: l2 = l1' ++ x' :: l2' -> f x = f x' ->
    l1 = l1' /\ x = x' /\ l2 = l2'.
  Proof.
    induction l1 as [|a r IH]; intros x l2 l1' x' l2' Hnd E Hf.
    - destruct l1' as [|a' r']; cbn in E.
      + inversion E. auto.
      + inversion E; subst. cbn in Hnd. inversion Hnd as [|? ? Hni _]; subst. exfalso. apply Hni.
        rewrite Hf, map_app. apply in_or_app. right. left. reflexivity.
    - destruct l1' as [|a' r']; cbn in E.
      + inversion E; subst. cbn in Hnd. inversion Hnd as [|? ? Hni _]; subst. exfalso. apply Hni.
        rewrite <- Hf, map_app. apply in_or_app. right. left. reflexivity.
      + inversion E; subst. cbn in Hnd. inversion Hnd as [|? ? _ Hnd']; subst.
        destruct (IH _ _ _ _ _ Hnd' H1 Hf) as [E1 [E2 E3]]. subst. auto.
  Qed.

  Lemma is_min_le (h : heap) e e' : is_min rt h e = true -> In e' h -> rt (fst e) <= rt (fst e').
  Proof. unfold is_min. rewrite forallb_forall. intros H Hi. apply N.leb_le. apply H. exact Hi. Qed.

  Lemma in_contents_head (h : @heap A) m it : In (m, it) h -> In m (contents h).
  Proof.
    unfold contents. intros H. apply in_flat_map. exists (m, it). split; [exact H|left; reflexivity].
  Qed.

  Lemma in_contents_step (l1 : @heap A) a it l2 x :
    In x (contents (push_next (l1 ++ l2) it)) -> In x (contents (l1 ++ (a, it) :: l2)).
  Proof.
    unfold contents. rewrite !in_flat_map. intros [e [He Hx]].
    destruct it as [|m2 r]; cbn [push_next] in He.
    - exists e. split; [|exact Hx]. apply in_app_or in He. apply in_or_app. destruct He; [left|right; right]; assumption.
    - apply in_app_or in He. destruct He as [He|[He|[]]].
      + exists e. split; [|exact Hx]. apply in_app_or in He. apply in_or_app. destruct He; [left|right; right]; assumption.
      + subst e. exists (a, m2 :: r). split; [apply in_or_app; right; left; reflexivity|]. cbn [fst snd] in *. right. exact Hx.
  Qed.

  Lemma run_det : forall idx h o1, Run idx h o1 -> Tagged src h -> TieFree (contents h) -> forall o2, Run idx h o2 -> o1 = o2.
  Proof.
    induction 1 as [idx|idx h k m st' out Hn Hr IH]; intros Ht Hf o2 H2.
    - inversion H2 as [|? ? k2 m2 st2 out2 Hn2 _]; subst; [reflexivity|]. cbn in Hn2. discriminate.
    - inversion H2 as [|? ? k2 m2 st2 out2 Hn2 Hr2]; subst; [cbn in Hn; discriminate|].
      apply next_some in Hn. destruct Hn as [l1 [a [it [l2 [Hh [_ [Hmin [Hm [_ Hst]]]]]]]]].
      apply next_some in Hn2. destruct Hn2 as [l1' [a' [it' [l2' [Hh' [_ [Hmin' [Hm' [_ Hst']]]]]]]]].
      subst h.
      assert (Hin : In (a, it) (l1 ++ (a, it) :: l2)) by (apply in_or_app; right; left; reflexivity).
      assert (Hin' : In (a', it') (l1 ++ (a, it) :: l2)) by (rewrite Hh'; apply in_or_app; right; left; reflexivity).
      pose proof (is_min_le _ _ _ Hmin Hin') as L1. pose proof (is_min_le _ _ _ Hmin' Hin) as L2. cbn [fst] in L1, L2.
      assert (Hs : src a = src a') by (apply Hf; [eapply in_contents_head; exact Hin|eapply in_contents_head; exact Hin'|lia]).
      destruct Ht as [Hnd Hhom].
      destruct (split_unique (esrc src) _ _ _ _ _ _ Hnd Hh' Hs) as [E1 [E2 E3]].
      inversion E2; subst l1' a' it' l2'.
      subst m m2 st' st2. f_equal. cbn [fst snd] in *. apply IH.
      + apply Tagged_step with (m := a). split; assumption.
      + intros x y Hx Hy. apply Hf; apply in_contents_step; assumption.
      + exact Hr2.
  Qed.
End Det.

(* no reception-time ties between messages of different streams: some labelling of the messages by the number of
   their stream (it may look at everything but the index) such that equal reception times imply equal labels *)
Definition NoCrossStreamTies (args : list arg) : Prop :=
  exists src : cmsg -> nat,
    its_tagged src 0 (map chain (streams_of args)) /\
    TieFree c_rt src (concat (map chain (streams_of args))).

Theorem merged_unique args m1 m2 :
  InRange args -> NoCrossStreamTies args -> Merged args m1 -> Merged args m2 -> m1 = m2.
Proof.
  intros Hb [src [Htag Htf]] [its1 [E1 H1]] [its2 [E2 H2]].
  unfold InRange, all_msgs in Hb. rewrite all_its_ok in E1, E2 by exact Hb.
  inversion E1; subst its1. inversion E2; subst its2. clear E1 E2.
  destruct H1 as [it1 Es1|o1 Hl1 Hr1]; destruct H2 as [it2 Es2|o2 Hl2 Hr2].
  - rewrite Es1 in Es2. inversion Es2. reflexivity.
  - rewrite Es1 in Hl2. cbn in Hl2. congruence.
  - rewrite Es2 in Hl1. cbn in Hl1. congruence.
  - apply (run_det c_rt c_set_index src _ _ _ Hr1); [| |exact Hr2].
    + rewrite new_heap_flat. exact (proj1 (tagged_flat src _ _ Htag)).
    + rewrite contents_new_heap. exact Htf.
Qed.
