(* The --sort stage of convert as an instance of the model of buffer_sort_messages (Sort/BufferSort.v, C10):
   `buffer_sort_messages(rx, tx, &lcs_r, 3, 20 * US_PER_SEC)`.  The lifecycle table the sort thread reads (and when
   it reads it) and the heap's tie-breaking are existentially quantified; C10's permutation theorem then gives the
   only fact the selection needs. *)
From Coq Require Import List NArith Bool Lia Permutation Arith.
From AdltV Require Import Base.Res Base.MachInt Lifecycle.Model Convert.Select.
From AdltV Require Sort.BufferSort Sort.BufferSortProofs.
Import ListNotations.
Open Scope N_scope.

(* the fields buffer_sort_messages reads; the position in the input stands for the rest of the message *)
Definition to_bs (pos : N) (x : cmsg) : BufferSort.msg :=
  BufferSort.mkmsg (c_index x) (c_rt x) (c_ecu x) (m_ts (c_m x) / 100) (m_creq (c_m x)) (c_lc x) pos.
Fixpoint tag_bs (pos : N) (l : list cmsg) : list BufferSort.msg :=
  match l with [] => [] | x :: r => to_bs pos x :: tag_bs (pos + 1) r end.
Definition untag (l : list cmsg) (b : BufferSort.msg) : option cmsg := nth_error l (N.to_nat (BufferSort.m_tag b)).

Definition sorter_bs (l out : list cmsg) : Prop :=
  exists pick lcs outb,
    BufferSort.run pick 3 20000000 lcs (tag_bs 0 l) = Ok outb /\ map Some out = map (untag l) outb.

Lemma untag_tag pre : forall r,
  map (untag (pre ++ r)) (tag_bs (N.of_nat (length pre)) r) = map Some r.
Proof.
  intros r. revert pre. induction r as [|x r IH]; intros pre; [reflexivity|].
  cbn [tag_bs map]. f_equal.
  - unfold untag, to_bs. cbn [BufferSort.m_tag]. rewrite Nat2N.id, nth_error_app2, Nat.sub_diag by lia. reflexivity.
  - specialize (IH (pre ++ [x])). rewrite <- app_assoc in IH. cbn [app] in IH.
    rewrite app_length in IH. cbn [length] in IH.
    replace (N.of_nat (length pre) + 1) with (N.of_nat (length pre + 1)) by lia. exact IH.
Qed.

Lemma map_Some_inj {A} (a b : list A) : map Some a = map Some b -> a = b.
Proof.
  revert b. induction a as [|x r IH]; intros [|y s] H; try discriminate; [reflexivity|].
  cbn in H. inversion H. f_equal. apply IH. assumption.
Qed.

Theorem sorter_bs_perm l out : sorter_bs l out -> Permutation out l.
Proof.
  intros [pick [lcs [outb [Hr Ho]]]].
  pose proof (BufferSortProofs.run_perm _ _ _ _ _ _ Hr) as P.
  apply (Permutation_map (untag l)) in P. rewrite <- Ho in P.
  pose proof (untag_tag [] l) as E. cbn [app length N.of_nat] in E. rewrite E in P.
  apply Permutation_map_inv in P. destruct P as [l3 [E3 P3]].
  apply map_Some_inj in E3. subst l3. apply Permutation_sym. exact P3.
Qed.
