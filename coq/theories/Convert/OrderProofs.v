(* Proofs about Convert/Select.v (part 2: the order of the file arguments does not matter) *)
From Coq Require Import List NArith Bool Lia Permutation Sorted Arith.
From AdltV Require Import Base.Res Base.MachInt Merge.Multi Filter.Sets Lifecycle.Model Convert.Select Convert.SelectProofs.
Import ListNotations.
Open Scope N_scope.

(* ------------------------------------------------------------------ sets of ECU ids *)
Lemma subset_spec a b : subset a b = true <-> (forall x, In x a -> In x b).
Proof.
  unfold subset. rewrite forallb_forall. split; intros H x Hx; [apply memN_In|apply memN_In]; auto.
Qed.
Lemma set_eqb_spec a b : set_eqb a b = true <-> (forall x, In x a <-> In x b).
Proof.
  unfold set_eqb. rewrite andb_true_iff, !subset_spec. split.
  - intros [H1 H2] x. split; auto.
  - intros H. split; intros x; apply H.
Qed.
Lemma set_eqb_refl a : set_eqb a a = true.
Proof. apply set_eqb_spec. intros x. tauto. Qed.
Lemma set_eqb_sym a b : set_eqb a b = set_eqb b a.
Proof. unfold set_eqb. apply andb_comm. Qed.
Lemma set_eqb_trans a b c : set_eqb a b = true -> set_eqb b c = true -> set_eqb a c = true.
Proof. rewrite !set_eqb_spec. intros H1 H2 x. rewrite H1. apply H2. Qed.
Lemma set_eqb_cong a b c : set_eqb a b = true -> set_eqb a c = set_eqb b c.
Proof.
  intros H. destruct (set_eqb a c) eqn:E1, (set_eqb b c) eqn:E2; try reflexivity.
  - rewrite set_eqb_sym in H. rewrite (set_eqb_trans _ _ _ H E1) in E2. discriminate.
  - rewrite (set_eqb_trans _ _ _ H E2) in E1. discriminate.
Qed.

(* ------------------------------------------------------------------ stable sort by time *)
Section Sort.
  Context {A : Type}.
  Notation keyed := (N * A)%type.
  Definition key_le (a b : keyed) : Prop := fst a <= fst b.
  Definition KeyInj (l : list keyed) : Prop := forall a b, In a l -> In b l -> fst a = fst b -> a = b.

  Lemma ins_time_perm (e : keyed) l : Permutation (ins_time e l) (e :: l).
  Proof.
    induction l as [|y r IH]; cbn; [apply Permutation_refl|].
    destruct (fst y <? fst e); [|apply Permutation_refl].
    eapply Permutation_trans; [apply perm_skip; exact IH|apply perm_swap].
  Qed.
  Lemma sort_time_perm (l : list keyed) : Permutation (sort_time l) l.
  Proof.
    induction l as [|a r IH]; cbn; [constructor|].
    eapply Permutation_trans; [apply ins_time_perm|apply perm_skip; exact IH].
  Qed.

  Lemma ins_time_sorted (e : keyed) l : StronglySorted key_le l -> StronglySorted key_le (ins_time e l).
  Proof.
    induction l as [|y r IH]; intros H; cbn; [repeat constructor|].
    inversion H as [|? ? Hr Hy]; subst. destruct (fst y <? fst e) eqn:E.
    - constructor; [apply IH; exact Hr|].
      apply N.ltb_lt in E. apply (Permutation_Forall (Permutation_sym (ins_time_perm e r))). constructor; [unfold key_le; lia|exact Hy].
    - apply N.ltb_ge in E. constructor; [exact H|]. constructor; [exact E|].
      eapply Forall_impl; [|exact Hy]. intros z Hz. unfold key_le in *. lia.
  Qed.
  Lemma sort_time_sorted (l : list keyed) : StronglySorted key_le (sort_time l).
  Proof. induction l as [|a r IH]; cbn; [constructor|apply ins_time_sorted; exact IH]. Qed.

  (* sorted permutations of each other are equal when equal keys mean equal elements *)
  Lemma sorted_perm_eq (l : list keyed) : forall l',
    StronglySorted key_le l -> StronglySorted key_le l' -> Permutation l l' -> KeyInj l -> l = l'.
  Proof.
    induction l as [|a r IH]; intros l' Hs Hs' P Hk.
    - apply Permutation_nil in P. subst. reflexivity.
    - destruct l' as [|b r']; [apply Permutation_sym, Permutation_nil in P; discriminate|].
      inversion Hs as [|? ? Hsr Ha]; subst. inversion Hs' as [|? ? Hsr' Hb]; subst.
      assert (Hab : a = b).
      { assert (Ia : In a (b :: r')) by (apply (Permutation_in _ P); left; reflexivity).
        assert (Ib : In b (a :: r)) by (apply (Permutation_in _ (Permutation_sym P)); left; reflexivity).
        destruct Ia as [Ia|Ia]; [auto|]. destruct Ib as [Ib|Ib]; [auto|].
        rewrite Forall_forall in Ha, Hb. specialize (Ha _ Ib). specialize (Hb _ Ia). unfold key_le in *.
        apply Hk; [left; reflexivity|right; exact Ib|lia]. }
      subst b. f_equal. apply IH; auto.
      + eapply Permutation_cons_inv; exact P.
      + intros x y Hx Hy. apply Hk; right; assumption.
  Qed.

  Lemma KeyInj_perm (l l' : list keyed) : Permutation l l' -> KeyInj l -> KeyInj l'.
  Proof.
    intros P H a b Ia Ib. apply H; eapply Permutation_in; try apply Permutation_sym; eassumption.
  Qed.

  Lemma sort_time_perm_eq (l l' : list keyed) : Permutation l l' -> KeyInj l -> sort_time l = sort_time l'.
  Proof.
    intros P Hk. apply sorted_perm_eq; try apply sort_time_sorted.
    - eapply Permutation_trans; [apply sort_time_perm|]. eapply Permutation_trans; [exact P|]. apply Permutation_sym, sort_time_perm.
    - eapply KeyInj_perm; [apply Permutation_sym, sort_time_perm|exact Hk].
  Qed.
End Sort.

Lemma KeyInj_filter {A} (p : N * A -> bool) l : KeyInj l -> KeyInj (filter p l).
Proof. intros H a b Ia Ib. apply filter_In in Ia, Ib. apply H; tauto. Qed.

(* ------------------------------------------------------------------ dedup *)
Lemma dedup_incl l : forall x, In x (dedup_adj l) -> In x l.
Proof.
  induction l as [|a r IH]; intros x H; [destruct H|].
  cbn [dedup_adj] in H. destruct r as [|b r'].
  - exact H.
  - destruct (sentry_eqb a b).
    + right. apply IH. exact H.
    + destruct H as [H|H]; [left; exact H|right; apply IH; exact H].
Qed.
Lemma dedup_nonempty l : l <> [] -> dedup_adj l <> [].
Proof.
  induction l as [|a r IH]; intros H; [congruence|].
  cbn [dedup_adj]. destruct r as [|b r']; [discriminate|].
  destruct (sentry_eqb a b); [apply IH; discriminate|discriminate].
Qed.

(* ------------------------------------------------------------------ the partition *)
Definition ecus (e : sentry) : list N := ecus_seen (snd e).
Definition entries (fs : list file) : list sentry :=
  flat_map (fun f => match first_msg f with Some m => [(c_rt m, f)] | None => [] end) fs.
Definition add_entry (ss : list stream) (e : sentry) : list stream := add_to_streams ss (ecus e) e.
Definition part (es : list sentry) : list stream := fold_left add_entry es [].

Lemma partition_entries fs : forall ss,
  fold_left partition_step fs ss = fold_left add_entry (entries fs) ss.
Proof.
  induction fs as [|f r IH]; intros ss; [reflexivity|].
  cbn [fold_left entries flat_map]. fold (entries r). rewrite fold_left_app, IH. f_equal.
  unfold partition_step. destruct (first_msg f); reflexivity.
Qed.
Lemma partition_files_part fs : partition_files fs = part (entries fs).
Proof. apply partition_entries. Qed.

Definition fits (s : stream) (e : sentry) : bool := set_eqb (fst s) (ecus e).

Lemma add_to_streams_cases P e :
  (exists P1 s P2, P = P1 ++ s :: P2 /\ Forall (fun s' => fits s' e = false) P1 /\ fits s e = true /\
                   add_entry P e = P1 ++ (fst s, snd s ++ [e]) :: P2) \/
  (Forall (fun s' => fits s' e = false) P /\ add_entry P e = P ++ [(ecus e, [e])]).
Proof.
  unfold add_entry. induction P as [|s r IH]; cbn [add_to_streams]; [right; split; [constructor|reflexivity]|].
  destruct (set_eqb (fst s) (ecus e)) eqn:E.
  - left. exists [], s, r. repeat split; auto.
  - destruct IH as [[P1 [s0 [P2 [H1 [H2 [H3 H4]]]]]]|[H1 H2]].
    + left. exists (s :: P1), s0, P2. subst r. rewrite H4. repeat split; auto.
    + right. split; [constructor; [exact E|exact H1]|]. rewrite H2. reflexivity.
Qed.

(* pairwise different ECU sets *)
Definition Inequiv (l : list (list N)) : Prop := ForallOrdPairs (fun a b => set_eqb a b = false) l.

Lemma FOP_snoc {A} (R : A -> A -> Prop) l x : ForallOrdPairs R l -> Forall (fun a => R a x) l -> ForallOrdPairs R (l ++ [x]).
Proof.
  induction 1 as [|a l Ha _ IH]; intros Hx; cbn; [repeat constructor|].
  inversion Hx; subst. constructor; [apply Forall_app; split; [exact Ha|repeat constructor; assumption]|apply IH; assumption].
Qed.
Lemma FOP_in {A} (R : A -> A -> Prop) (Rsym : forall a b, R a b -> R b a) l1 a l2 b :
  ForallOrdPairs R (l1 ++ a :: l2) -> In b (l1 ++ l2) -> R a b.
Proof.
  induction l1 as [|c l1 IH]; cbn; intros H Hb.
  - inversion H; subst. rewrite Forall_forall in *. auto.
  - inversion H as [|? ? Hc Hr]; subst. destruct Hb as [Hb|Hb].
    + subst. apply Rsym. rewrite Forall_forall in Hc. apply Hc. apply in_or_app. right. left. reflexivity.
    + apply IH; assumption.
Qed.

Lemma filter_none {A} (p : A -> bool) l : (forall x, In x l -> p x = false) -> filter p l = [].
Proof.
  induction l as [|a r IH]; intros H; [reflexivity|]. cbn. rewrite (H a (or_introl eq_refl)). apply IH.
  intros x Hx. apply H. right. exact Hx.
Qed.

Record PInv (es : list sentry) (P : list stream) : Prop := {
  pi_content : forall s, In s P -> snd s = filter (fits s) es /\ snd s <> [];
  pi_inequiv : Inequiv (map fst P);
  pi_cover : forall e, In e es -> exists s, In s P /\ fits s e = true
}.

Lemma PInv_step es P e : PInv es P -> PInv (es ++ [e]) (add_entry P e).
Proof.
  intros [Hc Hi Hv].
  destruct (add_to_streams_cases P e) as [[P1 [s [P2 [HP [H1 [H2 H3]]]]]]|[H1 H2]].
  - rewrite H3. subst P. constructor.
    + intros s' Hs'. apply in_app_or in Hs'. rewrite filter_app. cbn [filter].
      destruct Hs' as [Hs'|[Hs'|Hs']].
      * destruct (Hc s' ltac:(apply in_or_app; left; exact Hs')) as [E Hn].
        rewrite Forall_forall in H1. rewrite (H1 _ Hs'), app_nil_r. split; assumption.
      * subst s'. unfold fits at 1 2. cbn [fst snd]. fold (fits s e). rewrite H2.
        destruct (Hc s ltac:(apply in_or_app; right; left; reflexivity)) as [E Hn].
        split; [rewrite E at 1; reflexivity|]. destruct (snd s); discriminate.
      * destruct (Hc s' ltac:(apply in_or_app; right; right; exact Hs')) as [E Hn].
        assert (Hf : fits s' e = false).
        { rewrite map_app in Hi. cbn [map] in Hi.
          assert (Hne : set_eqb (fst s) (fst s') = false).
          { apply (FOP_in _ (fun a b H => eq_trans (set_eqb_sym b a) H) _ _ _ _ Hi).
            apply in_or_app. right. apply in_map. exact Hs'. }
          unfold fits in *. destruct (set_eqb (fst s') (ecus e)) eqn:E3; [|reflexivity].
          rewrite set_eqb_sym in E3. rewrite (set_eqb_trans _ _ _ H2 E3) in Hne. discriminate. }
        rewrite Hf, app_nil_r. split; assumption.
    + rewrite map_app in *. cbn [map fst] in *. exact Hi.
    + intros e' He'. apply in_app_or in He'. destruct He' as [He'|[He'|[]]].
      * destruct (Hv _ He') as [s' [Hs' Hf]]. apply in_app_or in Hs'. destruct Hs' as [Hs'|[Hs'|Hs']].
        -- exists s'. split; [apply in_or_app; left; exact Hs'|exact Hf].
        -- subst s'. exists (fst s, snd s ++ [e]). split; [apply in_or_app; right; left; reflexivity|exact Hf].
        -- exists s'. split; [apply in_or_app; right; right; exact Hs'|exact Hf].
      * subst e'. exists (fst s, snd s ++ [e]). split; [apply in_or_app; right; left; reflexivity|exact H2].
  - rewrite H2. constructor.
    + intros s' Hs'. apply in_app_or in Hs'. rewrite filter_app. cbn [filter]. destruct Hs' as [Hs'|[Hs'|[]]].
      * destruct (Hc _ Hs') as [E Hn]. rewrite Forall_forall in H1. rewrite (H1 _ Hs'), app_nil_r. split; assumption.
      * subst s'. unfold fits at 2. cbn [fst snd]. rewrite set_eqb_refl. split; [|discriminate].
        assert (Hnone : filter (fits (ecus e, [e])) es = []).
        { apply filter_none. intros e' He'. destruct (Hv _ He') as [s' [Hs' Hf]].
          rewrite Forall_forall in H1. specialize (H1 _ Hs').
          unfold fits in *. cbn [fst]. destruct (set_eqb (ecus e) (ecus e')) eqn:E; [|reflexivity].
          rewrite set_eqb_sym in E. rewrite (set_eqb_trans _ _ _ Hf E) in H1. discriminate. }
        rewrite Hnone. reflexivity.
    + rewrite map_app. cbn [map fst]. apply FOP_snoc; [exact Hi|].
      rewrite Forall_map. exact H1.
    + intros e' He'. apply in_app_or in He'. destruct He' as [He'|[He'|[]]].
      * destruct (Hv _ He') as [s' [Hs' Hf]]. exists s'. split; [apply in_or_app; left; exact Hs'|exact Hf].
      * subst e'. exists (ecus e, [e]). split; [apply in_or_app; right; left; reflexivity|apply set_eqb_refl].
Qed.

Lemma PInv_part es : PInv es (part es).
Proof.
  unfold part. induction es as [|e r IH] using rev_ind.
  - constructor; [intros s []|constructor|intros e []].
  - rewrite fold_left_app. cbn [fold_left]. apply PInv_step. exact IH.
Qed.

(* ------------------------------------------------------------------ the canonical form of a stream *)
Definition equiv (e e' : sentry) : bool := set_eqb (ecus e) (ecus e').
(* the normalised stream of the class of entry e *)
Definition cls (es : list sentry) (e : sentry) : fstream := dedup_adj (sort_time (filter (equiv e) es)).

Lemma normalize_cls es s e : PInv es (part es) -> In s (part es) -> In e (snd s) -> normalize s = cls es e.
Proof.
  intros Hinv Hs He. destruct (pi_content _ _ Hinv s Hs) as [E _].
  assert (Hf : fits s e = true) by (rewrite E in He; apply filter_In in He; tauto).
  unfold normalize, cls. rewrite E. f_equal. f_equal. apply filter_ext. intros a.
  unfold fits, equiv in *. rewrite set_eqb_sym in Hf. rewrite (set_eqb_cong _ _ _ Hf). reflexivity.
Qed.

Lemma in_normalized es :
  forall x, In x (map normalize (part es)) <-> exists e, In e es /\ x = cls es e.
Proof.
  pose proof (PInv_part es) as Hinv. intros x. rewrite in_map_iff. split.
  - intros [s [Hx Hs]]. subst x. destruct (pi_content _ _ Hinv s Hs) as [E Hn].
    destruct (snd s) as [|e r] eqn:Es; [congruence|]. exists e. split.
    + assert (He : In e (filter (fits s) es)) by (rewrite <- E; left; reflexivity). apply filter_In in He. tauto.
    + apply normalize_cls; [exact Hinv|exact Hs|rewrite Es; left; reflexivity].
  - intros [e [He Hx]]. destruct (pi_cover _ _ Hinv e He) as [s [Hs Hf]]. exists s. split; [|exact Hs].
    subst x. apply normalize_cls; [exact Hinv|exact Hs|].
    destruct (pi_content _ _ Hinv s Hs) as [E _]. rewrite E. apply filter_In. tauto.
Qed.

Lemma cls_perm es es' e : Permutation es es' -> KeyInj es -> cls es e = cls es' e.
Proof.
  intros P Hk. unfold cls. f_equal. apply sort_time_perm_eq; [apply Permutation_filter; exact P|apply KeyInj_filter; exact Hk].
Qed.

(* elements of a normalised class: entries of the class *)
Lemma cls_in es e x : In x (cls es e) -> In x es /\ equiv e x = true.
Proof.
  unfold cls. intros H. apply dedup_incl in H. apply (Permutation_in _ (sort_time_perm _)) in H.
  apply filter_In in H. exact H.
Qed.
Lemma cls_nonempty es e : In e es -> cls es e <> [].
Proof.
  intros He. unfold cls. apply dedup_nonempty. intros H.
  assert (Hi : In e (sort_time (filter (equiv e) es))).
  { apply (Permutation_in _ (Permutation_sym (sort_time_perm _))). apply filter_In. split; [exact He|apply set_eqb_refl]. }
  rewrite H in Hi. destruct Hi.
Qed.
Lemma cls_equiv es e e' : equiv e e' = true -> cls es e = cls es e'.
Proof.
  intros H. unfold cls. f_equal. f_equal. apply filter_ext. intros a. unfold equiv in *. apply set_eqb_cong. exact H.
Qed.

Lemma normalized_NoDup es : NoDup (map normalize (part es)).
Proof.
  pose proof (PInv_part es) as Hinv. destruct Hinv as [Hc Hi _].
  induction (part es) as [|s r IH]; [constructor|].
  cbn [map] in *. inversion Hi as [|? ? Hs Hr]; subst. constructor.
  - intros Hin. apply in_map_iff in Hin. destruct Hin as [s' [E Hs']].
    destruct (Hc s (or_introl eq_refl)) as [E1 Hn1]. destruct (Hc s' (or_intror Hs')) as [E2 Hn2].
    (* an element of normalize s lies in snd s and in snd s' *)
    assert (Hne : normalize s <> []).
    { unfold normalize. apply dedup_nonempty. intros H0. apply Hn1.
      destruct (snd s) as [|a t]; [reflexivity|].
      assert (Ha : In a (sort_time (a :: t))) by (apply (Permutation_in _ (Permutation_sym (sort_time_perm _))); left; reflexivity).
      rewrite H0 in Ha. destruct Ha. }
    destruct (normalize s) as [|x t] eqn:En; [congruence|].
    assert (Hx1 : In x (snd s)).
    { assert (H0 : In x (normalize s)) by (rewrite En; left; reflexivity).
      unfold normalize in H0. apply dedup_incl in H0. apply (Permutation_in _ (sort_time_perm _)) in H0. exact H0. }
    assert (Hx2 : In x (snd s')).
    { assert (H0 : In x (normalize s')) by (rewrite E; left; reflexivity).
      unfold normalize in H0. apply dedup_incl in H0. apply (Permutation_in _ (sort_time_perm _)) in H0. exact H0. }
    rewrite E1 in Hx1. rewrite E2 in Hx2. apply filter_In in Hx1, Hx2. destruct Hx1 as [_ F1]. destruct Hx2 as [_ F2].
    rewrite Forall_forall in Hs. specialize (Hs (fst s') (in_map fst _ _ Hs')). cbv beta in Hs.
    unfold fits in *. rewrite (set_eqb_cong _ _ _ F1) in Hs. rewrite set_eqb_sym in Hs. congruence.
  - apply IH; [intros s0 H0; apply Hc; right; exact H0|exact Hr].
Qed.

(* ------------------------------------------------------------------ the theorem on entries *)
Definition keyed_streams (es : list sentry) : list (N * fstream) :=
  map (fun s => (stream_key s, s)) (map normalize (part es)).

Lemma keyed_KeyInj es : KeyInj es -> KeyInj (keyed_streams es).
Proof.
  intros Hk a b Ia Ib Hab. unfold keyed_streams in *.
  apply in_map_iff in Ia, Ib. destruct Ia as [x [Ea Hx]]. destruct Ib as [y [Eb Hy]]. subst a b. cbn [fst] in Hab.
  apply in_normalized in Hx, Hy. destruct Hx as [e1 [He1 Ex]]. destruct Hy as [e2 [He2 Ey]].
  assert (Hxy : x = y); [|rewrite Hxy; reflexivity].
  pose proof (cls_nonempty es e1 He1) as N1. pose proof (cls_nonempty es e2 He2) as N2.
  rewrite <- Ex in N1. rewrite <- Ey in N2.
  destruct x as [|h1 t1]; [congruence|]. destruct y as [|h2 t2]; [congruence|]. cbn [stream_key] in Hab.
  assert (I1 : In h1 (cls es e1)) by (rewrite <- Ex; left; reflexivity).
  assert (I2 : In h2 (cls es e2)) by (rewrite <- Ey; left; reflexivity).
  apply cls_in in I1, I2. destruct I1 as [I1 Q1]. destruct I2 as [I2 Q2].
  assert (Hh : h1 = h2) by (apply Hk; assumption). subst h2.
  rewrite Ex, Ey. rewrite (cls_equiv es e1 h1 Q1), (cls_equiv es e2 h1 Q2). reflexivity.
Qed.

Lemma keyed_streams_perm es es' : Permutation es es' -> KeyInj es -> Permutation (keyed_streams es) (keyed_streams es').
Proof.
  intros P Hk. unfold keyed_streams. apply Permutation_map. apply NoDup_Permutation; try apply normalized_NoDup.
  intros x. rewrite !in_normalized. split; intros [e [He Ex]]; exists e.
  - split; [eapply Permutation_in; eassumption|]. rewrite <- (cls_perm es es' e P Hk). exact Ex.
  - split; [eapply Permutation_in; [apply Permutation_sym|]; eassumption|]. rewrite (cls_perm es es' e P Hk). exact Ex.
Qed.

Lemma streams_entries args :
  streams_of args = map snd (sort_time (keyed_streams (entries (files_ok args)))).
Proof. unfold streams_of, keyed_streams. rewrite partition_files_part. reflexivity. Qed.

(* ------------------------------------------------------------------ from file arguments to entries *)
(* the files' first messages have distinct reception times: two named files whose first messages have the same
   reception time are the same file *)
Definition DistinctFirst (args : list arg) : Prop :=
  forall f g mf mg, In f (files_ok args) -> In g (files_ok args) ->
                    first_msg f = Some mf -> first_msg g = Some mg -> c_rt mf = c_rt mg -> f = g.

Lemma in_entries fs e : In e (entries fs) <-> exists f m, In f fs /\ first_msg f = Some m /\ e = (c_rt m, f).
Proof.
  unfold entries. rewrite in_flat_map. split.
  - intros [f [Hf He]]. destruct (first_msg f) as [m|] eqn:E; [|destruct He].
    destruct He as [He|[]]. exists f, m. auto.
  - intros [f [m [Hf [E He]]]]. exists f. split; [exact Hf|]. rewrite E. left. auto.
Qed.

Lemma DistinctFirst_KeyInj args : DistinctFirst args -> KeyInj (entries (files_ok args)).
Proof.
  intros H a b Ia Ib Hab. apply in_entries in Ia, Ib.
  destruct Ia as [f [mf [Hf [Ef Ea]]]]. destruct Ib as [g [mg [Hg [Eg Eb]]]]. subst a b. cbn [fst] in Hab.
  assert (f = g) by (eapply H; eassumption). subst g. rewrite Ef in Eg. inversion Eg. reflexivity.
Qed.

Lemma Permutation_flat_map {A B} (f : A -> list B) l l' : Permutation l l' -> Permutation (flat_map f l) (flat_map f l').
Proof.
  induction 1 as [|x l l' _ IH|x y l|l l' l'' _ IH1 _ IH2]; cbn.
  - constructor.
  - apply Permutation_app_head. exact IH.
  - rewrite !app_assoc. apply Permutation_app_tail. apply Permutation_app_comm.
  - eapply Permutation_trans; eassumption.
Qed.

Theorem file_order_irrelevant args args' :
  Permutation args args' -> DistinctFirst args -> streams_of args = streams_of args'.
Proof.
  intros P Hd. rewrite !streams_entries. f_equal.
  assert (Pe : Permutation (entries (files_ok args)) (entries (files_ok args'))).
  { unfold entries, files_ok. apply Permutation_flat_map, Permutation_flat_map. exact P. }
  pose proof (DistinctFirst_KeyInj _ Hd) as Hk.
  apply sort_time_perm_eq; [apply keyed_streams_perm; assumption|apply keyed_KeyInj; exact Hk].
Qed.

Lemma files_ok_perm_nil args args' : Permutation args args' -> (files_ok args = [] <-> files_ok args' = []).
Proof.
  intros P. assert (Pf : Permutation (files_ok args) (files_ok args')) by (apply Permutation_flat_map; exact P).
  split; intros H; rewrite H in Pf; [apply Permutation_nil in Pf|apply Permutation_sym, Permutation_nil in Pf]; exact Pf.
Qed.

Theorem convert_file_order_irrelevant sorter args args' o res :
  Permutation args args' -> DistinctFirst args ->
  (Convert sorter args o res <-> Convert sorter args' o res).
Proof.
  intros P Hd. pose proof (file_order_irrelevant _ _ P Hd) as E. pose proof (files_ok_perm_nil _ _ P) as Hn.
  assert (Hm : forall m, Merged args m <-> Merged args' m) by (intros m; unfold Merged; rewrite E; reflexivity).
  split; intros H; inversion H as [Hnil|merged sorted Hne Hmg Hs]; subst.
  - apply Conv_no_input. apply Hn. exact Hnil.
  - apply Conv_run; [rewrite <- Hn; exact Hne|apply Hm; exact Hmg|exact Hs].
  - apply Conv_no_input. apply Hn. exact Hnil.
  - apply Conv_run; [rewrite Hn; exact Hne|apply Hm; exact Hmg|exact Hs].
Qed.

(* ------------------------------------------------------------------ every named file is read exactly once *)
Lemma sentry_eqb_eq l a b : KeyInj l -> In a l -> In b l -> (sentry_eqb a b = true <-> a = b).
Proof.
  intros Hk Ia Ib. unfold sentry_eqb. rewrite andb_true_iff, !N.eqb_eq. split.
  - intros [H _]. apply Hk; assumption.
  - intros ->. auto.
Qed.

Lemma dedup_sorted_NoDup (l : list sentry) :
  StronglySorted key_le l -> KeyInj l -> NoDup (dedup_adj l) /\ (forall x, In x l -> In x (dedup_adj l)).
Proof.
  induction l as [|a r IH]; intros Hs Hk; [split; [constructor|intros x []]|].
  inversion Hs as [|? ? Hsr Ha]; subst.
  assert (Hkr : KeyInj r) by (intros x y Hx Hy; apply Hk; right; assumption).
  destruct (IH Hsr Hkr) as [Hnd Hall].
  cbn [dedup_adj]. destruct r as [|b r'].
  - split; [repeat constructor; intros []|intros x [Hx|[]]; left; exact Hx].
  - destruct (sentry_eqb a b) eqn:E.
    + apply (sentry_eqb_eq (a :: b :: r')) in E; [|exact Hk|left; reflexivity|right; left; reflexivity]. subst b.
      split; [exact Hnd|]. intros x [Hx|Hx]; [subst x; apply Hall; left; reflexivity|apply Hall; exact Hx].
    + split.
      * constructor; [|exact Hnd]. intros Hin. apply dedup_incl in Hin.
        assert (Hab : a = b); [|subst b; rewrite (proj2 (sentry_eqb_eq _ a a Hk (or_introl eq_refl) (or_introl eq_refl)) eq_refl) in E; discriminate].
        destruct Hin as [Hin|Hin]; [auto|].
        inversion Hsr as [|? ? _ Hb]; subst. rewrite Forall_forall in Ha, Hb.
        specialize (Ha b (or_introl eq_refl)). specialize (Hb a Hin). unfold key_le in *.
        apply Hk; [left; reflexivity|right; left; reflexivity|lia].
      * intros x [Hx|Hx]; [left; exact Hx|right; apply Hall; exact Hx].
Qed.

Lemma normalize_NoDup es s : KeyInj es -> In s (part es) ->
  NoDup (normalize s) /\ (forall x, In x (normalize s) <-> In x es /\ fits s x = true).
Proof.
  intros Hk Hs. destruct (pi_content _ _ (PInv_part es) s Hs) as [E _]. unfold normalize. rewrite E.
  assert (Hkf : KeyInj (sort_time (filter (fits s) es))).
  { eapply KeyInj_perm; [apply Permutation_sym, sort_time_perm|apply KeyInj_filter; exact Hk]. }
  destruct (dedup_sorted_NoDup _ (sort_time_sorted _) Hkf) as [Hnd Hall]. split; [exact Hnd|].
  intros x. rewrite <- filter_In. split.
  - intros H. apply dedup_incl in H. apply (Permutation_in _ (sort_time_perm _)) in H. exact H.
  - intros H. apply Hall. apply (Permutation_in _ (Permutation_sym (sort_time_perm _))). exact H.
Qed.

Lemma NoDup_app_disjoint {A} (l1 l2 : list A) :
  NoDup l1 -> NoDup l2 -> (forall x, In x l1 -> ~ In x l2) -> NoDup (l1 ++ l2).
Proof.
  induction l1 as [|a r IH]; intros H1 H2 Hd; [exact H2|]. inversion H1; subst. cbn. constructor.
  - intros Hin. apply in_app_or in Hin. destruct Hin as [Hin|Hin]; [contradiction|]. exact (Hd a (or_introl eq_refl) Hin).
  - apply IH; [assumption|assumption|]. intros x Hx. apply Hd. right. exact Hx.
Qed.

Lemma NoDup_concat_disjoint {A} (ls : list (list A)) :
  Forall (@NoDup A) ls ->
  ForallOrdPairs (fun a b => forall x, In x a -> ~ In x b) ls -> NoDup (concat ls).
Proof.
  induction ls as [|l r IH]; intros Hn Hd; [constructor|].
  inversion Hn; subst. inversion Hd as [|? ? Hl Hr]; subst. cbn.
  apply NoDup_app_disjoint; [assumption|apply IH; assumption|].
  intros x Hx Hc. apply in_concat in Hc. destruct Hc as [l' [Hl' Hx']].
  rewrite Forall_forall in Hl. exact (Hl l' Hl' x Hx Hx').
Qed.

(* under [DistinctFirst] the streams contain every named file that has a message exactly once (a file named
   twice, or under two spellings of its path, is read once), and nothing else *)
Theorem streams_files args :
  DistinctFirst args ->
  NoDup (concat (streams_of args)) /\
  (forall e, In e (concat (streams_of args)) <-> In e (entries (files_ok args))).
Proof.
  intros Hd. pose proof (DistinctFirst_KeyInj _ Hd) as Hk. set (es := entries (files_ok args)) in *.
  rewrite streams_entries. fold es.
  assert (P : Permutation (concat (map snd (sort_time (keyed_streams es)))) (concat (map normalize (part es)))).
  { rewrite <- !flat_map_concat_map. unfold keyed_streams.
    eapply Permutation_trans; [apply Permutation_flat_map, sort_time_perm|].
    rewrite !flat_map_concat_map, map_map. cbn [snd]. rewrite map_id. apply Permutation_refl. }
  pose proof (PInv_part es) as Hinv.
  split.
  - apply (Permutation_NoDup (Permutation_sym P)). apply NoDup_concat_disjoint.
    + rewrite Forall_map, Forall_forall. intros s Hs. exact (proj1 (normalize_NoDup es s Hk Hs)).
    + destruct Hinv as [_ Hi _].
      assert (Hall : forall s, In s (part es) -> In s (part es)) by auto. revert Hall Hi.
      generalize (part es) at 1 3 4. intros Q HQ Hi.
      induction Q as [|s r IH]; [constructor|]. cbn [map] in *. inversion Hi as [|? ? Hs Hr]; subst.
      constructor; [|apply IH; [intros s0 H0; apply HQ; right; exact H0|exact Hr]].
      rewrite Forall_map, Forall_forall. intros s' Hs' x Hx Hx'.
      apply (normalize_NoDup es s Hk (HQ s (or_introl eq_refl))) in Hx.
      apply (normalize_NoDup es s' Hk (HQ s' (or_intror Hs'))) in Hx'.
      rewrite Forall_forall in Hs. specialize (Hs (fst s') (in_map fst _ _ Hs')). cbv beta in Hs.
      destruct Hx as [_ F1]. destruct Hx' as [_ F2]. unfold fits in *.
      rewrite set_eqb_sym in F2. rewrite (set_eqb_trans _ _ _ F1 F2) in Hs. discriminate.
  - intros e. split.
    + intros H. apply (Permutation_in _ P) in H. apply in_concat in H. destruct H as [l [Hl He]].
      apply in_map_iff in Hl. destruct Hl as [s [El Hs]]. subst l.
      apply (normalize_NoDup es s Hk Hs) in He. tauto.
    + intros H. apply (Permutation_in _ (Permutation_sym P)). destruct (pi_cover _ _ Hinv e H) as [s [Hs Hf]].
      apply in_concat. exists (normalize s). split; [apply in_map; exact Hs|].
      apply (normalize_NoDup es s Hk Hs). tauto.
Qed.
