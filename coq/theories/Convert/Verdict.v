(* C14 — where the verdict vector [c_fv] of Convert/Select.v comes from.

   convert() builds its filter vector with three front ends (all modelled for C11 in Filter/Frontends.v):
     -f FILE   filters_from_dlf (DLF: one Filter::from_quick_xml_reader per <filter> element), and if that fails
               filters_from_convert_format (the "APID CTID " records of dlt-convert)
     --eac=..  one EacFilter::from_str per ','-separated expression  ECU:APID:CTID  (clap's value_parser; an
               expression that does not parse makes the command fail before anything is read)
   and the filter thread asks Filter::matches (Filter/Match.v) for every message and every filter.
   This file only composes those models: the sources of the filter vector as the user wrote them -> the loaded
   filters -> the verdict of every filter for a message, given the parts of the message matches() reads.

   The regex engine (regex::bytes::Regex on the four bytes of an id) stays an oracle, as in C11:
     valid : does the pattern compile,  re : is_match.  The executable instance reads both from tables the harness
   fills with the answers of the real engine for exactly the (pattern, id) pairs of the case.
   No proofs in this file. *)
From Coq Require Import List NArith Bool.
From AdltV Require Import Filter.Match Filter.Frontends.
Import ListNotations.
Open Scope N_scope.

(* one source of filters, as written by the user *)
Inductive fsrc :=
| FsDlf (a : list (N * list N))   (* one <filter> of a DLF file: (element, text) in document order; element = dkey_idx *)
| FsConv (buf : list N)           (* a whole dlt-convert format file *)
| FsEac (s : list N).             (* one --eac expression *)

Definition dkey_of (k : N) : dkey :=
  match k with
  | 0 => DType | 1 => DEnableFilter | 2 => DEnableEcuId | 3 => DEcuId
  | 4 => DEnableApplicationId | 5 => DApplicationId | 6 => DEnableRegexpAppid
  | 7 => DEnableContextId | 8 => DContextId | 9 => DEnableRegexpContext
  | 10 => DEnableControlMsgs
  | 11 => DEnablePayloadText | 12 => DIgnoreCasePayload | 13 => DPayloadText | 14 => DEnableRegexpPayload
  | 15 => DEnableLogLevelMax | 16 => DLogLevelMax | 17 => DEnableLogLevelMin | 18 => DLogLevelMin
  | _ => DOther
  end.

Section Load.
  Variable valid : engine -> pattern -> bool.

  (* None: the command line is rejected *)
  Definition load_src (s : fsrc) : option (list filter) :=
    match s with
    | FsDlf a => Some [from_dlf_attrs valid (map (fun kv => (dkey_of (fst kv), snd kv)) a)]
    | FsConv buf => Some (from_convert_format buf)
    | FsEac e => match eac_from_str valid e with Some f => Some [f] | None => None end
    end.

  (* `filters` of convert(): the filters of the -f file followed by the --eac filters ([l] lists them in that order) *)
  Fixpoint load_all (l : list fsrc) : option (list filter) :=
    match l with
    | [] => Some []
    | s :: r =>
        match load_src s, load_all r with
        | Some a, Some b => Some (a ++ b)
        | _, _ => None
        end
    end.
End Load.

(* what Filter::matches reads of a message here: the ECU id and the extended header (message type byte, APID,
   CTID) if there is one.  None of the three front ends produces a payload or a lifecycle criterion. *)
Definition hdr := (list N * option (N * list N * list N))%type.
Definition msg_of_hdr (h : hdr) : msg :=
  {| m_ecu := pad4 (fst h);
     m_ext := match snd h with
              | Some (v, a, c) => Some {| e_vmm := v; e_apid := pad4 a; e_ctid := pad4 c |}
              | None => None
              end;
     m_text := None; m_lc := 0 |}.

(* the verdict vector of one message: Filter::matches for every filter of the vector, in order *)
Definition verdicts (re : engine -> pattern -> text -> bool) (fs : list filter) (h : hdr) : list bool :=
  map (fun f => matches re f (msg_of_hdr h)) fs.

(* what the filter-set logic (C12) looks at: FilterKind as a number, enabled *)
Definition kind_enabled (f : filter) : N * bool := (f_kind f, f_enabled f).

(* ---- the engine's answers as tables *)
Definition vtable := list (list N * bool).
Definition rtable := list (list N * list N * bool).
Fixpoint valid_lookup (tbl : vtable) (p : pattern) : bool :=
  match tbl with
  | [] => false
  | (p', b) :: r => if text_eqb p p' then b else valid_lookup r p
  end.
Fixpoint re_lookup (tbl : rtable) (p : pattern) (t : text) : bool :=
  match tbl with
  | [] => false
  | (p', t', b) :: r => if text_eqb p p' && text_eqb t t' then b else re_lookup r p t
  end.
(* only regex::bytes occurs (ids); the payload engines are never asked *)
Definition valid_of (tbl : vtable) (e : engine) (p : pattern) : bool :=
  match e with EBytes => valid_lookup tbl p | _ => false end.
Definition re_of (tbl : rtable) (e : engine) (p : pattern) (t : text) : bool :=
  match e with EBytes => re_lookup tbl p t | _ => false end.
