(* Proofs about Convert/Select.v (part 6: which files share a stream).
   convert() classifies every input file by the SET of ECU ids of the messages inside the first 512 KiB
   (DltFileInfos::ecus_seen -- the first message included) and puts files with EQUAL sets into one stream, chained
   in the order of their first reception time; files with DIFFERENT sets become parallel streams, merged message by
   message by reception time.  Here: the streams handed to the merge are exactly the classes of "same ECU set",
   each ordered by first reception time, and an ordered family of streams gives an ordered input. *)
From Coq Require Import List NArith Bool Lia Permutation Sorted.
From AdltV Require Import Base.Res Base.MachInt Merge.Multi Merge.MultiProofs Filter.Sets Lifecycle.Model
     Convert.Select Convert.SelectProofs Convert.OrderProofs.
Import ListNotations.
Open Scope N_scope.

(* ------------------------------------------------------------------ the ECU set of a file *)
Lemma ecus_seen_spec f x : In x (ecus_seen f) <-> exists m, In m (scanned f) /\ c_ecu m = x.
Proof. unfold ecus_seen. rewrite in_map_iff. split; intros [m [H1 H2]]; exists m; auto. Qed.

Lemma first_msg_scanned f m : first_msg f = Some m -> In m (scanned f).
Proof.
  unfold first_msg. destruct (scanned f) as [|a r]; cbn [hd_error]; [discriminate|].
  intros E. injection E as E. subst a. left. reflexivity.
Qed.

Lemma first_msg_ecu_seen f m : first_msg f = Some m -> In (c_ecu m) (ecus_seen f).
Proof. intros H. apply ecus_seen_spec. exists m. split; [apply first_msg_scanned; exact H|reflexivity]. Qed.

(* ------------------------------------------------------------------ dedup keeps the order *)
Lemma dedup_sorted (l : list sentry) : StronglySorted key_le l -> StronglySorted key_le (dedup_adj l).
Proof.
  induction l as [|a r IH]; intros H; [constructor|].
  inversion H as [|? ? Hr Ha]; subst. cbn [dedup_adj]. destruct r as [|b r']; [exact H|].
  destruct (sentry_eqb a b); [apply IH; exact Hr|].
  constructor; [apply IH; exact Hr|].
  rewrite Forall_forall in *. intros x Hx. apply Ha. apply dedup_incl. exact Hx.
Qed.

(* ------------------------------------------------------------------ streams = classes of equal ECU sets *)
Theorem streams_by_ecu_set args :
  DistinctFirst args ->
  forall s, In s (streams_of args) ->
    s <> [] /\ StronglySorted key_le s /\
    forall e, In e s -> forall e', In e' (entries (files_ok args)) ->
      (In e' s <-> set_eqb (ecus e) (ecus e') = true).
Proof.
  intros Hd s Hs. pose proof (DistinctFirst_KeyInj _ Hd) as Hk. set (es := entries (files_ok args)) in *.
  rewrite streams_entries in Hs. fold es in Hs.
  apply in_map_iff in Hs. destruct Hs as [ks [E Hin]].
  apply (Permutation_in _ (sort_time_perm _)) in Hin.
  unfold keyed_streams in Hin. apply in_map_iff in Hin. destruct Hin as [s1 [E1 H1]].
  subst ks. cbn [snd] in E. subst s1.
  apply in_map_iff in H1. destruct H1 as [s0 [E0 Hs0]]. subst s.
  destruct (normalize_NoDup es s0 Hk Hs0) as [_ Hmem].
  destruct (pi_content _ _ (PInv_part es) s0 Hs0) as [Ec Hne].
  split; [|split].
  - intros Hnil. destruct (snd s0) as [|a r] eqn:Es; [congruence|].
    assert (Ha : In a (filter (fits s0) es)) by (rewrite <- Ec; left; reflexivity).
    apply filter_In in Ha. apply Hmem in Ha. rewrite Hnil in Ha. destruct Ha.
  - unfold normalize. apply dedup_sorted. apply sort_time_sorted.
  - intros e He e' He'. apply Hmem in He. destruct He as [_ Fe].
    rewrite Hmem. unfold fits in *. rewrite <- (set_eqb_cong _ _ (ecus e') Fe). tauto.
Qed.

(* the same, on the files: two named files with a message share a stream iff the ECUs of their scanned messages
   (first message included) are the same set *)
Theorem streams_by_scanned_ecus args :
  DistinctFirst args ->
  forall s, In s (streams_of args) ->
    s <> [] /\ StronglySorted (fun a b : sentry => fst a <= fst b) s /\
    forall t f, In (t, f) s ->
      forall g m, In g (files_ok args) -> first_msg g = Some m ->
        (In (c_rt m, g) s <->
         forall x, (exists y, In y (scanned f) /\ c_ecu y = x) <-> (exists y, In y (scanned g) /\ c_ecu y = x)).
Proof.
  intros Hd s Hs. destruct (streams_by_ecu_set args Hd s Hs) as [H1 [H2 H3]].
  split; [exact H1|]. split; [exact H2|].
  intros t f Hf g m Hg Hm.
  assert (He' : In (c_rt m, g) (entries (files_ok args))) by (apply in_entries; exists g, m; auto).
  rewrite (H3 (t, f) Hf (c_rt m, g) He'). unfold ecus. cbn [snd]. rewrite set_eqb_spec.
  split; intros H x; specialize (H x).
  - rewrite <- !ecus_seen_spec. exact H.
  - rewrite !ecus_seen_spec. exact H.
Qed.

(* ------------------------------------------------------------------ ordered streams give an ordered input *)
Theorem merged_sorted_if_streams_sorted args its out :
  all_its (streams_of args) = Ok its ->
  Forall (sorted_rt c_rt) its ->
  Merged args out ->
  sorted_rt c_rt out.
Proof.
  intros Hits Hs [its' [E Hrun]]. rewrite Hits in E. injection E as E. subst its'.
  destruct Hrun as [it Eit|out Hl Hr].
  - subst its. inversion Hs; assumption.
  - eapply (run_sorted c_rt c_set_index); [|exact Hr|apply HeapSorted_new; exact Hs].
    intros i m. reflexivity.
Qed.
