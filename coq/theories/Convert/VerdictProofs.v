(* C14 — proofs about Convert/Verdict.v: what the verdict of a filter of convert's filter vector means.
   None of convert's three front ends sets `negate_match`, so for every filter of the vector Filter::matches is
   "enabled and every given criterion holds" (C11's specification), and a message without extended header
   matches no filter that has an APID / CTID / message-type / log-level criterion -- literal or regular
   expression. *)
From Coq Require Import List NArith Bool.
From AdltV Require Import Filter.Match Filter.MatchProofs Filter.Frontends Convert.Verdict.
Import ListNotations.
Open Scope N_scope.

Section VerdictProofs.
  Variable valid : engine -> pattern -> bool.
  Variable re : engine -> pattern -> text -> bool.

  Lemma conv_go_not_negated fuel : forall buf f, In f (conv_go fuel buf) -> f_negate f = false.
  Proof.
    induction fuel as [|k IH]; intros buf f H; cbn [conv_go] in H; [contradiction|].
    destruct (Nat.leb 10 (length buf)); [|contradiction].
    destruct H as [<-|H]; [reflexivity|exact (IH _ _ H)].
  Qed.

  Lemma eac_not_negated s f : eac_from_str valid s = Some f -> f_negate f = false.
  Proof.
    unfold eac_from_str. destruct s as [|c s]; [discriminate|]. unfold obind.
    destruct (eac_part valid (nth 0 (split_colon [] (c :: s)) [])) as [ecu|]; [|discriminate].
    destruct (eac_part valid (nth 1 (split_colon [] (c :: s)) [])) as [apid|]; [|discriminate].
    destruct (eac_part valid (nth 2 (split_colon [] (c :: s)) [])) as [ctid|]; [|discriminate].
    intros H. inversion H. reflexivity.
  Qed.

  Lemma load_src_not_negated s fs f : load_src valid s = Some fs -> In f fs -> f_negate f = false.
  Proof.
    destruct s as [a|buf|e]; cbn [load_src].
    - intros H Hin. inversion H; subst fs. destruct Hin as [<-|[]]. reflexivity.
    - intros H Hin. inversion H; subst fs. exact (conv_go_not_negated _ _ _ Hin).
    - destruct (eac_from_str valid e) as [g|] eqn:E; [|discriminate].
      intros H Hin. inversion H; subst fs. destruct Hin as [<-|[]]. exact (eac_not_negated _ _ E).
  Qed.

  Lemma load_all_not_negated l : forall fs f, load_all valid l = Some fs -> In f fs -> f_negate f = false.
  Proof.
    induction l as [|s r IH]; intros fs f H Hin; cbn [load_all] in H.
    - inversion H; subst fs. contradiction.
    - destruct (load_src valid s) as [a|] eqn:Ea; [|discriminate].
      destruct (load_all valid r) as [b|] eqn:Eb; [|discriminate].
      inversion H; subst fs. apply in_app_or in Hin. destruct Hin as [Hin|Hin].
      + exact (load_src_not_negated _ _ _ Ea Hin).
      + exact (IH _ _ eq_refl Hin).
  Qed.

  (* the verdict of a loaded filter: enabled, and every criterion it has holds for the message *)
  Theorem loaded_verdict_is_criteria l fs f m :
    load_all valid l = Some fs -> In f fs ->
    matches re f m = f_enabled f && criteria_hold re f m.
  Proof.
    intros H Hin. rewrite matches_is_spec. unfold matches_spec.
    rewrite (load_all_not_negated _ _ _ H Hin). destruct (criteria_hold re f m); reflexivity.
  Qed.

  (* no extended header: no APID, CTID, message type, log level -- such criteria do not hold *)
  Theorem loaded_verdict_no_ext l fs f m :
    load_all valid l = Some fs -> In f fs ->
    m_ext m = None -> needs_ext_header f = true -> matches re f m = false.
  Proof.
    intros H Hin He Hn. rewrite (no_ext_matches re f m He Hn), (load_all_not_negated _ _ _ H Hin).
    apply andb_false_r.
  Qed.

  (* the k-th entry of a message's verdict vector is Filter::matches of the k-th filter *)
  Lemma verdicts_nth fs h k d :
    (k < length fs)%nat -> nth k (verdicts re fs h) false = matches re (nth k fs d) (msg_of_hdr h).
  Proof.
    intros Hk. unfold verdicts.
    rewrite (nth_indep _ false (matches re d (msg_of_hdr h))) by (rewrite map_length; exact Hk).
    apply (map_nth (fun f => matches re f (msg_of_hdr h))).
  Qed.

  Lemma verdicts_length fs h : length (verdicts re fs h) = length fs.
  Proof. apply map_length. Qed.
End VerdictProofs.
