(* Model of src/bin/adlt/convert.rs : convert()   (as repaired by the `fix:` commit that orders the streams by
   their first reception time before they are merged).

   What is inside, in the order the code does it:
   - resolve_input_filename / files_ok / "at least one DLT message"   -> [files_ok], [first_msg]
   - partition of the files by the set of ECU ids seen in the first 512 KiB, in argument order; inside a
     stream: stable sort by the reception time of the first message, Vec::dedup           -> [streams_of]
   - the streams ordered (stable) by the first reception time of their first file (the fix)
   - per stream  SequentialMultiIterator::new_or_single_it(0, files)     (model: Merge/Multi.v, C09)
   - all streams SortingMultiReaderIterator::new_or_single_it(0, streams)  (Merge/Multi.v: relation [Run]
     over every tie-break of the binary heap)
   - lifecycle thread: parse_lifecycles_buffered_from_stream, NEXT_LC_ID = 1 in a fresh process
     (model: Lifecycle/Model.v [detect], C05..C08)
   - plugin thread: not spawned without plugin options (plugins are outside this model)
   - --sort thread: buffer_sort_messages(.., 3, 20 s)   -> a relation parameter [sorter] (model: Sort/BufferSort.v,
     C10; instance in Properties/C14.v).  Its result depends on when the lifecycle table is read, the only
     thing the selection needs is that it is a permutation.
   - filter thread (only when the filter vector is not empty): filter_as_streams (model: Filter/Sets.v, C12)
     over the -f file filters followed by the --eac filters; Filter::matches (C11) is represented by the
     verdict vector [c_fv] each message carries (one boolean per filter of the vector)
   - output thread t4: lifecycle-id set, index window on msg.index, style / -o            -> [t4_loop]
   - the -o path: File::create (truncating) + one to_write per selected message           -> [path_after]
   Outside: clap, glob patterns, archives, the file system, DltMessageIterator (C01: a file is the list of the
   messages it parses to), to_write (C02), the text rendering of a line, plugins.
   No proofs in this file. *)
From Coq Require Import List NArith Bool.
From AdltV Require Import Base.Res Base.MachInt Merge.Multi Filter.Sets Lifecycle.Model.
Import ListNotations.
Open Scope N_scope.

(* ------------------------------------------------------------------ messages *)
(* a DltMessage as convert sees it: the fields lifecycle detection reads (Lifecycle.Model.msg: index, ecu,
   reception time, timestamp, flags, lifecycle), a tag standing for everything else (headers, payload), and the
   verdict of Filter::matches for every filter of the filter vector *)
Record cmsg := mkc { c_m : msg; c_uid : N; c_fv : list bool }.
Definition c_index (x : cmsg) : N := m_index (c_m x).
Definition c_rt (x : cmsg) : N := m_rt (c_m x).
Definition c_ecu (x : cmsg) : N := m_ecu (c_m x).
Definition c_lc (x : cmsg) : N := m_lc (c_m x).

Definition set_idx (m : msg) (i : N) : msg :=
  {| m_index := i; m_ecu := m_ecu m; m_rt := m_rt m; m_ts := m_ts m; m_has_ts := m_has_ts m;
     m_creq := m_creq m; m_lc := m_lc m |}.
(* msg.index = idx *)
Definition c_set_index (i : N) (x : cmsg) : cmsg := mkc (set_idx (c_m x) i) (c_uid x) (c_fv x).
(* msg.lifecycle = id *)
Definition c_set_lc (x : cmsg) (i : N) : cmsg := mkc (set_lc (c_m x) i) (c_uid x) (c_fv x).

(* ------------------------------------------------------------------ input files *)
(* [f_path]: the canonical path; [f_msgs]: the messages the file parses to; [f_scan]: how many of them lie
   completely inside the first 512 KiB (get_dlt_infos_from_file reads only that much) *)
Record file := mkf { f_path : N; f_scan : nat; f_msgs : list cmsg }.
(* a file argument: None = cannot be opened / read (goes to files_err) *)
Definition arg := option file.

(* `file_msgs.partition(|(_, b)| b.is_ok())` : files_ok *)
Definition files_ok (args : list arg) : list file :=
  flat_map (fun a => match a with Some f => [f] | None => [] end) args.

(* DltFileInfos: first_msg, ecus_seen *)
Definition scanned (f : file) : list cmsg := firstn (f_scan f) (f_msgs f).
Definition first_msg (f : file) : option cmsg := hd_error (scanned f).
Definition ecus_seen (f : file) : list N := map c_ecu (scanned f).

(* HashSet<DltChar4> equality *)
Definition subset (a b : list N) : bool := forallb (fun x => memN x b) a.
Definition set_eqb (a b : list N) : bool := subset a b && subset b a.

(* (first reception time, path, infos) ; path and infos are the file's *)
Definition sentry := (N * file)%type.
(* StreamEntry = (SetOfEcuIds, Vec<(u64, String, DltFileInfos)>) *)
Definition stream := (list N * list sentry)%type.

(* `input_file_streams.iter_mut().find(|e| e.0 == fm.1.ecus_seen)` then push to it, or push a new stream *)
Fixpoint add_to_streams (ss : list stream) (ecus : list N) (e : sentry) : list stream :=
  match ss with
  | [] => [(ecus, [e])]
  | s :: r => if set_eqb (fst s) ecus then (fst s, snd s ++ [e]) :: r else s :: add_to_streams r ecus e
  end.

(* the `for fm in file_msgs` loop; files without a message were filtered out before *)
Definition partition_step (ss : list stream) (f : file) : list stream :=
  match first_msg f with
  | Some m => add_to_streams ss (ecus_seen f) (c_rt m, f)
  | None => ss
  end.
Definition partition_files (fs : list file) : list stream := fold_left partition_step fs [].

(* `sort_by(|a, b| a.0.cmp(&b.0))` is a stable sort: insertion, an element goes in front of everything that is
   not smaller *)
Fixpoint ins_time {A} (e : N * A) (l : list (N * A)) : list (N * A) :=
  match l with
  | [] => [e]
  | y :: r => if fst y <? fst e then y :: ins_time e r else e :: l
  end.
Definition sort_time {A} (l : list (N * A)) : list (N * A) := fold_right ins_time [] l.

(* Vec::dedup on (time, path, infos): the same canonical path is the same file with the same infos; different
   paths are different strings *)
Definition sentry_eqb (a b : sentry) : bool := (fst a =? fst b) && (f_path (snd a) =? f_path (snd b)).
Fixpoint dedup_adj (l : list sentry) : list sentry :=
  match l with
  | [] => []
  | a :: r =>
      match r with
      | [] => [a]
      | b :: _ => if sentry_eqb a b then dedup_adj r else a :: dedup_adj r
      end
  end.

(* after the partition the set of ECU ids is not looked at any more: a stream is its list of files *)
Definition fstream := list sentry.
Definition normalize (s : stream) : fstream := dedup_adj (sort_time (snd s)).

(* key of a stream for the final ordering: `a.1[0].0` (a stream has at least one file) *)
Definition stream_key (s : fstream) : N := match s with e :: _ => fst e | [] => 0 end.

Definition streams_of (args : list arg) : list fstream :=
  map snd (sort_time (map (fun s => (stream_key s, s)) (map normalize (partition_files (files_ok args))))).

(* ------------------------------------------------------------------ iterators *)
(* get_single_it(file, 0, ..): DltMessageIterator::new(0, ..) numbers what it yields from 0 *)
Definition file_it (f : file) : list cmsg := number c_set_index 0 (f_msgs f).

Definition stream_it (s : fstream) : res (list cmsg) :=
  seq_run_or_single c_set_index 0 (map (fun e => file_it (snd e)) s).

Fixpoint all_its (ss : list fstream) : res (list (list cmsg)) :=
  match ss with
  | [] => Ok []
  | s :: r =>
      match stream_it s with
      | Ok a => match all_its r with Ok b => Ok (a :: b) | Panic p => Panic p | OutOfFuel => OutOfFuel end
      | Panic p => Panic p
      | OutOfFuel => OutOfFuel
      end
  end.

(* the merged, numbered stream the main thread sends to the lifecycle thread: every run of the heap *)
Definition Merged (args : list arg) (out : list cmsg) : Prop :=
  exists its, all_its (streams_of args) = Ok its /\ SortRunOrSingle c_rt c_set_index 0 its out.

(* ------------------------------------------------------------------ lifecycle thread *)
(* the detector forwards the very same messages with the lifecycle field set; the model of the detector works
   on Lifecycle.Model.msg, the remaining fields are re-attached by position (C05: every message is forwarded
   once, in order) *)
Definition lc_stage (l : list cmsg) : list cmsg :=
  map (fun p => c_set_lc (fst p) (m_lc (fst (snd p)))) (combine l (fst (detect 1 [] (map c_m l)))).
(* the table convert prints when no style is given *)
Definition lc_table (l : list cmsg) : table := snd (detect 1 [] (map c_m l)).

(* ------------------------------------------------------------------ options *)
Record opts := mko {
  o_first : N;            (* -b, default 0 *)
  o_last : N;             (* -e, default u32::MAX *)
  o_lcs : list N;         (* --lcs *)
  o_filters : list flt;   (* filters of the -f file, then one positive filter per --eac expression; f_id = position *)
  o_sort : bool;          (* --sort *)
  o_style : N;            (* 0 none, 1 -a, 2 -x, 3 -s *)
  o_file : bool           (* -o *)
}.

(* ------------------------------------------------------------------ filter thread *)
(* Filter::matches(msg) for the k-th filter of the vector *)
Definition fmatches (f : flt) (x : cmsg) : bool := nth (N.to_nat (f_id f)) (c_fv x) false.

Definition filter_stage (fs : list flt) (l : list cmsg) : list cmsg :=
  if is_empty fs then l else fst (filter_as_streams fmatches fs l None).

(* ------------------------------------------------------------------ output thread (t4) *)
Definition lc_pass (o : opts) (x : cmsg) : bool := is_empty (o_lcs o) || memN (c_lc x) (o_lcs o).
Definition in_window (o : opts) (x : cmsg) : bool := (o_first o <=? c_index x) && (c_index x <=? o_last o).
Definition has_style (o : opts) : bool := negb (o_style o =? 0).

(* what t4 leaves behind: lines on the screen, messages written to the file, the `output` counter *)
Record t4_state := mkt { t_screen : list cmsg; t_file : list cmsg; t_output : N }.

(* `for msg in t4_input { ... }` ; lists are built in reverse *)
Fixpoint t4_loop (o : opts) (l : list cmsg) (s : t4_state) : t4_state :=
  match l with
  | [] => s
  | x :: r =>
      if negb (lc_pass o x) then t4_loop o r s                 (* `continue` *)
      else if in_window o x then
        let did_screen := has_style o in
        let did_output := did_screen || o_file o in
        t4_loop o r (mkt (if did_screen then x :: t_screen s else t_screen s)
                         (if o_file o then x :: t_file s else t_file s)
                         (if did_output then t_output s + 1 else t_output s))
      else t4_loop o r s
  end.

Record outcome := mkout {
  r_screen : list cmsg;            (* message lines on stdout, in order *)
  r_file : option (list cmsg);     (* messages written to the -o file, in order; None = no file *)
  r_processed : N;                 (* messages_processed *)
  r_output : N;                    (* messages_output *)
  r_table : table                  (* final lifecycle table (listed on stdout when no style is given) *)
}.

Definition t4 (o : opts) (merged : list cmsg) (l : list cmsg) : outcome :=
  let s := t4_loop o l (mkt [] [] 0) in
  mkout (rev (t_screen s)) (if o_file o then Some (rev (t_file s)) else None)
        (N.of_nat (length merged)) (t_output s) (lc_table merged).

(* ------------------------------------------------------------------ the -o path (file-system contract) *)
(* The output thread opens the path with `std::fs::File::create(s)`: write-only, created if absent, TRUNCATED to
   length 0 if it exists; every selected message is appended with to_write through a BufWriter that is flushed at
   the end.  So [r_file r = Some l] means: after the run the WHOLE content of the path is the concatenation of
   to_write of l -- whatever the path held before (nothing, an empty file, junk, another DLT file, the output of an
   earlier run).  Without -o no path is touched; when no input file can be opened convert returns before the
   output thread exists and the path keeps its state.
   [prior]: the bytes at the path before the run (None: the path does not exist). *)
Section OutPath.
  Context {byte : Type}.
  Variable to_write : cmsg -> list byte.      (* DltMessage::to_write (C02) *)
  (* File::create: the content the writer starts from *)
  Definition file_create (prior : option (list byte)) : list byte := [].
  (* content of the path after a run with outcome [res] *)
  Definition path_after (prior : option (list byte)) (res : option outcome) : option (list byte) :=
    match res with
    | Some r =>
        match r_file r with
        | Some l => Some (file_create prior ++ concat (map to_write l))
        | None => prior
        end
    | None => prior
    end.
End OutPath.

(* ------------------------------------------------------------------ the whole command *)
Section Convert.
  (* buffer_sort_messages as a relation between what enters and what leaves the sort thread *)
  Variable sorter : list cmsg -> list cmsg -> Prop.

  Definition sort_stage (on : bool) (l out : list cmsg) : Prop := if on then sorter l out else out = l.

  (* None: `Err(InvalidInput)` (no file could be opened), nothing is emitted *)
  Inductive Convert (args : list arg) (o : opts) : option outcome -> Prop :=
  | Conv_no_input : files_ok args = [] -> Convert args o None
  | Conv_run merged sorted :
      files_ok args <> [] ->
      Merged args merged ->
      sort_stage (o_sort o) (lc_stage merged) sorted ->
      Convert args o (Some (t4 o merged (filter_stage (o_filters o) sorted))).
End Convert.

(* ------------------------------------------------------------------ executable instance *)
(* one run: the heap always pops the first minimal entry; no --sort reordering (identity is a permutation) *)
Definition merged_first (args : list arg) : res (list cmsg) :=
  match all_its (streams_of args) with
  | Ok its =>
      match its with
      | [it] => Ok it
      | _ => run_first c_rt c_set_index (length (concat its)) 0 (new_heap its)
      end
  | Panic p => Panic p
  | OutOfFuel => OutOfFuel
  end.

Definition convert_first (args : list arg) (o : opts) : res (option outcome) :=
  match files_ok args with
  | [] => Ok None
  | _ =>
      match merged_first args with
      | Ok merged => Ok (Some (t4 o merged (filter_stage (o_filters o) (lc_stage merged))))
      | Panic p => Panic p
      | OutOfFuel => OutOfFuel
      end
  end.
