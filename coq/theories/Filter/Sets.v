(* Model of the filter-SET logic of /repo (the single-filter matcher `Filter::matches` is C11's business and is
   an abstract function here):
   - src/filter/functions.rs      filter_as_streams            (stream filter used by `adlt convert`)
   - src/utils/remote_utils.rs    StreamContext::from (filter part), match_filters, process_stream_new_msgs
                                  (is_stream branch), and the textually identical filter loop of
                                  src/bin/adlt/remote.rs process_stream_search_params
   - src/plugins/export.rs        ExportPlugin::from_json (filter part), process_msg (selection part)
   No proofs in this file. *)
From Coq Require Import List NArith Bool.
From AdltV Require Import Base.Res Base.MachInt.
Import ListNotations.
Open Scope N_scope.

(* FilterKind *)
Inductive kind := Positive | Negative | Marker | Event.
Definition kind_eqb (a b : kind) : bool :=
  match a, b with
  | Positive, Positive | Negative, Negative | Marker, Marker | Event, Event => true
  | _, _ => false
  end.

(* what the set logic looks at of a `Filter`: kind, enabled; everything else is hidden behind [f_id] *)
Record flt := mkFlt { f_kind : kind; f_enabled : bool; f_id : N }.

Definition is_empty {A} (l : list A) : bool := match l with [] => true | _ => false end.
(* Iterator::position *)
Fixpoint position {A} (p : A -> bool) (l : list A) : option nat :=
  match l with
  | [] => None
  | a :: r => if p a then Some O else match position p r with Some k => Some (S k) | None => None end
  end.
(* Vec::remove(idx) *)
Definition remove_at {A} (k : nat) (l : list A) : list A := firstn k l ++ skipn (S k) l.
Definition memN (x : N) (l : list N) : bool := existsb (N.eqb x) l.

(* FilterKindContainer<Vec<Filter>>: one vector per kind *)
Record container := mkC { c_pos : list flt; c_neg : list flt; c_marker : list flt; c_event : list flt }.
Definition c_empty : container := mkC [] [] [] [].
(* `filters[f.kind].push(f)` *)
Definition c_push (c : container) (f : flt) : container :=
  match f_kind f with
  | Positive => mkC (c_pos c ++ [f]) (c_neg c) (c_marker c) (c_event c)
  | Negative => mkC (c_pos c) (c_neg c ++ [f]) (c_marker c) (c_event c)
  | Marker => mkC (c_pos c) (c_neg c) (c_marker c ++ [f]) (c_event c)
  | Event => mkC (c_pos c) (c_neg c) (c_marker c) (c_event c ++ [f])
  end.

(* the loop shared by StreamContext::from, process_stream_search_params and ExportPlugin::from_json:
   `if filter_struct.enabled { filters[filter_struct.kind].push(filter_struct) }` *)
Definition build_step (c : container) (f : flt) : container := if f_enabled f then c_push c f else c.
Definition build (fs : list flt) : container := fold_left build_step fs c_empty.

(* the same loop without the `enabled` test (NOT in the code; used to show what the test is needed for) *)
Definition build_keep_disabled (fs : list flt) : container := fold_left c_push fs c_empty.

(* StreamContext.filters_active: pos.len() + neg.len() + event.len() > 0 *)
Definition filters_active (c : container) : bool :=
  negb (Nat.eqb (length (c_pos c) + length (c_neg c) + length (c_event c)) 0).

Section Sets.
  Context {M : Type}.
  (* Filter::matches (C11).  Nothing is assumed about it here; the real one returns false for a disabled
     filter, which is stated as a hypothesis where it is used. *)
  Variable matches : flt -> M -> bool.

  Definition any_match (fs : list flt) (m : M) : bool := existsb (fun f => matches f m) fs.

  (* ------------------------------------------------------------ filter_as_streams *)
  (* `filters.iter().filter(|f| f.enabled && f.kind == FilterKind::Positive).collect()` *)
  Definition split_pos (fs : list flt) : list flt :=
    filter (fun f => f_enabled f && kind_eqb (f_kind f) Positive) fs.
  Definition split_neg (fs : list flt) : list flt :=
    filter (fun f => f_enabled f && kind_eqb (f_kind f) Negative) fs.

  (* loop body: found_after_pos_filters / found_after_neg_filters *)
  Definition decide_stream (pos neg : list flt) (m : M) : bool :=
    let found_after_pos := if negb (is_empty pos) then any_match pos m else true in
    if found_after_pos && negb (is_empty neg) then negb (any_match neg m) else found_after_pos.

  (* The loop.  [msgs]: what `input.recv()` delivers until all senders are gone.
     [budget]: the `output` closure; None = every send succeeds, Some k = the receiving side hangs up after
     k messages (the k+1-th `output(msg)` returns Err and filter_as_streams returns Err(OtherFatal)).
     Result: messages handed to `output` successfully, and Some (passed, filtered) for Ok / None for Err.
     The two usize counters cannot overflow (bounded by the number of messages received one by one). *)
  Fixpoint stream_loop (pos neg : list flt) (msgs : list M) (budget : option nat)
           (fwd_rev : list M) (passed filtered : N) : list M * option (N * N) :=
    match msgs with
    | [] => (rev fwd_rev, Some (passed, filtered))
    | m :: r =>
        if decide_stream pos neg m then
          match budget with
          | Some O => (rev fwd_rev, None)
          | Some (S k) => stream_loop pos neg r (Some k) (m :: fwd_rev) (passed + 1) filtered
          | None => stream_loop pos neg r None (m :: fwd_rev) (passed + 1) filtered
          end
        else stream_loop pos neg r budget fwd_rev passed (filtered + 1)
    end.

  Definition filter_as_streams (fs : list flt) (msgs : list M) (budget : option nat) : list M * option (N * N) :=
    stream_loop (split_pos fs) (split_neg fs) msgs budget [] 0 0.

  (* ------------------------------------------------------------ match_filters *)
  Definition match_filters (c : container) (m : M) : bool :=
    if is_empty (c_pos c) || any_match (c_pos c) m then
      if negb (any_match (c_neg c) m) then
        is_empty (c_event c) || any_match (c_event c) m
      else false
    else false.

  (* process_stream_new_msgs, `is_stream` branch: indices (offset + i) of the first min(len, max_chunk_size)
     new messages that match, in order (rayon's indexed collect keeps the order); nothing is collected when
     no filter is active.  Result: (indices appended to filtered_msgs, all_msgs_last_processed_len) *)
  Fixpoint matching_idxs (c : container) (msgs : list M) (idx : N) : list N :=
    match msgs with
    | [] => []
    | m :: r => if match_filters c m then idx :: matching_idxs c r (idx + 1) else matching_idxs c r (idx + 1)
    end.
  Definition process_stream_new (c : container) (last_processed : N) (offset : N) (msgs : list M) (max_chunk : N)
    : list N * N :=
    match msgs with
    | [] => ([], last_processed)
    | _ =>
      if filters_active c then
        let max_idx := N.min (N.of_nat (length msgs)) max_chunk in   (* std::cmp::min(new_msgs_len, max_chunk_size) *)
        (matching_idxs c (firstn (N.to_nat max_idx) msgs) offset, offset + max_idx)
      else ([], last_processed + N.of_nat (length msgs))
    end.

  (* the server loop (src/bin/adlt/remote.rs, process_file_context) for one filtered `stream`: every tick calls
     process_stream_new_msgs(stream, last, &all_msgs[last..], chunk) with last = min(all_msgs_last_processed_len,
     all_msgs.len()); here all messages are already loaded and the ticks are run until nothing is pending
     ([fuel] ticks at most).  Result: filtered_msgs, all_msgs_last_processed_len *)
  Fixpoint stream_rounds (fuel : nat) (c : container) (all : list M) (max_chunk : N) (acc : list N) (last : N)
    : list N * N :=
    match fuel with
    | O => (acc, last)
    | S f =>
        let off := N.min last (N.of_nat (length all)) in
        match skipn (N.to_nat off) all with
        | [] => (acc, last)
        | new => let r := process_stream_new c last off new max_chunk in
                 stream_rounds f c all max_chunk (acc ++ fst r) (snd r)
        end
    end.

  (* ------------------------------------------------------------ export plugin *)
  (* ExportPlugin::from_json: the shared loop, then, when `lifecyclesToKeep` is not empty, one more negative
     filter ({"type":1,"not":true,"lifecycles":[u32::MAX]}) pushed at the end of the negative vector *)
  Definition export_build (fs : list flt) (lc_filter : option flt) : container :=
    let c := build fs in
    match lc_filter with
    | None => c
    | Some f => mkC (c_pos c) (c_neg c ++ [f]) (c_marker c) (c_event c)
    end.
  (* process_msg, on finding a lifecycle to keep: `filters[Negative].pop(); filters[Negative].push(filter)` *)
  Definition export_replace_lc (c : container) (f : flt) : container :=
    mkC (c_pos c) (removelast (c_neg c) ++ [f]) (c_marker c) (c_event c).

  (* selection part of process_msg: match_filters, then the recorded-time window on reception_time_us *)
  Variable rtime : M -> N.
  Definition export_keep (c : container) (t_from t_to : option N) (m : M) : bool :=
    if match_filters c m then
      let w1 := match t_from with Some t => negb (rtime m <? t) | None => true end in
      let w2 := match t_to with Some t => negb (t <? rtime m) | None => true end in
      w1 && w2
    else false.
  (* messages written (in order), nr_exported_msgs, nr_processed_msgs; a disabled plugin does nothing.
     Assumes the export file can be created and written (file system is outside). *)
  Fixpoint export_loop (c : container) (t_from t_to : option N) (msgs : list M) (out_rev : list M) (nexp nproc : N)
    : list M * N * N :=
    match msgs with
    | [] => (rev out_rev, nexp, nproc)
    | m :: r =>
        if export_keep c t_from t_to m
        then export_loop c t_from t_to r (m :: out_rev) (nexp + 1) (nproc + 1)
        else export_loop c t_from t_to r out_rev nexp (nproc + 1)
    end.
  Definition export_run (enabled : bool) (c : container) (t_from t_to : option N) (msgs : list M) : list M * N * N :=
    if enabled then export_loop c t_from t_to msgs [] 0 0 else ([], 0, 0).

  (* ------------------------------------------------------------ the specification (property text) *)
  Definition en_kind (k : kind) (f : flt) : bool := f_enabled f && kind_eqb (f_kind f) k.
  (* (no enabled positive filter exists or some positive filter matches) and no enabled negative filter matches *)
  Definition keep_spec (fs : list flt) (m : M) : bool :=
    (negb (existsb (en_kind Positive) fs) || existsb (fun f => en_kind Positive f && matches f m) fs)
    && negb (existsb (fun f => en_kind Negative f && matches f m) fs).
  (* ... and (no event filter exists or some event filter matches) *)
  Definition event_spec (fs : list flt) (m : M) : bool :=
    negb (existsb (en_kind Event) fs) || existsb (fun f => en_kind Event f && matches f m) fs.
  Definition keep_set_spec (fs : list flt) (m : M) : bool := keep_spec fs m && event_spec fs m.

  (* a filter that can influence selection at all *)
  Definition relevant (f : flt) : bool := f_enabled f && negb (kind_eqb (f_kind f) Marker).

  (* ------------------------------------------------------------ export plugin with `lifecyclesToKeep` *)
  (* The part of process_msg in front of the selection.  Outside the model (arguments): *)
  Variable lc_of : M -> N.              (* msg.lifecycle *)
  Variable known : M -> bool.           (* lcs_r.get_one(&msg.lifecycle) is Some *)
  Variable keeps : N -> M -> bool.      (* keep_lifecycle(entry, &msg.ecu, &lc); a configured LifecycleInfo entry is named by a number *)
  Variable lc_filter : list N -> flt.   (* Filter::from_json({"type":1,"not":true,"lifecycles":l}) *)

  (* filters, lifecycles_to_keep, checked_lc_ids (a set), lifecycles_exported *)
  Record xstate := mkX { x_c : container; x_to_keep : list N; x_checked : list N; x_exported : list N }.

  Definition export_dyn_init (fs : list flt) (to_keep : list N) : xstate :=
    mkX (export_build fs (if is_empty to_keep then None else Some (lc_filter [u32max]))) to_keep [] [].

  (* [has_handle]: set_lifecycle_read_handle was called.  `panic!("unknown lifecycle ...")` = Panic 1 *)
  Definition export_lc_step (has_handle : bool) (s : xstate) (m : M) : res xstate :=
    if negb (is_empty (x_to_keep s)) then
      if negb (memN (lc_of m) (x_checked s)) then
        if has_handle then
          if known m then
            let s1 :=
              match position (fun e => keeps e m) (x_to_keep s) with
              | Some idx =>
                  let ex := x_exported s ++ [lc_of m] in
                  mkX (export_replace_lc (x_c s) (lc_filter ex)) (remove_at idx (x_to_keep s)) (x_checked s) ex
              | None => s
              end in
            Ok (mkX (x_c s1) (x_to_keep s1) (lc_of m :: x_checked s1) (x_exported s1))
          else Panic 1
        else Ok s
      else Ok s
    else Ok s.

  Fixpoint export_dyn_loop (has_handle : bool) (s : xstate) (t_from t_to : option N) (msgs : list M)
           (out_rev : list M) (nexp nproc : N) : res (list M * N * N * xstate) :=
    match msgs with
    | [] => Ok (rev out_rev, nexp, nproc, s)
    | m :: r =>
        match export_lc_step has_handle s m with
        | Ok s' =>
            if export_keep (x_c s') t_from t_to m
            then export_dyn_loop has_handle s' t_from t_to r (m :: out_rev) (nexp + 1) (nproc + 1)
            else export_dyn_loop has_handle s' t_from t_to r out_rev nexp (nproc + 1)
        | Panic p => Panic p
        | OutOfFuel => OutOfFuel
        end
    end.
End Sets.
