(* C11 — `to_json` followed by `from_json` gives the same Filter back, for every filter that has the shape of a
   loaded filter and whose literal ids are printable ASCII; every front-end produces that shape. *)
From Coq Require Import List NArith Bool Lia Arith PeanoNat.
From AdltV Require Import Filter.Match Filter.MatchProofs Filter.Frontends Filter.FrontendsSpec Filter.FrontendsProofs.
Import ListNotations.
Open Scope N_scope.

(* printable ASCII (0x20..0x7e), NUL-padded at the end *)
Definition pr (b : N) : bool := (32 <=? b) && (b <=? 126).
Definition id4_printable (c : id4) : bool :=
  let '(a, b, c', d) := c in
  if a =? 0 then (b =? 0) && (c' =? 0) && (d =? 0)
  else pr a && (if b =? 0 then (c' =? 0) && (d =? 0)
                else pr b && (if c' =? 0 then d =? 0
                              else pr c' && ((d =? 0) || pr d))).

(* value/mask pairs that JSON can express: mask 0x0e with an mstp-only value; otherwise the full byte with the
   mask derived from its mtin *)
Definition vmm_ok (vm : N * N) : bool :=
  let '(v, mask) := vm in
  if mask =? 14 then existsb (N.eqb v) [0; 2; 4; 6; 8; 10; 12; 14]
  else (v <? 256) && (mask =? (if mtin_of v =? 0 then 15 else 255)).

Section Roundtrip.
  Variable valid : engine -> pattern -> bool.

  Definition id_shape (c : option idcrit) : Prop :=
    match c with Some (IdRe p) => valid EBytes p = true | _ => True end.
  Definition id_printable (c : option idcrit) : Prop :=
    match c with Some (IdLit l) => id4_printable l = true | _ => True end.
  Definition payload_shape (f : filter) : Prop :=
    match f_payload_regex f with
    | Some p => valid EFancy p = true /\ (f_ignore_case f = true -> is_prefix ci_prefix p = true) /\
                f_payload f = None /\ f_payload_as_regex f = None
    | None => f_payload_as_regex f =
              match f_payload f with Some s => if f_ignore_case f then Some s else None | None => None end
    end.

  (* what every loader produces *)
  Definition loaded_shape (f : filter) : Prop :=
    f_kind f <= 3 /\ id_shape (f_ecu f) /\ id_shape (f_apid f) /\ id_shape (f_ctid f) /\
    opt_wf vmm_ok (f_vmm f) = true /\ payload_shape f /\
    opt_wf (fun l => l <=? 6) (f_lmin f) = true /\ opt_wf (fun l => l <=? 6) (f_lmax f) = true /\
    opt_wf (forallb (fun l => l <? 2 ^ 32)) (f_lifecycles f) = true.
  Definition ids_printable (f : filter) : Prop :=
    id_printable (f_ecu f) /\ id_printable (f_apid f) /\ id_printable (f_ctid f).

  (* ---------------------------------------------------------------- to_json as a field list *)
  Definition ser_id_fields (k kre : jkey) (c : option idcrit) : jfields :=
    [(k, match c with Some (IdLit l) => Some (JStr (char4_display l)) | Some (IdRe p) => Some (JStr p) | None => None end);
     (kre, match c with Some (IdLit _) => Some (JBool false) | Some (IdRe _) => Some (JBool true) | None => None end)].

  Definition to_json_fields (f : filter) : jfields :=
    [(KType, Some (JNum (f_kind f)))] ++
    [(KEnabled, opt_if (negb (f_enabled f)) (JBool false))] ++
    [(KAtLoadTime, opt_if (f_at_load_time f) (JBool true))] ++
    [(KNot, opt_if (f_negate f) (JBool true))] ++
    ser_id_fields KEcu KEcuIsRegex (f_ecu f) ++
    ser_id_fields KApid KApidIsRegex (f_apid f) ++
    ser_id_fields KCtid KCtidIsRegex (f_ctid f) ++
    [(KPayloadRegex, match f_payload_regex f with
                     | Some p => Some (JStr (if f_ignore_case f then remove_first ci_prefix p else p))
                     | None => None
                     end);
     (KPayload, match f_payload_regex f with Some _ => None | None => option_map JStr (f_payload f) end)] ++
    [(KIgnoreCasePayload, opt_if (f_ignore_case f) (JBool true))] ++
    [(KLogLevelMin, option_map JNum (f_lmin f))] ++
    [(KLogLevelMax, option_map JNum (f_lmax f))] ++
    [(KLifecycles, option_map (fun l => JArr (map ENum l)) (f_lifecycles f))] ++
    [(KMstp, match f_vmm f with
             | Some (v, mask) => if N.eqb mask 14 then Some (JNum (N.land (N.shiftr v 1) 7)) else None
             | None => None
             end);
     (KVerbMstpMtin, match f_vmm f with
                     | Some (v, mask) => if N.eqb mask 14 then None else Some (JNum v)
                     | None => None
                     end)].

  Lemma obj_of_app l1 l2 : obj_of (l1 ++ l2) = obj_of l1 ++ obj_of l2.
  Proof. unfold obj_of. apply flat_map_app. Qed.

  Lemma to_json_kv_fields f : to_json_kv f = obj_of (to_json_fields f).
  Proof.
    unfold to_json_kv, to_json_fields. rewrite !obj_of_app.
    repeat (apply (f_equal2 (@app (jkey * jvalue)))).
    - reflexivity.
    - destruct (f_enabled f); reflexivity.
    - destruct (f_at_load_time f); reflexivity.
    - destruct (f_negate f); reflexivity.
    - destruct (f_ecu f) as [[l|p]|]; reflexivity.
    - destruct (f_apid f) as [[l|p]|]; reflexivity.
    - destruct (f_ctid f) as [[l|p]|]; reflexivity.
    - destruct (f_payload_regex f); [reflexivity|]. destruct (f_payload f); reflexivity.
    - destruct (f_ignore_case f); reflexivity.
    - destruct (f_lmin f); reflexivity.
    - destruct (f_lmax f); reflexivity.
    - destruct (f_lifecycles f); reflexivity.
    - destruct (f_vmm f) as [[v mask]|]; [|reflexivity]. destruct (N.eqb mask 14); reflexivity.
  Qed.

  Lemma tj_lookup f k :
    jget k (obj_of (to_json_fields f)) = match jfield_of k (to_json_fields f) with Some v => v | None => JNull end.
  Proof. apply jget_obj_of. reflexivity. Qed.

  Ltac tsimp :=
    rewrite !tj_lookup;
    cbn [jfield_of to_json_fields ser_id_fields app jkey_eqb jkey_idx N.eqb Pos.eqb].

  (* ---------------------------------------------------------------- small facts *)
  Lemma land_255_small v : v < 256 -> N.land v 255 = v.
  Proof. intros H. change 255 with (N.ones 8). rewrite N.land_ones. apply N.mod_small. exact H. Qed.

  Lemma remove_first_prefix p : is_prefix ci_prefix p = true -> ci_prefix ++ remove_first ci_prefix p = p.
  Proof.
    intros H. destruct (proj1 (is_prefix_app ci_prefix p) H) as [b ->].
    unfold remove_first at 1. destruct b; cbn; reflexivity.
  Qed.

  Lemma display_printable l : id4_printable l = true -> char4_from_str (char4_display l) = Some l.
  Proof.
    destruct l as [[[a b] c] d]. unfold id4_printable, pr.
    assert (P : forall x, (32 <=? x) && (x <=? 126) = true ->
                          printable_byte x = x /\ (x =? 0) = false /\ (x <? 128) = true).
    { intros x Hx. apply andb_true_iff in Hx. destruct Hx as [H1 H2]. apply N.leb_le in H1, H2.
      unfold printable_byte. replace (x <? 32) with false by (symmetry; apply N.ltb_ge; lia).
      replace (126 <? x) with false by (symmetry; apply N.ltb_ge; lia).
      split; [reflexivity|]. split; [apply N.eqb_neq; lia|apply N.ltb_lt; lia]. }
    unfold char4_display, id4_bytes, char4_from_str.
    destruct (a =? 0) eqn:Ea.
    { rewrite !andb_true_iff, !N.eqb_eq. intros [[-> ->] ->]. apply N.eqb_eq in Ea. subst a. reflexivity. }
    rewrite andb_true_iff. intros [Ha H]. destruct (P a Ha) as (Pa & _ & La).
    cbn [display_bytes]. rewrite Ea, Pa.
    destruct (b =? 0) eqn:Eb.
    { rewrite !andb_true_iff, !N.eqb_eq in H. destruct H as [-> ->]. apply N.eqb_eq in Eb. subst b.
      cbn [display_bytes N.eqb is_ascii forallb]. rewrite La. reflexivity. }
    rewrite andb_true_iff in H. destruct H as [Hb H]. destruct (P b Hb) as (Pb & _ & Lb).
    cbn [display_bytes]. rewrite Pb.
    destruct (c =? 0) eqn:Ec.
    { apply N.eqb_eq in H. subst d. apply N.eqb_eq in Ec. subst c.
      cbn [display_bytes N.eqb is_ascii forallb]. rewrite La, Lb. reflexivity. }
    rewrite andb_true_iff in H. destruct H as [Hc H]. destruct (P c Hc) as (Pc & _ & Lc).
    cbn [display_bytes]. rewrite Pc.
    destruct (d =? 0) eqn:Ed.
    { apply N.eqb_eq in Ed. subst d. cbn [display_bytes N.eqb is_ascii forallb]. rewrite La, Lb, Lc. reflexivity. }
    cbn [orb] in H. destruct (P d H) as (Pd & _ & Ld).
    cbn [display_bytes]. rewrite Pd. cbn [is_ascii forallb]. rewrite La, Lb, Lc, Ld. reflexivity.
  Qed.

  Lemma vmm_ok_reload v mask :
    vmm_ok (v, mask) = true ->
    (if N.eqb mask 14
     then Some (N.land (N.shiftl (N.land (N.land (N.shiftr v 1) 7) 7) 1) 255, 14)
     else Some (N.land v 255, if N.land (N.shiftr (N.land v 255) 4) 15 =? 0 then 15 else 255)) = Some (v, mask).
  Proof.
    unfold vmm_ok. destruct (N.eqb mask 14) eqn:Em.
    - apply N.eqb_eq in Em. subst mask. cbn [existsb]. rewrite !orb_true_iff, !N.eqb_eq.
      intros H. repeat (destruct H as [H|H]; [subst v; reflexivity|]). discriminate.
    - rewrite andb_true_iff, N.ltb_lt, N.eqb_eq. intros [Hv Hm]. rewrite (land_255_small v Hv).
      unfold mtin_of in Hm. rewrite <- Hm. reflexivity.
  Qed.

  (* ---------------------------------------------------------------- the blocks of from_json on to_json's output *)
  Section OfFilter.
    Variable f : filter.
    Hypothesis Hs : loaded_shape f.
    Hypothesis Hp : ids_printable f.
    Let o := obj_of (to_json_fields f).

    Lemma tj_kind : kind_of_u64 (as_u64 (jget KType o)) = Some (f_kind f).
    Proof. destruct Hs as (Hk & _). unfold o. tsimp. cbn [as_u64]. exact (kind_of_u64_ok _ Hk). Qed.

    Lemma tj_enabled : match as_bool (jget KEnabled o) with Some b => b | None => true end = f_enabled f.
    Proof. unfold o. tsimp. destruct (f_enabled f); reflexivity. Qed.
    Lemma tj_negate : match as_bool (jget KNot o) with Some b => b | None => false end = f_negate f.
    Proof. unfold o. tsimp. destruct (f_negate f); reflexivity. Qed.
    Lemma tj_at_load : match as_bool (jget KAtLoadTime o) with Some b => b | None => false end = f_at_load_time f.
    Proof. unfold o. tsimp. destruct (f_at_load_time f); reflexivity. Qed.
    Lemma tj_ic : match as_bool (jget KIgnoreCasePayload o) with Some b => b | None => false end = f_ignore_case f.
    Proof. unfold o. tsimp. destruct (f_ignore_case f); reflexivity. Qed.

    Lemma tj_id_block (c : option idcrit) :
      id_shape c -> id_printable c ->
      match as_str (match (match c with
                           | Some (IdLit l) => Some (JStr (char4_display l))
                           | Some (IdRe p) => Some (JStr p)
                           | None => None
                           end) with Some v => v | None => JNull end) with
      | Some s =>
          match c4_from_str valid s
                  (match as_bool (match (match c with
                                         | Some (IdLit _) => Some (JBool false)
                                         | Some (IdRe _) => Some (JBool true)
                                         | None => None
                                         end) with Some v => v | None => JNull end) with
                   | Some b => b
                   | None => contains_regex_chars s
                   end) with
          | Some c' => Some (Some c')
          | None => None
          end
      | None => Some None
      end = Some c.
    Proof.
      intros Hsh Hpr. destruct c as [[l|p]|]; cbn [as_str as_bool]; [| |reflexivity].
      - cbn [id_printable] in Hpr. unfold c4_from_str. rewrite (display_printable l Hpr). reflexivity.
      - cbn [id_shape] in Hsh. unfold c4_from_str. rewrite Hsh. reflexivity.
    Qed.

    Lemma tj_ecu : json_id valid o KEcu KEcuIsRegex = Some (f_ecu f).
    Proof.
      destruct Hs as (_ & H & _). destruct Hp as (P & _). unfold o, json_id. tsimp. exact (tj_id_block _ H P).
    Qed.
    Lemma tj_apid : json_id valid o KApid KApidIsRegex = Some (f_apid f).
    Proof.
      destruct Hs as (_ & _ & H & _). destruct Hp as (_ & P & _). unfold o, json_id. tsimp. exact (tj_id_block _ H P).
    Qed.
    Lemma tj_ctid : json_id valid o KCtid KCtidIsRegex = Some (f_ctid f).
    Proof.
      destruct Hs as (_ & _ & _ & H & _). destruct Hp as (_ & _ & P). unfold o, json_id. tsimp. exact (tj_id_block _ H P).
    Qed.

    Lemma tj_payload :
      json_payload valid o (f_ignore_case f) = Some (f_payload f, f_payload_regex f, f_payload_as_regex f).
    Proof.
      destruct Hs as (_ & _ & _ & _ & _ & H & _). unfold payload_shape in H. unfold o, json_payload. tsimp.
      destruct (f_payload_regex f) as [p|].
      - destruct H as (Hv & Hpre & -> & ->). cbn [as_str]. unfold compile_payload_regex.
        destruct (f_ignore_case f).
        + rewrite (remove_first_prefix p (Hpre eq_refl)), Hv. reflexivity.
        + rewrite Hv. reflexivity.
      - rewrite H. destruct (f_payload f) as [s|]; reflexivity.
    Qed.

    Lemma tj_lmin : json_level o KLogLevelMin = Some (f_lmin f).
    Proof.
      destruct Hs as (_ & _ & _ & _ & _ & _ & H & _). unfold o, json_level. tsimp. exact (level_block _ H).
    Qed.
    Lemma tj_lmax : json_level o KLogLevelMax = Some (f_lmax f).
    Proof.
      destruct Hs as (_ & _ & _ & _ & _ & _ & _ & H & _). unfold o, json_level. tsimp. exact (level_block _ H).
    Qed.
    Lemma tj_lifecycles : json_lifecycles o = f_lifecycles f.
    Proof.
      destruct Hs as (_ & _ & _ & _ & _ & _ & _ & _ & H). unfold o, json_lifecycles. tsimp.
      exact (lifecycles_block _ H).
    Qed.

    Lemma tj_vmm : json_vmm o = f_vmm f.
    Proof.
      destruct Hs as (_ & _ & _ & _ & H & _). unfold o, json_vmm. tsimp.
      destruct (f_vmm f) as [[v mask]|]; [|reflexivity]. cbn [opt_wf] in H.
      pose proof (vmm_ok_reload v mask H) as R. destruct (N.eqb mask 14); cbn [as_u64]; exact R.
    Qed.
  End OfFilter.

  Theorem json_roundtrip_eq f :
    loaded_shape f -> ids_printable f -> from_json_kv valid (JObject (to_json_kv f)) = Some f.
  Proof.
    intros Hs Hp. rewrite to_json_kv_fields. unfold from_json_kv.
    rewrite (tj_kind f Hs), (tj_enabled f), (tj_negate f), (tj_at_load f), (tj_ecu f Hs Hp), (tj_apid f Hs Hp),
      (tj_ctid f Hs Hp), (tj_ic f), (tj_payload f Hs), (tj_lmin f Hs), (tj_lmax f Hs), (tj_lifecycles f Hs),
      (tj_vmm f Hs).
    cbn [obind fst snd]. destruct f; reflexivity.
  Qed.

  (* ---------------------------------------------------------------- every loader produces the loaded shape *)
  Lemma c4_from_str_shape s r c : c4_from_str valid s r = Some c -> id_shape (Some c).
  Proof.
    unfold c4_from_str. destruct r.
    - destruct (valid EBytes s) eqn:E; [|discriminate]. intros H. inversion H; subst. exact E.
    - destruct (char4_from_str s); [|discriminate]. intros H. inversion H; subst. exact I.
  Qed.

  Lemma kind_of_u64_le x k : kind_of_u64 x = Some k -> k <= 3.
  Proof.
    destruct x as [n|]; [|discriminate]. destruct n as [|p]; cbn.
    - intros H; inversion H; lia.
    - destruct p as [[p|p|]|[p|p|]|]; cbn; intros H; inversion H; lia.
  Qed.

  Lemma json_id_shape o k kre c : json_id valid o k kre = Some c -> id_shape c.
  Proof.
    unfold json_id. destruct (as_str (jget k o)) as [s|]; [|intros H; inversion H; exact I].
    destruct (c4_from_str valid s _) as [c'|] eqn:E; [|discriminate].
    intros H. inversion H; subst. exact (c4_from_str_shape _ _ _ E).
  Qed.

  Lemma json_level_shape o k l : json_level o k = Some l -> opt_wf (fun l => l <=? 6) l = true.
  Proof.
    unfold json_level. destruct (as_u64 (jget k o)) as [lvl|]; [|intros H; inversion H; reflexivity].
    destruct (lvl <=? 6) eqn:E; [|discriminate]. intros H. inversion H; subst. exact E.
  Qed.

  Lemma json_lifecycles_shape o : opt_wf (forallb (fun l => l <? 2 ^ 32)) (json_lifecycles o) = true.
  Proof.
    unfold json_lifecycles. destruct (as_array (jget KLifecycles o)) as [l|]; [|reflexivity].
    cbn [option_map opt_wf]. induction l as [|e l IH]; [reflexivity|].
    cbn [flat_map]. destruct e as [n|]; cbn [app forallb]; [|exact IH].
    rewrite IH, andb_true_r. apply N.ltb_lt. apply N.mod_lt. discriminate.
  Qed.

  Lemma land7_cases m : exists r, N.land m 7 = r /\ (r = 0 \/ r = 1 \/ r = 2 \/ r = 3 \/ r = 4 \/ r = 5 \/ r = 6 \/ r = 7).
  Proof.
    exists (N.land m 7). split; [reflexivity|].
    assert (E : N.land m 7 = m mod 8) by (change 7 with (N.ones 3); rewrite N.land_ones; reflexivity).
    rewrite E. assert (H : m mod 8 < 8) by (apply N.mod_lt; discriminate). lia.
  Qed.

  Lemma json_vmm_shape o : opt_wf vmm_ok (json_vmm o) = true.
  Proof.
    unfold json_vmm. destruct (as_u64 (jget KVerbMstpMtin o)) as [v|].
    - cbn [opt_wf vmm_ok].
      assert (Hlt : N.land v 255 < 256).
      { change 255 with (N.ones 8). rewrite N.land_ones. apply N.mod_lt. discriminate. }
      unfold mtin_of.
      destruct (N.land (N.shiftr (N.land v 255) 4) 15 =? 0); cbn [N.eqb Pos.eqb];
        rewrite andb_true_r; apply N.ltb_lt; exact Hlt.
    - destruct (as_u64 (jget KMstp o)) as [m|]; [|reflexivity].
      cbn [opt_wf vmm_ok N.eqb Pos.eqb]. destruct (land7_cases m) as (r & -> & Hr).
      repeat (destruct Hr as [Hr|Hr]; [subst r; reflexivity|]). subst r. reflexivity.
  Qed.

  Lemma json_payload_shape o ic a b c :
    json_payload valid o ic = Some (a, b, c) ->
    match b with
    | Some p => valid EFancy p = true /\ (ic = true -> is_prefix ci_prefix p = true) /\ a = None /\ c = None
    | None => c = match a with Some s => if ic then Some s else None | None => None end
    end.
  Proof.
    unfold json_payload. destruct (as_str (jget KPayloadRegex o)) as [s|].
    - unfold compile_payload_regex.
      destruct ic; destruct (valid EFancy _) eqn:E; cbn iota; try discriminate;
        intros H; inversion H; subst; (split; [exact E|]); (split; [|split; reflexivity]).
      + intros _. apply is_prefix_app. exists s. reflexivity.
      + discriminate.
    - destruct (as_str (jget KPayload o)) as [s|]; intros H; inversion H; subst; reflexivity.
  Qed.

  Theorem from_json_shape j f : from_json_kv valid j = Some f -> loaded_shape f.
  Proof.
    destruct j as [o|]; [|discriminate]. unfold from_json_kv.
    destruct (kind_of_u64 (as_u64 (jget KType o))) as [kind|] eqn:Ek; [|discriminate]. cbn [obind].
    destruct (json_id valid o KEcu KEcuIsRegex) as [ecu|] eqn:Eecu; [|discriminate]. cbn [obind].
    destruct (json_id valid o KApid KApidIsRegex) as [apid|] eqn:Eapid; [|discriminate]. cbn [obind].
    destruct (json_id valid o KCtid KCtidIsRegex) as [ctid|] eqn:Ectid; [|discriminate]. cbn [obind].
    destruct (json_payload valid o _) as [[[pa pb] pc]|] eqn:Epl; [|discriminate]. cbn [obind].
    destruct (json_level o KLogLevelMin) as [lmin|] eqn:Emin; [|discriminate]. cbn [obind].
    destruct (json_level o KLogLevelMax) as [lmax|] eqn:Emax; [|discriminate]. cbn [obind].
    intros H. inversion H; subst f; clear H. unfold loaded_shape, payload_shape.
    cbn [f_kind f_ecu f_apid f_ctid f_vmm f_payload f_payload_regex f_ignore_case f_payload_as_regex f_lmin f_lmax
         f_lifecycles fst snd].
    split; [exact (kind_of_u64_le _ _ Ek)|].
    split; [exact (json_id_shape _ _ _ _ Eecu)|]. split; [exact (json_id_shape _ _ _ _ Eapid)|].
    split; [exact (json_id_shape _ _ _ _ Ectid)|]. split; [exact (json_vmm_shape o)|].
    split; [exact (json_payload_shape _ _ _ _ _ Epl)|].
    split; [exact (json_level_shape _ _ _ Emin)|]. split; [exact (json_level_shape _ _ _ Emax)|].
    exact (json_lifecycles_shape o).
  Qed.

  Lemma dlf_id_shape d ken kval kre : id_shape (dlf_id valid d ken kval kre).
  Proof.
    unfold dlf_id. destruct (is_one ken d); [|exact I]. destruct (dget kval d) as [s|]; [|exact I].
    destruct (c4_from_str valid s _) as [c|] eqn:E; [|exact I]. exact (c4_from_str_shape _ _ _ E).
  Qed.

  Lemma dlf_level_shape d ken kval : opt_wf (fun l => l <=? 6) (dlf_level d ken kval) = true.
  Proof.
    unfold dlf_level. destruct (is_one ken d); [|reflexivity]. destruct (dget kval d) as [s|]; [|reflexivity].
    destruct (_ <=? 6) eqn:E; [exact E|reflexivity].
  Qed.

  Theorem from_dlf_shape d : loaded_shape (from_dlf_attrs valid d).
  Proof.
    unfold loaded_shape, payload_shape, from_dlf_attrs.
    cbn [f_kind f_ecu f_apid f_ctid f_vmm f_payload f_payload_regex f_ignore_case f_payload_as_regex f_lmin f_lmax
         f_lifecycles].
    split.
    { unfold dlf_kind. destruct (dget DType d) as [s|]; [|lia]. destruct (parse_u8 s) as [n|]; [|lia].
      destruct n as [|p]; [lia|]. destruct p as [[p|p|]|[p|p|]|]; lia. }
    split; [apply dlf_id_shape|]. split; [apply dlf_id_shape|]. split; [apply dlf_id_shape|].
    split; [destruct (is_one DEnableControlMsgs d); reflexivity|].
    split.
    { destruct (is_one DEnablePayloadText d); cbn [andb]; [|reflexivity].
      destruct (dget DPayloadText d) as [s|]; [|reflexivity].
      destruct (is_one DEnableRegexpPayload d).
      - unfold compile_payload_regex.
        destruct (is_one DIgnoreCasePayload d); destruct (valid EFancy _) eqn:E; cbn iota; try reflexivity;
          (split; [exact E|]); (split; [|split; reflexivity]).
        + intros _. apply is_prefix_app. exists s. reflexivity.
        + discriminate.
      - reflexivity. }
    split; [apply dlf_level_shape|]. split; [apply dlf_level_shape|]. reflexivity.
  Qed.

  Lemma conv_filter_shape x y : loaded_shape (conv_filter x y).
  Proof.
    unfold loaded_shape, payload_shape, conv_filter, filter_new.
    cbn [f_kind f_ecu f_apid f_ctid f_vmm f_payload f_payload_regex f_ignore_case f_payload_as_regex f_lmin f_lmax
         f_lifecycles id_shape opt_wf].
    repeat split; try reflexivity. lia.
  Qed.

  Theorem from_conv_shape buf f : In f (from_convert_format buf) -> loaded_shape f.
  Proof.
    unfold from_convert_format. generalize (List.length buf) as fuel. intros fuel. revert buf.
    induction fuel as [|k IH]; intros buf; cbn [conv_go]; [intros []|].
    destruct (Nat.leb 10 (List.length buf)); [|intros []].
    intros [<-|H]; [apply conv_filter_shape|exact (IH _ H)].
  Qed.

  Lemma eac_part_shape s c : eac_part valid s = Some c -> id_shape c.
  Proof.
    unfold eac_part. destruct s as [|b r]; [intros H; inversion H; exact I|].
    destruct (c4_from_str valid (b :: r) _) as [c'|] eqn:E; [|discriminate].
    intros H. inversion H; subst. exact (c4_from_str_shape _ _ _ E).
  Qed.

  Theorem from_eac_shape s f : eac_from_str valid s = Some f -> loaded_shape f.
  Proof.
    unfold eac_from_str. destruct s as [|b r]; [discriminate|].
    set (parts := split_colon [] (b :: r)).
    destruct (eac_part valid (nth 0 parts [])) as [ecu|] eqn:E0; [|discriminate]. cbn [obind].
    destruct (eac_part valid (nth 1 parts [])) as [apid|] eqn:E1; [|discriminate]. cbn [obind].
    destruct (eac_part valid (nth 2 parts [])) as [ctid|] eqn:E2; [|discriminate]. cbn [obind].
    intros H. inversion H; subst f; clear H. unfold loaded_shape, payload_shape, filter_new.
    cbn [f_kind f_ecu f_apid f_ctid f_vmm f_payload f_payload_regex f_ignore_case f_payload_as_regex f_lmin f_lmax
         f_lifecycles opt_wf].
    split; [lia|]. split; [exact (eac_part_shape _ _ E0)|]. split; [exact (eac_part_shape _ _ E1)|].
    split; [exact (eac_part_shape _ _ E2)|]. repeat split; reflexivity.
  Qed.

  (* ---------------------------------------------------------------- what to_json writes for the payload pattern *)
  Lemma remove_first_app s : remove_first ci_prefix (ci_prefix ++ s) = s.
  Proof. reflexivity. Qed.

  (* the written "payloadRegex" text t is the one from which from_json's rule (prefix "(?i)" iff ignoreCasePayload)
     rebuilds the filter's pattern; "ignoreCasePayload" is written exactly when the flag is set *)
  Theorem to_json_payload_regex_inverse f p :
    loaded_shape f -> f_payload_regex f = Some p ->
    exists t, jget KPayloadRegex (to_json_kv f) = JStr t /\
              (if f_ignore_case f then ci_prefix ++ t else t) = p /\
              jget KIgnoreCasePayload (to_json_kv f) = (if f_ignore_case f then JBool true else JNull) /\
              jget KPayload (to_json_kv f) = JNull.
  Proof.
    intros Hs Hp. destruct Hs as (_ & _ & _ & _ & _ & H & _). unfold payload_shape in H. rewrite Hp in H.
    destruct H as (_ & Hpre & _ & _).
    exists (if f_ignore_case f then remove_first ci_prefix p else p).
    rewrite to_json_kv_fields. tsimp. rewrite Hp.
    destruct (f_ignore_case f); cbn [opt_if].
    - repeat split. exact (remove_first_prefix p (Hpre eq_refl)).
    - repeat split.
  Qed.

  (* from_json followed by to_json: the "payloadRegex" member is written back verbatim, whatever it starts with and
     whatever "ignoreCasePayload" says (in particular a pattern with its own leading "(?i)" keeps it) *)
  Theorem json_payload_regex_text_kept o f s :
    from_json_kv valid (JObject o) = Some f -> as_str (jget KPayloadRegex o) = Some s ->
    f_payload_regex f = Some (if f_ignore_case f then ci_prefix ++ s else s) /\
    jget KPayloadRegex (to_json_kv f) = JStr s /\
    jget KIgnoreCasePayload (to_json_kv f) = (if f_ignore_case f then JBool true else JNull).
  Proof.
    intros Hl Hstr. unfold from_json_kv in Hl.
    destruct (kind_of_u64 (as_u64 (jget KType o))) as [kind|]; [|discriminate]. cbn [obind] in Hl.
    destruct (json_id valid o KEcu KEcuIsRegex) as [ecu|]; [|discriminate]. cbn [obind] in Hl.
    destruct (json_id valid o KApid KApidIsRegex) as [apid|]; [|discriminate]. cbn [obind] in Hl.
    destruct (json_id valid o KCtid KCtidIsRegex) as [ctid|]; [|discriminate]. cbn [obind] in Hl.
    destruct (json_payload valid o _) as [[[pa pb] pc]|] eqn:Epl; [|discriminate]. cbn [obind] in Hl.
    destruct (json_level o KLogLevelMin) as [lmin|]; [|discriminate]. cbn [obind] in Hl.
    destruct (json_level o KLogLevelMax) as [lmax|]; [|discriminate]. cbn [obind] in Hl.
    inversion Hl; subst f; clear Hl.
    rewrite to_json_kv_fields. tsimp.
    cbn [f_payload_regex f_ignore_case fst snd].
    unfold json_payload in Epl. rewrite Hstr in Epl. unfold compile_payload_regex in Epl.
    remember (match as_bool (jget KIgnoreCasePayload o) with Some b => b | None => false end) as ic eqn:Eic.
    clear Eic. revert Epl.
    destruct ic; cbn iota; (destruct (valid EFancy _); intros Epl; [|discriminate]);
      inversion Epl; subst pa pb pc; clear Epl; cbn [opt_if]; repeat split.
  Qed.

  (* a filter that came out of one of the four loaders *)
  Definition loaded (f : filter) : Prop :=
    (exists j, from_json_kv valid j = Some f) \/ (exists d, f = from_dlf_attrs valid d) \/
    (exists buf, In f (from_convert_format buf)) \/ (exists s, eac_from_str valid s = Some f).

  Theorem loaded_has_shape f : loaded f -> loaded_shape f.
  Proof.
    intros [[j H]|[[d ->]|[[buf H]|[s H]]]].
    - exact (from_json_shape j f H).
    - apply from_dlf_shape.
    - exact (from_conv_shape buf f H).
    - exact (from_eac_shape s f H).
  Qed.
End Roundtrip.
