(* C11 — the event loops of the DLF loader recover the element maps of a file written element by element. *)
From Coq Require Import List NArith Bool String Lia Arith PeanoNat.
From AdltV Require Import Filter.Match Filter.Frontends Filter.FrontendsXml.
Import ListNotations.
Open Scope N_scope.

Lemma dkey_name_roundtrip k : dkey_of_name (name_of_dkey k) = k.
Proof. destruct k; reflexivity. Qed.
Lemma dkey_name_not_filter k : is_filter (name_of_dkey k) = false.
Proof. destruct k; reflexivity. Qed.
Lemma dkey_name_not_dltfilter k : is_dltfilter (name_of_dkey k) = false.
Proof. destruct k; reflexivity. Qed.

Lemma collect_elements a rest acc :
  collect_filter (flat_map element_events a ++ XEnd "filter"%string :: rest) None acc = (Some (acc ++ a), rest).
Proof.
  revert acc. induction a as [|[k v] a IH]; intros acc.
  - cbn [flat_map app collect_filter]. change (is_filter "filter"%string) with true. cbn iota.
    rewrite app_nil_r. reflexivity.
  - cbn [flat_map element_events fst snd app collect_filter].
    rewrite !(dkey_name_not_filter k), (dkey_name_roundtrip k).
    rewrite IH, <- app_assoc. reflexivity.
Qed.

Section XmlProofs.
  Variable valid : engine -> pattern -> bool.

  Lemma outer_filters fs fuel acc :
    (List.length fs + 2 <= fuel)%nat ->
    dlf_outer valid fuel (flat_map filter_events fs ++ [XEnd "dltfilter"%string; XEof]) true false acc =
    Some (acc ++ map (from_dlf_attrs valid) fs).
  Proof.
    revert fuel acc. induction fs as [|a fs IH]; intros fuel acc Hf.
    - destruct fuel as [|[|fuel]]; [cbn in Hf; lia|cbn in Hf; lia|].
      cbn [flat_map app dlf_outer]. change (is_dltfilter "dltfilter"%string) with true. cbn iota.
      cbn [negb orb]. rewrite app_nil_r. reflexivity.
    - destruct fuel as [|fuel]; [cbn in Hf; lia|].
      cbn [flat_map filter_events app]. rewrite <- !app_assoc. cbn [app dlf_outer].
      change (is_dltfilter "filter"%string) with false. change (is_filter "filter"%string) with true. cbn iota.
      cbn [negb andb]. rewrite (collect_elements a _ []). cbn [app map].
      rewrite IH; [rewrite <- app_assoc; reflexivity|cbn in Hf; lia].
  Qed.

  Lemma file_events_length fs : (List.length fs + 4 <= List.length (file_events fs))%nat.
  Proof.
    unfold file_events. rewrite !app_length. cbn [List.length].
    assert (H : (List.length fs <= List.length (flat_map filter_events fs))%nat).
    { induction fs as [|a fs IH]; [cbn; lia|]. cbn [flat_map]. rewrite app_length. unfold filter_events at 1.
      rewrite !app_length. cbn [List.length]. lia. }
    lia.
  Qed.

  (* filters_from_dlf over a well-formed file = from_quick_xml_reader's second half on each element map *)
  Theorem dlf_events_load fs :
    filters_from_dlf_events valid (file_events fs) = Some (map (from_dlf_attrs valid) fs).
  Proof.
    unfold filters_from_dlf_events. pose proof (file_events_length fs) as Hl.
    destruct (List.length (file_events fs)) as [|[|fuel]] eqn:E; [lia|lia|].
    unfold file_events. cbn [app dlf_outer].
    change (is_dltfilter "dltfilter"%string) with true. cbn iota.
    rewrite outer_filters; [reflexivity|lia].
  Qed.
End XmlProofs.
