(* C11 — `Filter::matches` with the regular-expression engines as they are typed in the code: which of the
   engines can fail AT MATCH TIME, and what each call site of `matches` does with a failure.
   No proofs in this file (proofs: Filter/MatchEngineProofs.v).

   Filter/Match.v models the engines as ONE two-valued oracle  re : engine -> pattern -> text -> bool  in which the
   `unwrap_or(false)` of the payloadRegex branch is already folded into the answer.  Here the oracle has the type
   of the engines' `is_match`:

     regex::bytes::Regex::is_match(&[u8]) -> bool          ids (ecu / apid / ctid), src/filter/filter_impl.rs
     regex::Regex::is_match(&str) -> bool                  cached case-insensitive literal (`payload_as_regex`)
         both are the linear-time `regex` crate: no backtracking, no match-time limit, the result type has no
         error case - nothing to handle at these four call sites, and the code handles nothing;
     fancy_regex::Regex::is_match(&str) -> Result<bool, Error>     `payload_regex`
         a pattern without look-around / backreference / atomic group is delegated as a whole to `regex` and
         answers Ok(_) on every text; any other pattern runs on fancy_regex's backtracking VM, which gives up with
         Err(RuntimeError(BacktrackLimitExceeded)) after 1 000 000 backtracks or Err(RuntimeError(StackOverflow))
         - depending on the TEXT, i.e. on the payload of the message that is being filtered.

   So the oracle is three-valued exactly for the fancy engine:  fre : pattern -> text -> eans.
   The one call site that receives the Result is parametrised ([on_result]) so that the code as it is
   (`.unwrap_or(false)`) and the variant that unwraps (`.unwrap()`) are two instances of the same transcription. *)
From Coq Require Import List NArith Bool.
From AdltV Require Import Base.Res Filter.Match.
Import ListNotations.
Open Scope N_scope.

(* Result<bool, fancy_regex::Error> of `is_match` *)
Inductive eans := EMatch | ENoMatch | EError.

(* Result::unwrap_or(false) *)
Definition eans_unwrap_or_false (a : eans) : bool :=
  match a with EMatch => true | ENoMatch => false | EError => false end.

(* Result::unwrap(): panics on Err *)
Definition site_regex_unwrap : N := 1101.
Definition eans_unwrap (a : eans) : res bool :=
  match a with EMatch => Ok true | ENoMatch => Ok false | EError => Panic site_regex_unwrap end.

(* the code as it is: `payload_regex.is_match(&payload_text).unwrap_or(false)` *)
Definition handle_unwrap_or_false (a : eans) : res bool := Ok (eans_unwrap_or_false a).

Section MatchesEngine.
  (* regex / regex::bytes (EBytes, ECi): total.  [re EFancy] is never asked by anything in this section. *)
  Variable re : engine -> pattern -> text -> bool.
  (* fancy_regex *)
  Variable fre : pattern -> text -> eans.
  (* what the payloadRegex call site does with the Result *)
  Variable on_result : eans -> res bool.

  (* if payload_regex .. else if payload_as_regex .. else if payload: true = falls through, false = `return negated` *)
  Definition pass_payload_r (f : filter) (m : msg) : res bool :=
    match f_payload_regex f with
    | Some p =>
        match m_text m with
        | Some t => on_result (fre p t)
        | None => Ok false
        end
    | None =>
        match f_payload_as_regex f with
        | Some s =>
            match m_text m with
            | Some t => Ok (re ECi s t)
            | None => Ok false
            end
        | None =>
            match f_payload f with
            | Some s =>
                match m_text m with
                | Some t => Ok (substr s t)
                | None => Ok false
                end
            | None => Ok true
            end
        end
    end.

  (* Filter::matches with its early returns; the blocks in front of the payload block return before the payload
     engine is asked (a message that fails an id / type / level criterion never reaches the engine) *)
  Definition matches_r (f : filter) (m : msg) : res bool :=
    if negb (f_enabled f) then Ok false else
    let negated := f_negate f in
    if negb (pass_ecu re f m) then Ok negated else
    if negb (pass_apid re f m) then Ok negated else
    if negb (pass_ctid re f m) then Ok negated else
    if negb (pass_vmm f m) then Ok negated else
    if negb (pass_lmin f m) then Ok negated else
    if negb (pass_lmax f m) then Ok negated else
    match pass_payload_r f m with
    | Ok pp =>
        if negb pp then Ok negated else
        if negb (pass_lifecycles f m) then Ok negated else
        Ok (negb negated)
    | Panic s => Panic s
    | OutOfFuel => OutOfFuel
    end.
End MatchesEngine.

(* the code as it is *)
Definition matches_total (re : engine -> pattern -> text -> bool) (fre : pattern -> text -> eans) : filter -> msg -> res bool :=
  matches_r re fre handle_unwrap_or_false.
(* the variant with `.unwrap()` at the payloadRegex call site *)
Definition matches_unwrapping (re : engine -> pattern -> text -> bool) (fre : pattern -> text -> eans) : filter -> msg -> res bool :=
  matches_r re fre eans_unwrap.

(* the two-valued oracle of Filter/Match.v that the code's handling of the Result amounts to *)
Definition re_collapse (re : engine -> pattern -> text -> bool) (fre : pattern -> text -> eans) : engine -> pattern -> text -> bool :=
  fun e p t => match e with EFancy => eans_unwrap_or_false (fre p t) | _ => re e p t end.

(* the payload criterion of the specification with the engine's three answers spelled out: a pattern criterion holds
   exactly when the engine answered "match"; "no match" and "engine error" both mean the criterion does not hold *)
Definition payload_holds3 (re : engine -> pattern -> text -> bool) (fre : pattern -> text -> eans) (c : pcrit) (t : text) : bool :=
  match c with
  | PRegex p => match fre p t with EMatch => true | ENoMatch => false | EError => false end
  | PLiteralCi s => re ECi s t
  | PLiteral s => substr s t
  end.

(* the simplest filter with a payload pattern, and a message with a text (witnesses) *)
Definition filter_payload_regex (p : pattern) (negate : bool) : filter :=
  {| f_kind := 0; f_enabled := true; f_at_load_time := false; f_negate := negate;
     f_ecu := None; f_apid := None; f_ctid := None; f_vmm := None;
     f_payload := None; f_payload_regex := Some p; f_ignore_case := false; f_payload_as_regex := None;
     f_lmin := None; f_lmax := None; f_lifecycles := None |}.
Definition msg_with_text (t : text) : msg :=
  {| m_ecu := (69, 67, 85, 49); m_ext := None; m_text := Some t; m_lc := 0 |}.
