(* Proofs about the plumbing of Exec/C12.v: the filter ids used for the export plugin's own lifecycle filters
   encode the lifecycle list injectively, so [matches_case] gives such a filter exactly its meaning. *)
From Coq Require Import List NArith Bool Lia.
From AdltV Require Import Filter.Sets Exec.C12.
Import ListNotations. Open Scope N_scope.

Lemma lc_code_snoc l x : lc_code (l ++ [x]) = lc_code l * lc_base + (x + 1).
Proof. unfold lc_code. rewrite fold_left_app. reflexivity. Qed.

Lemma size_div_lt n : n <> 0 -> (N.to_nat (N.size (n / lc_base)) < N.to_nat (N.size n))%nat.
Proof.
  intros Hn. destruct (N.eq_dec (n / lc_base) 0) as [E|E].
  - rewrite E. cbn. destruct n; [congruence|]. cbn. lia.
  - assert (Hlt : n / lc_base < n) by (apply N.div_lt; [lia|reflexivity]).
    rewrite !N.size_log2 by assumption.
    pose proof (N.mul_div_le n lc_base ltac:(discriminate)) as Hm.
    set (q := n / lc_base) in *. change lc_base with 8589934592 in Hm.
    assert (Hq : N.log2 q < N.log2 n).
    { assert (H2 : 2 * q <= n) by lia.
      assert (H3 : N.log2 (2 * q) <= N.log2 n) by (apply N.log2_le_mono; exact H2).
      rewrite N.log2_double in H3 by lia. lia. }
    lia.
Qed.

Lemma lc_decode_code l : forall f,
  Forall (fun x => x + 1 < lc_base) l -> (N.to_nat (N.size (lc_code l)) <= f)%nat -> lc_decode f (lc_code l) = l.
Proof.
  induction l as [|x l IH] using rev_ind; intros f Hb Hf.
  - destruct f; reflexivity.
  - apply Forall_app in Hb. destruct Hb as [Hb Hx]. inversion Hx as [|? ? Hx' _]; subst.
    rewrite lc_code_snoc in *. set (c := lc_code l) in *.
    assert (Hn : c * lc_base + (x + 1) <> 0) by lia.
    destruct f as [|f].
    + exfalso. rewrite N.size_log2 in Hf by exact Hn. lia.
    + cbn [lc_decode]. destruct (N.eqb_spec (c * lc_base + (x + 1)) 0) as [E|_]; [congruence|].
      assert (Hd : (c * lc_base + (x + 1)) / lc_base = c).
      { rewrite N.div_add_l by discriminate. rewrite N.div_small by exact Hx'. lia. }
      assert (Hm : (c * lc_base + (x + 1)) mod lc_base = x + 1).
      { rewrite N.add_comm, N.mod_add by discriminate. apply N.mod_small. exact Hx'. }
      rewrite Hd, Hm. f_equal; [|f_equal; lia].
      apply IH; [exact Hb|]. pose proof (size_div_lt _ Hn) as H. rewrite Hd in H. lia.
Qed.

Lemma matches_case_lc_filter c l m :
  Forall (fun x => x + 1 < lc_base) l ->
  matches_case c (lc_filter_case c l) m = negb (memN (nth (N.to_nat m) (k_lcs c) 0) l).
Proof.
  intros Hb. unfold matches_case, lc_filter_case. cbn [f_id].
  set (nf := N.of_nat (length (k_filters c))).
  destruct (N.ltb_spec (nf + lc_code l) nf) as [H|_]; [lia|].
  replace (nf + lc_code l - nf) with (lc_code l) by lia.
  rewrite lc_decode_code; [reflexivity|exact Hb|apply le_n].
Qed.

Lemma matches_case_configured c f m :
  f_id f < N.of_nat (length (k_filters c)) ->
  matches_case c f m = tab (map (fun x => snd x) (k_filters c)) false (f_id f) m.
Proof. intros H. unfold matches_case. apply N.ltb_lt in H. rewrite H. reflexivity. Qed.
