(* Proofs about Filter/Sets.v (C12). *)
From Coq Require Import List NArith Bool Lia Permutation Arith.
From AdltV Require Import Base.Res Base.MachInt Filter.Sets.
Import ListNotations.
Open Scope N_scope.

(* ---------------------------------------------------------------- list helpers *)
Lemma existsb_filter {A} (p q : A -> bool) l :
  existsb p (filter q l) = existsb (fun x => q x && p x) l.
Proof.
  induction l as [|a l IH]; [reflexivity|]. cbn [filter existsb].
  destruct (q a) eqn:Eq; cbn [existsb andb]; rewrite IH; reflexivity.
Qed.

Lemma is_empty_filter {A} (q : A -> bool) l : is_empty (filter q l) = negb (existsb q l).
Proof.
  induction l as [|a l IH]; [reflexivity|]. cbn [filter existsb].
  destruct (q a) eqn:Eq; cbn [is_empty orb negb]; [reflexivity|exact IH].
Qed.

Lemma existsb_ext_in {A} (p q : A -> bool) l :
  (forall x, In x l -> p x = q x) -> existsb p l = existsb q l.
Proof.
  induction l as [|a l IH]; intros H; [reflexivity|]. cbn [existsb].
  rewrite (H a (or_introl eq_refl)), IH; [reflexivity|]. intros x Hx. apply H. right. exact Hx.
Qed.

Lemma existsb_filter_implied {A} (p r : A -> bool) l :
  (forall x, p x = true -> r x = true) -> existsb p (filter r l) = existsb p l.
Proof.
  intros H. rewrite existsb_filter. apply existsb_ext_in. intros x _.
  destruct (p x) eqn:Ep; [rewrite (H x Ep); reflexivity|apply andb_false_r].
Qed.

Lemma existsb_perm {A} (p : A -> bool) l l' : Permutation l l' -> existsb p l = existsb p l'.
Proof.
  induction 1 as [|x l l' _ IH|x y l|l l' l'' _ IH1 _ IH2]; cbn [existsb].
  - reflexivity.
  - rewrite IH. reflexivity.
  - destruct (p x), (p y); reflexivity.
  - rewrite IH1. exact IH2.
Qed.

Lemma existsb_false_iff {A} (p : A -> bool) l : existsb p l = false <-> forall x, In x l -> p x = false.
Proof.
  split.
  - intros H x Hx. destruct (p x) eqn:E; [|reflexivity].
    assert (Ht : existsb p l = true) by (apply existsb_exists; exists x; auto). congruence.
  - intros H. destruct (existsb p l) eqn:E; [|reflexivity].
    apply existsb_exists in E. destruct E as [x [Hx Px]]. rewrite (H x Hx) in Px. discriminate.
Qed.

Lemma last_nonempty_default {A} (b : A) l d d' : last (b :: l) d = last (b :: l) d'.
Proof. revert b. induction l as [|c l IH]; intros b; [reflexivity|]. cbn [last] in *. apply IH. Qed.
Lemma last_cons_default {A} (a : A) l d : last (a :: l) d = last l a.
Proof. destruct l as [|b l]; [reflexivity|]. cbn [last]. apply last_nonempty_default. Qed.

Lemma skipn_add {A} (x y : nat) (l : list A) : skipn x (skipn y l) = skipn (x + y) l.
Proof.
  revert l. induction y as [|y IH]; intros l; [rewrite Nat.add_0_r; reflexivity|].
  destruct l as [|a l]; [rewrite !skipn_nil; reflexivity|].
  rewrite Nat.add_succ_r. cbn [skipn]. apply IH.
Qed.

Lemma kind_eqb_eq a b : kind_eqb a b = true <-> a = b.
Proof. destruct a, b; cbn; split; intros H; try reflexivity; discriminate. Qed.

Lemma en_kind_true k f : en_kind k f = true <-> f_enabled f = true /\ f_kind f = k.
Proof. unfold en_kind. rewrite andb_true_iff, kind_eqb_eq. reflexivity. Qed.

(* ---------------------------------------------------------------- the container built by the constructors *)
Lemma build_from c fs :
  fold_left build_step fs c =
  mkC (c_pos c ++ filter (en_kind Positive) fs) (c_neg c ++ filter (en_kind Negative) fs)
      (c_marker c ++ filter (en_kind Marker) fs) (c_event c ++ filter (en_kind Event) fs).
Proof.
  revert c. induction fs as [|f fs IH]; intros c.
  - cbn. rewrite !app_nil_r. destruct c; reflexivity.
  - cbn [fold_left]. rewrite IH. unfold build_step, c_push, en_kind. cbn [filter].
    destruct (f_enabled f); [|reflexivity].
    destruct (f_kind f); cbn [andb kind_eqb c_pos c_neg c_marker c_event]; rewrite <- ?app_assoc; reflexivity.
Qed.

Lemma build_eq fs :
  build fs = mkC (filter (en_kind Positive) fs) (filter (en_kind Negative) fs)
                 (filter (en_kind Marker) fs) (filter (en_kind Event) fs).
Proof. unfold build. rewrite build_from. reflexivity. Qed.

Lemma build_app fs gs :
  build (fs ++ gs) = mkC (c_pos (build fs) ++ c_pos (build gs)) (c_neg (build fs) ++ c_neg (build gs))
                         (c_marker (build fs) ++ c_marker (build gs)) (c_event (build fs) ++ c_event (build gs)).
Proof. rewrite !build_eq. cbn [c_pos c_neg c_marker c_event]. rewrite !filter_app. reflexivity. Qed.

Lemma filters_active_build fs : filters_active (build fs) = existsb relevant fs.
Proof.
  rewrite build_eq. unfold filters_active. cbn [c_pos c_neg c_event].
  induction fs as [|f fs IH]; [reflexivity|]. cbn [filter existsb].
  set (P := filter (en_kind Positive) fs) in *. set (Ng := filter (en_kind Negative) fs) in *.
  set (E := filter (en_kind Event) fs) in *. rewrite <- IH.
  unfold relevant, en_kind. destruct f as [k e i]. cbn [f_enabled f_kind].
  destruct e; [|reflexivity].
  destruct k; cbn [andb kind_eqb negb orb length]; try reflexivity.
  - rewrite Nat.add_succ_r. reflexivity.
  - rewrite Nat.add_succ_r. reflexivity.
Qed.

Section SetsProofs.
  Context {M : Type}.
  Variable matches : flt -> M -> bool.

  Notation any_match := (any_match matches).
  Notation decide_stream := (decide_stream matches).
  Notation keep_spec := (keep_spec matches).
  Notation event_spec := (event_spec matches).
  Notation keep_set_spec := (keep_set_spec matches).
  Notation match_filters := (match_filters matches).

  (* ------------------------------------------------------------ decisions *)
  Lemma decide_stream_alt pos neg m :
    decide_stream pos neg m = (is_empty pos || any_match pos m) && negb (any_match neg m).
  Proof.
    unfold Sets.decide_stream. destruct pos as [|p pos]; cbn [is_empty negb orb].
    - destruct neg as [|n neg]; cbn [is_empty negb andb]; reflexivity.
    - destruct (any_match (p :: pos) m); cbn [andb]; [|reflexivity].
      destruct neg as [|n neg]; cbn [is_empty negb]; reflexivity.
  Qed.

  Lemma decide_stream_spec fs m :
    decide_stream (split_pos fs) (split_neg fs) m = keep_spec fs m.
  Proof.
    rewrite decide_stream_alt. unfold split_pos, split_neg, Sets.keep_spec, Sets.any_match.
    rewrite is_empty_filter, !existsb_filter. reflexivity.
  Qed.

  Lemma match_filters_alt c m :
    match_filters c m =
    (is_empty (c_pos c) || any_match (c_pos c) m) && negb (any_match (c_neg c) m)
    && (is_empty (c_event c) || any_match (c_event c) m).
  Proof.
    unfold Sets.match_filters.
    destruct (is_empty (c_pos c) || any_match (c_pos c) m); [|reflexivity].
    destruct (any_match (c_neg c) m); reflexivity.
  Qed.

  Lemma match_filters_build fs m : match_filters (build fs) m = keep_set_spec fs m.
  Proof.
    rewrite match_filters_alt, build_eq. cbn [c_pos c_neg c_event].
    unfold Sets.keep_set_spec, Sets.keep_spec, Sets.event_spec, Sets.any_match.
    rewrite !is_empty_filter, !existsb_filter. reflexivity.
  Qed.

  (* the property text, in Prop *)
  Lemma keep_spec_prop fs m :
    keep_spec fs m = true <->
    ((~ exists f, In f fs /\ f_enabled f = true /\ f_kind f = Positive) \/
     (exists f, In f fs /\ f_enabled f = true /\ f_kind f = Positive /\ matches f m = true)) /\
    ~ (exists f, In f fs /\ f_enabled f = true /\ f_kind f = Negative /\ matches f m = true).
  Proof.
    unfold Sets.keep_spec. rewrite andb_true_iff, orb_true_iff, !negb_true_iff.
    split; intros [H1 H2]; split.
    - destruct H1 as [H1|H1]; [left|right].
      + intros [f [Hi [He Hk]]]. rewrite existsb_false_iff in H1. specialize (H1 f Hi).
        assert (en_kind Positive f = true) by (apply en_kind_true; auto). congruence.
      + apply existsb_exists in H1. destruct H1 as [f [Hi Hf]]. apply andb_true_iff in Hf.
        destruct Hf as [Hf Hm]. apply en_kind_true in Hf. exists f. tauto.
    - intros [f [Hi [He [Hk Hm]]]]. rewrite existsb_false_iff in H2. specialize (H2 f Hi).
      assert (en_kind Negative f = true) by (apply en_kind_true; auto).
      rewrite H, Hm in H2. discriminate.
    - destruct H1 as [H1|H1]; [left|right].
      + apply existsb_false_iff. intros f Hi. destruct (en_kind Positive f) eqn:E; [|reflexivity].
        exfalso. apply H1. exists f. apply en_kind_true in E. tauto.
      + destruct H1 as [f [Hi [He [Hk Hm]]]]. apply existsb_exists. exists f. split; [exact Hi|].
        apply andb_true_iff. split; [apply en_kind_true; auto|exact Hm].
    - apply existsb_false_iff. intros f Hi.
      destruct (en_kind Negative f && matches f m) eqn:E; [|reflexivity].
      exfalso. apply H2. exists f. apply andb_true_iff in E. destruct E as [E Hm]. apply en_kind_true in E. tauto.
  Qed.

  Lemma event_spec_prop fs m :
    event_spec fs m = true <->
    ((~ exists f, In f fs /\ f_enabled f = true /\ f_kind f = Event) \/
     (exists f, In f fs /\ f_enabled f = true /\ f_kind f = Event /\ matches f m = true)).
  Proof.
    unfold Sets.event_spec. rewrite orb_true_iff, negb_true_iff. split; intros [H1|H1]; [left|right|left|right].
    - intros [f [Hi [He Hk]]]. rewrite existsb_false_iff in H1. specialize (H1 f Hi).
      assert (en_kind Event f = true) by (apply en_kind_true; auto). congruence.
    - apply existsb_exists in H1. destruct H1 as [f [Hi Hf]]. apply andb_true_iff in Hf.
      destruct Hf as [Hf Hm]. apply en_kind_true in Hf. exists f. tauto.
    - apply existsb_false_iff. intros f Hi. destruct (en_kind Event f) eqn:E; [|reflexivity].
      exfalso. apply H1. exists f. apply en_kind_true in E. tauto.
    - destruct H1 as [f [Hi [He [Hk Hm]]]]. apply existsb_exists. exists f. split; [exact Hi|].
      apply andb_true_iff. split; [apply en_kind_true; auto|exact Hm].
  Qed.

  (* ------------------------------------------------------------ the stream loop *)
  Lemma stream_loop_unbounded pos neg msgs acc p f :
    stream_loop matches pos neg msgs None acc p f =
    (rev acc ++ filter (decide_stream pos neg) msgs,
     Some (p + N.of_nat (length (filter (decide_stream pos neg) msgs)),
           f + N.of_nat (length (filter (fun m => negb (decide_stream pos neg m)) msgs)))).
  Proof.
    revert acc p f. induction msgs as [|m r IH]; intros acc p f.
    - cbn. rewrite app_nil_r, !N.add_0_r. reflexivity.
    - cbn [stream_loop filter]. destruct (decide_stream pos neg m) eqn:D; cbn [negb].
      + rewrite IH. cbn [rev length]. rewrite <- app_assoc. cbn [app]. f_equal. f_equal. f_equal. lia.
      + rewrite IH. cbn [length]. f_equal. f_equal. f_equal. lia.
  Qed.

  Lemma stream_loop_budget pos neg msgs k acc p f :
    stream_loop matches pos neg msgs (Some k) acc p f =
    if Nat.leb (length (filter (decide_stream pos neg) msgs)) k
    then stream_loop matches pos neg msgs None acc p f
    else (rev acc ++ firstn k (filter (decide_stream pos neg) msgs), None).
  Proof.
    revert k acc p f. induction msgs as [|m r IH]; intros k acc p f.
    - cbn. reflexivity.
    - cbn [stream_loop filter]. destruct (decide_stream pos neg m) eqn:D.
      + destruct k as [|k].
        * cbn [length Nat.leb firstn]. rewrite app_nil_r. reflexivity.
        * rewrite IH. cbn [length Nat.leb firstn].
          destruct (Nat.leb (length (filter (decide_stream pos neg) r)) k); [reflexivity|].
          cbn [rev]. rewrite <- app_assoc. reflexivity.
      + rewrite IH. destruct (Nat.leb (length (filter (decide_stream pos neg) r)) k); reflexivity.
  Qed.

  Lemma filter_length_split {A} (q : A -> bool) l :
    (length (filter q l) + length (filter (fun x => negb (q x)) l) = length l)%nat.
  Proof.
    induction l as [|a l IH]; [reflexivity|]. cbn [filter]. destruct (q a); cbn [negb length]; lia.
  Qed.

  Lemma filter_as_streams_closed fs msgs :
    filter_as_streams matches fs msgs None =
    (filter (keep_spec fs) msgs,
     Some (N.of_nat (length (filter (keep_spec fs) msgs)),
           N.of_nat (length (filter (fun m => negb (keep_spec fs m)) msgs)))).
  Proof.
    unfold Sets.filter_as_streams. rewrite stream_loop_unbounded. cbn [rev app].
    rewrite (filter_ext _ _ (decide_stream_spec fs)). rewrite !N.add_0_l.
    rewrite (filter_ext (fun m => negb (decide_stream (split_pos fs) (split_neg fs) m)) (fun m => negb (keep_spec fs m)))
      by (intros a; rewrite decide_stream_spec; reflexivity).
    reflexivity.
  Qed.

  Theorem filter_as_streams_spec fs msgs :
    exists passed filtered,
      filter_as_streams matches fs msgs None = (filter (keep_spec fs) msgs, Some (passed, filtered)) /\
      passed = N.of_nat (length (filter (keep_spec fs) msgs)) /\
      passed + filtered = N.of_nat (length msgs).
  Proof.
    rewrite filter_as_streams_closed.
    eexists. eexists. split; [reflexivity|]. split; [reflexivity|].
    rewrite <- Nat2N.inj_add, filter_length_split. reflexivity.
  Qed.

  Theorem filter_as_streams_hangup fs msgs k :
    filter_as_streams matches fs msgs (Some k) =
    if Nat.leb (length (filter (keep_spec fs) msgs)) k
    then filter_as_streams matches fs msgs None
    else (firstn k (filter (keep_spec fs) msgs), None).
  Proof.
    unfold Sets.filter_as_streams. rewrite stream_loop_budget. cbn [rev app].
    rewrite (filter_ext _ _ (decide_stream_spec fs)). reflexivity.
  Qed.

  (* ------------------------------------------------------------ irrelevance of disabled / marker filters *)
  Lemma en_kind_relevant k f : k <> Marker -> en_kind k f = true -> relevant f = true.
  Proof.
    intros Hk H. apply en_kind_true in H. destruct H as [He Hf]. unfold relevant. rewrite He, Hf.
    destruct k; cbn; try reflexivity. congruence.
  Qed.

  Lemma keep_spec_relevant fs m : keep_spec (filter relevant fs) m = keep_spec fs m.
  Proof.
    unfold Sets.keep_spec. rewrite !existsb_filter_implied; [reflexivity| | |].
    - intros f H. apply andb_true_iff in H. apply (en_kind_relevant Negative); [discriminate|tauto].
    - intros f H. apply andb_true_iff in H. apply (en_kind_relevant Positive); [discriminate|tauto].
    - intros f H. apply (en_kind_relevant Positive); [discriminate|exact H].
  Qed.

  Lemma event_spec_relevant fs m : event_spec (filter relevant fs) m = event_spec fs m.
  Proof.
    unfold Sets.event_spec. rewrite !existsb_filter_implied; [reflexivity| |].
    - intros f H. apply andb_true_iff in H. apply (en_kind_relevant Event); [discriminate|tauto].
    - intros f H. apply (en_kind_relevant Event); [discriminate|exact H].
  Qed.

  Lemma keep_spec_same_relevant fs fs' m :
    filter relevant fs = filter relevant fs' -> keep_spec fs m = keep_spec fs' m.
  Proof. intros H. rewrite <- (keep_spec_relevant fs), <- (keep_spec_relevant fs'), H. reflexivity. Qed.

  Lemma keep_set_spec_same_relevant fs fs' m :
    filter relevant fs = filter relevant fs' -> keep_set_spec fs m = keep_set_spec fs' m.
  Proof.
    intros H. unfold Sets.keep_set_spec.
    rewrite (keep_spec_same_relevant fs fs' m H), <- (event_spec_relevant fs), <- (event_spec_relevant fs'), H.
    reflexivity.
  Qed.

  Lemma filter_as_streams_ext fs fs' msgs b :
    (forall m, keep_spec fs m = keep_spec fs' m) ->
    filter_as_streams matches fs msgs b = filter_as_streams matches fs' msgs b.
  Proof.
    intros H.
    assert (H' : forall m, negb (keep_spec fs m) = negb (keep_spec fs' m)) by (intros m; rewrite H; reflexivity).
    destruct b as [k|]; rewrite ?filter_as_streams_hangup, !filter_as_streams_closed,
      (filter_ext _ _ H), (filter_ext _ _ H'); reflexivity.
  Qed.

  (* the stream filter also ignores event filters *)
  Definition stream_relevant (f : flt) : bool :=
    f_enabled f && (kind_eqb (f_kind f) Positive || kind_eqb (f_kind f) Negative).
  Lemma keep_spec_stream_relevant fs m : keep_spec (filter stream_relevant fs) m = keep_spec fs m.
  Proof.
    assert (R : forall k f, (k = Positive \/ k = Negative) -> en_kind k f = true -> stream_relevant f = true).
    { intros k f Hk H. apply en_kind_true in H. destruct H as [He Hf]. unfold stream_relevant.
      rewrite He, Hf. destruct Hk; subst k; reflexivity. }
    unfold Sets.keep_spec. rewrite !existsb_filter_implied; [reflexivity| | |].
    - intros f H. apply andb_true_iff in H. apply (R Negative); tauto.
    - intros f H. apply andb_true_iff in H. apply (R Positive); tauto.
    - intros f H. apply (R Positive); tauto.
  Qed.

  (* ------------------------------------------------------------ order of the filters in the set *)
  Lemma keep_set_spec_perm fs fs' m : Permutation fs fs' -> keep_set_spec fs m = keep_set_spec fs' m.
  Proof.
    intros P. unfold Sets.keep_set_spec, Sets.keep_spec, Sets.event_spec.
    rewrite !(existsb_perm _ fs fs' P). reflexivity.
  Qed.
  Lemma keep_spec_perm fs fs' m : Permutation fs fs' -> keep_spec fs m = keep_spec fs' m.
  Proof. intros P. unfold Sets.keep_spec. rewrite !(existsb_perm _ fs fs' P). reflexivity. Qed.

  (* ------------------------------------------------------------ agreement of the two implementations *)
  Lemma event_spec_no_event fs m : existsb (en_kind Event) fs = false -> event_spec fs m = true.
  Proof. intros H. unfold Sets.event_spec. rewrite H. reflexivity. Qed.

  Lemma impls_agree_decision fs m :
    existsb (en_kind Event) fs = false ->
    match_filters (build fs) m = decide_stream (split_pos fs) (split_neg fs) m.
  Proof.
    intros H. rewrite match_filters_build, decide_stream_spec. unfold Sets.keep_set_spec.
    rewrite (event_spec_no_event fs m H). apply andb_true_r.
  Qed.

  (* with event filters the set matcher keeps a subset of what the stream filter keeps *)
  Lemma set_implies_stream fs m : match_filters (build fs) m = true -> keep_spec fs m = true.
  Proof. rewrite match_filters_build. unfold Sets.keep_set_spec. intros H. apply andb_true_iff in H. tauto. Qed.

  (* ------------------------------------------------------------ filters_active short cut *)
  Lemma inactive_keeps_all fs m : filters_active (build fs) = false -> match_filters (build fs) m = true.
  Proof.
    rewrite filters_active_build, match_filters_build. intros H.
    rewrite <- keep_set_spec_same_relevant with (fs := []); [reflexivity|].
    cbn [filter]. symmetry. rewrite existsb_false_iff in H.
    induction fs as [|f fs IH]; [reflexivity|]. cbn [filter]. rewrite (H f (or_introl eq_refl)).
    apply IH. intros x Hx. apply H. right. exact Hx.
  Qed.

  (* ------------------------------------------------------------ process_stream_new_msgs (stream branch) *)
  Fixpoint number (off : N) (l : list M) : list (N * M) :=
    match l with [] => [] | m :: r => (off, m) :: number (off + 1) r end.

  Lemma matching_idxs_spec c msgs off :
    matching_idxs matches c msgs off = map fst (filter (fun p => match_filters c (snd p)) (number off msgs)).
  Proof.
    revert off. induction msgs as [|m r IH]; intros off; [reflexivity|].
    cbn [matching_idxs number filter snd]. destruct (match_filters c m); cbn [map fst]; rewrite IH; reflexivity.
  Qed.

  Lemma number_fst_bounds off l p : In p (number off l) -> off <= fst p < off + N.of_nat (length l).
  Proof.
    revert off. induction l as [|m r IH]; intros off H; [destruct H|].
    cbn [number] in H. destruct H as [H|H].
    - subst p. cbn [fst length]. lia.
    - specialize (IH _ H). cbn [length]. lia.
  Qed.

  Lemma number_nth off l p : In p (number off l) -> nth_error l (N.to_nat (fst p - off)) = Some (snd p).
  Proof.
    revert off. induction l as [|m r IH]; intros off H; [destruct H|].
    cbn [number] in H. destruct H as [H|H].
    - subst p. cbn [fst snd]. rewrite N.sub_diag. reflexivity.
    - pose proof (number_fst_bounds _ _ _ H) as B. specialize (IH _ H).
      replace (N.to_nat (fst p - off)) with (S (N.to_nat (fst p - (off + 1)))) by lia. exact IH.
  Qed.

  Lemma matching_idxs_app c a b off :
    matching_idxs matches c (a ++ b) off =
    matching_idxs matches c a off ++ matching_idxs matches c b (off + N.of_nat (length a)).
  Proof.
    revert off. induction a as [|m a IH]; intros off.
    - cbn. rewrite N.add_0_r. reflexivity.
    - cbn [app matching_idxs length]. rewrite IH.
      replace (off + 1 + N.of_nat (length a)) with (off + N.of_nat (S (length a))) by lia.
      destruct (match_filters c m); reflexivity.
  Qed.

  (* the server loop: whatever the chunk size (>= 1), after enough ticks every message has been filtered once *)
  Lemma stream_rounds_spec c all chunk : filters_active c = true -> 1 <= chunk ->
    forall fuel last acc,
      (N.to_nat last <= length all)%nat -> (length all - N.to_nat last <= fuel)%nat ->
      stream_rounds matches fuel c all chunk acc last =
      (acc ++ matching_idxs matches c (skipn (N.to_nat last) all) last, N.of_nat (length all)).
  Proof.
    intros Ha Hc. induction fuel as [|f IH]; intros last acc Hl Hf.
    - assert (E : N.to_nat last = length all) by lia. cbn [stream_rounds]. rewrite E, skipn_all.
      cbn [matching_idxs]. rewrite app_nil_r. f_equal. lia.
    - cbn [stream_rounds].
      assert (Em : N.min last (N.of_nat (length all)) = last) by lia. rewrite Em.
      destruct (skipn (N.to_nat last) all) as [|m r] eqn:Es.
      + cbn [matching_idxs]. rewrite app_nil_r. f_equal.
        assert (L : length (skipn (N.to_nat last) all) = 0%nat) by (rewrite Es; reflexivity).
        rewrite skipn_length in L. lia.
      + assert (Ln : length (m :: r) = (length all - N.to_nat last)%nat) by (rewrite <- Es; apply skipn_length).
        unfold process_stream_new. rewrite Ha. cbn [fst snd].
        set (new := m :: r) in *.
        set (k := N.min (N.of_nat (length new)) chunk).
        assert (Hpos : (1 <= length new)%nat) by (unfold new; cbn [length]; lia).
        assert (Hk1 : 1 <= k) by (unfold k; lia).
        assert (Hk2 : (N.to_nat k <= length new)%nat) by (unfold k; lia).
        rewrite IH by lia.
        rewrite <- app_assoc. f_equal. f_equal.
        replace (N.to_nat (last + k)) with (N.to_nat k + N.to_nat last)%nat by lia.
        rewrite <- skipn_add, Es.
        rewrite <- (firstn_skipn (N.to_nat k) new) at 3.
        rewrite matching_idxs_app, firstn_length_le by exact Hk2.
        rewrite N2Nat.id. reflexivity.
  Qed.

  Lemma stream_rounds_inactive c all chunk fuel :
    filters_active c = false -> all <> [] ->
    stream_rounds matches (S fuel) c all chunk [] 0 = ([], N.of_nat (length all)).
  Proof.
    intros Ha Hn. destruct all as [|m r]; [congruence|].
    cbn [stream_rounds]. rewrite N.min_0_l. cbn [N.to_nat skipn]. unfold process_stream_new. rewrite Ha. cbn [fst snd app].
    destruct fuel as [|f]; [reflexivity|]. cbn [stream_rounds].
    rewrite N.add_0_l, N.min_id, Nat2N.id, skipn_all. reflexivity.
  Qed.

  (* ------------------------------------------------------------ export *)
  Lemma export_build_as_set fs f :
    f_enabled f = true -> f_kind f = Negative -> export_build fs (Some f) = build (fs ++ [f]).
  Proof.
    intros He Hk. unfold export_build. rewrite build_app. rewrite (build_eq [f]). cbn [filter].
    unfold en_kind. rewrite He, Hk. cbn [andb kind_eqb c_pos c_neg c_marker c_event]. rewrite !app_nil_r. reflexivity.
  Qed.

  Lemma export_replace_lc_build fs f g :
    export_replace_lc (export_build fs (Some f)) g = export_build fs (Some g).
  Proof. unfold export_replace_lc, export_build. cbn [c_pos c_neg c_marker c_event]. rewrite removelast_last. reflexivity. Qed.

  Variable rtime : M -> N.
  Lemma export_loop_spec c tf tt msgs acc e p :
    export_loop matches rtime c tf tt msgs acc e p =
    (rev acc ++ filter (export_keep matches rtime c tf tt) msgs,
     e + N.of_nat (length (filter (export_keep matches rtime c tf tt) msgs)), p + N.of_nat (length msgs)).
  Proof.
    revert acc e p. induction msgs as [|m r IH]; intros acc e p.
    - cbn. rewrite app_nil_r, !N.add_0_r. reflexivity.
    - cbn [export_loop filter]. destruct (export_keep matches rtime c tf tt m); rewrite IH.
      + cbn [rev length]. rewrite <- app_assoc. cbn [app].
        repeat match goal with |- (_, _) = (_, _) => f_equal end; lia.
      + cbn [length]. repeat match goal with |- (_, _) = (_, _) => f_equal end; lia.
  Qed.

  Definition in_window (tf tt : option N) (t : N) : bool :=
    match tf with Some a => a <=? t | None => true end && match tt with Some b => t <=? b | None => true end.

  Lemma export_keep_spec fs lc tf tt m :
    (forall f, lc = Some f -> f_enabled f = true /\ f_kind f = Negative) ->
    export_keep matches rtime (export_build fs lc) tf tt m =
    keep_set_spec (fs ++ match lc with Some f => [f] | None => [] end) m && in_window tf tt (rtime m).
  Proof.
    intros Hlc. unfold export_keep, in_window.
    assert (E : export_build fs lc = build (fs ++ match lc with Some f => [f] | None => [] end)).
    { destruct lc as [f|]; [destruct (Hlc f eq_refl); apply export_build_as_set; assumption|].
      rewrite app_nil_r. reflexivity. }
    rewrite E, match_filters_build.
    destruct (keep_set_spec _ m); [|reflexivity]. cbn [andb].
    destruct tf as [a|], tt as [b|]; rewrite ?N.ltb_antisym, ?negb_involutive; reflexivity.
  Qed.

  Lemma export_run_spec c tf tt msgs :
    export_run matches rtime true c tf tt msgs =
    (filter (export_keep matches rtime c tf tt) msgs,
     N.of_nat (length (filter (export_keep matches rtime c tf tt) msgs)), N.of_nat (length msgs)).
  Proof. unfold export_run. rewrite export_loop_spec. cbn [rev app]. rewrite !N.add_0_l. reflexivity. Qed.

  Lemma impls_agree_forwarded fs msgs :
    existsb (en_kind Event) fs = false ->
    fst (filter_as_streams matches fs msgs None) = filter (match_filters (build fs)) msgs.
  Proof.
    intros H. rewrite filter_as_streams_closed. cbn [fst]. apply filter_ext. intros m.
    rewrite impls_agree_decision, decide_stream_spec; [reflexivity|exact H].
  Qed.

  Lemma no_event_bool fs :
    (forall f, In f fs -> f_enabled f = true -> f_kind f <> Event) -> existsb (en_kind Event) fs = false.
  Proof.
    intros H. apply existsb_false_iff. intros f Hi. destruct (en_kind Event f) eqn:E; [|reflexivity].
    apply en_kind_true in E. destruct E as [He Hk]. exfalso. exact (H f Hi He Hk).
  Qed.

  Lemma filter_relevant_insert fs1 f fs2 :
    relevant f = false -> filter relevant (fs1 ++ f :: fs2) = filter relevant (fs1 ++ fs2).
  Proof. intros H. rewrite !filter_app. cbn [filter]. rewrite H. reflexivity. Qed.
End SetsProofs.

(* ---------------------------------------------------------------- export plugin with lifecyclesToKeep *)
Section ExportDyn.
  Context {M : Type}.
  Variable matches : flt -> M -> bool.
  Variable rtime : M -> N.
  Variable lc_of : M -> N.
  Variable known : M -> bool.
  Variable keeps : N -> M -> bool.
  Variable lc_filter : list N -> flt.
  Hypothesis lc_filter_neg : forall l, f_enabled (lc_filter l) = true /\ f_kind (lc_filter l) = Negative.

  Notation step := (export_lc_step lc_of known keeps lc_filter).
  Notation loop := (export_dyn_loop matches rtime lc_of known keeps lc_filter).

  (* the lifecycle list of the lifecycle filter currently installed *)
  Definition cur_lcs (s : xstate) : list N := match x_exported s with [] => [u32max] | l => l end.
  Definition InvX (fs : list flt) (s : xstate) : Prop := x_c s = export_build fs (Some (lc_filter (cur_lcs s))).

  Lemma init_inv fs to_keep : to_keep <> [] -> InvX fs (export_dyn_init lc_filter fs to_keep).
  Proof. intros H. unfold InvX, export_dyn_init, cur_lcs. destruct to_keep; [congruence|reflexivity]. Qed.

  Lemma init_no_keep fs : x_c (export_dyn_init lc_filter fs []) = build fs.
  Proof. reflexivity. Qed.

  Lemma step_inv fs h s m s' : InvX fs s -> step h s m = Ok s' -> InvX fs s'.
  Proof.
    unfold InvX, export_lc_step. intros I H.
    destruct (negb (is_empty (x_to_keep s))); [|inversion H; subst; exact I].
    destruct (negb (memN (lc_of m) (x_checked s))); [|inversion H; subst; exact I].
    destruct h; [|inversion H; subst; exact I].
    destruct (known m); [|discriminate].
    destruct (position (fun e => keeps e m) (x_to_keep s)) as [idx|]; inversion H; subst; clear H; cbn [x_c x_exported].
    - rewrite I, export_replace_lc_build. unfold cur_lcs. cbn [x_exported].
      destruct (x_exported s); reflexivity.
    - exact I.
  Qed.

  Lemma step_no_keep h s m : x_to_keep s = [] -> step h s m = Ok s.
  Proof. intros H. unfold export_lc_step. rewrite H. reflexivity. Qed.

  Lemma step_known h s m : known m = true -> exists s', step h s m = Ok s'.
  Proof.
    intros K. unfold export_lc_step. rewrite K.
    destruct (negb (is_empty (x_to_keep s))); [|eexists; reflexivity].
    destruct (negb (memN (lc_of m) (x_checked s))); [|eexists; reflexivity].
    destruct h; eexists; reflexivity.
  Qed.

  (* exported lifecycles only grow, by the lifecycle of the current message *)
  Lemma step_exported h s m s' :
    step h s m = Ok s' -> x_exported s' = x_exported s \/ x_exported s' = x_exported s ++ [lc_of m].
  Proof.
    unfold export_lc_step. intros H.
    destruct (negb (is_empty (x_to_keep s))); [|inversion H; auto].
    destruct (negb (memN (lc_of m) (x_checked s))); [|inversion H; auto].
    destruct h; [|inversion H; auto].
    destruct (known m); [|discriminate].
    destruct (position (fun e => keeps e m) (x_to_keep s)); inversion H; subst; cbn [x_exported]; auto.
  Qed.

  Lemma keep_set_spec_add_negative fs g m :
    f_enabled g = true -> f_kind g = Negative ->
    keep_set_spec matches (fs ++ [g]) m = keep_set_spec matches fs m && negb (matches g m).
  Proof.
    intros He Hk. unfold keep_set_spec, keep_spec, event_spec. rewrite !existsb_app. cbn [existsb].
    unfold en_kind. rewrite He, Hk. cbn [andb kind_eqb orb]. rewrite !orb_false_r.
    rewrite negb_orb. 
    destruct (negb (existsb (fun f => f_enabled f && kind_eqb (f_kind f) Positive) fs)
              || existsb (fun f => f_enabled f && kind_eqb (f_kind f) Positive && matches f m) fs); cbn [andb]; [|reflexivity].
    destruct (negb (existsb (fun f => f_enabled f && kind_eqb (f_kind f) Negative && matches f m) fs)); cbn [andb]; [|reflexivity].
    destruct (matches g m); cbn [negb andb]; [rewrite andb_false_r|rewrite andb_true_r]; reflexivity.
  Qed.

  Lemma dyn_decision fs s tf tt m :
    InvX fs s ->
    export_keep matches rtime (x_c s) tf tt m =
    keep_set_spec matches fs m && negb (matches (lc_filter (cur_lcs s)) m) && in_window tf tt (rtime m).
  Proof.
    intros I. rewrite I.
    rewrite (export_keep_spec matches rtime fs (Some (lc_filter (cur_lcs s))) tf tt m)
      by (intros f E; inversion E; subst; apply lc_filter_neg).
    destruct (lc_filter_neg (cur_lcs s)) as [He Hk].
    rewrite (keep_set_spec_add_negative fs _ m He Hk). reflexivity.
  Qed.

  (* the state after the lifecycle step of each message *)
  Fixpoint lc_trace (h : bool) (s : xstate) (msgs : list M) : res (list xstate) :=
    match msgs with
    | [] => Ok []
    | m :: r =>
        match step h s m with
        | Ok s' => match lc_trace h s' r with Ok t => Ok (s' :: t) | Panic p => Panic p | OutOfFuel => OutOfFuel end
        | Panic p => Panic p
        | OutOfFuel => OutOfFuel
        end
    end.

  Definition dyn_kept (tf tt : option N) (msgs : list M) (tr : list xstate) : list M :=
    map fst (filter (fun p => export_keep matches rtime (x_c (snd p)) tf tt (fst p)) (combine msgs tr)).

  Lemma loop_spec h tf tt msgs : forall s acc e p,
    loop h s tf tt msgs acc e p =
    match lc_trace h s msgs with
    | Ok tr => Ok (rev acc ++ dyn_kept tf tt msgs tr, e + N.of_nat (length (dyn_kept tf tt msgs tr)),
                   p + N.of_nat (length msgs), last tr s)
    | Panic q => Panic q
    | OutOfFuel => OutOfFuel
    end.
  Proof.
    induction msgs as [|m r IH]; intros s acc e p.
    - cbn. rewrite app_nil_r, !N.add_0_r. reflexivity.
    - cbn [export_dyn_loop lc_trace]. destruct (step h s m) as [s'| |]; [|reflexivity|reflexivity].
      destruct (export_keep matches rtime (x_c s') tf tt m) eqn:K; rewrite IH;
        destruct (lc_trace h s' r) as [tr| |]; try reflexivity; unfold dyn_kept; cbn [combine filter fst snd]; rewrite K.
      + cbn [map rev length fst]. rewrite <- app_assoc. cbn [app].
        rewrite last_cons_default. f_equal.
        repeat match goal with |- (_, _) = (_, _) => f_equal end; lia.
      + cbn [length].
        rewrite last_cons_default. f_equal.
        repeat match goal with |- (_, _) = (_, _) => f_equal end; lia.
  Qed.

  Lemma lc_trace_ok h s msgs :
    (forall m, In m msgs -> known m = true) -> exists tr, lc_trace h s msgs = Ok tr /\ length tr = length msgs.
  Proof.
    revert s. induction msgs as [|m r IH]; intros s K; [exists []; split; reflexivity|].
    cbn [lc_trace]. destruct (step_known h s m (K m (or_introl eq_refl))) as [s' E]. rewrite E.
    destruct (IH s' (fun x Hx => K x (or_intror Hx))) as [tr [Et El]]. rewrite Et.
    exists (s' :: tr). split; [reflexivity|cbn; rewrite El; reflexivity].
  Qed.

  Lemma lc_trace_inv fs h s msgs tr :
    InvX fs s -> lc_trace h s msgs = Ok tr -> Forall (InvX fs) tr.
  Proof.
    revert s tr. induction msgs as [|m r IH]; intros s tr I H.
    - inversion H. constructor.
    - cbn [lc_trace] in H. destruct (step h s m) as [s'| |] eqn:E; try discriminate.
      destruct (lc_trace h s' r) as [t| |] eqn:Et; try discriminate. inversion H; subst.
      pose proof (step_inv fs h s m s' I E) as I'. constructor; [exact I'|exact (IH s' t I' Et)].
  Qed.

  Definition dyn_kept_spec (fs : list flt) (tf tt : option N) (msgs : list M) (tr : list xstate) : list M :=
    map fst (filter (fun p => keep_set_spec matches fs (fst p)
                              && negb (matches (lc_filter (cur_lcs (snd p))) (fst p))
                              && in_window tf tt (rtime (fst p))) (combine msgs tr)).

  Theorem export_dyn_spec fs to_keep h tf tt msgs :
    to_keep <> [] -> (forall m, In m msgs -> known m = true) ->
    let s0 := export_dyn_init lc_filter fs to_keep in
    exists tr,
      lc_trace h s0 msgs = Ok tr /\ length tr = length msgs /\
      Forall (fun s => x_c s = build (fs ++ [lc_filter (cur_lcs s)])) tr /\
      loop h s0 tf tt msgs [] 0 0 =
        Ok (dyn_kept_spec fs tf tt msgs tr, N.of_nat (length (dyn_kept_spec fs tf tt msgs tr)),
            N.of_nat (length msgs), last tr s0).
  Proof.
    intros Hk K s0. destruct (lc_trace_ok h s0 msgs K) as [tr [Et El]].
    pose proof (lc_trace_inv fs h s0 msgs tr (init_inv fs to_keep Hk) Et) as Finv.
    exists tr. split; [exact Et|]. split; [exact El|]. split.
    - eapply Forall_impl; [|exact Finv]. intros s I. unfold InvX in I. rewrite I.
      destruct (lc_filter_neg (cur_lcs s)) as [He Hn]. apply export_build_as_set; assumption.
    - rewrite loop_spec, Et. cbn [rev app]. rewrite !N.add_0_l.
      assert (E : dyn_kept tf tt msgs tr = dyn_kept_spec fs tf tt msgs tr).
      { unfold dyn_kept, dyn_kept_spec. f_equal. apply filter_ext_in. intros [m s] Hin. cbn [fst snd].
        apply dyn_decision. rewrite Forall_forall in Finv. apply Finv. exact (in_combine_r _ _ _ _ Hin). }
      rewrite E. reflexivity.
  Qed.

  (* without lifecyclesToKeep the lifecycle step never does anything *)
  Lemma export_dyn_no_keep h tf tt msgs acc e p s :
    x_to_keep s = [] ->
    loop h s tf tt msgs acc e p =
    Ok (let '(o, a, b) := export_loop matches rtime (x_c s) tf tt msgs acc e p in (o, a, b, s)).
  Proof.
    intros H. revert acc e p. induction msgs as [|m r IH]; intros acc e p; [reflexivity|].
    cbn [export_dyn_loop export_loop]. rewrite (step_no_keep h s m H).
    destruct (export_keep matches rtime (x_c s) tf tt m); apply IH.
  Qed.
End ExportDyn.
