(* C11 — model of `Filter::matches` (src/filter/filter_impl.rs, "MARK: matches") and of the data it works on.
   No proofs in this file.

   Strings are lists of bytes (UTF-8), `DltChar4` is a 4-tuple of bytes.  The three regular-expression
   engines of the code are ONE oracle argument
        re : engine -> pattern -> text -> bool
   (the answer of `is_match` of the compiled pattern; for fancy_regex the `unwrap_or(false)` of a run-time
   error is part of the answer):
     EBytes  regex::bytes::Regex::new(p)                      on the 4 bytes of an id
     EFancy  fancy_regex::Regex::new(p)                       on the payload text
     ECi     regex::RegexBuilder::new(&regex::escape(s)).case_insensitive(true)   on the payload text
             (`s` = the literal; the engine's answer is assumed to be "s occurs in the text ignoring case";
              the harness checks this assumption on every ASCII pair it exports).
   Nothing is assumed about `re` by the theorems. *)
From Coq Require Import List NArith Bool.
Import ListNotations.
Open Scope N_scope.

Definition text := list N.
Definition pattern := list N.
Definition id4 := (N * N * N * N)%type.

Definition id4_bytes (c : id4) : text := let '(a, b, c', d) := c in [a; b; c'; d].
(* `DltChar4::eq` compares the four bytes as one u32 *)
Definition id4_eqb (x y : id4) : bool :=
  let '(a, b, c, d) := x in let '(a', b', c', d') := y in
  N.eqb a a' && N.eqb b b' && N.eqb c c' && N.eqb d d'.

Inductive engine := EBytes | EFancy | ECi.

(* Char4OrRegex *)
Inductive idcrit :=
| IdLit (c : id4)
| IdRe (p : pattern).

(* struct Filter; `f_payload_as_regex` holds the literal the cached case-insensitive regex was built from *)
Record filter := mkFilter {
  f_kind : N;
  f_enabled : bool;
  f_at_load_time : bool;
  f_negate : bool;
  f_ecu : option idcrit;
  f_apid : option idcrit;
  f_ctid : option idcrit;
  f_vmm : option (N * N);            (* value, mask *)
  f_payload : option text;
  f_payload_regex : option pattern;
  f_ignore_case : bool;
  f_payload_as_regex : option text;
  f_lmin : option N;
  f_lmax : option N;
  f_lifecycles : option (list N)
}.

(* Filter::new(kind) *)
Definition filter_new (kind : N) : filter :=
  {| f_kind := kind; f_enabled := true; f_at_load_time := false; f_negate := false;
     f_ecu := None; f_apid := None; f_ctid := None; f_vmm := None;
     f_payload := None; f_payload_regex := None; f_ignore_case := false; f_payload_as_regex := None;
     f_lmin := None; f_lmax := None; f_lifecycles := None |}.

(* what `matches` reads of a DltMessage: ecu, the extended header (if any), `payload_as_text()`
   (None = Err) and the lifecycle id *)
Record ext := mkExt { e_vmm : N; e_apid : id4; e_ctid : id4 }.
Record msg := mkMsg { m_ecu : id4; m_ext : option ext; m_text : option text; m_lc : N }.

(* `str::contains(&String)`: byte-wise substring search (on valid UTF-8 identical to the char-wise one) *)
Fixpoint is_prefix (p s : text) : bool :=
  match p, s with
  | [], _ => true
  | a :: p', b :: s' => N.eqb a b && is_prefix p' s'
  | _ :: _, [] => false
  end.
Fixpoint substr (p s : text) : bool :=
  is_prefix p s || match s with [] => false | _ :: s' => substr p s' end.

Definition mstp_of (vmm : N) : N := N.land (N.shiftr vmm 1) 7.
Definition mtin_of (vmm : N) : N := N.land (N.shiftr vmm 4) 15.

Section Matches.
  Variable re : engine -> pattern -> text -> bool.

  (* one block of `matches` each: true = the block falls through, false = `return negated` *)
  Definition pass_ecu (f : filter) (m : msg) : bool :=
    match f_ecu f with
    | Some (IdLit c) => id4_eqb c (m_ecu m)
    | Some (IdRe p) => re EBytes p (id4_bytes (m_ecu m))
    | None => true
    end.

  Definition pass_apid (f : filter) (m : msg) : bool :=
    match f_apid f with
    | Some (IdLit c) =>
        match m_ext m with
        | Some e => id4_eqb c (e_apid e)
        | None => false
        end
    | Some (IdRe p) =>
        match m_ext m with
        | Some e => re EBytes p (id4_bytes (e_apid e))
        | None => false
        end
    | None => true
    end.

  Definition pass_ctid (f : filter) (m : msg) : bool :=
    match f_ctid f with
    | Some (IdLit c) =>
        match m_ext m with
        | Some e => id4_eqb c (e_ctid e)
        | None => false
        end
    | Some (IdRe p) =>
        match m_ext m with
        | Some e => re EBytes p (id4_bytes (e_ctid e))
        | None => false
        end
    | None => true
    end.

  Definition pass_vmm (f : filter) (m : msg) : bool :=
    match f_vmm f with
    | Some (v, mask) =>
        match m_ext m with
        | Some e => N.eqb (N.land (e_vmm e) mask) v
        | None => false
        end
    | None => true
    end.

  Definition pass_lmin (f : filter) (m : msg) : bool :=
    match f_lmin f with
    | Some lmin =>
        match m_ext m with
        | Some e => N.eqb (mstp_of (e_vmm e)) 0 && (lmin <=? mtin_of (e_vmm e))
        | None => false
        end
    | None => true
    end.

  Definition pass_lmax (f : filter) (m : msg) : bool :=
    match f_lmax f with
    | Some lmax =>
        match m_ext m with
        | Some e => N.eqb (mstp_of (e_vmm e)) 0 && (mtin_of (e_vmm e) <=? lmax)
        | None => false
        end
    | None => true
    end.

  (* if payload_regex .. else if payload_as_regex .. else if payload *)
  Definition pass_payload (f : filter) (m : msg) : bool :=
    match f_payload_regex f with
    | Some p =>
        match m_text m with
        | Some t => re EFancy p t
        | None => false
        end
    | None =>
        match f_payload_as_regex f with
        | Some s =>
            match m_text m with
            | Some t => re ECi s t
            | None => false
            end
        | None =>
            match f_payload f with
            | Some s =>
                match m_text m with
                | Some t => substr s t
                | None => false
                end
            | None => true
            end
        end
    end.

  Definition pass_lifecycles (f : filter) (m : msg) : bool :=
    match f_lifecycles f with
    | Some lcs => negb (negb (match lcs with [] => true | _ => false end) && negb (existsb (N.eqb (m_lc m)) lcs))
    | None => true
    end.

  (* Filter::matches with its early returns *)
  Definition matches (f : filter) (m : msg) : bool :=
    if negb (f_enabled f) then false else
    let negated := f_negate f in
    if negb (pass_ecu f m) then negated else
    if negb (pass_apid f m) then negated else
    if negb (pass_ctid f m) then negated else
    if negb (pass_vmm f m) then negated else
    if negb (pass_lmin f m) then negated else
    if negb (pass_lmax f m) then negated else
    if negb (pass_payload f m) then negated else
    if negb (pass_lifecycles f m) then negated else
    negb negated.

  (* ---------------------------------------------------------------- specification
     Each criterion once.  [holds crit value h]: an absent criterion holds; a present criterion needs the
     value to be present in the message and to satisfy [h]. *)
  Definition holds {A B} (crit : option A) (value : option B) (h : A -> B -> bool) : bool :=
    match crit with
    | None => true
    | Some c => match value with Some v => h c v | None => false end
    end.

  (* ids: literal 4-byte equality or regular expression over the 4 bytes *)
  Definition id_holds (c : idcrit) (v : id4) : bool :=
    match c with
    | IdLit l => id4_eqb l v
    | IdRe p => re EBytes p (id4_bytes v)
    end.
  (* message type under mask *)
  Definition type_holds (vm : N * N) (vmm : N) : bool := N.eqb (N.land vmm (snd vm)) (fst vm).
  (* level bounds: log messages only *)
  Definition lmin_holds (lmin vmm : N) : bool := N.eqb (mstp_of vmm) 0 && (lmin <=? mtin_of vmm).
  Definition lmax_holds (lmax vmm : N) : bool := N.eqb (mstp_of vmm) 0 && (mtin_of vmm <=? lmax).

  (* the payload criterion of a filter: regular expression, else case-insensitive literal, else literal *)
  Inductive pcrit := PRegex (p : pattern) | PLiteralCi (s : text) | PLiteral (s : text).
  Definition payload_crit (f : filter) : option pcrit :=
    match f_payload_regex f, f_payload_as_regex f, f_payload f with
    | Some p, _, _ => Some (PRegex p)
    | None, Some s, _ => Some (PLiteralCi s)
    | None, None, Some s => Some (PLiteral s)
    | None, None, None => None
    end.
  Definition payload_holds (c : pcrit) (t : text) : bool :=
    match c with
    | PRegex p => re EFancy p t
    | PLiteralCi s => re ECi s t
    | PLiteral s => substr s t
    end.
  (* lifecycle membership; the empty list is no criterion *)
  Definition lifecycle_crit (f : filter) : option (list N) :=
    match f_lifecycles f with
    | Some (x :: r) => Some (x :: r)
    | _ => None
    end.
  Definition lifecycle_holds (lcs : list N) (lc : N) : bool := existsb (N.eqb lc) lcs.

  Definition msg_apid (m : msg) : option id4 := option_map e_apid (m_ext m).
  Definition msg_ctid (m : msg) : option id4 := option_map e_ctid (m_ext m).
  Definition msg_vmm (m : msg) : option N := option_map e_vmm (m_ext m).

  Definition criteria_hold (f : filter) (m : msg) : bool :=
    holds (f_ecu f) (Some (m_ecu m)) id_holds &&
    holds (f_apid f) (msg_apid m) id_holds &&
    holds (f_ctid f) (msg_ctid m) id_holds &&
    holds (f_vmm f) (msg_vmm m) type_holds &&
    holds (f_lmin f) (msg_vmm m) lmin_holds &&
    holds (f_lmax f) (msg_vmm m) lmax_holds &&
    holds (payload_crit f) (m_text m) payload_holds &&
    holds (lifecycle_crit f) (Some (m_lc m)) lifecycle_holds.

  Definition matches_spec (f : filter) (m : msg) : bool :=
    f_enabled f && xorb (f_negate f) (criteria_hold f m).

  (* a filter has a criterion that needs the extended header *)
  Definition needs_ext_header (f : filter) : bool :=
    match f_apid f, f_ctid f, f_vmm f, f_lmin f, f_lmax f with
    | None, None, None, None, None => false
    | _, _, _, _, _ => true
    end.
End Matches.
