(* C11 — the four ways a Filter is built, and `to_json`: the code AFTER the third-party parser.
   No proofs in this file.

   JSON   `Filter::from_json`            : over the parsed object (serde_json trusted): key -> value, last
                                            duplicate wins; everything that is not an object is an error.
   DLF    `Filter::from_quick_xml_reader`: over the element-name -> text map collected by the event loop
                                            (quick-xml and the collecting loop trusted), last duplicate wins.
   dlt-convert list `filters_from_convert_format`: over the bytes of the file (complete).
   `ECU:APID:CTID`  `EacFilter::from_str` (src/bin/adlt/convert.rs): over the bytes of the expression (complete).
   `Serialize for Filter` / `to_json`     : to the list of (key, value) that is written.

   Whether a pattern compiles is a second oracle  valid : engine -> pattern -> bool.
   A loader's error is `None`. *)
From Coq Require Import List NArith Bool.
From AdltV Require Import Filter.Match.
Import ListNotations.
Open Scope N_scope.

(* ---------------------------------------------------------------- small string functions *)
(* utils::contains_regex_chars: any of ^ $ * + ? ( ) [ ] { } | . - \ = ! < > , *)
Definition regex_chars : list N :=
  [94; 36; 42; 43; 63; 40; 41; 91; 93; 123; 125; 124; 46; 45; 92; 61; 33; 60; 62; 44].
Definition is_regex_char (c : N) : bool := existsb (N.eqb c) regex_chars.
Definition contains_regex_chars (s : text) : bool := existsb is_regex_char s.

Definition is_ascii (s : text) : bool := forallb (fun b => b <? 128) s.
(* the first four bytes, padded with NUL *)
Definition pad4 (s : text) : id4 := (nth 0 s 0, nth 1 s 0, nth 2 s 0, nth 3 s 0).
(* DltChar4::from_str *)
Definition char4_from_str (s : text) : option id4 := if is_ascii s then Some (pad4 s) else None.

(* Display for DltChar4 (used by its Serialize): up to the first NUL, control characters as '-', > 0x7e as '?' *)
Definition printable_byte (c : N) : N := if c <? 32 then 45 else if 126 <? c then 63 else c.
Fixpoint display_bytes (l : list N) : text :=
  match l with
  | [] => []
  | c :: r => if N.eqb c 0 then [] else printable_byte c :: display_bytes r
  end.
Definition char4_display (c : id4) : text := display_bytes (id4_bytes c).

(* "(?i)" *)
Definition ci_prefix : text := [40; 63; 105; 41].
(* str::replacen(needle, "", 1) *)
Fixpoint remove_first (needle s : text) : text :=
  if is_prefix needle s then skipn (length needle) s
  else match s with [] => [] | c :: r => c :: remove_first needle r end.

(* str::parse::<u8>(): optional '+', at least one digit, digits only, value <= 255 *)
Fixpoint digits_value (acc : N) (s : text) : option N :=
  match s with
  | [] => Some acc
  | c :: r => if (48 <=? c) && (c <=? 57) then digits_value (N.min 256 (acc * 10 + (c - 48))) r else None
  end.
Definition parse_u8 (s : text) : option N :=
  let body := match s with 43 :: r => r | _ => s end in
  match body with
  | [] => None
  | _ => match digits_value 0 body with Some v => if v <=? 255 then Some v else None | None => None end
  end.

Definition obind {A B} (o : option A) (f : A -> option B) : option B :=
  match o with Some a => f a | None => None end.
Notation "x <-- o ;; k" := (obind o (fun x => k)) (at level 61, o at next level, right associativity).

(* ---------------------------------------------------------------- parsed JSON *)
Inductive jkey :=
| KType | KEnabled | KNot | KAtLoadTime
| KEcu | KEcuIsRegex | KApid | KApidIsRegex | KCtid | KCtidIsRegex
| KIgnoreCasePayload | KPayloadRegex | KPayload
| KLogLevelMin | KLogLevelMax | KLifecycles | KVerbMstpMtin | KMstp
| KOther.
Definition jkey_idx (k : jkey) : N :=
  match k with
  | KType => 0 | KEnabled => 1 | KNot => 2 | KAtLoadTime => 3
  | KEcu => 4 | KEcuIsRegex => 5 | KApid => 6 | KApidIsRegex => 7 | KCtid => 8 | KCtidIsRegex => 9
  | KIgnoreCasePayload => 10 | KPayloadRegex => 11 | KPayload => 12
  | KLogLevelMin => 13 | KLogLevelMax => 14 | KLifecycles => 15 | KVerbMstpMtin => 16 | KMstp => 17
  | KOther => 18
  end.
Definition jkey_eqb (a b : jkey) : bool := N.eqb (jkey_idx a) (jkey_idx b).

(* array elements: a number with `as_u64() = Some n`, or anything else *)
Inductive jelem := ENum (n : N) | EOther.
(* JNum n: a number with `as_u64() = Some n` (n < 2^64); JNumOther: negative / fractional / too large *)
Inductive jvalue :=
| JNull | JBool (b : bool) | JNum (n : N) | JNumOther | JStr (s : text) | JArr (l : list jelem) | JObj.
Definition jobj := list (jkey * jvalue).
Inductive jtop := JObject (o : jobj) | JNotObject.

(* `v[key]`: Null when absent; of duplicate keys the last one (serde_json's map insert overwrites) *)
Fixpoint jfind (k : jkey) (o : jobj) : option jvalue :=
  match o with
  | [] => None
  | (k', v) :: r =>
      match jfind k r with
      | Some x => Some x
      | None => if jkey_eqb k k' then Some v else None
      end
  end.
Definition jget (k : jkey) (o : jobj) : jvalue := match jfind k o with Some v => v | None => JNull end.
Definition as_u64 (v : jvalue) : option N := match v with JNum n => Some n | _ => None end.
Definition as_bool (v : jvalue) : option bool := match v with JBool b => Some b | _ => None end.
Definition as_str (v : jvalue) : option text := match v with JStr s => Some s | _ => None end.
Definition as_array (v : jvalue) : option (list jelem) := match v with JArr l => Some l | _ => None end.

(* ---------------------------------------------------------------- DLF element map *)
Inductive dkey :=
| DType | DEnableFilter
| DEnableEcuId | DEcuId
| DEnableApplicationId | DApplicationId | DEnableRegexpAppid
| DEnableContextId | DContextId | DEnableRegexpContext
| DEnableControlMsgs
| DEnablePayloadText | DIgnoreCasePayload | DPayloadText | DEnableRegexpPayload
| DEnableLogLevelMax | DLogLevelMax | DEnableLogLevelMin | DLogLevelMin
| DOther.
Definition dkey_idx (k : dkey) : N :=
  match k with
  | DType => 0 | DEnableFilter => 1 | DEnableEcuId => 2 | DEcuId => 3
  | DEnableApplicationId => 4 | DApplicationId => 5 | DEnableRegexpAppid => 6
  | DEnableContextId => 7 | DContextId => 8 | DEnableRegexpContext => 9
  | DEnableControlMsgs => 10
  | DEnablePayloadText => 11 | DIgnoreCasePayload => 12 | DPayloadText => 13 | DEnableRegexpPayload => 14
  | DEnableLogLevelMax => 15 | DLogLevelMax => 16 | DEnableLogLevelMin => 17 | DLogLevelMin => 18
  | DOther => 19
  end.
Definition dkey_eqb (a b : dkey) : bool := N.eqb (dkey_idx a) (dkey_idx b).
Definition dattrs := list (dkey * text).
(* HashMap::insert in document order: the last one stays *)
Fixpoint dget (k : dkey) (a : dattrs) : option text :=
  match a with
  | [] => None
  | (k', v) :: r =>
      match dget k r with
      | Some x => Some x
      | None => if dkey_eqb k k' then Some v else None
      end
  end.
Definition text_eqb (a b : text) : bool :=
  (fix go (a b : text) : bool :=
     match a, b with
     | [], [] => true
     | x :: a', y :: b' => N.eqb x y && go a' b'
     | _, _ => false
     end) a b.
(* attrs.get(k) == Some(&"1".to_string()) *)
Definition is_one (k : dkey) (a : dattrs) : bool :=
  match dget k a with Some v => text_eqb v [49] | None => false end.

Section Frontends.
  Variable valid : engine -> pattern -> bool.

  (* Char4OrRegex::from_str; None = Err *)
  Definition c4_from_str (s : text) (is_regex : bool) : option idcrit :=
    if is_regex then (if valid EBytes s then Some (IdRe s) else None)
    else option_map IdLit (char4_from_str s).

  (* fancy_regex::Regex::new; None = Err *)
  Definition compile_payload_regex (p : pattern) : option pattern :=
    if valid EFancy p then Some p else None.

  (* ---------------------------------------------------------------- Filter::from_json *)
  Definition kind_of_u64 (o : option N) : option N :=
    match o with
    | Some 0 => Some 0 | Some 1 => Some 1 | Some 2 => Some 2 | Some 3 => Some 3
    | _ => None
    end.

  (* one of ecu / apid / ctid: Some None = not given, None = error *)
  Definition json_id (o : jobj) (k kre : jkey) : option (option idcrit) :=
    match as_str (jget k o) with
    | Some s =>
        let is_regex := match as_bool (jget kre o) with Some b => b | None => contains_regex_chars s end in
        match c4_from_str s is_regex with Some c => Some (Some c) | None => None end
    | None => Some None
    end.

  (* (payload, payload_regex, payload_as_regex); None = error *)
  Definition json_payload (o : jobj) (ignore_case : bool) : option (option text * option pattern * option text) :=
    match as_str (jget KPayloadRegex o) with
    | Some s =>
        let p := if ignore_case then ci_prefix ++ s else s in
        match compile_payload_regex p with
        | Some p' => Some (None, Some p', None)
        | None => None
        end
    | None =>
        match as_str (jget KPayload o) with
        | Some s => Some (Some s, None, if ignore_case then Some s else None)
        | None => Some (None, None, None)
        end
    end.

  (* logLevelMin / logLevelMax: Some None = not given, None = error (> 6) *)
  Definition json_level (o : jobj) (k : jkey) : option (option N) :=
    match as_u64 (jget k o) with
    | Some lvl => if lvl <=? 6 then Some (Some lvl) else None
    | None => Some None
    end.

  Definition json_lifecycles (o : jobj) : option (list N) :=
    option_map
      (fun lcs => flat_map (fun e => match e with ENum n => [n mod 2 ^ 32] | EOther => [] end) lcs)
      (as_array (jget KLifecycles o)).

  (* "verb_mstp_mtin" preferred over "mstp"; a zero mtin is not compared *)
  Definition json_vmm (o : jobj) : option (N * N) :=
    match as_u64 (jget KVerbMstpMtin o) with
    | Some v =>
        let vmm := N.land v 255 in
        let mtin := N.land (N.shiftr vmm 4) 15 in
        Some (vmm, if N.eqb mtin 0 then 15 else 255)
    | None =>
        match as_u64 (jget KMstp o) with
        | Some v => Some (N.land (N.shiftl (N.land v 7) 1) 255, 14)
        | None => None
        end
    end.

  Definition from_json_kv (j : jtop) : option filter :=
    match j with
    | JNotObject => None
    | JObject o =>
        kind <-- kind_of_u64 (as_u64 (jget KType o)) ;;
        let enabled := match as_bool (jget KEnabled o) with Some b => b | None => true end in
        let negate := match as_bool (jget KNot o) with Some b => b | None => false end in
        let at_load := match as_bool (jget KAtLoadTime o) with Some b => b | None => false end in
        ecu <-- json_id o KEcu KEcuIsRegex ;;
        apid <-- json_id o KApid KApidIsRegex ;;
        ctid <-- json_id o KCtid KCtidIsRegex ;;
        let ignore_case := match as_bool (jget KIgnoreCasePayload o) with Some b => b | None => false end in
        pl <-- json_payload o ignore_case ;;
        lmin <-- json_level o KLogLevelMin ;;
        lmax <-- json_level o KLogLevelMax ;;
        Some {| f_kind := kind; f_enabled := enabled; f_at_load_time := at_load; f_negate := negate;
                f_ecu := ecu; f_apid := apid; f_ctid := ctid; f_vmm := json_vmm o;
                f_payload := fst (fst pl); f_payload_regex := snd (fst pl); f_ignore_case := ignore_case;
                f_payload_as_regex := snd pl;
                f_lmin := lmin; f_lmax := lmax; f_lifecycles := json_lifecycles o |}
    end.

  (* ---------------------------------------------------------------- Serialize for Filter *)
  Definition ser_id (k kre : jkey) (c : option idcrit) : jobj :=
    match c with
    | Some (IdLit l) => [(k, JStr (char4_display l)); (kre, JBool false)]
    | Some (IdRe p) => [(k, JStr p); (kre, JBool true)]
    | None => []
    end.

  Definition to_json_kv (f : filter) : jobj :=
    [(KType, JNum (f_kind f))] ++
    (if negb (f_enabled f) then [(KEnabled, JBool false)] else []) ++
    (if f_at_load_time f then [(KAtLoadTime, JBool true)] else []) ++
    (if f_negate f then [(KNot, JBool true)] else []) ++
    ser_id KEcu KEcuIsRegex (f_ecu f) ++
    ser_id KApid KApidIsRegex (f_apid f) ++
    ser_id KCtid KCtidIsRegex (f_ctid f) ++
    (match f_payload_regex f with
     | Some p => [(KPayloadRegex, JStr (if f_ignore_case f then remove_first ci_prefix p else p))]
     | None => match f_payload f with Some s => [(KPayload, JStr s)] | None => [] end
     end) ++
    (if f_ignore_case f then [(KIgnoreCasePayload, JBool true)] else []) ++
    (match f_lmin f with Some l => [(KLogLevelMin, JNum l)] | None => [] end) ++
    (match f_lmax f with Some l => [(KLogLevelMax, JNum l)] | None => [] end) ++
    (match f_lifecycles f with Some lcs => [(KLifecycles, JArr (map ENum lcs))] | None => [] end) ++
    (match f_vmm f with
     | Some (v, mask) =>
         if N.eqb mask 14 then [(KMstp, JNum (N.land (N.shiftr v 1) 7))] else [(KVerbMstpMtin, JNum v)]
     | None => []
     end).

  (* ---------------------------------------------------------------- Filter::from_quick_xml_reader (after the event loop) *)
  Definition dlf_kind (a : dattrs) : N :=
    match dget DType a with
    | Some s => match parse_u8 s with
                | Some 1 => 1 | Some 2 => 2 | Some 3 => 3
                | _ => 0
                end
    | None => 0
    end.

  Definition dlf_id (a : dattrs) (ken kval : dkey) (kre : option dkey) : option idcrit :=
    if is_one ken a then
      match dget kval a with
      | Some s =>
          let is_regex :=
            match kre with
            | None => false
            | Some kr => match dget kr a with Some ir => text_eqb ir [49] | None => contains_regex_chars s end
            end in
          c4_from_str s is_regex          (* .ok() *)
      | None => None
      end
    else None.

  Definition dlf_level (a : dattrs) (ken kval : dkey) : option N :=
    if is_one ken a then
      match dget kval a with
      | Some s =>
          let lvl := match parse_u8 s with Some v => v | None => 255 end in
          if lvl <=? 6 then Some lvl else None
      | None => None
      end
    else None.

  Definition from_dlf_attrs (a : dattrs) : filter :=
    let payload_on := is_one DEnablePayloadText a in
    let ignore_case := payload_on && is_one DIgnoreCasePayload a in
    let ptext := if payload_on then dget DPayloadText a else None in
    let as_regex := is_one DEnableRegexpPayload a in
    {| f_kind := dlf_kind a;
       f_enabled := is_one DEnableFilter a;
       f_at_load_time := false;
       f_negate := false;
       f_ecu := dlf_id a DEnableEcuId DEcuId None;
       f_apid := dlf_id a DEnableApplicationId DApplicationId (Some DEnableRegexpAppid);
       f_ctid := dlf_id a DEnableContextId DContextId (Some DEnableRegexpContext);
       f_vmm := if is_one DEnableControlMsgs a then Some (6, 14) else None;
       f_payload := match ptext with Some s => if as_regex then None else Some s | None => None end;
       f_payload_regex :=
         match ptext with
         | Some s => if as_regex then compile_payload_regex (if ignore_case then ci_prefix ++ s else s) else None
         | None => None
         end;
       f_ignore_case := ignore_case;
       f_payload_as_regex :=
         match ptext with
         | Some s => if as_regex then None else if ignore_case then Some s else None
         | None => None
         end;
       f_lmin := dlf_level a DEnableLogLevelMin DLogLevelMin;
       f_lmax := dlf_level a DEnableLogLevelMax DLogLevelMax;
       f_lifecycles := None |}.

  (* ---------------------------------------------------------------- filters_from_convert_format *)
  (* up to four bytes, stopping at the first '-' *)
  Fixpoint conv_take (n : nat) (l : list N) : list N :=
    match n, l with
    | S k, b :: r => if N.eqb b 45 then [] else b :: conv_take k r
    | _, _ => []
    end.
  Definition conv_filter (apid ctid : id4) : filter :=
    let f := filter_new 0 in
    {| f_kind := f_kind f; f_enabled := f_enabled f; f_at_load_time := f_at_load_time f; f_negate := f_negate f;
       f_ecu := f_ecu f; f_apid := Some (IdLit apid); f_ctid := Some (IdLit ctid); f_vmm := f_vmm f;
       f_payload := f_payload f; f_payload_regex := f_payload_regex f; f_ignore_case := f_ignore_case f;
       f_payload_as_regex := f_payload_as_regex f; f_lmin := f_lmin f; f_lmax := f_lmax f;
       f_lifecycles := f_lifecycles f |}.
  (* `while offset + 10 <= res`: one filter per complete 10-byte record; [fuel] >= number of records *)
  Fixpoint conv_go (fuel : nat) (buf : list N) : list filter :=
    match fuel with
    | O => []
    | S k =>
        if Nat.leb 10 (length buf) then
          conv_filter (pad4 (conv_take 4 buf)) (pad4 (conv_take 4 (skipn 5 buf))) :: conv_go k (skipn 10 buf)
        else []
    end.
  Definition from_convert_format (buf : list N) : list filter := conv_go (length buf) buf.

  (* ---------------------------------------------------------------- EacFilter::from_str *)
  (* str::split(':') *)
  Fixpoint split_colon (cur : text) (s : text) : list text :=
    match s with
    | [] => [rev cur]
    | c :: r => if N.eqb c 58 then rev cur :: split_colon [] r else split_colon (c :: cur) r
    end.
  (* Some None = empty part, None = error *)
  Definition eac_part (s : text) : option (option idcrit) :=
    match s with
    | [] => Some None
    | _ => match c4_from_str s (contains_regex_chars s) with Some c => Some (Some c) | None => None end
    end.
  Definition eac_from_str (s : text) : option filter :=
    match s with
    | [] => None
    | _ =>
        let parts := split_colon [] s in
        ecu <-- eac_part (nth 0 parts []) ;;
        apid <-- eac_part (nth 1 parts []) ;;
        ctid <-- eac_part (nth 2 parts []) ;;
        let f := filter_new 0 in
        Some {| f_kind := f_kind f; f_enabled := f_enabled f; f_at_load_time := f_at_load_time f; f_negate := f_negate f;
                f_ecu := ecu; f_apid := apid; f_ctid := ctid; f_vmm := f_vmm f;
                f_payload := f_payload f; f_payload_regex := f_payload_regex f; f_ignore_case := f_ignore_case f;
                f_payload_as_regex := f_payload_as_regex f; f_lmin := f_lmin f; f_lmax := f_lmax f;
                f_lifecycles := f_lifecycles f |}
    end.
End Frontends.
