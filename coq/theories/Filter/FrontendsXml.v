(* C11 — the two event loops of the DLF loader over quick-xml's event stream:
   `filters_from_dlf` (src/filter/functions.rs) and the collecting loop of `Filter::from_quick_xml_reader`
   (src/filter/filter_impl.rs).  quick-xml itself (text -> events, unescape) is trusted; the harness feeds the
   model the events the real reader produces for the same text.  No proofs in this file. *)
From Coq Require Import List NArith Bool String.
From AdltV Require Import Filter.Match Filter.Frontends.
Import ListNotations.
Open Scope N_scope.

(* element names as they are spelled in a dlt-viewer filter file *)
Definition dkey_names : list (string * dkey) :=
  [("type", DType); ("enablefilter", DEnableFilter);
   ("enableecuid", DEnableEcuId); ("ecuid", DEcuId);
   ("enableapplicationid", DEnableApplicationId); ("applicationid", DApplicationId); ("enableregexp_Appid", DEnableRegexpAppid);
   ("enablecontextid", DEnableContextId); ("contextid", DContextId); ("enableregexp_Context", DEnableRegexpContext);
   ("enablecontrolmsgs", DEnableControlMsgs);
   ("enablepayloadtext", DEnablePayloadText); ("ignoreCase_Payload", DIgnoreCasePayload);
   ("payloadtext", DPayloadText); ("enableregexp_Payload", DEnableRegexpPayload);
   ("enableLogLevelMax", DEnableLogLevelMax); ("logLevelMax", DLogLevelMax);
   ("enableLogLevelMin", DEnableLogLevelMin); ("logLevelMin", DLogLevelMin)]%string.
Fixpoint dkey_lookup (tbl : list (string * dkey)) (s : string) : dkey :=
  match tbl with
  | [] => DOther
  | (n, k) :: r => if String.eqb n s then k else dkey_lookup r s
  end.
Definition dkey_of_name : string -> dkey := dkey_lookup dkey_names.
Fixpoint name_lookup_rev (tbl : list (string * dkey)) (k : dkey) : string :=
  match tbl with
  | [] => "other"%string
  | (n, k') :: r => if dkey_eqb k k' then n else name_lookup_rev r k
  end.
Definition name_of_dkey : dkey -> string := name_lookup_rev dkey_names.

(* quick_xml::events::Event as far as the two loops distinguish *)
Inductive xev :=
| XStart (local_name : string)
| XEnd (local_name : string)
| XText (unescaped : option text)     (* None: unescape() returned Err *)
| XEof
| XErr                                (* read_event_into returned Err *)
| XOther.                             (* Empty, CData, Comment, Decl, PI, DocType *)

Definition is_filter (n : string) : bool := String.eqb n "filter"%string.
Definition is_dltfilter (n : string) : bool := String.eqb n "dltfilter"%string.

(* the loop of from_quick_xml_reader: element text goes to the most recent start tag that has not received a
   text yet; stops at </filter>.  Result: the element map (insertion order; a later insert overwrites) or None
   (Err), and the events that are left for the caller *)
Fixpoint collect_filter (evs : list xev) (last_entry : option string) (attrs : dattrs) : option dattrs * list xev :=
  match evs with
  | [] => (None, [])                       (* the reader keeps returning Eof *)
  | ev :: r =>
      match ev with
      | XStart n => if is_filter n then collect_filter r last_entry attrs else collect_filter r (Some n) attrs
      | XText (Some t) =>
          match last_entry with
          | Some k => collect_filter r None (attrs ++ [(dkey_of_name k, t)])
          | None => collect_filter r None attrs
          end
      | XText None => (None, r)
      | XEnd n => if is_filter n then (Some attrs, r) else collect_filter r last_entry attrs
      | XEof => (None, r)
      | XErr => (None, r)
      | XOther => collect_filter r last_entry attrs
      end
  end.

Section Xml.
  Variable valid : engine -> pattern -> bool.

  (* filters_from_dlf; [fuel] >= number of events *)
  Fixpoint dlf_outer (fuel : nat) (evs : list xev) (found_start found_end : bool) (acc : list filter)
    : option (list filter) :=
    let finish := if negb found_start || negb found_end then None else Some acc in
    match fuel with
    | O => finish
    | S k =>
        match evs with
        | [] => finish
        | ev :: r =>
            match ev with
            | XStart n =>
                if is_dltfilter n then dlf_outer k r true false acc
                else if is_filter n then
                  if found_start && negb found_end then
                    match collect_filter r None [] with
                    | (Some attrs, r') => dlf_outer k r' found_start found_end (acc ++ [from_dlf_attrs valid attrs])
                    | (None, _) => None
                    end
                  else dlf_outer k r found_start found_end acc
                else dlf_outer k r found_start found_end acc
            | XEnd n => if is_dltfilter n then dlf_outer k r found_start true acc
                        else dlf_outer k r found_start found_end acc
            | XText _ => dlf_outer k r found_start found_end acc
            | XEof => finish
            | XErr => None
            | XOther => dlf_outer k r found_start found_end acc
            end
        end
    end.
  Definition filters_from_dlf_events (evs : list xev) : option (list filter) :=
    dlf_outer (List.length evs) evs false false [].
End Xml.

(* ---------------------------------------------------------------- a filter file written element by element *)
Definition element_events (kv : dkey * text) : list xev :=
  [XStart (name_of_dkey (fst kv)); XText (Some (snd kv)); XEnd (name_of_dkey (fst kv))].
Definition filter_events (a : dattrs) : list xev :=
  [XStart "filter"%string] ++ flat_map element_events a ++ [XEnd "filter"%string].
(* <?xml ..?><dltfilter> filters </dltfilter> *)
Definition file_events (fs : list dattrs) : list xev :=
  [XOther; XStart "dltfilter"%string] ++ flat_map filter_events fs ++ [XEnd "dltfilter"%string; XEof].
