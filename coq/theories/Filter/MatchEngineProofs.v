(* C11 — proofs about Filter/MatchEngine.v: `matches` is total for every answer of every engine, an engine error
   means "the pattern criterion does not hold" (negation applies afterwards), the unwrapping variant panics. *)
From Coq Require Import List NArith Bool.
From AdltV Require Import Base.Res Filter.Match Filter.MatchProofs Filter.MatchEngine.
Import ListNotations.
Open Scope N_scope.

Section MatchEngineProofs.
  Variable re : engine -> pattern -> text -> bool.
  Variable fre : pattern -> text -> eans.

  Let re2 := re_collapse re fre.

  (* the id blocks and the case-insensitive literal never ask the fancy engine *)
  Lemma pass_ecu_collapse f m : pass_ecu re2 f m = pass_ecu re f m.
  Proof. unfold pass_ecu. destruct (f_ecu f) as [[c|p]|]; reflexivity. Qed.
  Lemma pass_apid_collapse f m : pass_apid re2 f m = pass_apid re f m.
  Proof. unfold pass_apid. destruct (f_apid f) as [[c|p]|]; reflexivity. Qed.
  Lemma pass_ctid_collapse f m : pass_ctid re2 f m = pass_ctid re f m.
  Proof. unfold pass_ctid. destruct (f_ctid f) as [[c|p]|]; reflexivity. Qed.

  (* with `unwrap_or(false)` the payload block is the block of Filter/Match.v under the collapsed oracle *)
  Lemma pass_payload_r_total f m :
    pass_payload_r re fre handle_unwrap_or_false f m = Ok (pass_payload re2 f m).
  Proof.
    unfold pass_payload_r, pass_payload, handle_unwrap_or_false.
    destruct (f_payload_regex f) as [p|]; [destruct (m_text m); reflexivity|].
    destruct (f_payload_as_regex f) as [s|]; [destruct (m_text m); reflexivity|].
    destruct (f_payload f) as [s|]; [destruct (m_text m); reflexivity|reflexivity].
  Qed.

  Theorem matches_total_is_matches f m : matches_total re fre f m = Ok (matches re2 f m).
  Proof.
    unfold matches_total, matches_r, matches.
    rewrite pass_payload_r_total, pass_ecu_collapse, pass_apid_collapse, pass_ctid_collapse.
    destruct (f_enabled f); [|reflexivity]. cbn [negb].
    destruct (pass_ecu re f m); [|reflexivity]. destruct (pass_apid re f m); [|reflexivity].
    destruct (pass_ctid re f m); [|reflexivity]. destruct (pass_vmm f m); [|reflexivity].
    destruct (pass_lmin f m); [|reflexivity]. destruct (pass_lmax f m); [|reflexivity]. cbn [negb].
    destruct (pass_payload re2 f m); [|reflexivity]. cbn [negb].
    destruct (pass_lifecycles f m); reflexivity.
  Qed.

  (* the specification's payload criterion under the collapsed oracle, answers spelled out *)
  Lemma payload_holds_collapse c t : payload_holds re2 c t = payload_holds3 re fre c t.
  Proof. destruct c as [p|s|s]; cbn; [destruct (fre p t); reflexivity|reflexivity|reflexivity]. Qed.

  Theorem matches_total_spec f m :
    matches_total re fre f m = Ok (f_enabled f && xorb (f_negate f) (criteria_hold re2 f m)).
  Proof. rewrite matches_total_is_matches, (matches_is_spec re2 f m). reflexivity. Qed.

  Corollary matches_total_no_panic f m : exists b, matches_total re fre f m = Ok b.
  Proof. eexists. apply matches_total_spec. Qed.

  (* an engine error on the message's text: the pattern criterion does not hold, so the conjunction is false and the
     filter answers its negation flag (a negated filter MATCHES the message, a plain one does not) *)
  Theorem engine_error_is_criterion_fails f m p t :
    f_payload_regex f = Some p -> m_text m = Some t -> fre p t = EError ->
    criteria_hold re2 f m = false /\ matches_total re fre f m = Ok (f_enabled f && f_negate f).
  Proof.
    intros Hp Ht He.
    assert (Hc : criteria_hold re2 f m = false).
    { unfold criteria_hold. unfold payload_crit. rewrite Hp, Ht. cbn [holds payload_holds].
      unfold re2, re_collapse. rewrite He. cbn [eans_unwrap_or_false].
      rewrite andb_false_r. reflexivity. }
    split; [exact Hc|]. rewrite matches_total_spec, Hc, xorb_false_r. reflexivity.
  Qed.

  (* ---- the unwrapping variant *)
  Lemma pass_payload_r_unwrap_no_error f m :
    (forall p t, f_payload_regex f = Some p -> m_text m = Some t -> fre p t <> EError) ->
    pass_payload_r re fre eans_unwrap f m = pass_payload_r re fre handle_unwrap_or_false f m.
  Proof.
    intros H. unfold pass_payload_r.
    destruct (f_payload_regex f) as [p|]; [|reflexivity].
    destruct (m_text m) as [t|]; [|reflexivity].
    specialize (H p t eq_refl eq_refl). unfold handle_unwrap_or_false.
    destruct (fre p t); [reflexivity|reflexivity|exfalso; apply H; reflexivity].
  Qed.

  (* as long as the engine does not fail on the message at hand the two variants cannot be told apart
     (which is why no test with ordinary payloads sees the difference) *)
  Theorem unwrapping_agrees_without_error f m :
    (forall p t, f_payload_regex f = Some p -> m_text m = Some t -> fre p t <> EError) ->
    matches_unwrapping re fre f m = matches_total re fre f m.
  Proof.
    intros H. unfold matches_unwrapping, matches_total, matches_r.
    rewrite (pass_payload_r_unwrap_no_error f m H). reflexivity.
  Qed.

  (* ... and it panics as soon as the engine fails on a text that reaches the payload block *)
  Theorem unwrapping_panics_on_error f m p t :
    f_enabled f = true ->
    pass_ecu re f m = true -> pass_apid re f m = true -> pass_ctid re f m = true ->
    pass_vmm f m = true -> pass_lmin f m = true -> pass_lmax f m = true ->
    f_payload_regex f = Some p -> m_text m = Some t -> fre p t = EError ->
    matches_unwrapping re fre f m = Panic site_regex_unwrap.
  Proof.
    intros He H1 H2 H3 H4 H5 H6 Hp Ht Hf. unfold matches_unwrapping, matches_r, pass_payload_r.
    rewrite He, H1, H2, H3, H4, H5, H6, Hp, Ht, Hf. reflexivity.
  Qed.

  Corollary unwrapping_refuted p t negate :
    fre p t = EError ->
    matches_unwrapping re fre (filter_payload_regex p negate) (msg_with_text t) = Panic site_regex_unwrap /\
    matches_total re fre (filter_payload_regex p negate) (msg_with_text t) = Ok negate.
  Proof.
    intros Hf. split.
    - apply (unwrapping_panics_on_error _ _ p t); try reflexivity. exact Hf.
    - destruct (engine_error_is_criterion_fails (filter_payload_regex p negate) (msg_with_text t) p t eq_refl eq_refl Hf) as [_ H].
      rewrite H. reflexivity.
  Qed.
End MatchEngineProofs.
