(* C11 — proofs about Filter/Match.v *)
From Coq Require Import List NArith Bool Lia.
From AdltV Require Import Filter.Match.
Import ListNotations.
Open Scope N_scope.

Section MatchProofs.
  Variable re : engine -> pattern -> text -> bool.

  (* each block of the early-return chain is the corresponding criterion of the specification *)
  Lemma pass_ecu_spec f m : pass_ecu re f m = holds (f_ecu f) (Some (m_ecu m)) (id_holds re).
  Proof. unfold pass_ecu, holds, id_holds. destruct (f_ecu f) as [[c|p]|]; reflexivity. Qed.

  Lemma pass_apid_spec f m : pass_apid re f m = holds (f_apid f) (msg_apid m) (id_holds re).
  Proof.
    unfold pass_apid, holds, id_holds, msg_apid.
    destruct (f_apid f) as [[c|p]|]; destruct (m_ext m) as [e|]; reflexivity.
  Qed.

  Lemma pass_ctid_spec f m : pass_ctid re f m = holds (f_ctid f) (msg_ctid m) (id_holds re).
  Proof.
    unfold pass_ctid, holds, id_holds, msg_ctid.
    destruct (f_ctid f) as [[c|p]|]; destruct (m_ext m) as [e|]; reflexivity.
  Qed.

  Lemma pass_vmm_spec f m : pass_vmm f m = holds (f_vmm f) (msg_vmm m) type_holds.
  Proof.
    unfold pass_vmm, holds, type_holds, msg_vmm.
    destruct (f_vmm f) as [[v mask]|]; destruct (m_ext m) as [e|]; reflexivity.
  Qed.

  Lemma pass_lmin_spec f m : pass_lmin f m = holds (f_lmin f) (msg_vmm m) lmin_holds.
  Proof.
    unfold pass_lmin, holds, lmin_holds, msg_vmm.
    destruct (f_lmin f) as [l|]; destruct (m_ext m) as [e|]; reflexivity.
  Qed.

  Lemma pass_lmax_spec f m : pass_lmax f m = holds (f_lmax f) (msg_vmm m) lmax_holds.
  Proof.
    unfold pass_lmax, holds, lmax_holds, msg_vmm.
    destruct (f_lmax f) as [l|]; destruct (m_ext m) as [e|]; reflexivity.
  Qed.

  Lemma pass_payload_spec f m : pass_payload re f m = holds (payload_crit f) (m_text m) (payload_holds re).
  Proof.
    unfold pass_payload, holds, payload_crit, payload_holds.
    destruct (f_payload_regex f) as [p|]; [destruct (m_text m); reflexivity|].
    destruct (f_payload_as_regex f) as [s|]; [destruct (m_text m); reflexivity|].
    destruct (f_payload f) as [s|]; [destruct (m_text m); reflexivity|reflexivity].
  Qed.

  Lemma pass_lifecycles_spec f m :
    pass_lifecycles f m = holds (lifecycle_crit f) (Some (m_lc m)) lifecycle_holds.
  Proof.
    unfold pass_lifecycles, holds, lifecycle_crit, lifecycle_holds.
    destruct (f_lifecycles f) as [[|x r]|]; [reflexivity| |reflexivity].
    cbn [negb andb]. rewrite negb_involutive. reflexivity.
  Qed.

  Theorem matches_is_spec f m : matches re f m = matches_spec re f m.
  Proof.
    unfold matches, matches_spec, criteria_hold.
    rewrite <- pass_ecu_spec, <- pass_apid_spec, <- pass_ctid_spec, <- pass_vmm_spec, <- pass_lmin_spec,
      <- pass_lmax_spec, <- pass_payload_spec, <- pass_lifecycles_spec.
    destruct (f_enabled f); [|reflexivity].
    destruct (f_negate f);
      destruct (pass_ecu re f m), (pass_apid re f m), (pass_ctid re f m), (pass_vmm f m), (pass_lmin f m),
        (pass_lmax f m), (pass_payload re f m), (pass_lifecycles f m); reflexivity.
  Qed.

  (* a disabled filter matches nothing, whatever the negation flag *)
  Lemma disabled_never_matches f m : f_enabled f = false -> matches re f m = false.
  Proof. intros H. unfold matches. rewrite H. reflexivity. Qed.

  Lemma no_ext_criteria_fail f m :
    m_ext m = None -> needs_ext_header f = true -> criteria_hold re f m = false.
  Proof.
    intros He Hn. unfold criteria_hold, msg_apid, msg_ctid, msg_vmm. rewrite He. cbn [option_map].
    unfold needs_ext_header in Hn.
    destruct (f_apid f); [cbn [holds]; rewrite andb_false_r; reflexivity|].
    destruct (f_ctid f); [cbn [holds]; rewrite !andb_false_r; reflexivity|].
    destruct (f_vmm f); [cbn [holds]; rewrite !andb_false_r; reflexivity|].
    destruct (f_lmin f); [cbn [holds]; rewrite !andb_false_r; reflexivity|].
    destruct (f_lmax f); [cbn [holds]; rewrite !andb_false_r; reflexivity|].
    discriminate.
  Qed.

  Lemma no_ext_matches f m :
    m_ext m = None -> needs_ext_header f = true -> matches re f m = f_enabled f && f_negate f.
  Proof.
    intros He Hn. rewrite matches_is_spec. unfold matches_spec. rewrite (no_ext_criteria_fail f m He Hn).
    rewrite xorb_false_r. reflexivity.
  Qed.

  (* byte-wise substring search finds exactly the decompositions  t = a ++ s ++ b *)
  Lemma is_prefix_app p s : is_prefix p s = true <-> exists b, s = p ++ b.
  Proof.
    revert s. induction p as [|a p IH]; intros s; cbn [is_prefix].
    - split; [intros _; exists s; reflexivity|reflexivity].
    - destruct s as [|c s].
      + split; [discriminate|intros [b Hb]; discriminate].
      + rewrite andb_true_iff, N.eqb_eq, IH. split.
        * intros [-> [b ->]]. exists b. reflexivity.
        * intros [b Hb]. cbn in Hb. inversion Hb; subst. split; [reflexivity|exists b; reflexivity].
  Qed.

  Lemma substr_spec p s : substr p s = true <-> exists a b, s = a ++ p ++ b.
  Proof.
    induction s as [|c s IH]; cbn [substr]; rewrite orb_true_iff, is_prefix_app.
    - split.
      + intros [[b Hb]|H]; [exists [], b; exact Hb|discriminate].
      + intros [a [b Hab]]. left. destruct a; [exists b; exact Hab|discriminate].
    - rewrite IH. split.
      + intros [[b Hb]|[a [b Hab]]]; [exists [], b; exact Hb|exists (c :: a), b; rewrite Hab; reflexivity].
      + intros [a [b Hab]]. destruct a as [|a0 a].
        * left. exists b. exact Hab.
        * right. cbn in Hab. inversion Hab; subst. exists a, b. reflexivity.
  Qed.

  (* the lifecycle criterion is about the SET of listed ids: order and repetitions do not matter *)
  Definition set_lifecycles (f : filter) (l : option (list N)) : filter :=
    {| f_kind := f_kind f; f_enabled := f_enabled f; f_at_load_time := f_at_load_time f; f_negate := f_negate f;
       f_ecu := f_ecu f; f_apid := f_apid f; f_ctid := f_ctid f; f_vmm := f_vmm f;
       f_payload := f_payload f; f_payload_regex := f_payload_regex f; f_ignore_case := f_ignore_case f;
       f_payload_as_regex := f_payload_as_regex f; f_lmin := f_lmin f; f_lmax := f_lmax f; f_lifecycles := l |}.

  Lemma existsb_same_set (x : N) l1 l2 :
    (forall y, In y l1 <-> In y l2) -> existsb (N.eqb x) l1 = existsb (N.eqb x) l2.
  Proof.
    intros H. destruct (existsb (N.eqb x) l1) eqn:E1; destruct (existsb (N.eqb x) l2) eqn:E2; try reflexivity; exfalso.
    - apply existsb_exists in E1. destruct E1 as [y [Hy Hxy]]. apply N.eqb_eq in Hxy. subst y.
      assert (E : existsb (N.eqb x) l2 = true) by (apply existsb_exists; exists x; split; [apply H; exact Hy|apply N.eqb_refl]).
      congruence.
    - apply existsb_exists in E2. destruct E2 as [y [Hy Hxy]]. apply N.eqb_eq in Hxy. subst y.
      assert (E : existsb (N.eqb x) l1 = true) by (apply existsb_exists; exists x; split; [apply H; exact Hy|apply N.eqb_refl]).
      congruence.
  Qed.

  Lemma pass_lifecycles_same_set f l1 l2 m :
    (forall y, In y l1 <-> In y l2) ->
    pass_lifecycles (set_lifecycles f (Some l1)) m = pass_lifecycles (set_lifecycles f (Some l2)) m.
  Proof.
    intros H. unfold pass_lifecycles, set_lifecycles. cbn [f_lifecycles].
    rewrite (existsb_same_set (m_lc m) l1 l2 H).
    destruct l1 as [|a l1]; destruct l2 as [|b l2]; try reflexivity.
    - exfalso. apply (proj2 (H b)). left. reflexivity.
    - exfalso. apply (proj1 (H a)). left. reflexivity.
  Qed.

  Theorem matches_lifecycles_same_set f l1 l2 m :
    (forall y, In y l1 <-> In y l2) ->
    matches re (set_lifecycles f (Some l1)) m = matches re (set_lifecycles f (Some l2)) m.
  Proof.
    intros H. unfold matches. rewrite (pass_lifecycles_same_set f l1 l2 m H). reflexivity.
  Qed.

  (* membership itself: the criterion holds iff the list is empty or the message's lifecycle id is listed *)
  Lemma pass_lifecycles_in f l m :
    pass_lifecycles (set_lifecycles f (Some l)) m = true <-> (l = [] \/ In (m_lc m) l).
  Proof.
    unfold pass_lifecycles, set_lifecycles. cbn [f_lifecycles]. destruct l as [|a l].
    - cbn. split; [intros _; left; reflexivity|reflexivity].
    - cbn [negb andb]. rewrite negb_involutive. rewrite existsb_exists. split.
      + intros [y [Hy Hxy]]. apply N.eqb_eq in Hxy. subst y. right. exact Hy.
      + intros [H|H]; [discriminate|]. exists (m_lc m). split; [exact H|apply N.eqb_refl].
  Qed.
End MatchProofs.
