(* C11 — the abstract filter of the property text, its meaning, and how it is written down in each of the
   four input formats.  Definitions only (used by the statements of C11_frontends_agree). *)
From Coq Require Import List NArith Bool.
From AdltV Require Import Filter.Match Filter.Frontends.
Import ListNotations.
Open Scope N_scope.

(* an id criterion as the user writes it: the text and whether it is a regular expression *)
Record aid := mkAid { ai_s : text; ai_regex : bool }.
(* message type: "all messages of type mstp" or a full type byte (verbose bit, mstp, mtin; mtin 0 = any mtin) *)
Inductive atype := AMstp (x : N) | AVmm (v : N).
Record apayload := mkAp { ap_s : text; ap_regex : bool; ap_ic : bool }.

Record afilter := mkAf {
  a_kind : N;
  a_enabled : bool;
  a_negate : bool;
  a_ecu : option aid;
  a_apid : option aid;
  a_ctid : option aid;
  a_type : option atype;
  a_lmin : option N;
  a_lmax : option N;
  a_payload : option apayload;
  a_lcs : option (list N)
}.

(* ---------------------------------------------------------------- meaning *)
Section Meaning.
  Variable re : engine -> pattern -> text -> bool.

  (* literal: the 4 bytes of the message id are the text (cut / NUL-padded to 4); regex: over the 4 bytes *)
  Definition aid_holds (c : aid) (v : id4) : bool :=
    if ai_regex c then re EBytes (ai_s c) (id4_bytes v) else id4_eqb (pad4 (ai_s c)) v.
  Definition atype_holds (t : atype) (vmm : N) : bool :=
    match t with
    | AMstp x => N.eqb (mstp_of vmm) x
    | AVmm w => if N.eqb (mtin_of w) 0 then N.eqb (N.land vmm 15) w else N.eqb vmm w
    end.
  Definition apayload_holds (p : apayload) (t : text) : bool :=
    if ap_regex p then re EFancy (if ap_ic p then ci_prefix ++ ap_s p else ap_s p) t
    else if ap_ic p then re ECi (ap_s p) t
    else substr (ap_s p) t.
  Definition alcs_crit (a : afilter) : option (list N) :=
    match a_lcs a with Some (x :: r) => Some (x :: r) | _ => None end.

  Definition acriteria_hold (a : afilter) (m : msg) : bool :=
    holds (a_ecu a) (Some (m_ecu m)) aid_holds &&
    holds (a_apid a) (msg_apid m) aid_holds &&
    holds (a_ctid a) (msg_ctid m) aid_holds &&
    holds (a_type a) (msg_vmm m) atype_holds &&
    holds (a_lmin a) (msg_vmm m) lmin_holds &&
    holds (a_lmax a) (msg_vmm m) lmax_holds &&
    holds (a_payload a) (m_text m) apayload_holds &&
    holds (alcs_crit a) (Some (m_lc m)) lifecycle_holds.

  Definition aspec (a : afilter) (m : msg) : bool :=
    a_enabled a && xorb (a_negate a) (acriteria_hold a m).
End Meaning.

(* ---------------------------------------------------------------- well-formed abstract filters / messages *)
Section Wf.
  Variable valid : engine -> pattern -> bool.

  Definition aid_wf (c : aid) : bool := if ai_regex c then valid EBytes (ai_s c) else is_ascii (ai_s c).
  Definition opt_wf {A} (w : A -> bool) (o : option A) : bool := match o with Some x => w x | None => true end.
  Definition atype_wf (t : atype) : bool := match t with AMstp x => x <? 8 | AVmm v => v <? 256 end.
  Definition apayload_wf (p : apayload) : bool :=
    if ap_regex p then valid EFancy (if ap_ic p then ci_prefix ++ ap_s p else ap_s p) else true.

  Definition awf (a : afilter) : bool :=
    (a_kind a <=? 3) &&
    opt_wf aid_wf (a_ecu a) && opt_wf aid_wf (a_apid a) && opt_wf aid_wf (a_ctid a) &&
    opt_wf atype_wf (a_type a) &&
    opt_wf (fun l => l <=? 6) (a_lmin a) && opt_wf (fun l => l <=? 6) (a_lmax a) &&
    opt_wf apayload_wf (a_payload a) &&
    opt_wf (forallb (fun l => l <? 2 ^ 32)) (a_lcs a).
End Wf.

(* the type byte of a message is a byte *)
Definition msg_wf (m : msg) : bool := match m_ext m with Some e => e_vmm e <? 256 | None => true end.

(* ---------------------------------------------------------------- the Filter every front-end has to build *)
Definition idcrit_of (c : aid) : idcrit := if ai_regex c then IdRe (ai_s c) else IdLit (pad4 (ai_s c)).
(* value and mask of the type criterion *)
Definition atype_vm (t : atype) : N * N :=
  match t with
  | AMstp x => (N.land (N.shiftl (N.land x 7) 1) 255, 14)
  | AVmm v => let vmm := N.land v 255 in (vmm, if N.eqb (N.land (N.shiftr vmm 4) 15) 0 then 15 else 255)
  end.
Definition filter_of (a : afilter) : filter :=
  {| f_kind := a_kind a; f_enabled := a_enabled a; f_at_load_time := false; f_negate := a_negate a;
     f_ecu := option_map idcrit_of (a_ecu a);
     f_apid := option_map idcrit_of (a_apid a);
     f_ctid := option_map idcrit_of (a_ctid a);
     f_vmm := option_map atype_vm (a_type a);
     f_payload := match a_payload a with Some p => if ap_regex p then None else Some (ap_s p) | None => None end;
     f_payload_regex :=
       match a_payload a with
       | Some p => if ap_regex p then Some (if ap_ic p then ci_prefix ++ ap_s p else ap_s p) else None
       | None => None
       end;
     f_ignore_case := match a_payload a with Some p => ap_ic p | None => false end;
     f_payload_as_regex :=
       match a_payload a with
       | Some p => if ap_regex p then None else if ap_ic p then Some (ap_s p) else None
       | None => None
       end;
     f_lmin := a_lmin a; f_lmax := a_lmax a; f_lifecycles := a_lcs a |}.

(* ---------------------------------------------------------------- writing an abstract filter down *)
(* members / elements that may be left out: [verbose] writes every optional one *)
Definition jfields := list (jkey * option jvalue).
Definition obj_of (l : jfields) : jobj :=
  flat_map (fun p => match snd p with Some v => [(fst p, v)] | None => [] end) l.

Definition opt_if {A} (b : bool) (v : A) : option A := if b then Some v else None.

Definition json_id_fields (verbose : bool) (k kre : jkey) (c : option aid) : jfields :=
  [(k, option_map (fun c => JStr (ai_s c)) c);
   (kre, match c with
         | Some c => opt_if (verbose || negb (Bool.eqb (contains_regex_chars (ai_s c)) (ai_regex c))) (JBool (ai_regex c))
         | None => None
         end)].

Definition json_fields (verbose : bool) (a : afilter) : jfields :=
  [(KType, Some (JNum (a_kind a)));
   (KEnabled, opt_if (verbose || negb (a_enabled a)) (JBool (a_enabled a)));
   (KNot, opt_if (verbose || a_negate a) (JBool (a_negate a)))] ++
  json_id_fields verbose KEcu KEcuIsRegex (a_ecu a) ++
  json_id_fields verbose KApid KApidIsRegex (a_apid a) ++
  json_id_fields verbose KCtid KCtidIsRegex (a_ctid a) ++
  [(KMstp, match a_type a with Some (AMstp x) => Some (JNum x) | _ => None end);
   (KVerbMstpMtin, match a_type a with Some (AVmm v) => Some (JNum v) | _ => None end);
   (KLogLevelMin, option_map JNum (a_lmin a));
   (KLogLevelMax, option_map JNum (a_lmax a));
   (KPayloadRegex, match a_payload a with Some p => opt_if (ap_regex p) (JStr (ap_s p)) | None => None end);
   (KPayload, match a_payload a with Some p => opt_if (negb (ap_regex p)) (JStr (ap_s p)) | None => None end);
   (KIgnoreCasePayload,
    match a_payload a with Some p => opt_if (verbose || ap_ic p) (JBool (ap_ic p)) | None => opt_if verbose (JBool false) end);
   (KLifecycles, option_map (fun l => JArr (map ENum l)) (a_lcs a))].
Definition render_json (verbose : bool) (a : afilter) : jtop := JObject (obj_of (json_fields verbose a)).

(* DLF *)
Definition dfields := list (dkey * option text).
Definition dobj_of (l : dfields) : dattrs :=
  flat_map (fun p => match snd p with Some v => [(fst p, v)] | None => [] end) l.
Definition flag (b : bool) : text := if b then [49] else [48].
Definition digit (n : N) : text := [48 + n].

Definition dlf_id_fields (verbose : bool) (ken kval : dkey) (kre : option dkey) (c : option aid) : dfields :=
  [(ken, match c with Some _ => Some (flag true) | None => opt_if verbose (flag false) end);
   (kval, match c with Some c => Some (ai_s c) | None => opt_if verbose [88; 88; 88; 88] end)] ++
  match kre with
  | Some kr =>
      [(kr, match c with
            | Some c => opt_if (verbose || negb (Bool.eqb (contains_regex_chars (ai_s c)) (ai_regex c))) (flag (ai_regex c))
            | None => None
            end)]
  | None => []
  end.
Definition dlf_level_fields (verbose : bool) (ken kval : dkey) (l : option N) : dfields :=
  [(ken, match l with Some _ => Some (flag true) | None => opt_if verbose (flag false) end);
   (kval, match l with Some l => Some (digit l) | None => opt_if verbose (digit 3) end)].

Definition dlf_fields (verbose : bool) (a : afilter) : dfields :=
  [(DType, opt_if (verbose || negb (N.eqb (a_kind a) 0)) (digit (a_kind a)));
   (DEnableFilter, Some (flag (a_enabled a)))] ++
  dlf_id_fields verbose DEnableEcuId DEcuId None (a_ecu a) ++
  dlf_id_fields verbose DEnableApplicationId DApplicationId (Some DEnableRegexpAppid) (a_apid a) ++
  dlf_id_fields verbose DEnableContextId DContextId (Some DEnableRegexpContext) (a_ctid a) ++
  [(DEnableControlMsgs, match a_type a with Some _ => Some (flag true) | None => opt_if verbose (flag false) end);
   (DEnablePayloadText, match a_payload a with Some _ => Some (flag true) | None => opt_if verbose (flag false) end);
   (DPayloadText, match a_payload a with Some p => Some (ap_s p) | None => opt_if verbose [102; 111; 111] end);
   (DEnableRegexpPayload, match a_payload a with Some p => opt_if (verbose || ap_regex p) (flag (ap_regex p)) | None => None end);
   (DIgnoreCasePayload,
    match a_payload a with Some p => opt_if (verbose || ap_ic p) (flag (ap_ic p)) | None => opt_if verbose (flag true) end)] ++
  dlf_level_fields verbose DEnableLogLevelMin DLogLevelMin (a_lmin a) ++
  dlf_level_fields verbose DEnableLogLevelMax DLogLevelMax (a_lmax a).
Definition render_dlf (verbose : bool) (a : afilter) : dattrs := dobj_of (dlf_fields verbose a).

(* what a DLF file can say: no negation, no lifecycles, ecu literal only, of the types only "control messages" *)
Definition dlf_expressible (a : afilter) : bool :=
  negb (a_negate a) &&
  match a_lcs a with None => true | Some _ => false end &&
  match a_ecu a with Some c => negb (ai_regex c) | None => true end &&
  match a_type a with None => true | Some (AMstp 3) => true | Some _ => false end.

(* dlt-convert list: "APID CTID " records, ids filled with '-' *)
Definition pad_dash (s : text) : text := s ++ repeat 45 (4 - List.length s)%nat.
Definition conv_id_ok (c : option aid) : bool :=
  match c with
  | Some c => negb (ai_regex c) && Nat.leb (List.length (ai_s c)) 4 && negb (existsb (N.eqb 45) (ai_s c))
  | None => false
  end.
Definition only_ids (a : afilter) : bool :=
  N.eqb (a_kind a) 0 && a_enabled a && negb (a_negate a) &&
  match a_type a, a_lmin a, a_lmax a, a_payload a, a_lcs a with
  | None, None, None, None, None => true
  | _, _, _, _, _ => false
  end.
Definition conv_expressible (a : afilter) : bool :=
  only_ids a && match a_ecu a with None => true | Some _ => false end && conv_id_ok (a_apid a) && conv_id_ok (a_ctid a).
Definition aid_text (c : option aid) : text := match c with Some c => ai_s c | None => [] end.
Definition render_conv (sep1 sep2 : N) (a : afilter) : list N :=
  pad_dash (aid_text (a_apid a)) ++ [sep1] ++ pad_dash (aid_text (a_ctid a)) ++ [sep2].

(* ECU:APID:CTID *)
Definition eac_id_ok (c : option aid) : bool :=
  match c with
  | Some c => negb (match ai_s c with [] => true | _ => false end) && negb (existsb (N.eqb 58) (ai_s c)) &&
              Bool.eqb (contains_regex_chars (ai_s c)) (ai_regex c)
  | None => true
  end.
Definition eac_expressible (a : afilter) : bool :=
  only_ids a && eac_id_ok (a_ecu a) && eac_id_ok (a_apid a) && eac_id_ok (a_ctid a).
Definition render_eac (a : afilter) : text :=
  aid_text (a_ecu a) ++ [58] ++ aid_text (a_apid a) ++ [58] ++ aid_text (a_ctid a).
