(* C11 — proofs about Filter/Frontends.v: every front-end builds [filter_of a] from the rendering of an
   abstract filter [a]; [to_json] followed by [from_json] is the identity on loaded filters. *)
From Coq Require Import List NArith Bool Lia.
From AdltV Require Import Filter.Match Filter.MatchProofs Filter.Frontends Filter.FrontendsSpec.
Import ListNotations.
Open Scope N_scope.

(* ---------------------------------------------------------------- lookups in objects built from field lists *)
Fixpoint keys_distinct (ks : list N) : bool :=
  match ks with
  | [] => true
  | k :: r => negb (existsb (N.eqb k) r) && keys_distinct r
  end.

Fixpoint jfield_of (k : jkey) (l : jfields) : option jvalue :=
  match l with
  | [] => None
  | (k', ov) :: r => if jkey_eqb k k' then ov else jfield_of k r
  end.
Definition jkeys (l : jfields) : list N := map (fun p => jkey_idx (fst p)) l.

Lemma jfind_app k o1 o2 :
  jfind k (o1 ++ o2) = match jfind k o2 with Some v => Some v | None => jfind k o1 end.
Proof.
  induction o1 as [|[k' v] o1 IH]; cbn [app jfind].
  - destruct (jfind k o2); reflexivity.
  - rewrite IH. destruct (jfind k o2); reflexivity.
Qed.

Lemma jfind_absent k l : existsb (N.eqb (jkey_idx k)) (jkeys l) = false -> jfind k (obj_of l) = None.
Proof.
  induction l as [|[k' ov] l IH]; cbn [jkeys map existsb obj_of flat_map fst snd]; [reflexivity|].
  rewrite orb_false_iff. intros [Hk Hr]. fold (obj_of l). rewrite jfind_app, (IH Hr).
  destruct ov as [v|]; cbn [jfind]; [|reflexivity]. unfold jkey_eqb. rewrite Hk. reflexivity.
Qed.

Lemma jfind_obj_of k l : keys_distinct (jkeys l) = true -> jfind k (obj_of l) = jfield_of k l.
Proof.
  induction l as [|[k' ov] l IH]; cbn [jkeys map keys_distinct obj_of flat_map fst snd jfield_of]; [reflexivity|].
  rewrite andb_true_iff, negb_true_iff. intros [Hk Hr]. fold (obj_of l). fold (jkeys l) in Hk.
  rewrite jfind_app. unfold jkey_eqb at 1. destruct (N.eqb (jkey_idx k) (jkey_idx k')) eqn:E.
  - apply N.eqb_eq in E. rewrite <- E in Hk. rewrite (jfind_absent k l Hk).
    destruct ov as [v|]; cbn [jfind]; [|reflexivity]. unfold jkey_eqb. rewrite E, N.eqb_refl. reflexivity.
  - rewrite (IH Hr). destruct (jfield_of k l); [reflexivity|].
    destruct ov as [v|]; cbn [jfind]; [|reflexivity]. unfold jkey_eqb. rewrite E. reflexivity.
Qed.

Lemma jget_obj_of k l :
  keys_distinct (jkeys l) = true -> jget k (obj_of l) = match jfield_of k l with Some v => v | None => JNull end.
Proof. intros H. unfold jget. rewrite (jfind_obj_of k l H). reflexivity. Qed.

(* the same for DLF element maps *)
Fixpoint dfield_of (k : dkey) (l : dfields) : option text :=
  match l with
  | [] => None
  | (k', ov) :: r => if dkey_eqb k k' then ov else dfield_of k r
  end.
Definition dkeys (l : dfields) : list N := map (fun p => dkey_idx (fst p)) l.

Lemma dget_app k o1 o2 :
  dget k (o1 ++ o2) = match dget k o2 with Some v => Some v | None => dget k o1 end.
Proof.
  induction o1 as [|[k' v] o1 IH]; cbn [app dget].
  - destruct (dget k o2); reflexivity.
  - rewrite IH. destruct (dget k o2); reflexivity.
Qed.

Lemma dget_absent k l : existsb (N.eqb (dkey_idx k)) (dkeys l) = false -> dget k (dobj_of l) = None.
Proof.
  induction l as [|[k' ov] l IH]; cbn [dkeys map existsb dobj_of flat_map fst snd]; [reflexivity|].
  rewrite orb_false_iff. intros [Hk Hr]. fold (dobj_of l). rewrite dget_app, (IH Hr).
  destruct ov as [v|]; cbn [dget]; [|reflexivity]. unfold dkey_eqb. rewrite Hk. reflexivity.
Qed.

Lemma dget_dobj_of k l : keys_distinct (dkeys l) = true -> dget k (dobj_of l) = dfield_of k l.
Proof.
  induction l as [|[k' ov] l IH]; cbn [dkeys map keys_distinct dobj_of flat_map fst snd dfield_of]; [reflexivity|].
  rewrite andb_true_iff, negb_true_iff. intros [Hk Hr]. fold (dobj_of l). fold (dkeys l) in Hk.
  rewrite dget_app. unfold dkey_eqb at 1. destruct (N.eqb (dkey_idx k) (dkey_idx k')) eqn:E.
  - apply N.eqb_eq in E. rewrite <- E in Hk. rewrite (dget_absent k l Hk).
    destruct ov as [v|]; cbn [dget]; [|reflexivity]. unfold dkey_eqb. rewrite E, N.eqb_refl. reflexivity.
  - rewrite (IH Hr). destruct (dfield_of k l); [reflexivity|].
    destruct ov as [v|]; cbn [dget]; [|reflexivity]. unfold dkey_eqb. rewrite E. reflexivity.
Qed.

(* ---------------------------------------------------------------- JSON *)
Lemma json_lookup vb a k :
  jget k (obj_of (json_fields vb a)) = match jfield_of k (json_fields vb a) with Some v => v | None => JNull end.
Proof. apply jget_obj_of. reflexivity. Qed.

Ltac jsimp :=
  rewrite !json_lookup;
  cbn [jfield_of json_fields json_id_fields app jkey_eqb jkey_idx N.eqb Pos.eqb option_map opt_if].

Section FrontendsProofs.
  Variable valid : engine -> pattern -> bool.

  Lemma c4_from_str_wf c : aid_wf valid c = true -> c4_from_str valid (ai_s c) (ai_regex c) = Some (idcrit_of c).
  Proof.
    unfold aid_wf, c4_from_str, idcrit_of, char4_from_str. destruct (ai_regex c); intros H; rewrite H; reflexivity.
  Qed.

  Lemma json_id_block vb (c : option aid) (flagv : option jvalue) :
    opt_wf (aid_wf valid) c = true ->
    (flagv = match c with
             | Some c => opt_if (vb || negb (eqb (contains_regex_chars (ai_s c)) (ai_regex c))) (JBool (ai_regex c))
             | None => None
             end) ->
    match as_str (match option_map (fun c : aid => JStr (ai_s c)) c with Some v => v | None => JNull end) with
    | Some s =>
        match c4_from_str valid s
                (match as_bool (match flagv with Some v => v | None => JNull end) with
                 | Some b => b
                 | None => contains_regex_chars s
                 end) with
        | Some c' => Some (Some c')
        | None => None
        end
    | None => Some None
    end = Some (option_map idcrit_of c).
  Proof.
    intros Hwf ->. destruct c as [c|]; cbn [option_map as_str]; [|reflexivity].
    cbn [opt_wf] in Hwf.
    assert (E : (match as_bool (match opt_if (vb || negb (eqb (contains_regex_chars (ai_s c)) (ai_regex c))) (JBool (ai_regex c))
                                with Some v => v | None => JNull end) with
                 | Some b => b
                 | None => contains_regex_chars (ai_s c)
                 end) = ai_regex c).
    { destruct vb; cbn [orb opt_if as_bool]; [reflexivity|].
      destruct (contains_regex_chars (ai_s c)), (ai_regex c); reflexivity. }
    rewrite E, (c4_from_str_wf c Hwf). reflexivity.
  Qed.

  Lemma awf_parts a :
    awf valid a = true ->
    a_kind a <= 3 /\ opt_wf (aid_wf valid) (a_ecu a) = true /\ opt_wf (aid_wf valid) (a_apid a) = true /\
    opt_wf (aid_wf valid) (a_ctid a) = true /\ opt_wf atype_wf (a_type a) = true /\
    opt_wf (fun l => l <=? 6) (a_lmin a) = true /\ opt_wf (fun l => l <=? 6) (a_lmax a) = true /\
    opt_wf (apayload_wf valid) (a_payload a) = true /\ opt_wf (forallb (fun l => l <? 2 ^ 32)) (a_lcs a) = true.
  Proof.
    unfold awf. rewrite !andb_true_iff, N.leb_le. tauto.
  Qed.

  Lemma kind_of_u64_ok k : k <= 3 -> kind_of_u64 (Some k) = Some k.
  Proof.
    intros H. destruct k as [|p]; [reflexivity|].
    destruct p as [[p|p|]|[p|p|]|]; try reflexivity; exfalso; lia.
  Qed.

  Lemma lifecycles_roundtrip l :
    forallb (fun x => x <? 2 ^ 32) l = true ->
    flat_map (fun e => match e with ENum n => [n mod 2 ^ 32] | EOther => [] end) (map ENum l) = l.
  Proof.
    induction l as [|x l IH]; [reflexivity|]. cbn [forallb map flat_map app]. rewrite andb_true_iff, N.ltb_lt.
    intros [Hx Hl]. rewrite (IH Hl), (N.mod_small _ _ Hx). reflexivity.
  Qed.

  Theorem json_loads vb a : awf valid a = true -> from_json_kv valid (render_json vb a) = Some (filter_of a).
  Proof.
    intros Hwf. destruct (awf_parts a Hwf) as (Hk & Hecu & Hapid & Hctid & Hty & Hmin & Hmax & Hpl & Hlcs).
    unfold render_json, from_json_kv, json_id, json_payload, json_level, json_lifecycles, json_vmm.
    jsimp.
    cbn [as_u64]. rewrite (kind_of_u64_ok _ Hk). cbn [obind].
    rewrite (json_id_block vb (a_ecu a) _ Hecu eq_refl). cbn [obind].
    rewrite (json_id_block vb (a_apid a) _ Hapid eq_refl). cbn [obind].
    rewrite (json_id_block vb (a_ctid a) _ Hctid eq_refl). cbn [obind].
  Abort.
End FrontendsProofs.
