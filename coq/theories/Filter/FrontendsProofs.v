(* C11 — proofs about Filter/Frontends.v: every front-end builds [filter_of a] from the rendering of an
   abstract filter [a]; [to_json] followed by [from_json] is the identity on loaded filters. *)
From Coq Require Import List NArith Bool Lia Arith PeanoNat.
From AdltV Require Import Filter.Match Filter.MatchProofs Filter.Frontends Filter.FrontendsSpec.
Import ListNotations.
Open Scope N_scope.

(* ---------------------------------------------------------------- lookups in objects built from field lists *)
Fixpoint keys_distinct (ks : list N) : bool :=
  match ks with
  | [] => true
  | k :: r => negb (existsb (N.eqb k) r) && keys_distinct r
  end.

Fixpoint jfield_of (k : jkey) (l : jfields) : option jvalue :=
  match l with
  | [] => None
  | (k', ov) :: r => if jkey_eqb k k' then ov else jfield_of k r
  end.
Definition jkeys (l : jfields) : list N := map (fun p => jkey_idx (fst p)) l.

Lemma jfind_app k o1 o2 :
  jfind k (o1 ++ o2) = match jfind k o2 with Some v => Some v | None => jfind k o1 end.
Proof.
  induction o1 as [|[k' v] o1 IH]; cbn [app jfind].
  - destruct (jfind k o2); reflexivity.
  - rewrite IH. destruct (jfind k o2); reflexivity.
Qed.

Lemma jfind_absent k l : existsb (N.eqb (jkey_idx k)) (jkeys l) = false -> jfind k (obj_of l) = None.
Proof.
  induction l as [|[k' ov] l IH]; cbn [jkeys map existsb obj_of flat_map fst snd]; [reflexivity|].
  rewrite orb_false_iff. intros [Hk Hr]. fold (obj_of l). rewrite jfind_app, (IH Hr).
  destruct ov as [v|]; cbn [jfind]; [|reflexivity]. unfold jkey_eqb. rewrite Hk. reflexivity.
Qed.

Lemma jfind_obj_of k l : keys_distinct (jkeys l) = true -> jfind k (obj_of l) = jfield_of k l.
Proof.
  induction l as [|[k' ov] l IH]; cbn [jkeys map keys_distinct obj_of flat_map fst snd jfield_of]; [reflexivity|].
  rewrite andb_true_iff, negb_true_iff. intros [Hk Hr]. fold (obj_of l). fold (jkeys l) in Hk.
  rewrite jfind_app. unfold jkey_eqb at 1. destruct (N.eqb (jkey_idx k) (jkey_idx k')) eqn:E.
  - apply N.eqb_eq in E. rewrite <- E in Hk. rewrite (jfind_absent k l Hk).
    destruct ov as [v|]; cbn [jfind]; [|reflexivity]. unfold jkey_eqb. rewrite E, N.eqb_refl. reflexivity.
  - rewrite (IH Hr). destruct (jfield_of k l); [reflexivity|].
    destruct ov as [v|]; cbn [jfind]; [|reflexivity]. unfold jkey_eqb. rewrite E. reflexivity.
Qed.

Lemma jget_obj_of k l :
  keys_distinct (jkeys l) = true -> jget k (obj_of l) = match jfield_of k l with Some v => v | None => JNull end.
Proof. intros H. unfold jget. rewrite (jfind_obj_of k l H). reflexivity. Qed.

(* the same for DLF element maps *)
Fixpoint dfield_of (k : dkey) (l : dfields) : option text :=
  match l with
  | [] => None
  | (k', ov) :: r => if dkey_eqb k k' then ov else dfield_of k r
  end.
Definition dkeys (l : dfields) : list N := map (fun p => dkey_idx (fst p)) l.

Lemma dget_app k o1 o2 :
  dget k (o1 ++ o2) = match dget k o2 with Some v => Some v | None => dget k o1 end.
Proof.
  induction o1 as [|[k' v] o1 IH]; cbn [app dget].
  - destruct (dget k o2); reflexivity.
  - rewrite IH. destruct (dget k o2); reflexivity.
Qed.

Lemma dget_absent k l : existsb (N.eqb (dkey_idx k)) (dkeys l) = false -> dget k (dobj_of l) = None.
Proof.
  induction l as [|[k' ov] l IH]; cbn [dkeys map existsb dobj_of flat_map fst snd]; [reflexivity|].
  rewrite orb_false_iff. intros [Hk Hr]. fold (dobj_of l). rewrite dget_app, (IH Hr).
  destruct ov as [v|]; cbn [dget]; [|reflexivity]. unfold dkey_eqb. rewrite Hk. reflexivity.
Qed.

Lemma dget_dobj_of k l : keys_distinct (dkeys l) = true -> dget k (dobj_of l) = dfield_of k l.
Proof.
  induction l as [|[k' ov] l IH]; cbn [dkeys map keys_distinct dobj_of flat_map fst snd dfield_of]; [reflexivity|].
  rewrite andb_true_iff, negb_true_iff. intros [Hk Hr]. fold (dobj_of l). fold (dkeys l) in Hk.
  rewrite dget_app. unfold dkey_eqb at 1. destruct (N.eqb (dkey_idx k) (dkey_idx k')) eqn:E.
  - apply N.eqb_eq in E. rewrite <- E in Hk. rewrite (dget_absent k l Hk).
    destruct ov as [v|]; cbn [dget]; [|reflexivity]. unfold dkey_eqb. rewrite E, N.eqb_refl. reflexivity.
  - rewrite (IH Hr). destruct (dfield_of k l); [reflexivity|].
    destruct ov as [v|]; cbn [dget]; [|reflexivity]. unfold dkey_eqb. rewrite E. reflexivity.
Qed.

(* ---------------------------------------------------------------- JSON *)
Lemma json_lookup vb a k :
  jget k (obj_of (json_fields vb a)) = match jfield_of k (json_fields vb a) with Some v => v | None => JNull end.
Proof. apply jget_obj_of. reflexivity. Qed.

Ltac jsimp :=
  rewrite !json_lookup;
  cbn [jfield_of json_fields json_id_fields app jkey_eqb jkey_idx N.eqb Pos.eqb option_map opt_if].

Section FrontendsProofs.
  Variable valid : engine -> pattern -> bool.

  Lemma c4_from_str_wf c : aid_wf valid c = true -> c4_from_str valid (ai_s c) (ai_regex c) = Some (idcrit_of c).
  Proof.
    unfold aid_wf, c4_from_str, idcrit_of, char4_from_str. destruct (ai_regex c); intros H; rewrite H; reflexivity.
  Qed.

  Lemma json_id_block vb (c : option aid) (flagv : option jvalue) :
    opt_wf (aid_wf valid) c = true ->
    (flagv = match c with
             | Some c => opt_if (vb || negb (eqb (contains_regex_chars (ai_s c)) (ai_regex c))) (JBool (ai_regex c))
             | None => None
             end) ->
    match as_str (match option_map (fun c : aid => JStr (ai_s c)) c with Some v => v | None => JNull end) with
    | Some s =>
        match c4_from_str valid s
                (match as_bool (match flagv with Some v => v | None => JNull end) with
                 | Some b => b
                 | None => contains_regex_chars s
                 end) with
        | Some c' => Some (Some c')
        | None => None
        end
    | None => Some None
    end = Some (option_map idcrit_of c).
  Proof.
    intros Hwf ->. destruct c as [c|]; cbn [option_map as_str]; [|reflexivity].
    cbn [opt_wf] in Hwf.
    assert (E : (match as_bool (match opt_if (vb || negb (eqb (contains_regex_chars (ai_s c)) (ai_regex c))) (JBool (ai_regex c))
                                with Some v => v | None => JNull end) with
                 | Some b => b
                 | None => contains_regex_chars (ai_s c)
                 end) = ai_regex c).
    { destruct vb; cbn [orb opt_if as_bool]; [reflexivity|].
      destruct (contains_regex_chars (ai_s c)), (ai_regex c); reflexivity. }
    rewrite E, (c4_from_str_wf c Hwf). reflexivity.
  Qed.

  Lemma awf_parts a :
    awf valid a = true ->
    a_kind a <= 3 /\ opt_wf (aid_wf valid) (a_ecu a) = true /\ opt_wf (aid_wf valid) (a_apid a) = true /\
    opt_wf (aid_wf valid) (a_ctid a) = true /\ opt_wf atype_wf (a_type a) = true /\
    opt_wf (fun l => l <=? 6) (a_lmin a) = true /\ opt_wf (fun l => l <=? 6) (a_lmax a) = true /\
    opt_wf (apayload_wf valid) (a_payload a) = true /\ opt_wf (forallb (fun l => l <? 2 ^ 32)) (a_lcs a) = true.
  Proof.
    unfold awf. rewrite !andb_true_iff, N.leb_le. tauto.
  Qed.

  Lemma kind_of_u64_ok k : k <= 3 -> kind_of_u64 (Some k) = Some k.
  Proof.
    intros H. destruct k as [|p]; [reflexivity|].
    destruct p as [[p|p|]|[p|p|]|]; try reflexivity; exfalso; lia.
  Qed.

  Lemma lifecycles_roundtrip l :
    forallb (fun x => x <? 2 ^ 32) l = true ->
    flat_map (fun e => match e with ENum n => [n mod 2 ^ 32] | EOther => [] end) (map ENum l) = l.
  Proof.
    induction l as [|x l IH]; [reflexivity|]. cbn [forallb map flat_map app]. rewrite andb_true_iff, N.ltb_lt.
    intros [Hx Hl]. rewrite (IH Hl), (N.mod_small _ _ Hx). reflexivity.
  Qed.

  Definition jdefault (o : option jvalue) : jvalue := match o with Some v => v | None => JNull end.

  Lemma bool_block (c b d : bool) :
    (c = false -> b = d) ->
    match as_bool (jdefault (opt_if c (JBool b))) with Some b' => b' | None => d end = b.
  Proof. destruct c; cbn; [reflexivity|]. intros H. symmetry. apply H. reflexivity. Qed.

  Lemma level_block (l : option N) :
    opt_wf (fun l => l <=? 6) l = true ->
    match as_u64 (jdefault (option_map JNum l)) with
    | Some lvl => if lvl <=? 6 then Some (Some lvl) else None
    | None => Some None
    end = Some l.
  Proof. destruct l as [l|]; cbn; [intros ->; reflexivity|reflexivity]. Qed.

  Definition ic_of (p : option apayload) : bool := match p with Some p => ap_ic p | None => false end.

  Lemma ic_block vb (p : option apayload) :
    match as_bool (jdefault (match p with
                             | Some p => opt_if (vb || ap_ic p) (JBool (ap_ic p))
                             | None => opt_if vb (JBool false)
                             end)) with
    | Some b => b
    | None => false
    end = ic_of p.
  Proof.
    destruct p as [p|]; cbn [ic_of].
    - apply bool_block. destruct vb, (ap_ic p); cbn; congruence.
    - apply bool_block. reflexivity.
  Qed.

  Lemma payload_block (p : option apayload) (ic : bool) :
    opt_wf (apayload_wf valid) p = true -> ic = ic_of p ->
    match as_str (jdefault (match p with Some p => opt_if (ap_regex p) (JStr (ap_s p)) | None => None end)) with
    | Some s =>
        match compile_payload_regex valid (if ic then ci_prefix ++ s else s) with
        | Some p' => Some (None, Some p', None)
        | None => None
        end
    | None =>
        match as_str (jdefault (match p with Some p => opt_if (negb (ap_regex p)) (JStr (ap_s p)) | None => None end)) with
        | Some s => Some (Some s, None, if ic then Some s else None)
        | None => Some (None, None, None)
        end
    end =
    Some (match p with Some p => if ap_regex p then None else Some (ap_s p) | None => None end,
          match p with
          | Some p => if ap_regex p then Some (if ap_ic p then ci_prefix ++ ap_s p else ap_s p) else None
          | None => None
          end,
          match p with
          | Some p => if ap_regex p then None else if ap_ic p then Some (ap_s p) else None
          | None => None
          end).
  Proof.
    intros Hwf ->. destruct p as [[s r c]|]; cbn [ic_of ap_s ap_regex ap_ic]; [|reflexivity].
    cbn [opt_wf] in Hwf. unfold apayload_wf in Hwf. cbn [ap_s ap_regex ap_ic] in Hwf.
    destruct r; cbn [opt_if negb jdefault as_str].
    - unfold compile_payload_regex. rewrite Hwf. reflexivity.
    - reflexivity.
  Qed.

  Lemma lifecycles_block (l : option (list N)) :
    opt_wf (forallb (fun l => l <? 2 ^ 32)) l = true ->
    option_map (fun lcs => flat_map (fun e => match e with ENum n => [n mod 2 ^ 32] | EOther => [] end) lcs)
      (as_array (jdefault (option_map (fun l => JArr (map ENum l)) l))) = l.
  Proof.
    destruct l as [l|]; cbn [opt_wf option_map jdefault as_array]; [|reflexivity].
    intros H. rewrite (lifecycles_roundtrip l H). reflexivity.
  Qed.

  Lemma vmm_block (t : option atype) :
    match as_u64 (jdefault (match t with Some (AVmm v) => Some (JNum v) | _ => None end)) with
    | Some v => Some (N.land v 255, if N.land (N.shiftr (N.land v 255) 4) 15 =? 0 then 15 else 255)
    | None =>
        match as_u64 (jdefault (match t with Some (AMstp x) => Some (JNum x) | _ => None end)) with
        | Some v => Some (N.land (N.shiftl (N.land v 7) 1) 255, 14)
        | None => None
        end
    end = option_map atype_vm t.
  Proof. destruct t as [[x|v]|]; reflexivity. Qed.

  (* the blocks of from_json on the rendering of [a] *)
  Section JsonOf.
    Variable vb : bool.
    Variable a : afilter.
    Hypothesis Hwf : awf valid a = true.
    Let o := obj_of (json_fields vb a).

    Lemma jo_kind : kind_of_u64 (as_u64 (jget KType o)) = Some (a_kind a).
    Proof.
      destruct (awf_parts a Hwf) as (Hk & _). unfold o. jsimp. cbn [as_u64]. exact (kind_of_u64_ok _ Hk).
    Qed.

    Lemma jo_enabled : match as_bool (jget KEnabled o) with Some b => b | None => true end = a_enabled a.
    Proof. unfold o. jsimp. apply bool_block. destruct vb, (a_enabled a); cbn; congruence. Qed.

    Lemma jo_negate : match as_bool (jget KNot o) with Some b => b | None => false end = a_negate a.
    Proof. unfold o. jsimp. apply bool_block. destruct vb, (a_negate a); cbn; congruence. Qed.

    Lemma jo_at_load : match as_bool (jget KAtLoadTime o) with Some b => b | None => false end = false.
    Proof. unfold o. jsimp. reflexivity. Qed.

    Lemma jo_ecu : json_id valid o KEcu KEcuIsRegex = Some (option_map idcrit_of (a_ecu a)).
    Proof.
      destruct (awf_parts a Hwf) as (_ & H & _). unfold o, json_id. jsimp.
      exact (json_id_block vb (a_ecu a) _ H eq_refl).
    Qed.
    Lemma jo_apid : json_id valid o KApid KApidIsRegex = Some (option_map idcrit_of (a_apid a)).
    Proof.
      destruct (awf_parts a Hwf) as (_ & _ & H & _). unfold o, json_id. jsimp.
      exact (json_id_block vb (a_apid a) _ H eq_refl).
    Qed.
    Lemma jo_ctid : json_id valid o KCtid KCtidIsRegex = Some (option_map idcrit_of (a_ctid a)).
    Proof.
      destruct (awf_parts a Hwf) as (_ & _ & _ & H & _). unfold o, json_id. jsimp.
      exact (json_id_block vb (a_ctid a) _ H eq_refl).
    Qed.

    Lemma jo_ic : match as_bool (jget KIgnoreCasePayload o) with Some b => b | None => false end = ic_of (a_payload a).
    Proof. unfold o. jsimp. exact (ic_block vb (a_payload a)). Qed.

    Lemma jo_payload :
      json_payload valid o (ic_of (a_payload a)) =
      Some (f_payload (filter_of a), f_payload_regex (filter_of a), f_payload_as_regex (filter_of a)).
    Proof.
      destruct (awf_parts a Hwf) as (_ & _ & _ & _ & _ & _ & _ & H & _). unfold o, json_payload. jsimp.
      cbn [filter_of f_payload f_payload_regex f_payload_as_regex].
      destruct (a_payload a) as [[s r c]|]; cbn [ic_of ap_s ap_regex ap_ic]; [|reflexivity].
      cbn [opt_wf] in H. unfold apayload_wf in H. cbn [ap_s ap_regex ap_ic] in H.
      destruct r; cbn [opt_if negb as_str].
      - unfold compile_payload_regex. destruct c; rewrite H; reflexivity.
      - reflexivity.
    Qed.

    Lemma jo_lmin : json_level o KLogLevelMin = Some (a_lmin a).
    Proof.
      destruct (awf_parts a Hwf) as (_ & _ & _ & _ & _ & H & _). unfold o, json_level. jsimp.
      exact (level_block _ H).
    Qed.
    Lemma jo_lmax : json_level o KLogLevelMax = Some (a_lmax a).
    Proof.
      destruct (awf_parts a Hwf) as (_ & _ & _ & _ & _ & _ & H & _). unfold o, json_level. jsimp.
      exact (level_block _ H).
    Qed.

    Lemma jo_lifecycles : json_lifecycles o = a_lcs a.
    Proof.
      destruct (awf_parts a Hwf) as (_ & _ & _ & _ & _ & _ & _ & _ & H). unfold o, json_lifecycles. jsimp.
      exact (lifecycles_block _ H).
    Qed.

    Lemma jo_vmm : json_vmm o = option_map atype_vm (a_type a).
    Proof. unfold o, json_vmm. jsimp. exact (vmm_block (a_type a)). Qed.
  End JsonOf.

  Theorem json_loads vb a : awf valid a = true -> from_json_kv valid (render_json vb a) = Some (filter_of a).
  Proof.
    intros Hwf. unfold render_json, from_json_kv.
    rewrite (jo_kind vb a Hwf), (jo_enabled vb a), (jo_negate vb a), (jo_at_load vb a), (jo_ecu vb a Hwf),
      (jo_apid vb a Hwf), (jo_ctid vb a Hwf), (jo_ic vb a), (jo_payload vb a Hwf), (jo_lmin vb a Hwf),
      (jo_lmax vb a Hwf), (jo_lifecycles vb a Hwf), (jo_vmm vb a).
    reflexivity.
  Qed.

  (* ---------------------------------------------------------------- DLF *)
  Lemma parse_u8_digit n : n <= 9 -> parse_u8 (digit n) = Some n.
  Proof.
    intros H.
    assert (E : n = 0 \/ n = 1 \/ n = 2 \/ n = 3 \/ n = 4 \/ n = 5 \/ n = 6 \/ n = 7 \/ n = 8 \/ n = 9) by lia.
    repeat (destruct E as [E|E]; [subst n; reflexivity|]). subst n. reflexivity.
  Qed.

  Lemma is_flag b : text_eqb (flag b) [49] = b.
  Proof. destruct b; reflexivity. Qed.

  Section DlfOf.
    Variable vb : bool.
    Variable a : afilter.
    Hypothesis Hwf : awf valid a = true.
    Hypothesis Hex : dlf_expressible a = true.
    Let d := dobj_of (dlf_fields vb a).

    Lemma dlf_lookup k : dget k d = dfield_of k (dlf_fields vb a).
    Proof. apply dget_dobj_of. reflexivity. Qed.

    Ltac dsimp :=
      unfold is_one; rewrite !dlf_lookup;
      cbn [dfield_of dlf_fields dlf_id_fields dlf_level_fields app dkey_eqb dkey_idx N.eqb Pos.eqb option_map].

    Lemma do_kind : dlf_kind d = a_kind a.
    Proof.
      destruct (awf_parts a Hwf) as (Hk & _). unfold dlf_kind. dsimp.
      assert (Hk9 : a_kind a <= 9) by lia.
      destruct (vb || negb (a_kind a =? 0)) eqn:E; cbn [opt_if].
      - rewrite (parse_u8_digit _ Hk9).
        destruct (a_kind a) as [|p]; [reflexivity|].
        destruct p as [[p|p|]|[p|p|]|]; try reflexivity; exfalso; lia.
      - apply orb_false_iff in E. destruct E as [_ E]. apply negb_false_iff, N.eqb_eq in E. symmetry. exact E.
    Qed.

    Lemma do_enabled : is_one DEnableFilter d = a_enabled a.
    Proof. dsimp. apply is_flag. Qed.

    Lemma do_id ken kval kre c :
      opt_wf (aid_wf valid) c = true ->
      (kre = None -> match c with Some c => ai_regex c = false | None => True end) ->
      dget ken d = match c with Some _ => Some (flag true) | None => opt_if vb (flag false) end ->
      dget kval d = match c with Some c => Some (ai_s c) | None => opt_if vb [88; 88; 88; 88] end ->
      match kre with
      | Some kr => dget kr d = match c with
                               | Some c => opt_if (vb || negb (eqb (contains_regex_chars (ai_s c)) (ai_regex c))) (flag (ai_regex c))
                               | None => None
                               end
      | None => True
      end ->
      dlf_id valid d ken kval kre = option_map idcrit_of c.
    Proof.
      intros Hc Hnore Hen Hval Hre. unfold dlf_id, is_one. rewrite Hen, Hval.
      destruct c as [c|]; cbn [option_map].
      - cbn [text_eqb flag N.eqb Pos.eqb andb]. cbn [opt_wf] in Hc.
        assert (E : match kre with
                    | Some kr => match dget kr d with Some ir => text_eqb ir [49] | None => contains_regex_chars (ai_s c) end
                    | None => false
                    end = ai_regex c).
        { destruct kre as [kr|].
          - rewrite Hre. destruct vb; cbn [orb opt_if]; [apply is_flag|].
            destruct (contains_regex_chars (ai_s c)), (ai_regex c); reflexivity.
          - symmetry. exact (Hnore eq_refl). }
        rewrite E. exact (c4_from_str_wf c Hc).
      - destruct vb; reflexivity.
    Qed.

    Lemma do_ecu : dlf_id valid d DEnableEcuId DEcuId None = option_map idcrit_of (a_ecu a).
    Proof.
      destruct (awf_parts a Hwf) as (_ & H & _).
      apply do_id; [exact H| | | |exact I].
      - intros _. unfold dlf_expressible in Hex. rewrite !andb_true_iff in Hex. destruct Hex as [[[_ _] He] _].
        destruct (a_ecu a) as [c|]; [|exact I]. apply negb_true_iff in He. exact He.
      - dsimp. reflexivity.
      - dsimp. reflexivity.
    Qed.
    Lemma do_apid :
      dlf_id valid d DEnableApplicationId DApplicationId (Some DEnableRegexpAppid) = option_map idcrit_of (a_apid a).
    Proof.
      destruct (awf_parts a Hwf) as (_ & _ & H & _).
      apply do_id; [exact H|discriminate| | |]; dsimp; reflexivity.
    Qed.
    Lemma do_ctid :
      dlf_id valid d DEnableContextId DContextId (Some DEnableRegexpContext) = option_map idcrit_of (a_ctid a).
    Proof.
      destruct (awf_parts a Hwf) as (_ & _ & _ & H & _).
      apply do_id; [exact H|discriminate| | |]; dsimp; reflexivity.
    Qed.

    Lemma do_ctrl : (if is_one DEnableControlMsgs d then Some (6, 14) else None) = option_map atype_vm (a_type a).
    Proof.
      dsimp. unfold dlf_expressible in Hex. rewrite !andb_true_iff in Hex. destruct Hex as [_ Ht].
      destruct (a_type a) as [[x|v]|].
      - destruct x as [|p]; [discriminate|]. destruct p as [[p|p|]|[p|p|]|]; try discriminate. reflexivity.
      - discriminate.
      - destruct vb; reflexivity.
    Qed.

    Lemma do_level ken kval l :
      opt_wf (fun l => l <=? 6) l = true ->
      dget ken d = match l with Some _ => Some (flag true) | None => opt_if vb (flag false) end ->
      dget kval d = match l with Some l => Some (digit l) | None => opt_if vb (digit 3) end ->
      dlf_level d ken kval = l.
    Proof.
      intros Hl Hen Hval. unfold dlf_level, is_one. rewrite Hen, Hval. destruct l as [l|].
      - cbn [text_eqb flag N.eqb Pos.eqb andb]. cbn [opt_wf] in Hl. assert (l <= 9) by (apply N.leb_le in Hl; lia).
        rewrite (parse_u8_digit l) by assumption. rewrite Hl. reflexivity.
      - destruct vb; reflexivity.
    Qed.
    Lemma do_lmin : dlf_level d DEnableLogLevelMin DLogLevelMin = a_lmin a.
    Proof.
      destruct (awf_parts a Hwf) as (_ & _ & _ & _ & _ & H & _). apply do_level; [exact H| |]; dsimp; reflexivity.
    Qed.
    Lemma do_lmax : dlf_level d DEnableLogLevelMax DLogLevelMax = a_lmax a.
    Proof.
      destruct (awf_parts a Hwf) as (_ & _ & _ & _ & _ & _ & H & _). apply do_level; [exact H| |]; dsimp; reflexivity.
    Qed.

    Lemma do_payload_on : is_one DEnablePayloadText d = match a_payload a with Some _ => true | None => false end.
    Proof. dsimp. destruct (a_payload a); [reflexivity|destruct vb; reflexivity]. Qed.
    Lemma do_payload_ic : is_one DIgnoreCasePayload d = match a_payload a with Some p => ap_ic p | None => vb end.
    Proof.
      dsimp. destruct (a_payload a) as [p|]; [|destruct vb; reflexivity].
      destruct vb; cbn [orb opt_if]; [apply is_flag|]. destruct (ap_ic p); reflexivity.
    Qed.
    Lemma do_payload_re : is_one DEnableRegexpPayload d = match a_payload a with Some p => ap_regex p | None => false end.
    Proof.
      dsimp. destruct (a_payload a) as [p|]; [|reflexivity].
      destruct vb; cbn [orb opt_if]; [apply is_flag|]. destruct (ap_regex p); reflexivity.
    Qed.
    Lemma do_payload_text :
      dget DPayloadText d = match a_payload a with Some p => Some (ap_s p) | None => opt_if vb [102; 111; 111] end.
    Proof. dsimp. reflexivity. Qed.

    Theorem dlf_loads_in : from_dlf_attrs valid d = filter_of a.
    Proof.
      unfold from_dlf_attrs.
      rewrite do_kind, do_enabled, do_ecu, do_apid, do_ctid, do_ctrl, do_lmin, do_lmax,
        do_payload_on, do_payload_ic, do_payload_re, do_payload_text.
      destruct (awf_parts a Hwf) as (_ & _ & _ & _ & _ & _ & _ & Hp & _).
      unfold dlf_expressible in Hex. rewrite !andb_true_iff in Hex. destruct Hex as [[[Hn Hl] _] _].
      apply negb_true_iff in Hn. unfold filter_of. rewrite Hn.
      destruct (a_lcs a) as [l|]; [discriminate|].
      destruct (a_payload a) as [[s r c]|]; cbn [ap_s ap_regex ap_ic andb].
      - cbn [opt_wf] in Hp. unfold apayload_wf in Hp. cbn [ap_s ap_regex ap_ic] in Hp.
        destruct r.
        + unfold compile_payload_regex. destruct c; rewrite Hp; reflexivity.
        + destruct c; reflexivity.
      - reflexivity.
    Qed.
  End DlfOf.

  Theorem dlf_loads vb a :
    awf valid a = true -> dlf_expressible a = true -> from_dlf_attrs valid (render_dlf vb a) = filter_of a.
  Proof. intros Hwf Hex. exact (dlf_loads_in vb a Hwf Hex). Qed.

  (* ---------------------------------------------------------------- dlt-convert list *)
  Lemma conv_take_padded n s rest :
    (List.length s <= n)%nat -> existsb (N.eqb 45) s = false ->
    conv_take n (s ++ repeat 45 (n - List.length s)%nat ++ rest) = s.
  Proof.
    revert s. induction n as [|n IH]; intros s Hl Hd.
    - destruct s; [reflexivity|cbn in Hl; lia].
    - destruct s as [|b s].
      + reflexivity.
      + cbn [existsb] in Hd. apply orb_false_iff in Hd. destruct Hd as [Hb Hd].
        cbn [app conv_take List.length Nat.sub]. rewrite N.eqb_sym in Hb. rewrite Hb.
        rewrite IH; [reflexivity|cbn in Hl; lia|exact Hd].
  Qed.

  Lemma pad_dash_length s : (List.length s <= 4)%nat -> List.length (pad_dash s) = 4%nat.
  Proof. intros H. unfold pad_dash. rewrite app_length, repeat_length. lia. Qed.

  Lemma length4 {A} (l : list A) : List.length l = 4%nat -> exists a b c d, l = [a; b; c; d].
  Proof.
    destruct l as [|a [|b [|c [|d [|e l]]]]]; cbn; intros H; try discriminate. exists a, b, c, d. reflexivity.
  Qed.

  Lemma conv_id_ok_parts c :
    conv_id_ok c = true ->
    exists x, c = Some x /\ ai_regex x = false /\ (List.length (ai_s x) <= 4)%nat /\ existsb (N.eqb 45) (ai_s x) = false.
  Proof.
    destruct c as [x|]; cbn [conv_id_ok]; [|discriminate].
    rewrite !andb_true_iff, !negb_true_iff. intros [[Hr Hl] Hd]. exists x.
    split; [reflexivity|]. split; [exact Hr|]. split; [apply Nat.leb_le; exact Hl|exact Hd].
  Qed.

  Lemma only_ids_parts a :
    only_ids a = true ->
    a_kind a = 0 /\ a_enabled a = true /\ a_negate a = false /\ a_type a = None /\ a_lmin a = None /\
    a_lmax a = None /\ a_payload a = None /\ a_lcs a = None.
  Proof.
    unfold only_ids. rewrite !andb_true_iff, N.eqb_eq, negb_true_iff. intros [[[Hk He] Hn] Hr].
    destruct (a_type a), (a_lmin a), (a_lmax a), (a_payload a), (a_lcs a); try discriminate. tauto.
  Qed.

  Theorem conv_loads sep1 sep2 a :
    conv_expressible a = true -> from_convert_format (render_conv sep1 sep2 a) = [filter_of a].
  Proof.
    unfold conv_expressible. rewrite !andb_true_iff. intros [[[Ho He] Ha] Hc].
    destruct (only_ids_parts a Ho) as (Hk & Hen & Hn & Ht & Hmin & Hmax & Hp & Hl).
    destruct (conv_id_ok_parts _ Ha) as (xa & Exa & Hra & Hla & Hda).
    destruct (conv_id_ok_parts _ Hc) as (xc & Exc & Hrc & Hlc & Hdc).
    destruct (a_ecu a) as [e|] eqn:Eecu; [discriminate|].
    assert (Ta : conv_take 4 (render_conv sep1 sep2 a) = ai_s xa).
    { unfold render_conv, pad_dash. rewrite Exa. cbn [aid_text]. rewrite <- app_assoc.
      apply conv_take_padded; assumption. }
    destruct (length4 _ (pad_dash_length _ Hla)) as (a0 & a1 & a2 & a3 & Epa).
    destruct (length4 _ (pad_dash_length _ Hlc)) as (c0 & c1 & c2 & c3 & Epc).
    assert (Tc : conv_take 4 (skipn 5 (render_conv sep1 sep2 a)) = ai_s xc).
    { unfold render_conv. rewrite Exa, Exc. cbn [aid_text]. rewrite Epa. cbn [app skipn].
      unfold pad_dash. rewrite <- app_assoc. apply conv_take_padded; assumption. }
    unfold from_convert_format.
    assert (Elen : List.length (render_conv sep1 sep2 a) = 10%nat).
    { unfold render_conv. rewrite Exa, Exc. cbn [aid_text]. rewrite Epa, Epc. reflexivity. }
    rewrite Elen. cbn [conv_go]. rewrite Elen. cbn [Nat.leb]. rewrite Ta, Tc.
    assert (Eskip : skipn 10 (render_conv sep1 sep2 a) = []).
    { unfold render_conv. rewrite Exa, Exc. cbn [aid_text]. rewrite Epa, Epc. reflexivity. }
    rewrite Eskip. cbn [List.length Nat.leb].
    unfold conv_filter, filter_of, filter_new. cbn [f_kind f_enabled f_at_load_time f_negate f_ecu f_vmm f_payload
      f_payload_regex f_ignore_case f_payload_as_regex f_lmin f_lmax f_lifecycles].
    rewrite Hk, Hen, Hn, Ht, Hmin, Hmax, Hp, Hl, Eecu, Exa, Exc. cbn [option_map]. unfold idcrit_of. rewrite Hra, Hrc.
    reflexivity.
  Qed.

  (* ---------------------------------------------------------------- ECU:APID:CTID *)
  Lemma split_colon_nocolon s cur rest :
    existsb (N.eqb 58) s = false -> split_colon cur (s ++ rest) = split_colon (rev s ++ cur) rest.
  Proof.
    revert cur. induction s as [|c s IH]; intros cur H; [reflexivity|].
    cbn [existsb] in H. apply orb_false_iff in H. destruct H as [Hc Hs].
    cbn [app split_colon]. rewrite N.eqb_sym in Hc. rewrite Hc. rewrite (IH (c :: cur) Hs).
    cbn [rev]. rewrite <- app_assoc. reflexivity.
  Qed.

  Lemma eac_id_ok_parts c :
    eac_id_ok c = true ->
    existsb (N.eqb 58) (aid_text c) = false /\
    match c with Some x => ai_s x <> [] /\ contains_regex_chars (ai_s x) = ai_regex x | None => True end.
  Proof.
    destruct c as [x|]; cbn [eac_id_ok aid_text]; [|intros _; split; [reflexivity|exact I]].
    rewrite !andb_true_iff, !negb_true_iff. intros [[He Hc] Hr]. split; [exact Hc|]. split.
    - intros E. rewrite E in He. discriminate.
    - apply eqb_prop in Hr. exact Hr.
  Qed.

  Lemma eac_part_ok c :
    opt_wf (aid_wf valid) c = true -> eac_id_ok c = true ->
    eac_part valid (aid_text c) = Some (option_map idcrit_of c).
  Proof.
    intros Hwf Hok. destruct (eac_id_ok_parts c Hok) as [_ H]. destruct c as [x|]; cbn [aid_text option_map]; [|reflexivity].
    destruct H as [Hne Hr]. cbn [opt_wf] in Hwf. unfold eac_part. destruct (ai_s x) as [|b r] eqn:E; [congruence|].
    pose proof (c4_from_str_wf x Hwf) as Hc4. rewrite E in Hc4. rewrite Hr, Hc4. reflexivity.
  Qed.

  Theorem eac_loads a :
    awf valid a = true -> eac_expressible a = true -> eac_from_str valid (render_eac a) = Some (filter_of a).
  Proof.
    intros Hwf. unfold eac_expressible. rewrite !andb_true_iff. intros [[[Ho He] Ha] Hc].
    destruct (awf_parts a Hwf) as (_ & We & Wa & Wc & _).
    destruct (only_ids_parts a Ho) as (Hk & Hen & Hn & Ht & Hmin & Hmax & Hp & Hl).
    destruct (eac_id_ok_parts _ He) as [Ce _]. destruct (eac_id_ok_parts _ Ha) as [Ca _].
    destruct (eac_id_ok_parts _ Hc) as [Cc _].
    assert (Es : split_colon [] (render_eac a) = [aid_text (a_ecu a); aid_text (a_apid a); aid_text (a_ctid a)]).
    { unfold render_eac. rewrite (split_colon_nocolon _ [] _ Ce). cbn [app split_colon N.eqb Pos.eqb].
      rewrite app_nil_r, rev_involutive. f_equal.
      rewrite (split_colon_nocolon _ [] _ Ca). cbn [app split_colon N.eqb Pos.eqb].
      rewrite app_nil_r, rev_involutive. f_equal.
      rewrite <- (app_nil_r (aid_text (a_ctid a))) at 1. rewrite (split_colon_nocolon _ [] _ Cc).
      cbn [split_colon]. rewrite app_nil_r, rev_involutive. reflexivity. }
    unfold eac_from_str. destruct (render_eac a) as [|b r] eqn:Er.
    - unfold render_eac in Er. destruct (aid_text (a_ecu a)); discriminate.
    - rewrite Es. cbn [nth]. rewrite (eac_part_ok _ We He), (eac_part_ok _ Wa Ha), (eac_part_ok _ Wc Hc). cbn [obind].
      unfold filter_of, filter_new. cbn [f_kind f_enabled f_at_load_time f_negate f_ecu f_vmm f_payload
        f_payload_regex f_ignore_case f_payload_as_regex f_lmin f_lmax f_lifecycles].
      rewrite Hk, Hen, Hn, Ht, Hmin, Hmax, Hp, Hl. reflexivity.
  Qed.

  (* ---------------------------------------------------------------- the common filter means the abstract filter *)
End FrontendsProofs.

(* finite exhaustive checks over bytes *)
Definition nrange (n : nat) : list N := map N.of_nat (seq 0 n).
Lemma forallb_nrange (f : N -> bool) n : forallb f (nrange n) = true -> forall v, v < N.of_nat n -> f v = true.
Proof.
  intros H v Hv. unfold nrange in H. rewrite forallb_forall in H. apply H.
  apply in_map_iff. exists (N.to_nat v). split; [apply N2Nat.id|]. apply in_seq. lia.
Qed.

Lemma type_mstp_readable x v :
  x < 8 -> v < 256 -> type_holds (atype_vm (AMstp x)) v = N.eqb (mstp_of v) x.
Proof.
  intros Hx Hv.
  assert (H : forallb (fun x => forallb (fun v => eqb (type_holds (atype_vm (AMstp x)) v) (N.eqb (mstp_of v) x)) (nrange 256))
                (nrange 8) = true) by (vm_compute; reflexivity).
  pose proof (forallb_nrange _ _ H x Hx) as H1. cbv beta in H1.
  pose proof (forallb_nrange _ _ H1 v Hv) as H2. cbv beta in H2. apply eqb_prop in H2. exact H2.
Qed.

Lemma type_vmm_readable w v :
  w < 256 -> v < 256 ->
  type_holds (atype_vm (AVmm w)) v = (if N.eqb (mtin_of w) 0 then N.eqb (N.land v 15) w else N.eqb v w).
Proof.
  intros Hw Hv.
  assert (H : forallb (fun w => forallb (fun v => eqb (type_holds (atype_vm (AVmm w)) v)
                                               (if N.eqb (mtin_of w) 0 then N.eqb (N.land v 15) w else N.eqb v w))
                                  (nrange 256)) (nrange 256) = true) by (vm_compute; reflexivity).
  pose proof (forallb_nrange _ _ H w Hw) as H1. cbv beta in H1.
  pose proof (forallb_nrange _ _ H1 v Hv) as H2. cbv beta in H2. apply eqb_prop in H2. exact H2.
Qed.

Section Meaning.
  Variable re : engine -> pattern -> text -> bool.

  Lemma id_crit_meaning (c : option aid) (v : option id4) :
    holds (option_map idcrit_of c) v (id_holds re) = holds c v (aid_holds re).
  Proof.
    destruct c as [c|]; [|reflexivity]. destruct v as [v|]; [|reflexivity].
    cbn [option_map holds]. unfold idcrit_of, aid_holds, id_holds. destruct (ai_regex c); reflexivity.
  Qed.

  Lemma type_crit_meaning (t : option atype) (v : option N) :
    opt_wf atype_wf t = true -> match v with Some x => x < 256 | None => True end ->
    holds (option_map atype_vm t) v type_holds = holds t v atype_holds.
  Proof.
    intros Ht Hv. destruct t as [t|]; [|reflexivity]. destruct v as [v|]; [|reflexivity].
    cbn [option_map holds opt_wf] in *. destruct t as [x|w]; cbn [atype_wf atype_holds] in *; apply N.ltb_lt in Ht.
    - apply type_mstp_readable; assumption.
    - apply type_vmm_readable; assumption.
  Qed.

  Lemma payload_crit_meaning (a : afilter) (t : option text) :
    holds (payload_crit (filter_of a)) t (payload_holds re) = holds (a_payload a) t (apayload_holds re).
  Proof.
    unfold payload_crit, filter_of. cbn [f_payload f_payload_regex f_payload_as_regex].
    destruct (a_payload a) as [[s r c]|]; cbn [ap_s ap_regex ap_ic]; [|reflexivity].
    unfold apayload_holds. cbn [ap_s ap_regex ap_ic].
    destruct r, c, t; reflexivity.
  Qed.

  Theorem filter_of_meaning valid a m :
    awf valid a = true -> msg_wf m = true -> matches re (filter_of a) m = aspec re a m.
  Proof.
    intros Hwf Hm. rewrite matches_is_spec. unfold matches_spec, aspec, criteria_hold, acriteria_hold.
    destruct (awf_parts valid a Hwf) as (_ & _ & _ & _ & Ht & _).
    rewrite payload_crit_meaning.
    cbn [filter_of f_enabled f_negate f_ecu f_apid f_ctid f_vmm f_lmin f_lmax].
    rewrite !id_crit_meaning, (type_crit_meaning (a_type a) (msg_vmm m) Ht).
    - reflexivity.
    - unfold msg_vmm, msg_wf in *. destruct (m_ext m) as [e|]; cbn [option_map]; [apply N.ltb_lt; exact Hm|exact I].
  Qed.
End Meaning.

Section FrontendsProofs2.
  Variable valid : engine -> pattern -> bool.
End FrontendsProofs2.

