(* C19 — the lifecycle detector model (Lifecycle/Model.v, the coordinator's transcription of
   parse_lifecycles_buffered_from_stream) commutes with every renaming of ECU ids that is injective on the
   ECU ids occurring in the stream.  The detector uses ECU ids only as keys (ecu_map lookup / insert) and in
   one equality test (`lc.ecu == msg.ecu` of the confirmation rule); nothing else of a message that the
   anonymiser touches (payload, apid, ctid) is read by the model. *)
From Coq Require Import List NArith Bool Lia.
From AdltV Require Import Lifecycle.Model.
Import ListNotations.
Open Scope N_scope.

Section Equivariance.
  Variable f : N -> N.
  Variable S : N -> Prop.
  Hypothesis f_inj : forall a b, S a -> S b -> f a = f b -> a = b.

  Lemma feqb a b : S a -> S b -> N.eqb (f a) (f b) = N.eqb a b.
  Proof.
    intros Ha Hb. destruct (N.eqb a b) eqn:E.
    - apply N.eqb_eq in E. subst. apply N.eqb_refl.
    - apply N.eqb_neq. intros H. apply N.eqb_neq in E. apply E. apply f_inj; assumption.
  Qed.

  (* ---------------------------------------------------------------- renaming *)
  Definition ren_m (m : msg) : msg :=
    {| m_index := m_index m; m_ecu := f (m_ecu m); m_rt := m_rt m; m_ts := m_ts m; m_has_ts := m_has_ts m;
       m_creq := m_creq m; m_lc := m_lc m |}.
  Definition ren_l (L : lcy) : lcy :=
    {| l_id := l_id L; l_ecu := f (l_ecu L); l_nr := l_nr L; l_nr_creq := l_nr_creq L; l_start := l_start L;
       l_min_ts := l_min_ts L; l_max_ts := l_max_ts L; l_last_rt := l_last_rt L; l_resume := l_resume L |}.
  Definition ren_em (em : emap_t) : emap_t := map (fun kv => (f (fst kv), map ren_l (snd kv))) em.
  Definition ren_tbl (t : table) : table := map (fun kv => (fst kv, ren_l (snd kv))) t.
  Definition ren_op (o : pend_op) : pend_op :=
    match o with PUpdate id L => PUpdate id (ren_l L) | PEmpty id => PEmpty id end.
  Definition ren_del (x : delivery) : delivery := (ren_m (fst x), ren_tbl (snd x)).
  Definition ren_d (d : det) : det :=
    {| emap := ren_em (emap d); queue := map ren_m (queue d); buffered := buffered d; next_id := next_id d;
       next_check := next_check d; last_idx := last_idx d; to_refresh := to_refresh d; last_reg := last_reg d;
       vis := ren_tbl (vis d); pend := map ren_op (pend d) |}.
  Definition ren_p (p : p1) : p1 :=
    {| p_emap := ren_em (p_emap p); p_q := map ren_m (p_q p); p_buf := p_buf p; p_nid := p_nid p;
       p_msg := ren_m (p_msg p); p_out := map ren_m (p_out p); p_tr := p_tr p; p_pend := map ren_op (p_pend p) |}.
  Definition ren_c (c : cstate) : cstate :=
    {| c_buf := c_buf c; c_vis := ren_tbl (c_vis c); c_pend := map ren_op (c_pend c); c_q := map ren_m (c_q c);
       c_tr := c_tr c; c_out := map ren_del (c_out c) |}.

  (* all ECU ids stored in a state are ids of the stream *)
  Definition ok_ls (ls : list lcy) : Prop := Forall (fun L => S (l_ecu L)) ls.
  Definition ok_em (em : emap_t) : Prop := Forall (fun kv => S (fst kv) /\ ok_ls (snd kv)) em.

  (* ---------------------------------------------------------------- per-lifecycle functions *)
  Lemma update_ren L m id :
    update (ren_l L) (ren_m m) id = (ren_l (fst (update L m id)), option_map ren_l (snd (update L m id))).
  Proof.
    destruct L as [lid lecu lnr lnc lst lmin lmax llast lres], m as [mi me mrt mts mh mc ml].
    unfold update, ren_l, ren_m, new_lc, with_resume, bump_nr, slightly_overlapping, end_time.
    cbn [m_creq m_ts m_rt m_has_ts m_ecu m_index m_lc l_id l_ecu l_nr l_nr_creq l_start l_min_ts l_max_ts l_last_rt l_resume].
    repeat match goal with
           | |- context [if ?c then _ else _] => destruct c
           end; reflexivity.
  Qed.

  Lemma update_ecu L m id : S (l_ecu L) -> S (m_ecu m) ->
    S (l_ecu (fst (update L m id))) /\ match snd (update L m id) with Some Ln => S (l_ecu Ln) | None => True end.
  Proof.
    intros HL Hm. unfold update.
    repeat match goal with
           | |- context [if ?c then _ else _] => destruct c
           end; cbn; auto.
  Qed.

  Lemma confirmable_ren m L : S (m_ecu m) -> S (l_ecu L) -> confirmable (ren_m m) (ren_l L) = confirmable m L.
  Proof.
    intros Hm HL. unfold confirmable. cbn [ren_m ren_l m_rt m_ts m_ecu l_start l_ecu l_max_ts l_min_ts].
    change (end_time (ren_l L)) with (end_time L).
    replace (f (l_ecu L) =? f (m_ecu m)) with (l_ecu L =? m_ecu m) by (symmetry; apply feqb; assumption).
    reflexivity.
  Qed.

  (* ---------------------------------------------------------------- ecu map *)
  Lemma lookup_ren e em : S e -> ok_em em -> lookup (f e) (ren_em em) = map ren_l (lookup e em).
  Proof.
    intros He. induction em as [|[k v] r IH]; intros Hok; cbn; [reflexivity|].
    inversion Hok as [|? ? [Hk Hv] Hr]; subst. cbn in Hk. rewrite (feqb k e Hk He).
    destruct (N.eqb k e); [reflexivity|apply IH; exact Hr].
  Qed.

  Lemma lookup_ok e em : ok_em em -> ok_ls (lookup e em).
  Proof.
    induction em as [|[k v] r IH]; intros Hok; cbn; [constructor|].
    inversion Hok as [|? ? [Hk Hv] Hr]; subst. destruct (N.eqb k e); [exact Hv|apply IH; exact Hr].
  Qed.

  Lemma store_ren e v em : S e -> ok_em em -> store (f e) (map ren_l v) (ren_em em) = ren_em (store e v em).
  Proof.
    intros He. unfold ren_em. induction em as [|[k w] r IH]; intros Hok; cbn; [reflexivity|].
    inversion Hok as [|? ? [Hk Hv] Hr]; subst. cbn in Hk. rewrite (feqb k e Hk He).
    destruct (N.eqb k e); cbn; [reflexivity|]. rewrite IH by exact Hr. reflexivity.
  Qed.

  Lemma store_ok e v em : S e -> ok_ls v -> ok_em em -> ok_em (store e v em).
  Proof.
    intros He Hv. induction em as [|[k w] r IH]; intros Hok; cbn.
    - constructor; [split; assumption|constructor].
    - inversion Hok as [|? ? [Hk Hw] Hr]; subst. cbn in Hk, Hw. destruct (N.eqb k e).
      + constructor; [cbn; split; assumption|exact Hr].
      + constructor; [cbn; split; assumption|apply IH; exact Hr].
  Qed.

  Lemma all_lcs_ren em : all_lcs (ren_em em) = map ren_l (all_lcs em).
  Proof.
    unfold all_lcs, ren_em. induction em as [|[k v] r IH]; cbn; [reflexivity|].
    rewrite IH, map_app, map_rev. reflexivity.
  Qed.

  Lemma all_lcs_ok em : ok_em em -> ok_ls (all_lcs em).
  Proof.
    unfold all_lcs, ok_ls. induction em as [|[k v] r IH]; intros Hok; cbn; [constructor|].
    inversion Hok as [|? ? [Hk Hv] Hr]; subst. apply Forall_app. split; [|apply IH; exact Hr].
    apply Forall_rev. exact Hv.
  Qed.

  (* ---------------------------------------------------------------- queue *)
  Lemma relabel_ren a b q : relabel a b (map ren_m q) = map ren_m (relabel a b q).
  Proof.
    unfold relabel. rewrite !map_map. apply map_ext. intros m. cbn [ren_m m_lc].
    destruct (N.eqb (m_lc m) a); reflexivity.
  Qed.

  Lemma count_lc_ren i q : count_lc i (map ren_m q) = count_lc i q.
  Proof.
    unfold count_lc. f_equal. induction q as [|m r IH]; cbn; [reflexivity|].
    destruct (N.eqb (m_lc m) i); cbn; rewrite IH; reflexivity.
  Qed.

  Lemma flush_marks_ren q : forall last tr, flush_marks last (map ren_m q) tr = flush_marks last q tr.
  Proof.
    induction q as [|m r IH]; intros last tr; cbn; [reflexivity|].
    destruct (N.eqb (m_lc m) last); apply IH.
  Qed.

  Lemma release_ren buf q : forall prune tr,
    release prune buf (map ren_m q) tr =
    (map ren_m (fst (fst (release prune buf q tr))), map ren_m (snd (fst (release prune buf q tr))), snd (release prune buf q tr)).
  Proof.
    induction q as [|m r IH]; intros prune tr; cbn [map release]; [reflexivity|].
    cbn [ren_m m_lc]. destruct (N.eqb (m_lc m) prune).
    - rewrite IH. destruct (release prune buf r tr) as [[o q'] tr']. reflexivity.
    - destruct (negb (inb (m_lc m) buf)).
      + rewrite IH. destruct (release (m_lc m) buf r (mark (m_lc m) tr)) as [[o q'] tr']. reflexivity.
      + reflexivity.
  Qed.

  (* ---------------------------------------------------------------- published table *)
  Lemma tbl_remove_ren id t : tbl_remove id (ren_tbl t) = ren_tbl (tbl_remove id t).
  Proof.
    unfold ren_tbl. induction t as [|[k v] r IH]; cbn; [reflexivity|]. destruct (N.eqb k id); cbn; rewrite IH; reflexivity.
  Qed.

  Lemma apply_op_ren t o : apply_op (ren_tbl t) (ren_op o) = ren_tbl (apply_op t o).
  Proof.
    destruct o as [id L|id]; cbn.
    - unfold tbl_set. rewrite tbl_remove_ren. unfold ren_tbl. rewrite map_app. reflexivity.
    - apply tbl_remove_ren.
  Qed.

  Lemma refresh_ren p : forall t, refresh (ren_tbl t) (map ren_op p) = ren_tbl (refresh t p).
  Proof.
    unfold refresh. induction p as [|o r IH]; intros t; cbn; [reflexivity|].
    rewrite apply_op_ren. apply IH.
  Qed.

  Lemma marked_updates_ren em tr : marked_updates (ren_em em) tr = map ren_op (marked_updates em tr).
  Proof.
    unfold marked_updates. rewrite all_lcs_ren.
    induction (all_lcs em) as [|L r IH]; cbn; [reflexivity|].
    destruct (inb (l_id L) tr); cbn; rewrite IH; reflexivity.
  Qed.

  (* ---------------------------------------------------------------- phase 2 *)
  Lemma confirm_pass_ren m ls : S (m_ecu m) -> ok_ls ls -> forall c,
    confirm_pass (ren_m m) (map ren_l ls) (ren_c c) = ren_c (confirm_pass m ls c).
  Proof.
    intros Hm. induction ls as [|L r IH]; intros Hok c; cbn [map confirm_pass]; [reflexivity|].
    inversion Hok as [|? ? HL Hr]; subst.
    rewrite (confirmable_ren m L Hm HL). cbn [ren_l l_id ren_c c_buf].
    destruct (inb (l_id L) (c_buf c) && confirmable m L); [|apply IH; exact Hr].
    cbn [ren_c c_q c_tr c_vis c_pend c_out c_buf]. rewrite release_ren.
    destruct (release (l_id L) (remove_id (l_id L) (c_buf c)) (c_q c) (c_tr c)) as [[o q'] tr'] eqn:Er. cbn [fst snd].
    rewrite <- (IH Hr). f_equal. unfold ren_c. cbn [c_buf c_vis c_pend c_q c_tr c_out].
    assert (Ev : refresh (ren_tbl (c_vis c)) (map ren_op (c_pend c) ++ [PUpdate (l_id L) (ren_l L)]) =
                 ren_tbl (refresh (c_vis c) (c_pend c ++ [PUpdate (l_id L) L]))).
    { rewrite <- refresh_ren, map_app. reflexivity. }
    rewrite Ev. f_equal. rewrite map_app, !map_map. reflexivity.
  Qed.

  Lemma phase2_ren d p : S (m_ecu (p_msg p)) -> ok_em (p_emap p) ->
    phase2 (ren_d d) (ren_p p) = (ren_c (fst (phase2 d p)), snd (phase2 d p)).
  Proof.
    intros Hm Hok. unfold phase2. cbn [ren_p p_msg p_buf p_pend p_q p_tr p_emap ren_d vis next_check ren_m m_rt m_ts].
    destruct (next_check d <? m_rt (p_msg p)); [|reflexivity].
    destruct (m_ts (p_msg p) + MAX_BUFFERING_DELAY <? m_rt (p_msg p)); [|reflexivity].
    cbn [fst snd]. f_equal. rewrite all_lcs_ren.
    exact (confirm_pass_ren (p_msg p) (all_lcs (p_emap p)) Hm (all_lcs_ok _ Hok)
             {| c_buf := p_buf p; c_vis := vis d; c_pend := p_pend p; c_q := p_q p; c_tr := p_tr p; c_out := [] |}).
  Qed.

  (* ---------------------------------------------------------------- phase 1 *)
  Lemma ok_ls_app a b : ok_ls a -> ok_ls b -> ok_ls (a ++ b).
  Proof. intros Ha Hb. apply Forall_app. split; assumption. Qed.
  Lemma ok_ls_rev a : ok_ls a -> ok_ls (rev a).
  Proof. apply Forall_rev. Qed.

  Lemma phase1_ren d m0 : S (m_ecu m0) -> ok_em (emap d) ->
    phase1 (ren_d d) (ren_m m0) = ren_p (phase1 d m0) /\ ok_em (p_emap (phase1 d m0)) /\
    m_ecu (p_msg (phase1 d m0)) = m_ecu m0.
  Proof.
    intros Hm Hok. unfold phase1.
    cbn [ren_d emap queue buffered next_id to_refresh pend ren_m m_ecu].
    rewrite (lookup_ren (m_ecu m0) (emap d) Hm Hok), <- map_rev.
    pose proof (ok_ls_rev _ (lookup_ok (m_ecu m0) (emap d) Hok)) as Hl.
    destruct (rev (lookup (m_ecu m0) (emap d))) as [|L prevs]; cbn [map].
    - (* first message of this ECU *)
      split; [|split; [|reflexivity]].
      + unfold ren_p. cbn [p_emap p_q p_buf p_nid p_msg p_out p_tr p_pend]. f_equal.
        change [new_lc (next_id d) (ren_m m0)] with (map ren_l [new_lc (next_id d) m0]).
        change (f (m_ecu m0)) with (f (m_ecu m0)). apply (store_ren _ _ _ Hm Hok).
      + cbn [p_emap]. apply store_ok; [exact Hm| |exact Hok]. constructor; [exact Hm|constructor].
    - inversion Hl as [|? ? HL Hp]; subst.
      rewrite update_ren. destruct (update_ecu L m0 (next_id d) HL Hm) as [HL' HLn].
      destruct (update L m0 (next_id d)) as [L' [Ln|]]; cbn [fst snd option_map] in *.
      + (* a new lifecycle *)
        split; [|split; [|reflexivity]].
        * unfold ren_p. cbn [p_emap p_q p_buf p_nid p_msg p_out p_tr p_pend ren_l l_id]. f_equal.
          rewrite <- map_rev.
          change (map ren_l (rev prevs) ++ [ren_l L'; ren_l Ln]) with (map ren_l (rev prevs) ++ map ren_l [L'; Ln]).
          rewrite <- map_app. apply (store_ren _ _ _ Hm Hok).
        * cbn [p_emap]. apply store_ok; [exact Hm| |exact Hok].
          apply ok_ls_app; [apply ok_ls_rev; exact Hp|]. constructor; [exact HL'|constructor; [exact HLn|constructor]].
      + (* message joins L *)
        assert (Enm :
                   {| p_emap := store (f (m_ecu m0)) (rev (map ren_l prevs) ++ [ren_l L']) (ren_em (emap d));
                      p_q := map ren_m (queue d); p_buf := buffered d; p_nid := next_id d;
                      p_msg := set_lc (ren_m m0) (l_id (ren_l L')); p_out := [];
                      p_tr := to_refresh d; p_pend := map ren_op (pend d) |} =
                   ren_p {| p_emap := store (m_ecu m0) (rev prevs ++ [L']) (emap d); p_q := queue d; p_buf := buffered d;
                            p_nid := next_id d; p_msg := set_lc m0 (l_id L'); p_out := [];
                            p_tr := to_refresh d; p_pend := pend d |}).
        { unfold ren_p. cbn [p_emap p_q p_buf p_nid p_msg p_out p_tr p_pend map]. f_equal.
          rewrite <- map_rev. change [ren_l L'] with (map ren_l [L']). rewrite <- map_app. apply (store_ren _ _ _ Hm Hok). }
        assert (Hnm_ok : ok_em (store (m_ecu m0) (rev prevs ++ [L']) (emap d))).
        { apply store_ok; [exact Hm| |exact Hok]. apply ok_ls_app; [apply ok_ls_rev; exact Hp|constructor; [exact HL'|constructor]]. }
        destruct prevs as [|P pp]; cbn [map].
        * split; [exact Enm|split; [exact Hnm_ok|reflexivity]].
        * inversion Hp as [|? ? HP Hpp]; subst.
          change (needs_merge (ren_l P) (ren_l L')) with (needs_merge P L').
          cbn [ren_l l_id l_nr]. rewrite count_lc_ren.
          destruct (needs_merge P L' && (inb (l_id P) (buffered d) || (count_lc (l_id L') (queue d) + 1 =? l_nr L'))).
          -- (* merge *)
             rewrite relabel_ren.
             assert (Est : store (f (m_ecu m0)) (rev (map ren_l pp) ++ [merge (ren_l P) (ren_l L')]) (ren_em (emap d)) =
                           ren_em (store (m_ecu m0) (rev pp ++ [merge P L']) (emap d))).
             { rewrite <- map_rev. change [merge (ren_l P) (ren_l L')] with (map ren_l [merge P L']).
               rewrite <- map_app. apply (store_ren _ _ _ Hm Hok). }
             assert (Hm_ok : ok_em (store (m_ecu m0) (rev pp ++ [merge P L']) (emap d))).
             { apply store_ok; [exact Hm| |exact Hok]. apply ok_ls_app; [apply ok_ls_rev; exact Hpp|].
               constructor; [exact HP|constructor]. }
             assert (Epd : (if inb (l_id L') (buffered d) then map ren_op (pend d) else map ren_op (pend d) ++ [PEmpty (l_id L')]) =
                           map ren_op (if inb (l_id L') (buffered d) then pend d else pend d ++ [PEmpty (l_id L')])).
             { destruct (inb (l_id L') (buffered d)); [reflexivity|rewrite map_app; reflexivity]. }
             rewrite Est, Epd.
             destruct (remove_id (l_id L') (buffered d)) as [|b0 br].
             ++ split; [|split; [exact Hm_ok|reflexivity]].
                unfold ren_p. cbn [p_emap p_q p_buf p_nid p_msg p_out p_tr p_pend map]. rewrite flush_marks_ren. reflexivity.
             ++ split; [|split; [exact Hm_ok|reflexivity]]. reflexivity.
          -- split; [exact Enm|split; [exact Hnm_ok|reflexivity]].
  Qed.

  (* ---------------------------------------------------------------- one message, a stream, the end *)
  Lemma regular_refresh_ren force em li lr v pd tr :
    regular_refresh force (ren_em em) li lr (ren_tbl v) (map ren_op pd) tr =
    (let '(v', pd', tr', lr') := regular_refresh force em li lr v pd tr in (ren_tbl v', map ren_op pd', tr', lr')).
  Proof.
    unfold regular_refresh. destruct (force || (lr + 100000 <? li)); [|reflexivity].
    rewrite marked_updates_ren, <- map_app, refresh_ren. reflexivity.
  Qed.

  Lemma step_ren d m0 : S (m_ecu m0) -> ok_em (emap d) ->
    step (ren_d d) (ren_m m0) = (ren_d (fst (step d m0)), map ren_del (snd (step d m0))) /\ ok_em (emap (fst (step d m0))).
  Proof.
    intros Hm Hok. destruct (phase1_ren d m0 Hm Hok) as (E1 & Hok1 & Hecu).
    unfold step. rewrite E1.
    assert (Hm1 : S (m_ecu (p_msg (phase1 d m0)))) by (rewrite Hecu; exact Hm).
    rewrite (phase2_ren d (phase1 d m0) Hm1 Hok1).
    destruct (phase2 d (phase1 d m0)) as [c nc]. cbn [fst snd].
    set (p := phase1 d m0) in *.
    cbn [ren_c c_buf c_tr c_q c_vis c_pend c_out ren_p p_msg p_out p_emap p_nid ren_m m_lc m_index ren_d vis last_reg].
    destruct (c_buf c) as [|b0 br].
    - rewrite regular_refresh_ren.
      destruct (regular_refresh false (p_emap p) (m_index m0) (last_reg d) (c_vis c) (c_pend c) (mark (m_lc (p_msg p)) (c_tr c)))
        as [[[v pd] tr2] lr].
      cbn [fst snd emap]. split; [|exact Hok1]. f_equal.
      rewrite !map_app, !map_map. reflexivity.
    - cbn [fst snd emap]. split; [|exact Hok1]. f_equal.
      + unfold ren_d. cbn [emap queue buffered next_id next_check last_idx to_refresh last_reg vis pend].
        rewrite map_app. reflexivity.
      + rewrite !map_app, !map_map. reflexivity.
  Qed.

  Lemma run_ren ms : forall d, Forall (fun m => S (m_ecu m)) ms -> ok_em (emap d) ->
    run (ren_d d) (map ren_m ms) = (ren_d (fst (run d ms)), map ren_del (snd (run d ms))) /\ ok_em (emap (fst (run d ms))).
  Proof.
    induction ms as [|m r IH]; intros d Hms Hok; cbn [map run].
    - split; [reflexivity|exact Hok].
    - inversion Hms as [|? ? Hm Hr]; subst.
      destruct (step_ren d m Hm Hok) as [Es Hok1]. rewrite Es.
      destruct (step d m) as [d1 o1]. cbn [fst snd] in *.
      destruct (IH d1 Hr Hok1) as [Er Hok2]. rewrite Er.
      destruct (run d1 r) as [d2 o2]. cbn [fst snd] in *.
      split; [|exact Hok2]. rewrite map_app. reflexivity.
  Qed.

  Lemma filter_ren_l (P : N -> bool) ls :
    filter (fun L => P (l_id L)) (map ren_l ls) = map ren_l (filter (fun L => P (l_id L)) ls).
  Proof.
    induction ls as [|L r IH]; cbn; [reflexivity|]. destruct (P (l_id L)); cbn; rewrite IH; reflexivity.
  Qed.

  Lemma fold_mark_ren q : forall tr,
    fold_left (fun t m => mark (m_lc m) t) (map ren_m q) tr = fold_left (fun t m => mark (m_lc m) t) q tr.
  Proof. induction q as [|m r IH]; intros tr; cbn; [reflexivity|apply IH]. Qed.

  Lemma finish_ren d :
    finish (ren_d d) = (ren_tbl (fst (finish d)), map ren_del (snd (finish d))).
  Proof.
    unfold finish. cbn [ren_d emap buffered vis pend queue to_refresh last_idx last_reg].
    rewrite all_lcs_ren, (filter_ren_l (fun i => inb i (buffered d))), map_map.
    assert (Eu : map (fun x => PUpdate (l_id (ren_l x)) (ren_l x)) (filter (fun L => inb (l_id L) (buffered d)) (all_lcs (emap d))) =
                 map ren_op (map (fun L => PUpdate (l_id L) L) (filter (fun L => inb (l_id L) (buffered d)) (all_lcs (emap d))))).
    { rewrite map_map. reflexivity. }
    rewrite Eu, <- map_app, refresh_ren, fold_mark_ren.
    change (@nil pend_op) with (map ren_op []) at 1.
    rewrite regular_refresh_ren.
    destruct (regular_refresh true (emap d) (last_idx d) (last_reg d) _ [] _) as [[[v2 pd2] tr2] lr2].
    cbn [fst snd]. f_equal. rewrite !map_map. reflexivity.
  Qed.

  (* the detector commutes with the renaming: deliveries (message + published table at that instant) and the
     final table are the renamed ones — same lifecycle ids, boundaries, counts; only the ECU label differs *)
  Theorem detect_equivariant first_id ms :
    Forall (fun m => S (m_ecu m)) ms ->
    detect first_id [] (map ren_m ms) =
    (map ren_del (fst (detect first_id [] ms)), ren_tbl (snd (detect first_id [] ms))).
  Proof.
    intros Hms. unfold detect.
    destruct (run_ren ms (init first_id []) Hms (Forall_nil _)) as [Er _].
    change (ren_d (init first_id [])) with (init first_id []) in Er. rewrite Er.
    destruct (run (init first_id []) ms) as [d o1]. cbn [fst snd].
    rewrite finish_ren. destruct (finish d) as [t o2]. cbn [fst snd].
    rewrite map_app. reflexivity.
  Qed.
End Equivariance.
