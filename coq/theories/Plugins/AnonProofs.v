(* C19 — proofs about the anonymiser model (Plugins/Anon.v). *)
From Coq Require Import List NArith Bool Lia Arith PeanoNat.
From AdltV Require Import Base.Res Base.MachInt Plugins.Chain Plugins.ChainProofs Plugins.Anon.
Import ListNotations.
Open Scope N_scope.

(* ================================================================ 1. totality: no panic *)
Lemma slice_ok l a b : a <= b -> b <= blen l -> exists r, slice l a b = Ok r.
Proof.
  intros H1 H2. unfold slice.
  assert (E : (a <=? b) && (b <=? blen l) = true) by (apply andb_true_iff; split; apply N.leb_le; assumption).
  rewrite E. eexists; reflexivity.
Qed.

Lemma fixed_arg_ok p len : exists r, fixed_arg p len = Ok r.
Proof.
  unfold fixed_arg. destruct ((0 <? len) && (4 + len <=? blen p)) eqn:E; [|eexists; reflexivity].
  apply andb_true_iff in E. destruct E as [E1 E2]. apply N.leb_le in E2.
  destruct (slice_ok p 4 (4 + len)) as [r Hr]; [lia|exact E2|]. rewrite Hr. cbn. eexists; reflexivity.
Qed.

Lemma first_arg_ok v big p : exists r, first_arg v big p = Ok r.
Proof.
  unfold first_arg. destruct v.
  - destruct (4 <=? blen p) eqn:E4; [|eexists; reflexivity]. apply N.leb_le in E4.
    destruct (slice_ok p 0 4) as [tib Ht]; [lia|exact E4|]. rewrite Ht. cbn [bind]. cbv zeta.
    destruct (flag (uint_of big tib) 2048); [eexists; reflexivity|].
    destruct (flag (uint_of big tib) 4096); [eexists; reflexivity|].
    destruct (flag (uint_of big tib) 16).
    { destruct (tyle_len (uint_of big tib) =? 1); [apply fixed_arg_ok|].
      destruct (tyle_len (uint_of big tib) =? 0); [apply fixed_arg_ok|eexists; reflexivity]. }
    destruct (flag (uint_of big tib) 96).
    { destruct (tyle_len (uint_of big tib) <? 1); [eexists; reflexivity|apply fixed_arg_ok]. }
    destruct (flag (uint_of big tib) 128).
    { destruct (tyle_len (uint_of big tib) <? 2); [eexists; reflexivity|apply fixed_arg_ok]. }
    destruct (flag (uint_of big tib) 1536); [|eexists; reflexivity].
    destruct (blen p <? 6) eqn:E6; [eexists; reflexivity|]. apply N.ltb_ge in E6.
    destruct (slice_ok p 4 6) as [lb Hl]; [lia|exact E6|]. rewrite Hl. cbn [bind]. cbv zeta.
    destruct (6 + uint_of big lb <=? blen p) eqn:El; [|eexists; reflexivity]. apply N.leb_le in El.
    destruct (slice_ok p 6 (6 + uint_of big lb)) as [r Hr]; [lia|exact El|]. rewrite Hr. cbn. eexists; reflexivity.
  - destruct (4 <=? blen p) eqn:E4; [|eexists; reflexivity]. apply N.leb_le in E4.
    destruct (slice_ok p 0 4) as [r Hr]; [lia|exact E4|]. rewrite Hr. cbn. eexists; reflexivity.
Qed.

Lemma ctrl_message_id_ok big arg : exists r, ctrl_message_id true big arg = Ok r.
Proof.
  unfold ctrl_message_id. destruct arg as [raw|]; [|eexists; reflexivity].
  destruct (4 <=? blen raw) eqn:E4; [|eexists; reflexivity]. apply N.leb_le in E4.
  destruct (slice_ok raw 0 4) as [r Hr]; [lia|exact E4|]. rewrite Hr. cbn. eexists; reflexivity.
Qed.

Lemma ctrl_msgs_anon_ok m : exists r, ctrl_msgs_anon true m = Ok r.
Proof.
  unfold ctrl_msgs_anon. destruct (is_ctrl_response m); [|eexists; reflexivity].
  destruct (first_arg_ok (is_verbose m) (is_big_endian m) (m_payload m)) as [a Ha]. rewrite Ha. cbn [bind].
  destruct (ctrl_message_id_ok (is_big_endian m) a) as [id Hid]. rewrite Hid. cbn [bind].
  destruct (id =? 19); [eexists; reflexivity|]. destruct (id =? 3); eexists; reflexivity.
Qed.

Lemma payload_anon_ok m : exists r, payload_anon m = Ok r.
Proof.
  unfold payload_anon. destruct (negb (is_ctrl_request m) && negb (is_ctrl_response m)); [|eexists; reflexivity].
  destruct (negb (is_verbose m)); [|eexists; reflexivity].
  destruct (4 <=? blen (m_payload m)) eqn:E4; [|eexists; reflexivity]. apply N.leb_le in E4.
  destruct (slice_ok (m_payload m) 0 4) as [r Hr]; [lia|exact E4|]. rewrite Hr. cbn. eexists; reflexivity.
Qed.

Theorem anon_step_ok st m : exists st' m', anon_step true st m = Ok (st', m').
Proof.
  unfold anon_step. destruct (ecu_anon st (m_ecu m)) as [st1 ecu']. cbv zeta.
  match goal with |- context [ctrl_msgs_anon true ?x] => destruct (ctrl_msgs_anon_ok x) as [p1 H1]; rewrite H1 end.
  cbn [bind].
  match goal with |- context [payload_anon ?x] => destruct (payload_anon_ok x) as [p2 H2]; rewrite H2 end.
  cbn [bind]. eexists. eexists. reflexivity.
Qed.

Theorem anon_run_ok ms : forall st, exists st' outs, anon_run true st ms = Ok (st', outs) /\ length outs = length ms.
Proof.
  induction ms as [|m rest IH]; intros st; cbn [anon_run].
  - exists st, []. split; reflexivity.
  - destruct (anon_step_ok st m) as (st1 & m1 & E1). rewrite E1. cbn [bind fst snd].
    destruct (IH st1) as (st2 & outs & E2 & L). rewrite E2. cbn [bind fst snd].
    exists st2, (m1 :: outs). split; [reflexivity|cbn; rewrite L; reflexivity].
Qed.

(* the code before the repair does panic: DESIGN Appendix A, C03-1 *)
Lemma anon_step_before_fix_panics :
  let m := {| m_index := 1; m_rtime := 1000000010; m_ecu := 1162040625; m_ts := 10; m_htyp := 49; m_mcnt := 0; m_len := 0;
              m_ext := Some {| e_vmm := 39; e_noar := 1; e_apid := 1095782449; e_ctid := 1129601073 |};
              m_payload := [17; 0; 0; 0; 1]; m_text := None; m_lc := 0 |} in
  anon_step false anon_init m = Panic site_unwrap /\ is_ok (anon_step true anon_init m) = true.
Proof. vm_compute. split; reflexivity. Qed.

(* ================================================================ 2. what a step keeps *)
Definition ext_kind_kept (a b : option ext_hdr) : Prop :=
  match a, b with
  | Some e, Some e' => e_vmm e' = e_vmm e /\ e_noar e' = e_noar e
  | None, None => True
  | _, _ => False
  end.

Theorem anon_step_keeps ck st m st' m' :
  anon_step ck st m = Ok (st', m') ->
  m_index m' = m_index m /\ m_rtime m' = m_rtime m /\ m_ts m' = m_ts m /\
  m_htyp m' = m_htyp m /\ m_mcnt m' = m_mcnt m /\ m_len m' = m_len m /\
  m_lc m' = m_lc m /\ m_text m' = m_text m /\ ext_kind_kept (m_ext m) (m_ext m').
Proof.
  unfold anon_step. destruct (ecu_anon st (m_ecu m)) as [st1 ecu']. cbv zeta. intros E.
  apply bind_ok in E. destruct E as [p1 [_ E]]. apply bind_ok in E. destruct E as [p2 [_ E]].
  inversion E; subst; clear E. cbn. repeat split; auto.
  unfold ext_kind_kept. destruct (m_ext m) as [e|]; cbn; [|exact I].
  unfold apid_ctid_anon. destruct (tbl_get letter_A (e_apid e) (apid_tbl st1 ecu')) as [at' apid'].
  destruct (tbl_get letter_C (e_ctid e) (ctid_tbl st1 ecu' (e_apid e))) as [ct' ctid']. cbn. auto.
Qed.

Lemma ext_kind_kept_class m m' :
  ext_kind_kept (m_ext m) (m_ext m') ->
  is_ctrl_request m' = is_ctrl_request m /\ is_ctrl_response m' = is_ctrl_response m /\ is_verbose m' = is_verbose m.
Proof.
  unfold ext_kind_kept, is_ctrl_request, is_ctrl_response, is_verbose.
  destruct (m_ext m) as [e|], (m_ext m') as [e'|]; try contradiction; auto.
  intros [H1 H2]. rewrite H1. auto.
Qed.

(* ================================================================ 3. association lists *)
Section LookupBy.
  Context {K V : Type} (eqb : K -> K -> bool).
  Hypothesis eqb_spec : forall a b, eqb a b = true <-> a = b.

  Lemma eqb_refl' k : eqb k k = true. Proof. apply eqb_spec. reflexivity. Qed.
  Lemma eqb_neq k k' : k <> k' -> eqb k k' = false.
  Proof. intros H. destruct (eqb k k') eqn:E; [|reflexivity]. apply eqb_spec in E. contradiction. Qed.

  Lemma lookup_set_same k (v : V) l : lookup_by eqb k (set_by eqb k v l) = Some v.
  Proof.
    induction l as [|[k' v'] r IH]; cbn.
    - rewrite eqb_refl'. reflexivity.
    - destruct (eqb k k') eqn:E; cbn; [rewrite eqb_refl'; reflexivity|rewrite E; exact IH].
  Qed.

  Lemma lookup_set_other k k2 (v : V) l : k2 <> k -> lookup_by eqb k2 (set_by eqb k v l) = lookup_by eqb k2 l.
  Proof.
    intros Hn. induction l as [|[k' v'] r IH]; cbn.
    - rewrite (eqb_neq k2 k Hn). reflexivity.
    - destruct (eqb k k') eqn:E; cbn.
      + apply eqb_spec in E. subst k'. rewrite (eqb_neq k2 k Hn). reflexivity.
      + destruct (eqb k2 k'); [reflexivity|exact IH].
  Qed.

  Lemma set_by_Forall (Q : V -> Prop) k v l :
    Forall (fun kt => Q (snd kt)) l -> Q v -> Forall (fun kt => Q (snd kt)) (set_by eqb k v l).
  Proof.
    intros HF Hv. induction HF as [|[k' v'] r Hh Hr IH]; cbn.
    - constructor; [exact Hv|constructor].
    - destruct (eqb k k'); constructor; auto.
  Qed.

  Lemma lookup_by_Forall (Q : V -> Prop) k v l :
    Forall (fun kt => Q (snd kt)) l -> lookup_by eqb k l = Some v -> Q v.
  Proof.
    intros HF. induction HF as [|[k' v'] r Hh Hr IH]; cbn; [discriminate|].
    destruct (eqb k k'); [intros E; inversion E; subst; exact Hh|exact IH].
  Qed.
End LookupBy.

Lemma Neqb_spec a b : N.eqb a b = true <-> a = b. Proof. apply N.eqb_eq. Qed.
Lemma pair_eqb_spec a b : pair_eqb a b = true <-> a = b.
Proof.
  destruct a as [a1 a2], b as [b1 b2]. unfold pair_eqb. cbn. rewrite andb_true_iff, !N.eqb_eq. split.
  - intros [? ?]; subst; reflexivity.
  - intros H; inversion H; auto.
Qed.

(* ---------------------------------------------------------------- pseudonym tables *)
Lemma alookup_app_some k t x p : alookup k t = Some p -> alookup k (t ++ x) = Some p.
Proof.
  unfold alookup. induction t as [|[k' v] r IH]; cbn; [discriminate|].
  destruct (N.eqb k k'); [auto|exact IH].
Qed.

Lemma alookup_app_none k t p : alookup k t = None -> alookup k (t ++ [(k, p)]) = Some p.
Proof.
  unfold alookup. induction t as [|[k' v] r IH]; cbn.
  - rewrite N.eqb_refl. reflexivity.
  - destruct (N.eqb k k'); [discriminate|exact IH].
Qed.

Lemma alookup_nth k t p : alookup k t = Some p -> exists i, nth_error t i = Some (k, p).
Proof.
  unfold alookup. induction t as [|[k' v] r IH]; cbn; [discriminate|].
  destruct (N.eqb k k') eqn:E.
  - intros H. inversion H; subst. apply N.eqb_eq in E. subst. exists 0%nat. reflexivity.
  - intros H. destruct (IH H) as [i Hi]. exists (S i). exact Hi.
Qed.

Lemma alookup_in k t p : alookup k t = Some p -> In k (map fst t).
Proof.
  intros H. destruct (alookup_nth k t p H) as [i Hi]. apply nth_error_In in Hi.
  apply in_map_iff. exists (k, p). auto.
Qed.

Lemma alookup_none_notin k t : alookup k t = None -> ~ In k (map fst t).
Proof.
  unfold alookup. induction t as [|[k' v] r IH]; cbn; [auto|].
  destruct (N.eqb k k') eqn:E; [discriminate|]. apply N.eqb_neq in E.
  intros H [H1|H1]; [congruence|exact (IH H H1)].
Qed.

Lemma NoDup_app_single {A} (l : list A) x : NoDup l -> ~ In x l -> NoDup (l ++ [x]).
Proof.
  induction l as [|y l IH]; cbn; intros ND Hn.
  - constructor; [auto|constructor].
  - inversion ND; subst. constructor.
    + rewrite in_app_iff. cbn. intros [H|[H|[]]]; [contradiction|subst; apply Hn; left; reflexivity].
    + apply IH; [assumption|]. intros H; apply Hn; right; exact H.
Qed.

(* entry number i (from 0) carries pseudonym number i + 1 *)
Definition WFT (letter : N) (t : tbl) : Prop :=
  forall i k p, nth_error t i = Some (k, p) -> p = pseudo letter (N.of_nat i + 1).

Lemma WFT_nil l : WFT l []. Proof. intros [|i] k p H; discriminate. Qed.

Lemma tbl_get_spec letter k t t' p :
  tbl_get letter k t = (t', p) ->
  alookup k t' = Some p /\ (exists x, t' = t ++ x) /\ (WFT letter t -> WFT letter t') /\
  (forall k', In k' (map fst t') <-> In k' (map fst t) \/ k' = k) /\
  (NoDup (map fst t) -> NoDup (map fst t')).
Proof.
  unfold tbl_get. destruct (alookup k t) as [p0|] eqn:E; intros H; inversion H; subst; clear H.
  - split; [exact E|]. split; [exists []; rewrite app_nil_r; reflexivity|]. split; [auto|]. split; [|auto].
    intros k'. split; [auto|]. intros [H|H]; [exact H|]. subst. eapply alookup_in; eauto.
  - split; [apply alookup_app_none; exact E|]. split; [eexists; reflexivity|]. split; [|split].
    + intros W i k' p' Hn. destruct (Nat.lt_ge_cases i (length t)) as [Hl|Hl].
      * rewrite nth_error_app1 in Hn by exact Hl. eapply W; eauto.
      * rewrite nth_error_app2 in Hn by exact Hl. destruct (i - length t)%nat as [|j] eqn:Ej.
        -- cbn [nth_error] in Hn. inversion Hn; subst. unfold blen. f_equal. lia.
        -- cbn [nth_error] in Hn. destruct j; discriminate.
    + intros k'. rewrite map_app, in_app_iff. cbn. intuition.
    + intros ND. rewrite map_app. cbn. apply NoDup_app_single; [exact ND|]. apply alookup_none_notin. exact E.
Qed.

(* ---------------------------------------------------------------- pseudonyms 1..999 are pairwise distinct *)
(* decoding of "Xddd" back to the number ddd *)
Definition unpseudo (p : N) : N :=
  let d := p mod 16777216 in (d / 65536 - 48) * 100 + ((d / 256) mod 256 - 48) * 10 + (d mod 256 - 48).

Definition LetterOK (letter : N) : Prop := forall n, n < 1000 -> unpseudo (pseudo letter n) = n.

Definition letter_okb (letter : N) : bool :=
  forallb (fun i => unpseudo (pseudo letter (N.of_nat i)) =? N.of_nat i) (seq 0 1000).

Lemma letter_okb_sound letter : letter_okb letter = true -> LetterOK letter.
Proof.
  unfold letter_okb. rewrite forallb_forall. intros H n Hn.
  specialize (H (N.to_nat n)). rewrite N2Nat.id in H. apply N.eqb_eq. apply H.
  apply in_seq. lia.
Qed.

(* exhaustive over the finite domain 0..999 (not a sample) *)
Lemma letter_E_ok : LetterOK letter_E. Proof. apply letter_okb_sound. vm_compute. reflexivity. Qed.
Lemma letter_A_ok : LetterOK letter_A. Proof. apply letter_okb_sound. vm_compute. reflexivity. Qed.
Lemma letter_C_ok : LetterOK letter_C. Proof. apply letter_okb_sound. vm_compute. reflexivity. Qed.

Lemma pseudo_inj letter n1 n2 : LetterOK letter -> n1 < 1000 -> n2 < 1000 -> pseudo letter n1 = pseudo letter n2 -> n1 = n2.
Proof. intros L H1 H2 E. rewrite <- (L n1 H1), <- (L n2 H2), E. reflexivity. Qed.

Lemma WFT_injective letter t : LetterOK letter -> WFT letter t -> blen t <= capacity -> tbl_injective t.
Proof.
  intros L W Hc k1 k2 p H1 H2.
  destruct (alookup_nth _ _ _ H1) as [i1 Hi1]. destruct (alookup_nth _ _ _ H2) as [i2 Hi2].
  pose proof (W _ _ _ Hi1) as P1. pose proof (W _ _ _ Hi2) as P2.
  assert (L1 : (i1 < length t)%nat) by (apply nth_error_Some; rewrite Hi1; discriminate).
  assert (L2 : (i2 < length t)%nat) by (apply nth_error_Some; rewrite Hi2; discriminate).
  unfold blen, capacity in Hc.
  assert (E : N.of_nat i1 + 1 = N.of_nat i2 + 1) by (apply (pseudo_inj letter); [exact L|lia|lia|congruence]).
  assert (i1 = i2) by lia. subst i2. rewrite Hi1 in Hi2. inversion Hi2. reflexivity.
Qed.

(* the capacity is tight: entry 1000 repeats the pseudonym of entry 100 *)
Lemma pseudo_wraps : pseudo letter_E 1000 = pseudo letter_E 100 /\ pseudo letter_A 1000 = pseudo letter_A 100 /\ pseudo letter_C 1000 = pseudo letter_C 100.
Proof. vm_compute. repeat split. Qed.

(* ================================================================ 4. the state: invariant and monotonicity *)
Definition WFS (st : anon_st) : Prop :=
  WFT letter_E (a_ecus st) /\
  Forall (fun kt => WFT letter_A (snd kt)) (a_apids st) /\
  Forall (fun kt => WFT letter_C (snd kt)) (a_ctids st).

Lemma WFS_init : WFS anon_init.
Proof. split; [apply WFT_nil|split; constructor]. Qed.

Lemma apid_tbl_WFT st E : WFS st -> WFT letter_A (apid_tbl st E).
Proof.
  intros (_ & H & _). unfold apid_tbl. destruct (lookup_by N.eqb E (a_apids st)) as [t|] eqn:El; [|apply WFT_nil].
  exact (lookup_by_Forall N.eqb (WFT letter_A) E t _ H El).
Qed.

Lemma ctid_tbl_WFT st E A : WFS st -> WFT letter_C (ctid_tbl st E A).
Proof.
  intros (_ & _ & H). unfold ctid_tbl. destruct (lookup_by pair_eqb (E, A) (a_ctids st)) as [t|] eqn:El; [|apply WFT_nil].
  exact (lookup_by_Forall pair_eqb (WFT letter_C) (E, A) t _ H El).
Qed.

(* the tables only grow: what was assigned stays assigned *)
Definition st_le (st st' : anon_st) : Prop :=
  (forall e p, ecu_of st e = Some p -> ecu_of st' e = Some p) /\
  (forall E A p, apid_of st E A = Some p -> apid_of st' E A = Some p) /\
  (forall E A C p, ctid_of st E A C = Some p -> ctid_of st' E A C = Some p).

Lemma st_le_refl st : st_le st st. Proof. repeat split; auto. Qed.
Lemma st_le_trans a b c : st_le a b -> st_le b c -> st_le a c.
Proof. intros (A1 & A2 & A3) (B1 & B2 & B3). repeat split; auto. Qed.

Lemma ecu_anon_spec st e st1 e' :
  ecu_anon st e = (st1, e') ->
  ecu_of st1 e = Some e' /\ st_le st st1 /\ (WFS st -> WFS st1) /\
  a_apids st1 = a_apids st /\ a_ctids st1 = a_ctids st /\
  (forall k, In k (map fst (a_ecus st1)) <-> In k (map fst (a_ecus st)) \/ k = e) /\
  (NoDup (map fst (a_ecus st)) -> NoDup (map fst (a_ecus st1))).
Proof.
  unfold ecu_anon. destruct (tbl_get letter_E e (a_ecus st)) as [t' p] eqn:Et. intros H; inversion H; subst; clear H.
  destruct (tbl_get_spec _ _ _ _ _ Et) as (H1 & [x Hx] & H3 & H4 & H5).
  split; [exact H1|]. split; [|split; [|cbn; auto]].
  - repeat split; auto. unfold ecu_of. cbn. intros k p Hk. rewrite Hx. apply alookup_app_some. exact Hk.
  - intros (W1 & W2 & W3). split; [cbn; auto|split; assumption].
Qed.

Lemma apid_tbl_set st E t E2 cts ecs :
  apid_tbl {| a_ecus := ecs; a_apids := set_by N.eqb E t (a_apids st); a_ctids := cts |} E2 =
  if N.eqb E2 E then t else apid_tbl st E2.
Proof.
  unfold apid_tbl. cbn. destruct (N.eqb E2 E) eqn:Ee.
  - apply N.eqb_eq in Ee. subst. rewrite (lookup_set_same N.eqb Neqb_spec). reflexivity.
  - apply N.eqb_neq in Ee. rewrite (lookup_set_other N.eqb Neqb_spec) by exact Ee. reflexivity.
Qed.

Lemma ctid_tbl_set st K t E2 A2 aps ecs :
  ctid_tbl {| a_ecus := ecs; a_apids := aps; a_ctids := set_by pair_eqb K t (a_ctids st) |} E2 A2 =
  if pair_eqb (E2, A2) K then t else ctid_tbl st E2 A2.
Proof.
  unfold ctid_tbl. cbn. destruct (pair_eqb (E2, A2) K) eqn:Ee.
  - apply pair_eqb_spec in Ee. subst. rewrite (lookup_set_same pair_eqb pair_eqb_spec). reflexivity.
  - assert ((E2, A2) <> K) by (intros Hc; apply pair_eqb_spec in Hc; congruence).
    rewrite (lookup_set_other pair_eqb pair_eqb_spec) by assumption. reflexivity.
Qed.

Lemma apid_ctid_anon_spec st E x st2 x' :
  apid_ctid_anon st E x = (st2, x') ->
  e_vmm x' = e_vmm x /\ e_noar x' = e_noar x /\
  apid_of st2 E (e_apid x) = Some (e_apid x') /\
  ctid_of st2 E (e_apid x) (e_ctid x) = Some (e_ctid x') /\
  st_le st st2 /\ (WFS st -> WFS st2) /\ a_ecus st2 = a_ecus st.
Proof.
  unfold apid_ctid_anon.
  destruct (tbl_get letter_A (e_apid x) (apid_tbl st E)) as [at' apid'] eqn:Ea.
  destruct (tbl_get letter_C (e_ctid x) (ctid_tbl st E (e_apid x))) as [ct' ctid'] eqn:Ec.
  intros H; inversion H; subst; clear H. cbn [e_vmm e_noar e_apid e_ctid a_ecus].
  destruct (tbl_get_spec _ _ _ _ _ Ea) as (A1 & [xa Hxa] & A3 & _ & _).
  destruct (tbl_get_spec _ _ _ _ _ Ec) as (C1 & [xc Hxc] & C3 & _ & _).
  split; [reflexivity|]. split; [reflexivity|].
  split; [unfold apid_of; rewrite apid_tbl_set, N.eqb_refl; exact A1|].
  split; [unfold ctid_of; rewrite ctid_tbl_set; rewrite (proj2 (pair_eqb_spec _ _) eq_refl); exact C1|].
  split; [|split; [|reflexivity]].
  - split; [auto|]. split.
    + intros E2 A2 p Hp. unfold apid_of in *. rewrite apid_tbl_set. destruct (N.eqb E2 E) eqn:Ee; [|exact Hp].
      apply N.eqb_eq in Ee. subst E2. rewrite Hxa. apply alookup_app_some. exact Hp.
    + intros E2 A2 C2 p Hp. unfold ctid_of in *. rewrite ctid_tbl_set. destruct (pair_eqb (E2, A2) (E, e_apid x)) eqn:Ee; [|exact Hp].
      apply pair_eqb_spec in Ee. inversion Ee; subst E2 A2. rewrite Hxc. apply alookup_app_some. exact Hp.
  - intros W. pose proof (apid_tbl_WFT st E W) as Wa. pose proof (ctid_tbl_WFT st E (e_apid x) W) as Wc.
    destruct W as (W1 & W2 & W3). split; [exact W1|]. split; cbn.
    + apply set_by_Forall; auto.
    + apply set_by_Forall; auto.
Qed.

Lemma renamed_by_mono st st' m o : st_le st st' -> renamed_by st m o -> renamed_by st' m o.
Proof.
  intros (L1 & L2 & L3) [R1 R2]. split; [auto|].
  destruct (m_ext m) as [e|], (m_ext o) as [e'|]; auto.
  destruct R2 as (V & N' & A & C). repeat split; auto.
Qed.

Theorem anon_step_renamed ck st m st' m' :
  anon_step ck st m = Ok (st', m') ->
  st_le st st' /\ renamed_by st' m m' /\ (WFS st -> WFS st') /\
  (forall k, In k (map fst (a_ecus st')) <-> In k (map fst (a_ecus st)) \/ k = m_ecu m) /\
  (NoDup (map fst (a_ecus st)) -> NoDup (map fst (a_ecus st'))).
Proof.
  unfold anon_step. destruct (ecu_anon st (m_ecu m)) as [st1 ecu'] eqn:Ee. cbv zeta. intros E.
  apply bind_ok in E. destruct E as [p1 [_ E]]. apply bind_ok in E. destruct E as [p2 [_ E]].
  inversion E; subst; clear E.
  destruct (ecu_anon_spec _ _ _ _ Ee) as (H1 & H2 & H3 & H4 & H5 & H6 & H7).
  destruct (m_ext m) as [e|] eqn:Ex.
  - destruct (apid_ctid_anon st1 ecu' e) as [s e'] eqn:Ea. cbn [fst snd].
    destruct (apid_ctid_anon_spec _ _ _ _ _ Ea) as (V & N' & A & C & L & W & K).
    split; [eapply st_le_trans; eauto|]. split; [|split; [auto|rewrite K; auto]].
    unfold renamed_by. cbn. rewrite Ex. split; [destruct L as (L1 & _); apply L1; exact H1|].
    repeat split; auto.
  - cbn [fst snd]. split; [exact H2|]. split; [|split; auto].
    unfold renamed_by. cbn. rewrite Ex. split; [exact H1|exact I].
Qed.

Theorem anon_run_renamed ck ms : forall st st' outs,
  anon_run ck st ms = Ok (st', outs) ->
  st_le st st' /\ Forall2 (renamed_by st') ms outs /\ (WFS st -> WFS st') /\
  (forall k, In k (map fst (a_ecus st')) <-> In k (map fst (a_ecus st)) \/ In k (map m_ecu ms)) /\
  (NoDup (map fst (a_ecus st)) -> NoDup (map fst (a_ecus st'))).
Proof.
  induction ms as [|m rest IH]; intros st st' outs E; cbn [anon_run] in E.
  - inversion E; subst. split; [apply st_le_refl|]. split; [constructor|]. split; [auto|]. split; [|auto].
    intros k. cbn. intuition.
  - apply bind_ok in E. destruct E as [[st1 m1] [E1 E]]. apply bind_ok in E. destruct E as [[st2 outs2] [E2 E]].
    cbn [fst snd] in *. inversion E; subst; clear E.
    destruct (anon_step_renamed _ _ _ _ _ E1) as (L1 & R1 & W1 & K1 & D1).
    destruct (IH _ _ _ E2) as (L2 & R2 & W2 & K2 & D2).
    split; [eapply st_le_trans; eauto|]. split; [|split; [auto|split; [|auto]]].
    + constructor; [eapply renamed_by_mono; eauto|exact R2].
    + intros k. rewrite K2, K1. cbn. intuition.
Qed.

Theorem anon_run_keeps ck ms : forall st st' outs,
  anon_run ck st ms = Ok (st', outs) ->
  Forall2 (fun m m' => m_index m' = m_index m /\ m_rtime m' = m_rtime m /\ m_ts m' = m_ts m /\
                       m_htyp m' = m_htyp m /\ m_mcnt m' = m_mcnt m /\ m_len m' = m_len m /\
                       m_lc m' = m_lc m /\ m_text m' = m_text m /\ ext_kind_kept (m_ext m) (m_ext m')) ms outs.
Proof.
  induction ms as [|m rest IH]; intros st st' outs E; cbn [anon_run] in E.
  - inversion E; subst. constructor.
  - apply bind_ok in E. destruct E as [[st1 m1] [E1 E]]. apply bind_ok in E. destruct E as [[st2 outs2] [E2 E]].
    cbn [fst snd] in *. inversion E; subst; clear E.
    constructor; [exact (anon_step_keeps _ _ _ _ _ E1)|eapply IH; eauto].
Qed.

(* ================================================================ 5. injectivity below the capacity *)
Theorem anon_tables_injective ck ms st' outs :
  anon_run ck anon_init ms = Ok (st', outs) ->
  (blen (a_ecus st') <= capacity -> tbl_injective (a_ecus st')) /\
  (forall E, blen (apid_tbl st' E) <= capacity -> tbl_injective (apid_tbl st' E)) /\
  (forall E A, blen (ctid_tbl st' E A) <= capacity -> tbl_injective (ctid_tbl st' E A)).
Proof.
  intros E. destruct (anon_run_renamed _ _ _ _ _ E) as (_ & _ & W & _). specialize (W WFS_init).
  split; [|split].
  - destruct W as (W1 & _). apply (WFT_injective letter_E); [exact letter_E_ok|exact W1].
  - intros E0. apply (WFT_injective letter_A); [exact letter_A_ok|apply apid_tbl_WFT; exact W].
  - intros E0 A0. apply (WFT_injective letter_C); [exact letter_C_ok|apply ctid_tbl_WFT; exact W].
Qed.

Lemma Forall2_nth {A B} (R : A -> B -> Prop) l l' : Forall2 R l l' ->
  forall i a b, nth_error l i = Some a -> nth_error l' i = Some b -> R a b.
Proof.
  induction 1 as [|x y l l' Hxy H IH]; intros [|i] a b Ha Hb; cbn in *; try discriminate.
  - inversion Ha; inversion Hb; subst. exact Hxy.
  - eapply IH; eauto.
Qed.

(* pairwise form: two messages of one stream *)
Theorem anon_pairwise ck ms st' outs i j mi mj oi oj :
  anon_run ck anon_init ms = Ok (st', outs) ->
  nth_error ms i = Some mi -> nth_error ms j = Some mj -> nth_error outs i = Some oi -> nth_error outs j = Some oj ->
  (* ECU ids *)
  (m_ecu mi = m_ecu mj -> m_ecu oi = m_ecu oj) /\
  (blen (a_ecus st') <= capacity -> m_ecu oi = m_ecu oj -> m_ecu mi = m_ecu mj) /\
  (* APIDs of one ECU, CTIDs of one ECU/APID *)
  forall ei ej ei' ej', m_ext mi = Some ei -> m_ext mj = Some ej -> m_ext oi = Some ei' -> m_ext oj = Some ej' ->
    m_ecu mi = m_ecu mj ->
    (e_apid ei = e_apid ej -> e_apid ei' = e_apid ej') /\
    (blen (apid_tbl st' (m_ecu oi)) <= capacity -> e_apid ei' = e_apid ej' -> e_apid ei = e_apid ej) /\
    (e_apid ei = e_apid ej ->
       (e_ctid ei = e_ctid ej -> e_ctid ei' = e_ctid ej') /\
       (blen (ctid_tbl st' (m_ecu oi) (e_apid ei)) <= capacity -> e_ctid ei' = e_ctid ej' -> e_ctid ei = e_ctid ej)).
Proof.
  intros E Hi Hj Hoi Hoj.
  destruct (anon_run_renamed _ _ _ _ _ E) as (_ & R & _).
  destruct (anon_tables_injective _ _ _ _ E) as (I1 & I2 & I3).
  pose proof (Forall2_nth _ _ _ R i mi oi Hi Hoi) as [Ri1 Ri2].
  pose proof (Forall2_nth _ _ _ R j mj oj Hj Hoj) as [Rj1 Rj2].
  assert (Hecu : m_ecu mi = m_ecu mj -> m_ecu oi = m_ecu oj).
  { intros Heq. rewrite Heq in Ri1. rewrite Ri1 in Rj1. inversion Rj1. reflexivity. }
  split; [exact Hecu|]. split.
  - intros Hc Heq. rewrite <- Heq in Rj1. exact (I1 Hc _ _ _ Ri1 Rj1).
  - intros ei ej ei' ej' Xi Xj Xoi Xoj Hsame. rewrite Xi, Xoi in Ri2. rewrite Xj, Xoj in Rj2.
    destruct Ri2 as (_ & _ & Ai & Ci). destruct Rj2 as (_ & _ & Aj & Cj).
    rewrite <- (Hecu Hsame) in Aj, Cj. unfold apid_of in Ai, Aj. unfold ctid_of in Ci, Cj.
    split; [|split].
    + intros Heq. rewrite Heq in Ai. rewrite Ai in Aj. inversion Aj. reflexivity.
    + intros Hc Heq. rewrite <- Heq in Aj. exact (I2 _ Hc _ _ _ Ai Aj).
    + intros Ha. rewrite <- Ha in Cj. split.
      * intros Heq. rewrite Heq in Ci. rewrite Ci in Cj. inversion Cj. reflexivity.
      * intros Hc Heq. rewrite <- Heq in Cj. exact (I3 _ _ Hc _ _ _ Ci Cj).
Qed.

(* ================================================================ 6. at and above the capacity *)
(* What the pseudonym of entry number n looks like for EVERY n (below 10^20 > usize::MAX): the letter and the
   first three decimal digits of n ("{:03}" is a minimum width, DltChar4::from_str keeps four bytes).  Hence
   entry n >= 1000 repeats the pseudonym of entry n / 10 — and of nothing else than the entries with the same
   leading three digits. *)
From Coq Require Import ZArith Zify.
Ltac Zify.zify_post_hook ::= Z.div_mod_to_equations.

Definition ten20 : N := 100000000000000000000.

Fixpoint p10 (f : nat) : N := match f with O => 1 | S f' => 10 * p10 f' end.

Lemma dec_aux_S f n acc :
  dec_aux (S f) n acc = if n / 10 =? 0 then (48 + n mod 10) :: acc else dec_aux f (n / 10) ((48 + n mod 10) :: acc).
Proof. reflexivity. Qed.

Lemma dec_aux_acc f : forall n acc, dec_aux f n acc = dec_aux f n [] ++ acc.
Proof.
  induction f as [|f IH]; intros n acc; [reflexivity|].
  rewrite !dec_aux_S. destruct (n / 10 =? 0); [reflexivity|].
  rewrite (IH (n / 10) ((48 + n mod 10) :: acc)), (IH (n / 10) [48 + n mod 10]), <- app_assoc. reflexivity.
Qed.

Lemma dec_aux_fuel f : forall n acc, n < p10 (S f) -> dec_aux (S f) n acc = dec_aux (S (S f)) n acc.
Proof.
  induction f as [|f IH]; intros n acc Hn.
  - rewrite (dec_aux_S 1), (dec_aux_S 0). cbn in Hn.
    assert (E : n / 10 =? 0 = true) by (apply N.eqb_eq; lia). rewrite E. reflexivity.
  - rewrite (dec_aux_S (S (S f))), (dec_aux_S (S f)). destruct (n / 10 =? 0); [reflexivity|].
    apply IH. change (p10 (S (S f))) with (10 * p10 (S f)) in Hn. lia.
Qed.

Lemma p10_19 : p10 19 = 10000000000000000000. Proof. reflexivity. Qed.

Lemma dec_step n : 10 <= n -> n < ten20 -> dec n = dec (n / 10) ++ [48 + n mod 10].
Proof.
  unfold ten20. intros H1 H2. unfold dec. change 20%nat with (S 19) at 1. rewrite dec_aux_S.
  assert (E : n / 10 =? 0 = false) by (apply N.eqb_neq; lia). rewrite E.
  change 19%nat with (S 18). change 20%nat with (S (S 18)).
  rewrite (dec_aux_fuel 18) by (change (p10 (S 18)) with (p10 19); rewrite p10_19; lia).
  apply dec_aux_acc.
Qed.

Lemma dec_nonempty n : exists x xs, dec n = x :: xs.
Proof.
  unfold dec. change 20%nat with (S 19). rewrite dec_aux_S. destruct (n / 10 =? 0); [eexists; eexists; reflexivity|].
  rewrite dec_aux_acc. destruct (dec_aux 19 (n / 10) []) as [|x xs]; cbn; eexists; eexists; reflexivity.
Qed.

Lemma dec_three n : 100 <= n -> n < ten20 -> exists a b c rest, dec n = a :: b :: c :: rest.
Proof.
  unfold ten20. intros H1 H2.
  rewrite (dec_step n) by (unfold ten20; lia). rewrite (dec_step (n / 10)) by (unfold ten20; lia).
  destruct (dec_nonempty (n / 10 / 10)) as (x & xs & E). rewrite E.
  destruct xs as [|y [|z zs]]; cbn; repeat eexists.
Qed.

Theorem pseudo_div10 letter n : 1000 <= n -> n < ten20 -> pseudo letter n = pseudo letter (n / 10).
Proof.
  unfold ten20. intros H1 H2. unfold pseudo. rewrite (dec_step n) by (unfold ten20; lia).
  destruct (dec_three (n / 10)) as (a & b & c & rest & E); [lia|unfold ten20; lia|]. rewrite E.
  destruct rest as [|d rest]; reflexivity.
Qed.

(* the entry number whose pseudonym entry n carries: n itself below 1000, else its leading three digits *)
Fixpoint norm_aux (f : nat) (n : N) : N :=
  match f with
  | O => n
  | S f' => if n <? 1000 then n else norm_aux f' (n / 10)
  end.
Definition lead3 (n : N) : N := norm_aux 20 n.

Lemma norm_aux_pseudo letter f : forall n, n < ten20 -> pseudo letter (norm_aux f n) = pseudo letter n.
Proof.
  induction f as [|f IH]; intros n Hn; cbn [norm_aux]; [reflexivity|].
  destruct (n <? 1000) eqn:E; [reflexivity|]. apply N.ltb_ge in E.
  rewrite IH by (unfold ten20 in *; lia). symmetry. apply pseudo_div10; assumption.
Qed.

Lemma norm_aux_small f : forall n, n < 1000 * p10 f -> norm_aux f n < 1000.
Proof.
  induction f as [|f IH]; intros n Hn; cbn [norm_aux].
  - cbn in Hn. lia.
  - destruct (n <? 1000) eqn:E; [apply N.ltb_lt; exact E|]. apply IH.
    change (p10 (S f)) with (10 * p10 f) in Hn. lia.
Qed.

Lemma lead3_small n : n < ten20 -> lead3 n < 1000.
Proof.
  intros H. apply norm_aux_small. unfold ten20 in H.
  assert (E : p10 20 = 100000000000000000000) by reflexivity. rewrite E. lia.
Qed.

Lemma lead3_id n : n < 1000 -> lead3 n = n.
Proof. intros H. unfold lead3. cbn [norm_aux]. apply N.ltb_lt in H. rewrite H. reflexivity. Qed.

Theorem pseudo_eq_iff letter a b : LetterOK letter -> a < ten20 -> b < ten20 ->
  (pseudo letter a = pseudo letter b <-> lead3 a = lead3 b).
Proof.
  intros L Ha Hb. rewrite <- (norm_aux_pseudo letter 20 a Ha), <- (norm_aux_pseudo letter 20 b Hb).
  fold (lead3 a). fold (lead3 b). split.
  - apply pseudo_inj; [exact L|apply lead3_small; exact Ha|apply lead3_small; exact Hb].
  - intros E. rewrite E. reflexivity.
Qed.

(* a table of any size: entries i and j (numbers i+1, j+1 in order of first appearance) share a pseudonym
   exactly when their numbers have the same leading three digits *)
Definition collisions_as_stated (t : tbl) : Prop :=
  forall i j k1 p1 k2 p2, nth_error t i = Some (k1, p1) -> nth_error t j = Some (k2, p2) ->
    (p1 = p2 <-> lead3 (N.of_nat i + 1) = lead3 (N.of_nat j + 1)).

Lemma WFT_collisions letter t : LetterOK letter -> WFT letter t -> blen t < ten20 -> collisions_as_stated t.
Proof.
  intros L W Hl i j k1 p1 k2 p2 Hi Hj.
  assert (L1 : (i < length t)%nat) by (apply nth_error_Some; rewrite Hi; discriminate).
  assert (L2 : (j < length t)%nat) by (apply nth_error_Some; rewrite Hj; discriminate).
  rewrite (W _ _ _ Hi), (W _ _ _ Hj). unfold blen, ten20 in Hl.
  apply pseudo_eq_iff; [exact L|unfold ten20; lia|unfold ten20; lia].
Qed.

Theorem anon_tables_collisions ck ms st' outs :
  anon_run ck anon_init ms = Ok (st', outs) ->
  (blen (a_ecus st') < ten20 -> collisions_as_stated (a_ecus st')) /\
  (forall E, blen (apid_tbl st' E) < ten20 -> collisions_as_stated (apid_tbl st' E)) /\
  (forall E A, blen (ctid_tbl st' E A) < ten20 -> collisions_as_stated (ctid_tbl st' E A)).
Proof.
  intros E. destruct (anon_run_renamed _ _ _ _ _ E) as (_ & _ & W & _). specialize (W WFS_init).
  split; [|split].
  - destruct W as (W1 & _). apply (WFT_collisions letter_E); [exact letter_E_ok|exact W1].
  - intros E0. apply (WFT_collisions letter_A); [exact letter_A_ok|apply apid_tbl_WFT; exact W].
  - intros E0 A0. apply (WFT_collisions letter_C); [exact letter_C_ok|apply ctid_tbl_WFT; exact W].
Qed.
