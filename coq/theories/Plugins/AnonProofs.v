(* C19 — proofs about the anonymiser model (Plugins/Anon.v). *)
From Coq Require Import List NArith Bool Lia Arith PeanoNat.
From AdltV Require Import Base.Res Base.MachInt Plugins.Chain Plugins.ChainProofs Plugins.Anon.
Import ListNotations.
Open Scope N_scope.

(* ================================================================ 1. totality: no panic *)
Lemma slice_ok l a b : a <= b -> b <= blen l -> exists r, slice l a b = Ok r.
Proof.
  intros H1 H2. unfold slice.
  assert (E : (a <=? b) && (b <=? blen l) = true) by (apply andb_true_iff; split; apply N.leb_le; assumption).
  rewrite E. eexists; reflexivity.
Qed.

Lemma fixed_arg_ok p len : exists r, fixed_arg p len = Ok r.
Proof.
  unfold fixed_arg. destruct ((0 <? len) && (4 + len <=? blen p)) eqn:E; [|eexists; reflexivity].
  apply andb_true_iff in E. destruct E as [E1 E2]. apply N.leb_le in E2.
  destruct (slice_ok p 4 (4 + len)) as [r Hr]; [lia|exact E2|]. rewrite Hr. cbn. eexists; reflexivity.
Qed.

Lemma first_arg_ok v big p : exists r, first_arg v big p = Ok r.
Proof.
  unfold first_arg. destruct v.
  - destruct (4 <=? blen p) eqn:E4; [|eexists; reflexivity]. apply N.leb_le in E4.
    destruct (slice_ok p 0 4) as [tib Ht]; [lia|exact E4|]. rewrite Ht. cbn [bind]. cbv zeta.
    destruct (flag (uint_of big tib) 2048); [eexists; reflexivity|].
    destruct (flag (uint_of big tib) 4096); [eexists; reflexivity|].
    destruct (flag (uint_of big tib) 16).
    { destruct (tyle_len (uint_of big tib) =? 1); [apply fixed_arg_ok|].
      destruct (tyle_len (uint_of big tib) =? 0); [apply fixed_arg_ok|eexists; reflexivity]. }
    destruct (flag (uint_of big tib) 96).
    { destruct (tyle_len (uint_of big tib) <? 1); [eexists; reflexivity|apply fixed_arg_ok]. }
    destruct (flag (uint_of big tib) 128).
    { destruct (tyle_len (uint_of big tib) <? 2); [eexists; reflexivity|apply fixed_arg_ok]. }
    destruct (flag (uint_of big tib) 1536); [|eexists; reflexivity].
    destruct (blen p <? 6) eqn:E6; [eexists; reflexivity|]. apply N.ltb_ge in E6.
    destruct (slice_ok p 4 6) as [lb Hl]; [lia|exact E6|]. rewrite Hl. cbn [bind]. cbv zeta.
    destruct (6 + uint_of big lb <=? blen p) eqn:El; [|eexists; reflexivity]. apply N.leb_le in El.
    destruct (slice_ok p 6 (6 + uint_of big lb)) as [r Hr]; [lia|exact El|]. rewrite Hr. cbn. eexists; reflexivity.
  - destruct (4 <=? blen p) eqn:E4; [|eexists; reflexivity]. apply N.leb_le in E4.
    destruct (slice_ok p 0 4) as [r Hr]; [lia|exact E4|]. rewrite Hr. cbn. eexists; reflexivity.
Qed.

Lemma ctrl_message_id_ok big arg : exists r, ctrl_message_id true big arg = Ok r.
Proof.
  unfold ctrl_message_id. destruct arg as [raw|]; [|eexists; reflexivity].
  destruct (4 <=? blen raw) eqn:E4; [|eexists; reflexivity]. apply N.leb_le in E4.
  destruct (slice_ok raw 0 4) as [r Hr]; [lia|exact E4|]. rewrite Hr. cbn. eexists; reflexivity.
Qed.

Lemma ctrl_msgs_anon_ok m : exists r, ctrl_msgs_anon true m = Ok r.
Proof.
  unfold ctrl_msgs_anon. destruct (is_ctrl_response m); [|eexists; reflexivity].
  destruct (first_arg_ok (is_verbose m) (is_big_endian m) (m_payload m)) as [a Ha]. rewrite Ha. cbn [bind].
  destruct (ctrl_message_id_ok (is_big_endian m) a) as [id Hid]. rewrite Hid. cbn [bind].
  destruct (id =? 19); [eexists; reflexivity|]. destruct (id =? 3); eexists; reflexivity.
Qed.

Lemma payload_anon_ok m : exists r, payload_anon m = Ok r.
Proof.
  unfold payload_anon. destruct (negb (is_ctrl_request m) && negb (is_ctrl_response m)); [|eexists; reflexivity].
  destruct (negb (is_verbose m)); [|eexists; reflexivity].
  destruct (4 <=? blen (m_payload m)) eqn:E4; [|eexists; reflexivity]. apply N.leb_le in E4.
  destruct (slice_ok (m_payload m) 0 4) as [r Hr]; [lia|exact E4|]. rewrite Hr. cbn. eexists; reflexivity.
Qed.

Theorem anon_step_ok st m : exists st' m', anon_step true st m = Ok (st', m').
Proof.
  unfold anon_step. destruct (ecu_anon st (m_ecu m)) as [st1 ecu']. cbv zeta.
  match goal with |- context [ctrl_msgs_anon true ?x] => destruct (ctrl_msgs_anon_ok x) as [p1 H1]; rewrite H1 end.
  cbn [bind].
  match goal with |- context [payload_anon ?x] => destruct (payload_anon_ok x) as [p2 H2]; rewrite H2 end.
  cbn [bind]. eexists. eexists. reflexivity.
Qed.

Theorem anon_run_ok ms : forall st, exists st' outs, anon_run true st ms = Ok (st', outs) /\ length outs = length ms.
Proof.
  induction ms as [|m rest IH]; intros st; cbn [anon_run].
  - exists st, []. split; reflexivity.
  - destruct (anon_step_ok st m) as (st1 & m1 & E1). rewrite E1. cbn [bind fst snd].
    destruct (IH st1) as (st2 & outs & E2 & L). rewrite E2. cbn [bind fst snd].
    exists st2, (m1 :: outs). split; [reflexivity|cbn; rewrite L; reflexivity].
Qed.

(* the code before the repair does panic: DESIGN Appendix A, C03-1 *)
Lemma anon_step_before_fix_panics :
  let m := {| m_index := 1; m_rtime := 1000000010; m_ecu := 1162040625; m_ts := 10; m_htyp := 49; m_mcnt := 0; m_len := 0;
              m_ext := Some {| e_vmm := 39; e_noar := 1; e_apid := 1095782449; e_ctid := 1129601073 |};
              m_payload := [17; 0; 0; 0; 1]; m_text := None; m_lc := 0 |} in
  anon_step false anon_init m = Panic site_unwrap /\ is_ok (anon_step true anon_init m) = true.
Proof. vm_compute. split; reflexivity. Qed.

(* ================================================================ 2. what a step keeps *)
Definition ext_kind_kept (a b : option ext_hdr) : Prop :=
  match a, b with
  | Some e, Some e' => e_vmm e' = e_vmm e /\ e_noar e' = e_noar e
  | None, None => True
  | _, _ => False
  end.

Theorem anon_step_keeps ck st m st' m' :
  anon_step ck st m = Ok (st', m') ->
  m_index m' = m_index m /\ m_rtime m' = m_rtime m /\ m_ts m' = m_ts m /\
  m_htyp m' = m_htyp m /\ m_mcnt m' = m_mcnt m /\ m_len m' = m_len m /\
  m_lc m' = m_lc m /\ m_text m' = m_text m /\ ext_kind_kept (m_ext m) (m_ext m').
Proof.
  unfold anon_step. destruct (ecu_anon st (m_ecu m)) as [st1 ecu']. cbv zeta. intros E.
  apply bind_ok in E. destruct E as [p1 [_ E]]. apply bind_ok in E. destruct E as [p2 [_ E]].
  inversion E; subst; clear E. cbn. repeat split; auto.
  unfold ext_kind_kept. destruct (m_ext m) as [e|]; cbn; [|exact I].
  unfold apid_ctid_anon. destruct (tbl_get letter_A (e_apid e) (apid_tbl st1 ecu')) as [at' apid'].
  destruct (tbl_get letter_C (e_ctid e) (ctid_tbl st1 ecu' (e_apid e))) as [ct' ctid']. cbn. auto.
Qed.

Lemma ext_kind_kept_class m m' :
  ext_kind_kept (m_ext m) (m_ext m') ->
  is_ctrl_request m' = is_ctrl_request m /\ is_ctrl_response m' = is_ctrl_response m /\ is_verbose m' = is_verbose m.
Proof.
  unfold ext_kind_kept, is_ctrl_request, is_ctrl_response, is_verbose.
  destruct (m_ext m) as [e|], (m_ext m') as [e'|]; try contradiction; auto.
  intros [H1 H2]. rewrite H1. auto.
Qed.

(* ================================================================ 3. association lists *)
Section LookupBy.
  Context {K V : Type} (eqb : K -> K -> bool).
  Hypothesis eqb_spec : forall a b, eqb a b = true <-> a = b.

  Lemma eqb_refl' k : eqb k k = true. Proof. apply eqb_spec. reflexivity. Qed.
  Lemma eqb_neq k k' : k <> k' -> eqb k k' = false.
  Proof. intros H. destruct (eqb k k') eqn:E; [|reflexivity]. apply eqb_spec in E. contradiction. Qed.

  Lemma lookup_set_same k (v : V) l : lookup_by eqb k (set_by eqb k v l) = Some v.
  Proof.
    induction l as [|[k' v'] r IH]; cbn.
    - rewrite eqb_refl'. reflexivity.
    - destruct (eqb k k') eqn:E; cbn; [rewrite eqb_refl'; reflexivity|rewrite E; exact IH].
  Qed.

  Lemma lookup_set_other k k2 (v : V) l : k2 <> k -> lookup_by eqb k2 (set_by eqb k v l) = lookup_by eqb k2 l.
  Proof.
    intros Hn. induction l as [|[k' v'] r IH]; cbn.
    - rewrite (eqb_neq k2 k Hn). reflexivity.
    - destruct (eqb k k') eqn:E; cbn.
      + apply eqb_spec in E. subst k'. rewrite (eqb_neq k2 k Hn). reflexivity.
      + destruct (eqb k2 k'); [reflexivity|exact IH].
  Qed.

  Lemma set_by_Forall (Q : V -> Prop) k v l :
    Forall (fun kt => Q (snd kt)) l -> Q v -> Forall (fun kt => Q (snd kt)) (set_by eqb k v l).
  Proof.
    intros HF Hv. induction HF as [|[k' v'] r Hh Hr IH]; cbn.
    - constructor; [exact Hv|constructor].
    - destruct (eqb k k'); constructor; auto.
  Qed.

  Lemma lookup_by_Forall (Q : V -> Prop) k v l :
    Forall (fun kt => Q (snd kt)) l -> lookup_by eqb k l = Some v -> Q v.
  Proof.
    intros HF. induction HF as [|[k' v'] r Hh Hr IH]; cbn; [discriminate|].
    destruct (eqb k k'); [intros E; inversion E; subst; exact Hh|exact IH].
  Qed.
End LookupBy.

Lemma Neqb_spec a b : N.eqb a b = true <-> a = b. Proof. apply N.eqb_eq. Qed.
Lemma pair_eqb_spec a b : pair_eqb a b = true <-> a = b.
Proof.
  destruct a as [a1 a2], b as [b1 b2]. unfold pair_eqb. cbn. rewrite andb_true_iff, !N.eqb_eq. split.
  - intros [? ?]; subst; reflexivity.
  - intros H; inversion H; auto.
Qed.

(* ---------------------------------------------------------------- pseudonym tables *)
Lemma alookup_app_some k t x p : alookup k t = Some p -> alookup k (t ++ x) = Some p.
Proof.
  unfold alookup. induction t as [|[k' v] r IH]; cbn; [discriminate|].
  destruct (N.eqb k k'); [auto|exact IH].
Qed.

Lemma alookup_app_none k t p : alookup k t = None -> alookup k (t ++ [(k, p)]) = Some p.
Proof.
  unfold alookup. induction t as [|[k' v] r IH]; cbn.
  - rewrite N.eqb_refl. reflexivity.
  - destruct (N.eqb k k'); [discriminate|exact IH].
Qed.

Lemma alookup_nth k t p : alookup k t = Some p -> exists i, nth_error t i = Some (k, p).
Proof.
  unfold alookup. induction t as [|[k' v] r IH]; cbn; [discriminate|].
  destruct (N.eqb k k') eqn:E.
  - intros H. inversion H; subst. apply N.eqb_eq in E. subst. exists 0%nat. reflexivity.
  - intros H. destruct (IH H) as [i Hi]. exists (S i). exact Hi.
Qed.

Lemma alookup_in k t p : alookup k t = Some p -> In k (map fst t).
Proof.
  intros H. destruct (alookup_nth k t p H) as [i Hi]. apply nth_error_In in Hi.
  apply in_map_iff. exists (k, p). auto.
Qed.

Lemma alookup_none_notin k t : alookup k t = None -> ~ In k (map fst t).
Proof.
  unfold alookup. induction t as [|[k' v] r IH]; cbn; [auto|].
  destruct (N.eqb k k') eqn:E; [discriminate|]. apply N.eqb_neq in E.
  intros H [H1|H1]; [congruence|exact (IH H H1)].
Qed.

Lemma NoDup_app_single {A} (l : list A) x : NoDup l -> ~ In x l -> NoDup (l ++ [x]).
Proof.
  induction l as [|y l IH]; cbn; intros ND Hn.
  - constructor; [auto|constructor].
  - inversion ND; subst. constructor.
    + rewrite in_app_iff. cbn. intros [H|[H|[]]]; [contradiction|subst; apply Hn; left; reflexivity].
    + apply IH; [assumption|]. intros H; apply Hn; right; exact H.
Qed.

(* entry number i (from 0) carries pseudonym number i + 1 *)
Definition WFT (letter : N) (t : tbl) : Prop :=
  forall i k p, nth_error t i = Some (k, p) -> p = pseudo letter (N.of_nat i + 1).

Lemma WFT_nil l : WFT l []. Proof. intros [|i] k p H; discriminate. Qed.

Lemma tbl_get_spec letter k t t' p :
  tbl_get letter k t = (t', p) ->
  alookup k t' = Some p /\ (exists x, t' = t ++ x) /\ (WFT letter t -> WFT letter t') /\
  (forall k', In k' (map fst t') <-> In k' (map fst t) \/ k' = k) /\
  (NoDup (map fst t) -> NoDup (map fst t')).
Proof.
  unfold tbl_get. destruct (alookup k t) as [p0|] eqn:E; intros H; inversion H; subst; clear H.
  - split; [exact E|]. split; [exists []; rewrite app_nil_r; reflexivity|]. split; [auto|]. split; [|auto].
    intros k'. split; [auto|]. intros [H|H]; [exact H|]. subst. eapply alookup_in; eauto.
  - split; [apply alookup_app_none; exact E|]. split; [eexists; reflexivity|]. split; [|split].
    + intros W i k' p' Hn. destruct (Nat.lt_ge_cases i (length t)) as [Hl|Hl].
      * rewrite nth_error_app1 in Hn by exact Hl. eapply W; eauto.
      * rewrite nth_error_app2 in Hn by exact Hl. destruct (i - length t)%nat as [|j] eqn:Ej.
        -- cbn in Hn. inversion Hn; subst. unfold blen. f_equal. lia.
        -- cbn in Hn. destruct j; discriminate.
    + intros k'. rewrite map_app, in_app_iff. cbn. intuition.
    + intros ND. rewrite map_app. cbn. apply NoDup_app_single; [exact ND|]. apply alookup_none_notin. exact E.
Qed.
