(* C19 — proofs about the plugin loop (Plugins/Chain.v). *)
From Coq Require Import List NArith Bool Lia.
From AdltV Require Import Plugins.Chain.
Import ListNotations.
Open Scope N_scope.

(* ---------------------------------------------------------------- boolean equalities *)
Lemma bytes_eqb_eq a b : bytes_eqb a b = true <-> a = b.
Proof.
  revert b. induction a as [|x a IH]; intros [|y b]; cbn; split; intros H; try reflexivity; try discriminate.
  - apply andb_true_iff in H. destruct H as [H1 H2]. apply N.eqb_eq in H1. apply IH in H2. subst. reflexivity.
  - inversion H; subst. rewrite N.eqb_refl. cbn. apply IH. reflexivity.
Qed.

Lemma ext_eqb_eq a b : ext_eqb a b = true <-> a = b.
Proof.
  destruct a, b. unfold ext_eqb. cbn. rewrite !andb_true_iff, !N.eqb_eq. split.
  - intros [[[? ?] ?] ?]. subst. reflexivity.
  - intros H. inversion H. auto.
Qed.

Definition ext_fill_ok (a b : option ext_hdr) : Prop :=
  match a with Some e => b = Some e | None => True end.

Lemma ext_fill_okb_spec a b : ext_fill_okb a b = true <-> ext_fill_ok a b.
Proof.
  destruct a as [x|], b as [y|]; cbn; split; intros H; try reflexivity; try discriminate; auto.
  - apply ext_eqb_eq in H. subst. reflexivity.
  - inversion H. apply ext_eqb_eq. reflexivity.
Qed.

(* the frame condition spelled out *)
Lemma frame_iff a m m' :
  frame a m m' <->
  m_index m' = m_index m /\ m_rtime m' = m_rtime m /\ m_ecu m' = m_ecu m /\ m_payload m' = m_payload m /\
  m_lc m' = m_lc m /\ m_htyp m' = m_htyp m /\ m_mcnt m' = m_mcnt m /\ m_len m' = m_len m /\
  ext_fill_ok (m_ext m) (m_ext m') /\ (a = false -> m_ts m' = m_ts m).
Proof.
  unfold frame, frameb. rewrite !andb_true_iff, !N.eqb_eq, bytes_eqb_eq, ext_fill_okb_spec, orb_true_iff, N.eqb_eq.
  split.
  - intros [[[[[[[[[H1 H2] H3] H4] H5] H6] H7] H8] H9] H10].
    repeat split; auto. intros Ha. destruct H10 as [H10|H10]; [congruence|exact H10].
  - intros (H1 & H2 & H3 & H4 & H5 & H6 & H7 & H8 & H9 & H10).
    repeat split; auto. destruct a; [left; reflexivity|right; auto].
Qed.

Lemma frame_refl a m : frame a m m.
Proof.
  apply frame_iff. repeat split; auto. unfold ext_fill_ok. destruct (m_ext m); reflexivity.
Qed.

Lemma ext_fill_ok_trans a b c : ext_fill_ok a b -> ext_fill_ok b c -> ext_fill_ok a c.
Proof. unfold ext_fill_ok. destruct a; [|auto]. intros ->. auto. Qed.

Lemma frame_trans a m1 m2 m3 : frame a m1 m2 -> frame a m2 m3 -> frame a m1 m3.
Proof.
  rewrite !frame_iff.
  intros (A1 & A2 & A3 & A4 & A5 & A6 & A7 & A8 & A9 & A10) (B1 & B2 & B3 & B4 & B5 & B6 & B7 & B8 & B9 & B10).
  repeat split; try congruence.
  - eapply ext_fill_ok_trans; eauto.
  - intros Ha. rewrite B10, A10; auto.
Qed.

Lemma frame_weaken m m' : frame false m m' -> frame true m m'.
Proof. rewrite !frame_iff. intros H. decompose [and] H. repeat split; auto. Qed.

(* ---------------------------------------------------------------- one plugin *)
Lemma Framed_mono a (D D' : msg -> Prop) p :
  (forall m, D m -> D' m) -> Framed a D p -> Framed (a || true) D' p /\ Framed a D' p.
Proof.
  intros HD [I [HI Hs]]. split; exists I; split; auto; intros s m Is; specialize (Hs s m Is);
    destruct (p_step p s m) as [[s' m'] b]; destruct Hs as (H1 & H2 & H3); repeat split; auto.
  rewrite orb_true_r. destruct a; [exact H2|apply frame_weaken; exact H2].
Qed.

Lemma Framed_allow_ts D p : Framed false D p -> Framed true D p.
Proof.
  intros [I [HI Hs]]. exists I; split; auto; intros s m Is; specialize (Hs s m Is).
  destruct (p_step p s m) as [[s' m'] b]. destruct Hs as (H1 & H2 & H3). repeat split; auto. apply frame_weaken; exact H2.
Qed.

Lemma p_apply_framed a D p m p' m' b :
  Framed a D p -> p_apply p m = (p', m', b) ->
  Framed a D p' /\ frame a m m' /\ (b = false -> D m).
Proof.
  intros [I [HI Hs]] E. unfold p_apply in E. pose proof (Hs (p_state p) m HI) as Hs0.
  destruct (p_step p (p_state p) m) as [[s' m1] b1] eqn:Es. inversion E; subst; clear E.
  destruct Hs0 as (H1 & H2 & H3). split; [|split; auto].
  exists I. cbn. split; auto.
Qed.

(* ---------------------------------------------------------------- the inner loop *)
Lemma pass_framed a D ps : forall m ps' m' b,
  Forall (Framed a D) ps -> pass ps m = (ps', m', b) ->
  Forall (Framed a D) ps' /\ frame a m m' /\ (b = false -> exists m'', frame a m m'' /\ D m'').
Proof.
  induction ps as [|p r IH]; intros m ps' m' b HF E; cbn in E.
  - inversion E; subst. split; [constructor|]. split; [apply frame_refl|discriminate].
  - inversion HF as [|? ? Hp Hr]; subst.
    destruct (p_apply p m) as [[p1 m1] b1] eqn:Ea.
    destruct (p_apply_framed a D p m p1 m1 b1 Hp Ea) as (Hp1 & Hf1 & Hd1).
    destruct b1.
    + destruct (pass r m1) as [[r1 m2] b2] eqn:Er. inversion E; subst; clear E.
      destruct (IH m1 r1 m' b Hr Er) as (Hr1 & Hf2 & Hd2).
      split; [constructor; auto|]. split; [eapply frame_trans; eauto|].
      intros Hb. destruct (Hd2 Hb) as [m'' [Hm1 Hm2]]. exists m''. split; [eapply frame_trans; eauto|exact Hm2].
    + inversion E; subst; clear E. split; [constructor; auto|]. split; [exact Hf1|].
      intros _. exists m. split; [apply frame_refl|auto].
Qed.

Lemma pass_length ps : forall m ps' m' b, pass ps m = (ps', m', b) -> length ps' = length ps.
Proof.
  induction ps as [|p r IH]; intros m ps' m' b E; cbn in E.
  - inversion E; reflexivity.
  - destruct (p_apply p m) as [[p1 m1] b1]. destruct b1.
    + destruct (pass r m1) as [[r1 m2] b2] eqn:Er. inversion E; subst. cbn. f_equal. eapply IH; eauto.
    + inversion E; subst. reflexivity.
Qed.

(* ---------------------------------------------------------------- the outer loop *)
Lemma process_opt_framed a D ms : forall ps ps' r,
  Forall (Framed a D) ps -> process_opt ps ms = (ps', r) ->
  Forall (Framed a D) ps' /\ Forall2 (kept_or_dropped a D) ms r.
Proof.
  induction ms as [|m rest IH]; intros ps ps' r HF E; cbn in E.
  - inversion E; subst. split; [exact HF|constructor].
  - destruct (pass ps m) as [[ps1 m1] fwd] eqn:Ep.
    destruct (process_opt ps1 rest) as [ps2 outs] eqn:Eo. inversion E; subst; clear E.
    destruct (pass_framed a D ps m ps1 m1 fwd HF Ep) as (HF1 & Hf & Hd).
    destruct (IH ps1 ps' outs HF1 Eo) as (HF2 & H2).
    split; [exact HF2|]. constructor; [|exact H2].
    destruct fwd; cbn; [exact Hf|apply Hd; reflexivity].
Qed.

Lemma process_opt_length ms : forall ps ps' r, process_opt ps ms = (ps', r) -> length r = length ms /\ length ps' = length ps.
Proof.
  induction ms as [|m rest IH]; intros ps ps' r E; cbn in E.
  - inversion E; subst. auto.
  - destruct (pass ps m) as [[ps1 m1] fwd] eqn:Ep. destruct (process_opt ps1 rest) as [ps2 outs] eqn:Eo.
    inversion E; subst. destruct (IH _ _ _ Eo) as [H1 H2]. cbn. rewrite H1, H2. split; [reflexivity|].
    eapply pass_length; eauto.
Qed.

Lemma keep_length_le r : (length (keep r) <= length r)%nat.
Proof. induction r as [|[m|] r IH]; cbn; lia. Qed.

(* all kept: the conservative case *)
Lemma all_kept a ms r :
  Forall2 (kept_or_dropped a (fun _ => False)) ms r -> Forall2 (frame a) ms (keep r) /\ r = map Some (keep r).
Proof.
  induction 1 as [|m o ms r Hk H IH]; cbn.
  - split; [constructor|reflexivity].
  - destruct o as [m'|]; cbn in Hk.
    + destruct IH as [I1 I2]. split; [constructor; auto|]. cbn. rewrite <- I2. reflexivity.
    + destruct Hk as [m'' [_ []]].
Qed.

Theorem chain_conservative a ps ms :
  Forall (Conservative a) ps ->
  exists ps' outs, process ps ms = (ps', outs) /\ Forall2 (frame a) ms outs /\ Forall (Conservative a) ps'.
Proof.
  intros HF. unfold process. destruct (process_opt ps ms) as [ps' r] eqn:E.
  destruct (process_opt_framed a (fun _ => False) ms ps ps' r HF E) as [H1 H2].
  exists ps', (keep r). split; [reflexivity|]. split; [apply all_kept; exact H2|exact H1].
Qed.

Lemma Forall2_frame_fields a ms outs :
  Forall2 (frame a) ms outs ->
  length outs = length ms /\
  map m_index outs = map m_index ms /\ map m_rtime outs = map m_rtime ms /\ map m_ecu outs = map m_ecu ms /\
  map m_payload outs = map m_payload ms /\ map m_lc outs = map m_lc ms /\
  (a = false -> map m_ts outs = map m_ts ms).
Proof.
  induction 1 as [|m o ms outs Hf H IH]; cbn.
  - repeat split; auto.
  - apply frame_iff in Hf. destruct Hf as (A1 & A2 & A3 & A4 & A5 & A6 & A7 & A8 & A9 & A10).
    destruct IH as (I0 & I1 & I2 & I3 & I4 & I5 & I6).
    rewrite I0, I1, I2, I3, I4, I5, A1, A2, A3, A4, A5. repeat split; auto.
    intros Ha. rewrite A10, I6; auto.
Qed.

(* droppers: the outputs are the inputs minus some droppable ones, in order *)
Lemma kept_subseq a D ms r :
  Forall2 (kept_or_dropped a D) ms r -> Subseq (map m_index (keep r)) (map m_index ms).
Proof.
  induction 1 as [|m o ms r Hk H IH]; cbn; [constructor|].
  destruct o as [m'|]; cbn in *.
  - apply frame_iff in Hk. destruct Hk as [Hi _]. rewrite Hi. apply sub_take. exact IH.
  - apply sub_skip. exact IH.
Qed.

(* ---------------------------------------------------------------- failing outflow *)
Lemma run_cap_prefix ms : forall cap ps e ps' outs,
  run_cap cap ps ms = (e, ps', outs) ->
  outs = firstn cap (snd (process ps ms)) /\ e = nth_error (snd (process ps ms)) cap.
Proof.
  unfold process.
  induction ms as [|m rest IH]; intros cap ps e ps' outs E; cbn in E |- *.
  - inversion E; subst. cbn. destruct cap; cbn; auto.
  - destruct (pass ps m) as [[ps1 m1] fwd] eqn:Ep.
    destruct (process_opt ps1 rest) as [ps2 r] eqn:Eo. cbn.
    destruct fwd.
    + destruct cap as [|c].
      * inversion E; subst. cbn. auto.
      * destruct (run_cap c ps1 rest) as [[e1 ps3] outs1] eqn:Er. inversion E; subst; clear E.
        specialize (IH c ps1 e ps' outs1 Er). rewrite Eo in IH. cbn in IH. destruct IH as [I1 I2].
        cbn. rewrite <- I1. auto.
    + specialize (IH cap ps1 e ps' outs E). rewrite Eo in IH. cbn in IH. exact IH.
Qed.

(* ---------------------------------------------------------------- acceptor *)
Definition in_frame_or_droppable (a : bool) (i : msg * bool) (o : option msg) : Prop :=
  match o with Some m' => frame a (fst i) m' | None => snd i = true end.

Lemma framed_run_sound a ins : forall outs,
  framed_run a ins outs = true ->
  exists r, keep r = outs /\ Forall2 (in_frame_or_droppable a) ins r.
Proof.
  induction ins as [|[m d] ins IH]; intros outs H; cbn in H.
  - destruct outs; [|discriminate]. exists []. split; [reflexivity|constructor].
  - destruct outs as [|o outs'].
    + apply andb_true_iff in H. destruct H as [Hd H]. destruct (IH [] H) as [r [K F]].
      exists (None :: r). split; [exact K|constructor; [exact Hd|exact F]].
    + destruct (frameb a m o) eqn:Ef.
      * destruct (IH outs' H) as [r [K F]]. exists (Some o :: r). split; [cbn; rewrite K; reflexivity|].
        constructor; [exact Ef|exact F].
      * apply andb_true_iff in H. destruct H as [Hd H]. destruct (IH (o :: outs') H) as [r [K F]].
        exists (None :: r). split; [exact K|constructor; [exact Hd|exact F]].
Qed.
