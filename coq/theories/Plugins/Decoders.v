(* C19 — the `process_msg` WRAPPERS of the five decoding plugins (src/plugins/non_verbose.rs, someip.rs, can.rs,
   muniic.rs, rewrite.rs): which fields of the DltMessage are written, under which condition, and the return
   value — transcribed from the Rust control flow.  The FIBEX / JSON / regex driven decoding itself is ABSTRACT:
   each wrapper takes an "answer" that stands for everything the decoding computed for this message
   (frame found or not and its description, decoded or error text, regex captures, SOME/IP segment
   bookkeeping ...).  In the plugin records the answer is an arbitrary function of an arbitrary plugin state and
   the message, so the theorems hold for every behaviour of the decoding functions.
   No proofs in this file (Plugins/DecodersProofs.v). *)
From Coq Require Import List NArith Bool Strings.String.
From AdltV Require Import Base.Res Base.MachInt Plugins.Chain Plugins.Anon.
Import ListNotations.
Open Scope N_scope.

(* ---------------------------------------------------------------- the only writes that occur *)
(* msg.set_payload_text(..) / msg.payload_text = .. *)
Definition with_text (m : msg) (t : option (list N)) : msg :=
  {| m_index := m_index m; m_rtime := m_rtime m; m_ecu := m_ecu m; m_ts := m_ts m; m_htyp := m_htyp m;
     m_mcnt := m_mcnt m; m_len := m_len m; m_ext := m_ext m; m_payload := m_payload m; m_text := t; m_lc := m_lc m |}.
(* msg.extended_header = Some(..) *)
Definition with_ext (m : msg) (e : ext_hdr) : msg :=
  {| m_index := m_index m; m_rtime := m_rtime m; m_ecu := m_ecu m; m_ts := m_ts m; m_htyp := m_htyp m;
     m_mcnt := m_mcnt m; m_len := m_len m; m_ext := Some e; m_payload := m_payload m; m_text := m_text m; m_lc := m_lc m |}.
(* msg.timestamp_dms = .. *)
Definition with_ts (m : msg) (ts : N) : msg :=
  {| m_index := m_index m; m_rtime := m_rtime m; m_ecu := m_ecu m; m_ts := ts; m_htyp := m_htyp m;
     m_mcnt := m_mcnt m; m_len := m_len m; m_ext := m_ext m; m_payload := m_payload m; m_text := m_text m; m_lc := m_lc m |}.

(* ---------------------------------------------------------------- selection predicates (src/dlt/mod.rs) *)
Definition ctid_TC : N := c4 84 67 0 0.       (* "TC\0\0" *)
Definition ctid_MMSG : N := c4 77 77 83 71.   (* "MMSG" *)

(* msg.mstp() == NwTrace(Can): mstp bits = 2 and DltMessageNwType::from(mtin) == Can, i.e. mtin = 2 *)
Definition is_nw_can (m : msg) : bool :=
  match m_ext m with
  | Some e => ((e_vmm e / 2) mod 8 =? 2) && (e_vmm e / 16 =? 2)
  | None => false            (* mstp() of a message without extended header is Log(Fatal) *)
  end.
(* msg.mstp() == NwTrace(Ipc): DltMessageNwType::from maps 2..6 to Can..SomeIp and EVERYTHING ELSE to Ipc *)
Definition is_nw_ipc (m : msg) : bool :=
  match m_ext m with
  | Some e => ((e_vmm e / 2) mod 8 =? 2) && negb ((2 <=? e_vmm e / 16) && (e_vmm e / 16 <=? 6))
  | None => false
  end.
(* msg.noar() >= 2 && msg.ctid() == Some("TC\0\0")   (self.ctid is always Some(TC) after from_json) *)
Definition noar2_ctid_tc (m : msg) : bool :=
  match m_ext m with
  | Some e => (2 <=? e_noar e) && (e_ctid e =? ctid_TC)
  | None => false
  end.

(* ---------------------------------------------------------------- NonVerbosePlugin::process_msg *)
(* the decoding's answer for a message: no usable frame (ECU unknown / no version / id unknown), or a frame was
   found — then a text is always set (decoded text, "processing err" or "payload too small") and [install] is
   the extended header of the frame description when the decoding succeeded and the description has one *)
Inductive nv_answer := NvNoFrame | NvFrame (text : list N) (install : option ext_hdr).

Definition nv_wrong_len_text (n : N) : list N := bytes_of_string "NVP: wrong payload len " ++ dec n.

Definition nv_wrap (enabled : bool) (a : nv_answer) (m : msg) : msg * bool :=
  if negb enabled || is_verbose m then (m, true)
  else
    match first_arg false (is_big_endian m) (m_payload m) with      (* args.next(): the message id *)
    | Ok (Some raw) =>
        if 4 <=? blen raw then
          match a with
          | NvNoFrame => (m, true)
          | NvFrame t install =>
              let m1 := with_text m (Some t) in
              (* if let Some(ext_header) = &frame.ext_header { if msg.extended_header.is_none() { .. } } *)
              (match install, m_ext m1 with
               | Some e, None => with_ext m1 e
               | _, _ => m1
               end, true)
          end
        else (with_text m (Some (nv_wrong_len_text (blen raw))), true)
    | _ => (m, true)
    end.

(* ---------------------------------------------------------------- SomeipPlugin::process_msg *)
(* segmented_type == None -> nothing; otherwise a text is set (decoded / segment bookkeeping / error text) *)
Inductive text_answer := TNone | TSet (text : list N).

Definition someip_wrap (a : text_answer) (m : msg) : msg * bool :=
  if is_nw_ipc m && noar2_ctid_tc m then
    match a with
    | TSet t => (with_text m (Some t), true)
    | TNone => (m, true)
    end
  else (m, true).

(* ---------------------------------------------------------------- CanPlugin::process_msg *)
(* decoded_header is Some(Ok(text)) or anything else (then an error text, but only over a missing text) *)
Inductive can_answer := CanOk (text : list N) | CanErr (text : list N).

Definition can_wrap (a : can_answer) (m : msg) : msg * bool :=
  if is_nw_can m && noar2_ctid_tc m then
    match a with
    | CanOk t => (with_text m (Some t), true)
    | CanErr t => (match m_text m with None => with_text m (Some t) | Some _ => m end, true)
    end
  else (m, true).     (* incl. the GET_LOG_INFO branch: only the plugin's channel map changes *)

(* ---------------------------------------------------------------- MuniicPlugin::process_msg *)
Definition muniic_wrap (a : text_answer) (m : msg) : msg * bool :=
  match m_ext m with
  | Some e =>
      if (e_vmm e mod 2 =? 1) && (e_ctid e =? ctid_MMSG) && (e_noar e =? 13) then
        match a with
        | TSet t => (with_text m (Some t), true)      (* new_payload_text and the argument text both available *)
        | TNone => (m, true)
        end
      else (m, true)   (* incl. ctid MDLT: process_cfg_msg only reads the message *)
  | None => (m, true)
  end.

(* ---------------------------------------------------------------- RewritePlugin::process_msg *)
(* for every rewrite config whose filter matches and whose regex captures: per named group
   "text" -> payload_text = capture (None when the group did not participate), "timeStamp" -> timestamp_dms = value *)
Inductive rw_action := RwText (t : option (list N)) | RwTs (ts : N).
Definition rw_apply (m : msg) (a : rw_action) : msg :=
  match a with RwText t => with_text m t | RwTs ts => with_ts m ts end.

Definition rewrite_wrap (enabled : bool) (acts : list rw_action) (m : msg) : msg * bool :=
  if negb enabled then (m, true) else (fold_left rw_apply acts m, true).

(* ---------------------------------------------------------------- the five plugins *)
Section Plugins.
  Context {St : Type} (s0 : St) (next : St -> msg -> St).

  Definition wrapped {A} (wrap : A -> msg -> msg * bool) (ans : St -> msg -> A) : plugin :=
    {| p_st := St; p_state := s0;
       p_step := fun s m => match wrap (ans s m) m with (m', b) => (next s m, m', b) end |}.

  Definition nv_plugin (enabled : bool) (ans : St -> msg -> nv_answer) : plugin := wrapped (nv_wrap enabled) ans.
  Definition someip_plugin (ans : St -> msg -> text_answer) : plugin := wrapped someip_wrap ans.
  Definition can_plugin (ans : St -> msg -> can_answer) : plugin := wrapped can_wrap ans.
  Definition muniic_plugin (ans : St -> msg -> text_answer) : plugin := wrapped muniic_wrap ans.
  Definition rewrite_plugin (enabled : bool) (ans : St -> msg -> list rw_action) : plugin := wrapped (rewrite_wrap enabled) ans.
End Plugins.

(* "p is (the wrapper model of) one of the five real decoders", for any decoding behaviour and plugin state;
   the index says whether the timestamp licence is needed *)
Inductive real_decoder : bool -> plugin -> Prop :=
| rd_nv a St s0 next enabled ans : real_decoder a (@nv_plugin St s0 next enabled ans)
| rd_someip a St s0 next ans : real_decoder a (@someip_plugin St s0 next ans)
| rd_can a St s0 next ans : real_decoder a (@can_plugin St s0 next ans)
| rd_muniic a St s0 next ans : real_decoder a (@muniic_plugin St s0 next ans)
| rd_rewrite St s0 next enabled ans : real_decoder true (@rewrite_plugin St s0 next enabled ans).
