(* C19 — model of src/plugins/anonymize.rs (AnonymizePlugin::process_msg and its four helpers) together with
   the first call of DltMessageArgIterator::next (src/dlt/mod.rs) that ctrl_msgs_anon relies on.
   No proofs in this file (Plugins/AnonProofs.v).

   Representation: the Rust state is
       ecu_map  : HashMap<old ecu, EcuData{ecu}>
       apid_maps: HashMap<new ecu, HashMap<old apid, ApidData{apid, ctid_map: HashMap<old ctid, new ctid>}>>
   Hash maps are association lists in insertion order (only `contains_key`, `get`, `insert` of an absent key
   and `len` are used, none of which depends on the iteration order).  The ctid maps hanging below an apid entry
   are kept in a third list keyed by (new ecu, old apid) — the same information, flattened.

   [ck] selects the code after (true) / before (false) the repair of `payload_raw.get(0..4).unwrap()`
   (commit "fix: anonymize: do not panic on a control response whose first argument is shorter than 4 bytes"). *)
From Coq Require Import List NArith Bool Strings.String Strings.Ascii.
From AdltV Require Import Base.Res Base.MachInt Plugins.Chain.
Import ListNotations.
Open Scope N_scope.
Open Scope res_scope.

(* ---------------------------------------------------------------- bytes, numbers, strings *)
Definition c4 (a b c d : N) : N := ((a * 256 + b) * 256 + c) * 256 + d.

Definition bytes_of_string (s : string) : list N := map N_of_ascii (list_ascii_of_string s).

Definition blen {A} (l : list A) : N := N.of_nat (List.length l).

(* `{}` of an unsigned integer: decimal digits, exact below 10^20 (> 2^64) *)
Fixpoint dec_aux (fuel : nat) (n : N) (acc : list N) : list N :=
  match fuel with
  | O => acc
  | S f => let acc' := (48 + n mod 10) :: acc in if n / 10 =? 0 then acc' else dec_aux f (n / 10) acc'
  end.
Definition dec (n : N) : list N := dec_aux 20 n [].

(* `{:03}`: at least three digits, zero padded *)
Definition pad3 (ds : list N) : list N :=
  match ds with
  | [a] => [48; 48; a]
  | [a; b] => [48; a; b]
  | _ => ds
  end.

(* DltChar4::from_str on an ASCII string: the first (at most) four bytes, zero filled.  (The non-ASCII error
   branch, `unwrap_or_else(|_| from_buf(b"E99A"))`, is unreachable: format! only produces ASCII here.) *)
Definition char4_from_str (s : list N) : N :=
  match s with
  | a :: b :: c :: d :: _ => c4 a b c d
  | [a; b; c] => c4 a b c 0
  | [a; b] => c4 a b 0 0
  | [a] => c4 a 0 0 0
  | [] => 0
  end.

(* DltChar4::from_str(format!("{letter}{:03}", n)) *)
Definition pseudo (letter n : N) : N := char4_from_str (letter :: pad3 (dec n)).

Definition letter_E : N := 69.
Definition letter_A : N := 65.
Definition letter_C : N := 67.

(* number of ids a table can hold before pseudonyms repeat: "X001".."X999"; the 1000th is "X100" again *)
Definition capacity : N := 999.

Fixpoint le_bytes (k : nat) (n : N) : list N :=
  match k with O => [] | S k' => (n mod 256) :: le_bytes k' (n / 256) end.
(* crate::to_endian_vec!(x, big) for a k-byte integer *)
Definition endian (k : nat) (big : bool) (n : N) : list N := if big then rev (le_bytes k n) else le_bytes k n.

Fixpoint of_le (l : list N) : N := match l with [] => 0 | b :: r => b + 256 * of_le r end.
(* uNN::from_be_bytes / from_le_bytes *)
Definition uint_of (big : bool) (l : list N) : N := if big then of_le (rev l) else of_le l.

(* &l[a..b] / l.get(a..b): panics (resp. is None) unless a <= b <= len *)
Definition slice (l : list N) (a b : N) : res (list N) :=
  if (a <=? b) && (b <=? blen l) then Ok (firstn (N.to_nat (b - a)) (skipn (N.to_nat a) l)) else Panic site_index.

(* ---------------------------------------------------------------- association lists *)
Section AList.
  Context {K V : Type} (eqb : K -> K -> bool).
  Fixpoint lookup_by (k : K) (l : list (K * V)) : option V :=
    match l with
    | [] => None
    | (k', v) :: r => if eqb k k' then Some v else lookup_by k r
    end.
  (* insert or replace *)
  Fixpoint set_by (k : K) (v : V) (l : list (K * V)) : list (K * V) :=
    match l with
    | [] => [(k, v)]
    | (k', v') :: r => if eqb k k' then (k, v) :: r else (k', v') :: set_by k v r
    end.
End AList.

Definition pair_eqb (a b : N * N) : bool := N.eqb (fst a) (fst b) && N.eqb (snd a) (snd b).

(* a pseudonym table: old id -> new id *)
Definition tbl := list (N * N).
Definition alookup (k : N) (t : tbl) : option N := lookup_by N.eqb k t.

(* `if map.contains_key(k) { *map.get(k) } else { let p = pseudo(letter, map.len() + 1); map.insert(k, p); p }` *)
Definition tbl_get (letter k : N) (t : tbl) : tbl * N :=
  match alookup k t with
  | Some p => (t, p)
  | None => let p := pseudo letter (blen t + 1) in (t ++ [(k, p)], p)
  end.

Record anon_st := {
  a_ecus : tbl;                        (* ecu_map *)
  a_apids : list (N * tbl);            (* new ecu -> (old apid -> new apid) *)
  a_ctids : list ((N * N) * tbl)       (* (new ecu, old apid) -> (old ctid -> new ctid) *)
}.
Definition anon_init : anon_st := {| a_ecus := []; a_apids := []; a_ctids := [] |}.

Definition apid_tbl (st : anon_st) (ecu' : N) : tbl :=
  match lookup_by N.eqb ecu' (a_apids st) with Some t => t | None => [] end.
Definition ctid_tbl (st : anon_st) (ecu' apid : N) : tbl :=
  match lookup_by pair_eqb (ecu', apid) (a_ctids st) with Some t => t | None => [] end.

(* ---------------------------------------------------------------- message predicates (src/dlt/mod.rs) *)
Definition is_ctrl_request (m : msg) : bool :=
  match m_ext m with
  | Some e => ((e_vmm e / 2) mod 8 =? 3) && (e_vmm e / 16 =? 1)
  | None => false
  end.
Definition is_ctrl_response (m : msg) : bool :=
  match m_ext m with
  | Some e => ((e_vmm e / 2) mod 8 =? 3) && (e_vmm e / 16 =? 2)
  | None => false
  end.
Definition is_verbose (m : msg) : bool :=
  match m_ext m with Some e => e_vmm e mod 2 =? 1 | None => false end.
Definition is_big_endian (m : msg) : bool := (m_htyp m / 2) mod 2 =? 1.
Definition has_timestamp (m : msg) : bool := (m_htyp m / 16) mod 2 =? 1.

(* ---------------------------------------------------------------- first argument of a message *)
(* `len > 0 && payload.len() >= index + len` with index = 4 *)
Definition fixed_arg (p : list N) (len : N) : res (option (list N)) :=
  if (0 <? len) && (4 + len <=? blen p) then r <- slice p 4 (4 + len) ;; Ok (Some r) else Ok None.

Definition flag (ti mask : N) : bool := negb (N.land ti mask =? 0).

(* tyle: [Dlt354] 1 = 8, 2 = 16, 3 = 32, 4 = 64, 5 = 128 bit, anything else 0 *)
Definition tyle_len (ti : N) : N :=
  match N.land ti 15 with 1 => 1 | 2 => 2 | 3 => 4 | 4 => 8 | 5 => 16 | _ => 0 end.

(* DltMessageArgIterator::next with index = 0; only payload_raw of the argument is returned *)
Definition first_arg (verbose big : bool) (p : list N) : res (option (list N)) :=
  if verbose then
    if 4 <=? blen p then
      tib <- slice p 0 4 ;;
      let ti := uint_of big tib in
      let len := tyle_len ti in
      if flag ti 2048 then Ok None                      (* VARI *)
      else if flag ti 4096 then Ok None                 (* FIXP *)
      else if flag ti 16 then                           (* BOOL: len 1, or 0 (dlt-viewer) read as 1 *)
        if len =? 1 then fixed_arg p 1 else if len =? 0 then fixed_arg p 1 else Ok None
      else if flag ti 96 then                           (* SINT | UINT *)
        if len <? 1 then Ok None else fixed_arg p len
      else if flag ti 128 then                          (* FLOA *)
        if len <? 2 then Ok None else fixed_arg p len
      else if flag ti 1536 then                         (* STRG | RAWD: u16 length, then the bytes *)
        if blen p <? 6 then Ok None
        else lb <- slice p 4 6 ;;
             let l := uint_of big lb in
             if 6 + l <=? blen p then r <- slice p 6 (6 + l) ;; Ok (Some r) else Ok None
      else Ok None
    else Ok None
  else
    (* non-verbose: the 4-byte message id *)
    if 4 <=? blen p then r <- slice p 0 4 ;; Ok (Some r) else Ok None.

(* ---------------------------------------------------------------- the four helpers *)
(* ecu_anon *)
Definition ecu_anon (st : anon_st) (ecu : N) : anon_st * N :=
  match tbl_get letter_E ecu (a_ecus st) with
  | (t', p) => ({| a_ecus := t'; a_apids := a_apids st; a_ctids := a_ctids st |}, p)
  end.

(* apid_ctid_anon, for a message that has an extended header; [ecu'] is the already anonymised msg.ecu *)
Definition apid_ctid_anon (st : anon_st) (ecu' : N) (e : ext_hdr) : anon_st * ext_hdr :=
  match tbl_get letter_A (e_apid e) (apid_tbl st ecu') with
  | (at', apid') =>
      match tbl_get letter_C (e_ctid e) (ctid_tbl st ecu' (e_apid e)) with
      | (ct', ctid') =>
          ({| a_ecus := a_ecus st;
              a_apids := set_by N.eqb ecu' at' (a_apids st);
              a_ctids := set_by pair_eqb (ecu', e_apid e) ct' (a_ctids st) |},
           {| e_vmm := e_vmm e; e_noar := e_noar e; e_apid := apid'; e_ctid := ctid' |})
      end
  end.

(* the service id of a control response *)
Definition ctrl_message_id (ck big : bool) (arg : option (list N)) : res N :=
  match arg with
  | None => Ok 0
  | Some raw =>
      if 4 <=? blen raw then b <- slice raw 0 4 ;; Ok (uint_of big b)
      else if ck then Ok 0                 (* repaired: treated like a missing id *)
      else Panic site_unwrap               (* before the repair: get(0..4).unwrap() *)
  end.

Definition sw_version_text : list N := bytes_of_string "adlt --anon removed sw_version".

(* ctrl_msgs_anon: new payload *)
Definition ctrl_msgs_anon (ck : bool) (m : msg) : res (list N) :=
  if is_ctrl_response m then
    arg <- first_arg (is_verbose m) (is_big_endian m) (m_payload m) ;;
    id <- ctrl_message_id ck (is_big_endian m) arg ;;
    if id =? 19 then        (* SERVICE_ID_GET_SOFTWARE_VERSION *)
      Ok (endian 4 (is_big_endian m) id ++ [0] ++ endian 4 (is_big_endian m) (blen sw_version_text) ++ sw_version_text)
    else if id =? 3 then    (* SERVICE_ID_GET_LOG_INFO *)
      Ok (endian 4 (is_big_endian m) id)
    else Ok (m_payload m)
  else Ok (m_payload m).

(* payload_anon: new payload *)
Definition payload_anon (m : msg) : res (list N) :=
  if negb (is_ctrl_request m) && negb (is_ctrl_response m) then
    if negb (is_verbose m) then
      if 4 <=? blen (m_payload m) then
        h <- slice (m_payload m) 0 4 ;;
        Ok (h ++ endian 8 (is_big_endian m) (m_rtime m / 1000))
      else Ok (m_payload m)
    else
      let s := bytes_of_string "--anon,reception_time:" ++ dec (m_rtime m / 1000) ++ bytes_of_string "ms" in
      Ok (endian 4 (is_big_endian m) (512 + 32768)     (* DLT_TYPE_INFO_STRG | DLT_SCOD_UTF8 *)
          ++ endian 2 (is_big_endian m) (trunc 16 (blen s + 1)) ++ s ++ [0])
  else Ok (m_payload m).

Definition with_payload (m : msg) (p : list N) : msg :=
  {| m_index := m_index m; m_rtime := m_rtime m; m_ecu := m_ecu m; m_ts := m_ts m;
     m_htyp := m_htyp m; m_mcnt := m_mcnt m; m_len := m_len m; m_ext := m_ext m;
     m_payload := p; m_text := m_text m; m_lc := m_lc m |}.

Definition with_ids (m : msg) (ecu' : N) (ext' : option ext_hdr) : msg :=
  {| m_index := m_index m; m_rtime := m_rtime m; m_ecu := ecu'; m_ts := m_ts m;
     m_htyp := m_htyp m; m_mcnt := m_mcnt m; m_len := m_len m; m_ext := ext';
     m_payload := m_payload m; m_text := m_text m; m_lc := m_lc m |}.

(* AnonymizePlugin::process_msg (enabled; always returns true) *)
Definition anon_step (ck : bool) (st : anon_st) (m : msg) : res (anon_st * msg) :=
  match ecu_anon st (m_ecu m) with
  | (st1, ecu') =>
      let r := match m_ext m with
               | Some e => match apid_ctid_anon st1 ecu' e with (s, e') => (s, Some e') end
               | None => (st1, None)
               end in
      let m1 := with_ids m ecu' (snd r) in
      p1 <- ctrl_msgs_anon ck m1 ;;
      let m2 := with_payload m1 p1 in
      p2 <- payload_anon m2 ;;
      Ok (fst r, with_payload m2 p2)
  end.

Fixpoint anon_run (ck : bool) (st : anon_st) (ms : list msg) : res (anon_st * list msg) :=
  match ms with
  | [] => Ok (st, [])
  | m :: rest =>
      r <- anon_step ck st m ;;
      r' <- anon_run ck (fst r) rest ;;
      Ok (fst r', snd r :: snd r')
  end.

(* the anonymiser as a plugin of the chain (a panic of the real plugin unwinds through plugins_process_msgs;
   that case is handled by [anon_run], here the message is passed on unchanged) *)
Definition anon_plugin : plugin :=
  {| p_st := anon_st; p_state := anon_init;
     p_step := fun st m => match anon_step true st m with Ok (st', m') => (st', m', true) | _ => (st, m, true) end |}.

(* views of the tables *)
Definition ecu_of (st : anon_st) (ecu : N) : option N := alookup ecu (a_ecus st).
Definition apid_of (st : anon_st) (ecu' apid : N) : option N := alookup apid (apid_tbl st ecu').
Definition ctid_of (st : anon_st) (ecu' apid ctid : N) : option N := alookup ctid (ctid_tbl st ecu' apid).

(* message [o] is message [m] with its ids replaced according to the tables of [st] *)
Definition renamed_by (st : anon_st) (m o : msg) : Prop :=
  ecu_of st (m_ecu m) = Some (m_ecu o) /\
  match m_ext m, m_ext o with
  | Some e, Some e' =>
      e_vmm e' = e_vmm e /\ e_noar e' = e_noar e /\
      apid_of st (m_ecu o) (e_apid e) = Some (e_apid e') /\
      ctid_of st (m_ecu o) (e_apid e) (e_ctid e) = Some (e_ctid e')
  | None, None => True
  | _, _ => False
  end.

Definition tbl_injective (t : tbl) : Prop :=
  forall k1 k2 p, alookup k1 t = Some p -> alookup k2 t = Some p -> k1 = k2.
