(* C19 — text-driven state of a decoder: MuniicPlugin's configuration-message recogniser
   (src/plugins/muniic.rs: `config_regex`, `process_cfg_msg`, the MDLT branch of `process_msg`) and what a
   panicking `process_msg` means for `plugins_process_msgs` (src/plugins/mod.rs: the panic unwinds the loop;
   the message in work and every later one is never handed to the outflow).

     config_regex: regex::Regex::new(r"Version: (\d+.\d+), git: (\w+), model hash: (\d+)").unwrap()

     fn process_cfg_msg(&mut self, msg: &mut DltMessage) {
         if let Ok(payload_text) = msg.payload_as_text() {
             if let Some(captures) = self.config_regex.captures(&payload_text) {
                 let version = captures.get(1).unwrap().as_str();
                 let git = captures.get(2).unwrap().as_str();
                 let model_hash = captures.get(3).unwrap().as_str();
                 ...  per-ECU table, warnings, update_state(..)

   The regex engine is modelled by a small backtracking matcher over a regex syntax tree (literal, one character
   of a class, class+, concatenation, capture group, greedy optional) — leftmost-first semantics like the regex
   crate — on ASCII texts (`\d`, `\w`, `.` are Unicode aware in the crate; the correspondence cases are ASCII).
   `captures.get(k)` is `None` for a group that did not participate in the match; `.unwrap()` on it panics.
   `payload_as_text()`, `cfg_includes_model_hash` and the `Display`/`Debug` renderings of the ECU id are
   parameters (the harness reads them off the real run).  No proofs in this file (Plugins/MuniicCfgProofs.v). *)
From Coq Require Import List NArith Bool Strings.String.
From AdltV Require Import Base.Res Plugins.Chain Plugins.Anon Plugins.Decoders.
Import ListNotations.
Open Scope N_scope.

Definition text := list N.

(* ---------------------------------------------------------------- regex syntax and matcher *)
Inductive cls := CDigit | CWord | CAny.
Definition in_cls (c : cls) (x : N) : bool :=
  match c with
  | CDigit => (48 <=? x) && (x <=? 57)
  | CWord => ((48 <=? x) && (x <=? 57)) || ((65 <=? x) && (x <=? 90)) || ((97 <=? x) && (x <=? 122)) || (x =? 95)
  | CAny => negb (x =? 10)                      (* `.` matches everything but \n *)
  end.

Inductive re :=
| RLit (l : text)
| RCls (c : cls)
| RPlus (c : cls)                (* c+ greedy *)
| RCat (a b : re)
| RGroup (g : nat) (r : re)      (* capture group number g *)
| ROpt (r : re).                 (* (?:r)? greedy *)

(* capture vector: group number -> what it captured, None = did not participate *)
Definition caps := nat -> option text.
Definition no_caps : caps := fun _ => None.
Definition set_cap (g : nat) (v : text) (c : caps) : caps := fun i => if Nat.eqb i g then Some v else c i.

Fixpoint strip_prefix (l t : text) : option text :=
  match l, t with
  | [], _ => Some t
  | x :: l', y :: t' => if x =? y then strip_prefix l' t' else None
  | _ :: _, [] => None
  end.

(* after the first character of c+ : take more first (greedy), give back on failure of the continuation *)
Fixpoint plus_k {A} (c : cls) (t : text) (k : text -> option A) : option A :=
  match t with
  | x :: t' =>
      if in_cls c x then match plus_k c t' k with Some r => Some r | None => k t end else k t
  | [] => k []
  end.

Fixpoint rmatch (r : re) (t : text) (cs : caps) (k : text -> caps -> option caps) : option caps :=
  match r with
  | RLit l => match strip_prefix l t with Some t' => k t' cs | None => None end
  | RCls c => match t with x :: t' => if in_cls c x then k t' cs else None | [] => None end
  | RPlus c => match t with x :: t' => if in_cls c x then plus_k c t' (fun t'' => k t'' cs) else None | [] => None end
  | RCat a b => rmatch a t cs (fun t1 c1 => rmatch b t1 c1 k)
  | RGroup g r' =>
      rmatch r' t cs (fun t1 c1 => k t1 (set_cap g (firstn (List.length t - List.length t1) t) c1))
  | ROpt r' => match rmatch r' t cs k with Some x => Some x | None => k t cs end
  end.

(* Regex::captures: unanchored, leftmost start *)
Fixpoint rsearch (r : re) (t : text) : option caps :=
  match rmatch r t no_caps (fun _ c => Some c) with
  | Some c => Some c
  | None => match t with _ :: t' => rsearch r t' | [] => None end
  end.

(* groups that take part in EVERY match: not below an optional *)
Fixpoint mand (r : re) : list nat :=
  match r with
  | RCat a b => mand a ++ mand b
  | RGroup g r' => g :: mand r'
  | _ => []
  end.

(* the source text of a regex (what is written in Regex::new(r"...")) *)
Definition cls_src (c : cls) : text :=
  match c with CDigit => [92; 100] | CWord => [92; 119] | CAny => [46] end.
Fixpoint re_src (r : re) : text :=
  match r with
  | RLit l => l
  | RCls c => cls_src c
  | RPlus c => cls_src c ++ [43]
  | RCat a b => re_src a ++ re_src b
  | RGroup _ r' => [40] ++ re_src r' ++ [41]
  | ROpt r' => [40; 63; 58] ++ re_src r' ++ [41; 63]
  end.

Definition lit (s : string) : re := RLit (bytes_of_string s).
Fixpoint cat (l : list re) : re :=
  match l with [] => RLit [] | [r] => r | r :: l' => RCat r (cat l') end.

(* r"Version: (\d+.\d+), git: (\w+), model hash: (\d+)" *)
Definition cfg_re : re :=
  cat [lit "Version: "; RGroup 1 (cat [RPlus CDigit; RCls CAny; RPlus CDigit]);
       lit ", git: "; RGroup 2 (RPlus CWord);
       lit ", model hash: "; RGroup 3 (RPlus CDigit)].

(* the same with an optional git part: r"Version: (\d+.\d+)(?:, git: (\w+))?, model hash: (\d+)" *)
Definition cfg_re_optional_git : re :=
  cat [lit "Version: "; RGroup 1 (cat [RPlus CDigit; RCls CAny; RPlus CDigit]);
       ROpt (cat [lit ", git: "; RGroup 2 (RPlus CWord)]);
       lit ", model hash: "; RGroup 3 (RPlus CDigit)].

(* ---------------------------------------------------------------- process_cfg_msg *)
Record cfg_entry := { c_version : text; c_git : text; c_hash : text }.

Record cfg_st := {
  s_cfgs : list (N * (text * cfg_entry));   (* config_data_per_ecu: ecu -> (Display of the ecu, entry) *)
  s_warns : list text;                      (* self.warnings = state.value["warnings"] *)
  s_gen : N                                 (* state.generation *)
}.

Fixpoint text_eqb (a b : text) : bool :=
  match a, b with
  | [], [] => true
  | x :: a', y :: b' => (x =? y) && text_eqb a' b'
  | _, _ => false
  end.
Definition contains (l : list text) (w : text) : bool := existsb (text_eqb w) l.

Fixpoint lookup (e : N) (l : list (N * (text * cfg_entry))) : option cfg_entry :=
  match l with
  | [] => None
  | (e', (_, c)) :: r => if e =? e' then Some c else lookup e r
  end.
Fixpoint replace (e : N) (c : cfg_entry) (l : list (N * (text * cfg_entry))) : list (N * (text * cfg_entry)) :=
  match l with
  | [] => []
  | (e', (d, c')) :: r => if e =? e' then (e', (d, c)) :: r else (e', (d, c')) :: replace e c r
  end.

(* captures.get(k).unwrap() *)
Definition site_cfg_unwrap (k : nat) : N := 19000 + N.of_nat k.
Definition get_unwrap (c : caps) (k : nat) : res text :=
  match c k with Some v => Ok v | None => Panic (site_cfg_unwrap k) end.

Section Handler.
  (* the compiled regex: text -> capture vector of the leftmost match *)
  Variable regex : text -> option caps.
  (* cfg_includes_model_hash(&self.json_config, model_hash) *)
  Variable known_hash : text -> bool.

  Definition warn_unknown (hash dbg : text) : text :=
    bytes_of_string "unknown model_hash " ++ hash ++ bytes_of_string " for ecu:" ++ dbg ++
    bytes_of_string " received. Consider updating all.json!".
  Definition warn_changed (dbg old new : text) : text :=
    bytes_of_string "config msg with different model_hash for ecu:" ++ dbg ++ bytes_of_string " received, old:" ++ old ++
    bytes_of_string ", new:" ++ new.

  (* the closure check_model_hash: (warnings', pushed?) *)
  Definition check_model_hash (warns : list text) (hash dbg : text) : list text * bool :=
    if negb (known_hash hash) then
      let w := warn_unknown hash dbg in
      if negb (contains warns w) then (warns ++ [w], true) else (warns, false)
    else (warns, false).

  (* [ecu]: msg.ecu with its Display / Debug rendering; [ptext]: msg.payload_as_text() (None = Err) *)
  Definition process_cfg (st : cfg_st) (ecu : N) (disp dbg : text) (ptext : option text) : res cfg_st :=
    match ptext with
    | None => Ok st
    | Some t =>
        match regex t with
        | None => Ok st                                   (* "got config msg without regex match" *)
        | Some c =>
            (version <- get_unwrap c 1 ;;
             git <- get_unwrap c 2 ;;
             hash <- get_unwrap c 3 ;;
             match lookup ecu (s_cfgs st) with
             | Some cur =>
                 if negb (text_eqb (c_version cur) version) || negb (text_eqb (c_git cur) git)
                    || negb (text_eqb (c_hash cur) hash) then
                   let new := {| c_version := version; c_git := git; c_hash := hash |} in
                   if negb (text_eqb (c_hash cur) hash) then
                     let w := warn_changed dbg (c_hash cur) hash in
                     if negb (contains (s_warns st) w) then
                       let warns1 := s_warns st ++ [w] in
                       let '(warns2, _) := check_model_hash warns1 hash dbg in
                       (* update_state(Warnings); update_state(ConfigPerEcu) *)
                       Ok {| s_cfgs := replace ecu new (s_cfgs st); s_warns := warns2; s_gen := s_gen st + 2 |}
                     else
                       Ok {| s_cfgs := replace ecu new (s_cfgs st); s_warns := s_warns st; s_gen := s_gen st + 1 |}
                   else
                     Ok {| s_cfgs := replace ecu new (s_cfgs st); s_warns := s_warns st; s_gen := s_gen st + 1 |}
                 else Ok st
             | None =>
                 let '(warns1, pushed) := check_model_hash (s_warns st) hash dbg in
                 Ok {| s_cfgs := s_cfgs st ++ [(ecu, (disp, {| c_version := version; c_git := git; c_hash := hash |}))];
                       s_warns := warns1; s_gen := s_gen st + (if pushed then 2 else 1) |}
             end)%res
        end
    end.

  (* what the plugin does with a message it classifies as configuration message *)
  Definition ctid_MDLT : N := c4 77 68 76 84.

  Definition is_cfg_msg (m : msg) : bool :=
    match m_ext m with
    | Some e => (e_vmm e mod 2 =? 1) && negb (e_ctid e =? ctid_MMSG) && (e_ctid e =? ctid_MDLT)
    | None => false
    end.

  (* MuniicPlugin::process_msg with the panic made explicit.  [a]: answer of the MMSG decoding (Decoders.v),
     [disp]/[dbg]/[ptext]: renderings the configuration branch reads *)
  Definition muniic_process (a : text_answer) (disp dbg : text) (ptext : option text) (st : cfg_st) (m : msg)
    : res (cfg_st * (msg * bool)) :=
    if is_cfg_msg m then
      (st' <- process_cfg st (m_ecu m) disp dbg ptext ;; Ok (st', (m, true)))%res
    else Ok (st, muniic_wrap a m).
End Handler.

(* the label of the tree item of one ECU: format!("{}: version:{}, git:{}, model_hash:{}", ecu, ..) *)
Definition cfg_label (x : N * (text * cfg_entry)) : text :=
  let '(_, (disp, c)) := x in
  disp ++ bytes_of_string ": version:" ++ c_version c ++ bytes_of_string ", git:" ++ c_git c ++
  bytes_of_string ", model_hash:" ++ c_hash c.

(* ---------------------------------------------------------------- a panicking plugin in the loop *)
(* plugins whose process_msg may panic; plugins_process_msgs does not catch: the panic leaves the function.
   Result: messages handed to the outflow so far, and Ok (plugins) / Panic *)
Record rplugin := {
  rp_st : Type;
  rp_state : rp_st;
  rp_step : rp_st -> msg -> res (rp_st * msg * bool)
}.

Definition rp_apply (p : rplugin) (m : msg) : res (rplugin * msg * bool) :=
  match rp_step p (rp_state p) m with
  | Ok (s', m', b) => Ok ({| rp_st := rp_st p; rp_state := s'; rp_step := rp_step p |}, m', b)
  | Panic s => Panic s
  | OutOfFuel => OutOfFuel
  end.

Fixpoint rpass (ps : list rplugin) (m : msg) : res (list rplugin * msg * bool) :=
  match ps with
  | [] => Ok ([], m, true)
  | p :: r =>
      match rp_apply p m with
      | Ok (p', m', true) =>
          match rpass r m' with
          | Ok (r', m'', b) => Ok (p' :: r', m'', b)
          | Panic s => Panic s
          | OutOfFuel => OutOfFuel
          end
      | Ok (p', m', false) => Ok (p' :: r, m', false)
      | Panic s => Panic s
      | OutOfFuel => OutOfFuel
      end
  end.

(* (delivered messages, how the function ended: None = returned Ok(plugins), Some site = unwound) *)
Fixpoint rprocess (ps : list rplugin) (ms : list msg) : list msg * option N :=
  match ms with
  | [] => ([], None)
  | m :: rest =>
      match rpass ps m with
      | Ok (ps', m', fwd) =>
          match rprocess ps' rest with
          | (outs, e) => (if fwd then m' :: outs else outs, e)
          end
      | Panic s => ([], Some s)
      | OutOfFuel => ([], Some 0)
      end
  end.

(* a total plugin as a plugin that never panics *)
Definition lift_plugin (p : plugin) : rplugin :=
  {| rp_st := p_st p; rp_state := p_state p; rp_step := fun s m => Ok (p_step p s m) |}.

(* the Muniic plugin with its configuration state; the renderings are functions of the message (abstract) *)
Definition muniic_rplugin (regex : text -> option caps) (known_hash : text -> bool)
    (ans : msg -> text_answer) (disp dbg : msg -> text) (ptext : msg -> option text) (st0 : cfg_st) : rplugin :=
  {| rp_st := cfg_st; rp_state := st0;
     rp_step := fun st m =>
       match muniic_process regex known_hash (ans m) (disp m) (dbg m) (ptext m) st m with
       | Ok (st', (m', b)) => Ok (st', m', b)
       | Panic s => Panic s
       | OutOfFuel => OutOfFuel
       end |}.
