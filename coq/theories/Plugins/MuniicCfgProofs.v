(* C19 — proofs about Plugins/MuniicCfg.v: a group outside every optional takes part in every match; hence the
   `captures.get(k).unwrap()` of MuniicPlugin::process_cfg_msg cannot fail with the regex of the source, and can
   with an optional group; a panicking process_msg loses the message in work and everything after it. *)
From Coq Require Import List NArith Arith Bool Lia.
From AdltV Require Import Base.Res Plugins.Chain Plugins.ChainProofs Plugins.Anon Plugins.Decoders Plugins.DecodersProofs
  Plugins.MuniicCfg.
Import ListNotations.
Open Scope N_scope.

(* ---------------------------------------------------------------- participation of groups *)
Definition isset (g : nat) (c : caps) : Prop := c g <> None.

Lemma isset_set_same g v c : isset g (set_cap g v c).
Proof. unfold isset, set_cap. rewrite Nat.eqb_refl. discriminate. Qed.

Lemma isset_set_other g g' v c : isset g c -> isset g (set_cap g' v c).
Proof. unfold isset, set_cap. intros H. destruct (Nat.eqb g g'); [discriminate|exact H]. Qed.

Lemma plus_k_inv {A} c t (k : text -> option A) r : plus_k c t k = Some r -> exists t', k t' = Some r.
Proof.
  induction t as [|x t IH]; cbn; intros H; [eauto|].
  destruct (in_cls c x); [|eauto].
  destruct (plus_k c t k) as [r0|] eqn:E; [|eauto].
  inversion H; subst. apply IH. reflexivity.
Qed.

Lemma rmatch_sets r : forall t cs k out,
  rmatch r t cs k = Some out ->
  exists t1 c1, k t1 c1 = Some out /\ (forall g, isset g cs -> isset g c1) /\ (forall g, In g (mand r) -> isset g c1).
Proof.
  induction r as [l|c|c|a IHa b IHb|g r IH|r IH]; intros t cs k out H; cbn in H.
  - destruct (strip_prefix l t) as [t'|]; [|discriminate]. exists t', cs. cbn. repeat split; auto. intros ? [].
  - destruct t as [|x t']; [discriminate|]. destruct (in_cls c x); [|discriminate].
    exists t', cs. cbn. repeat split; auto. intros ? [].
  - destruct t as [|x t']; [discriminate|]. destruct (in_cls c x); [|discriminate].
    destruct (plus_k_inv _ _ _ _ H) as [t'' Hk]. exists t'', cs. cbn. repeat split; auto. intros ? [].
  - destruct (IHa _ _ _ _ H) as (t1 & c1 & H1 & S1 & M1).
    destruct (IHb _ _ _ _ H1) as (t2 & c2 & H2 & S2 & M2).
    exists t2, c2. split; [exact H2|]. split; [auto|].
    intros g0 Hin. cbn in Hin. apply in_app_or in Hin. destruct Hin; auto.
  - destruct (IH _ _ _ _ H) as (t1 & c1 & H1 & S1 & M1).
    eexists t1, _. split; [exact H1|]. split.
    + intros g0 Hs. apply isset_set_other. auto.
    + intros g0 [->|Hin]; [apply isset_set_same|apply isset_set_other; auto].
  - destruct (rmatch r t cs k) as [x|] eqn:E.
    + inversion H; subst. destruct (IH _ _ _ _ E) as (t1 & c1 & H1 & S1 & _).
      exists t1, c1. cbn. repeat split; auto. intros ? [].
    + exists t, cs. cbn. repeat split; auto. intros ? [].
Qed.

Lemma rsearch_sets r t : forall c, rsearch r t = Some c -> forall g, In g (mand r) -> isset g c.
Proof.
  induction t as [|x t IH]; intros c H g Hin; cbn in H.
  - destruct (rmatch r [] no_caps (fun _ c0 => Some c0)) as [c0|] eqn:E; [|discriminate].
    inversion H; subst. destruct (rmatch_sets _ _ _ _ _ E) as (t1 & c1 & H1 & _ & M). inversion H1; subst. auto.
  - destruct (rmatch r (x :: t) no_caps (fun _ c0 => Some c0)) as [c0|] eqn:E.
    + inversion H; subst. destruct (rmatch_sets _ _ _ _ _ E) as (t1 & c1 & H1 & _ & M). inversion H1; subst. auto.
    + eauto.
Qed.

(* ---------------------------------------------------------------- the handler *)
(* the guarantee process_cfg_msg relies on: every match has groups 1, 2, 3 *)
Definition all_participate (regex : text -> option caps) : Prop :=
  forall t c, regex t = Some c -> isset 1 c /\ isset 2 c /\ isset 3 c.

Lemma mand_all_participate r :
  In 1%nat (mand r) -> In 2%nat (mand r) -> In 3%nat (mand r) -> all_participate (rsearch r).
Proof. intros H1 H2 H3 t c H. repeat split; eapply rsearch_sets; eauto. Qed.

Lemma cfg_re_all_participate : all_participate (rsearch cfg_re).
Proof. apply mand_all_participate; cbn; auto. Qed.

Lemma process_cfg_ok regex known :
  all_participate regex ->
  forall st ecu disp dbg pt, exists st', process_cfg regex known st ecu disp dbg pt = Ok st'.
Proof.
  intros Hall st ecu disp dbg pt. unfold process_cfg.
  destruct pt as [t|]; [|eauto].
  destruct (regex t) as [c|] eqn:E; [|eauto].
  destruct (Hall _ _ E) as (H1 & H2 & H3). unfold isset in *.
  unfold get_unwrap.
  destruct (c 1%nat) as [v1|]; [|contradiction]. destruct (c 2%nat) as [v2|]; [|contradiction].
  destruct (c 3%nat) as [v3|]; [|contradiction]. cbn [bind].
  destruct (lookup ecu (s_cfgs st)) as [cur|].
  - destruct (negb (text_eqb (c_version cur) v1) || negb (text_eqb (c_git cur) v2) || negb (text_eqb (c_hash cur) v3)); [|eauto].
    destruct (negb (text_eqb (c_hash cur) v3)); [|eauto].
    destruct (negb (contains (s_warns st) (warn_changed dbg (c_hash cur) v3))); [|eauto].
    destruct (check_model_hash known (s_warns st ++ [warn_changed dbg (c_hash cur) v3]) v3 dbg). eauto.
  - destruct (check_model_hash known (s_warns st) v3 dbg). eauto.
Qed.

Lemma is_cfg_msg_wrap a m : is_cfg_msg m = true -> muniic_wrap a m = (m, true).
Proof.
  unfold is_cfg_msg, muniic_wrap. destruct (m_ext m) as [e|]; [|discriminate].
  intros H. apply andb_prop in H. destruct H as [H _]. apply andb_prop in H. destruct H as [_ H].
  apply negb_true_iff in H. rewrite H. rewrite andb_false_r. reflexivity.
Qed.

(* MuniicPlugin::process_msg = the wrapper of Decoders.v and never panics, when every match has all groups *)
Lemma muniic_process_ok regex known :
  all_participate regex ->
  forall a disp dbg pt st m, exists st', muniic_process regex known a disp dbg pt st m = Ok (st', muniic_wrap a m).
Proof.
  intros Hall a disp dbg pt st m. unfold muniic_process.
  destruct (is_cfg_msg m) eqn:E; [|eauto].
  destruct (process_cfg_ok regex known Hall st (m_ecu m) disp dbg pt) as [st' H]. rewrite H. cbn.
  rewrite (is_cfg_msg_wrap a m E). eauto.
Qed.

(* ---------------------------------------------------------------- the loop with panicking plugins *)
Lemma rprocess_dead ms : forall ps outs s,
  rprocess ps ms = (outs, Some s) ->
  exists pre m post, ms = pre ++ m :: post /\ rprocess ps pre = (outs, None) /\
    forall post', rprocess ps (pre ++ m :: post') = (outs, Some s).
Proof.
  induction ms as [|m rest IH]; intros ps outs s H; cbn in H; [discriminate|].
  destruct (rpass ps m) as [[[ps' m'] fwd]|s0|] eqn:E.
  - destruct (rprocess ps' rest) as [o e] eqn:R. inversion H; subst.
    destruct (IH _ _ _ R) as (pre & m0 & post & Hms & Hpre & Hall).
    exists (m :: pre), m0, post. split; [cbn; rewrite Hms; reflexivity|]. split.
    + cbn. rewrite E, Hpre. reflexivity.
    + intros post'. cbn. rewrite E, Hall. reflexivity.
  - inversion H; subst. exists [], m, rest. cbn. split; [reflexivity|]. split; [reflexivity|].
    intros post'. rewrite E. reflexivity.
  - inversion H; subst. exists [], m, rest. cbn. split; [reflexivity|]. split; [reflexivity|].
    intros post'. rewrite E. reflexivity.
Qed.

(* plugins that do not panic on the states they reach *)
Definition PanicFree (p : rplugin) : Prop :=
  exists I : rp_st p -> Prop,
    I (rp_state p) /\ forall s m, I s -> exists s' m' b, rp_step p s m = Ok (s', m', b) /\ I s'.

Lemma rpass_panic_free ps : Forall PanicFree ps ->
  forall m, exists ps' m' b, rpass ps m = Ok (ps', m', b) /\ Forall PanicFree ps'.
Proof.
  induction ps as [|p r IH]; intros HF m; cbn.
  - exists [], m, true. split; [reflexivity|constructor].
  - inversion HF as [|? ? Hp Hr]; subst. destruct Hp as (I & I0 & Istep).
    destruct (Istep _ m I0) as (s' & m' & b & Es & Is'). unfold rp_apply. rewrite Es.
    set (p' := {| rp_st := rp_st p; rp_state := s'; rp_step := rp_step p |}).
    assert (PanicFree p') as Hp' by (exists I; split; auto).
    destruct b.
    + destruct (IH Hr m') as (r' & m'' & b' & Er & Fr). rewrite Er. exists (p' :: r'), m'', b'. split; [reflexivity|].
      constructor; auto.
    + exists (p' :: r), m', false. split; [reflexivity|]. constructor; auto.
Qed.

Lemma rprocess_panic_free ms : forall ps, Forall PanicFree ps -> snd (rprocess ps ms) = None.
Proof.
  induction ms as [|m rest IH]; intros ps HF; cbn; [reflexivity|].
  destruct (rpass_panic_free ps HF m) as (ps' & m' & b & E & F'). rewrite E.
  specialize (IH ps' F'). destruct (rprocess ps' rest) as [o e]. cbn in *. exact IH.
Qed.

Lemma muniic_rplugin_panic_free regex known ans disp dbg ptext st0 :
  all_participate regex -> PanicFree (muniic_rplugin regex known ans disp dbg ptext st0).
Proof.
  intros Hall. exists (fun _ => True). split; [exact I|]. intros s m _. cbn.
  destruct (muniic_process_ok regex known Hall (ans m) (disp m) (dbg m) (ptext m) s m) as [st' H]. rewrite H.
  destruct (muniic_wrap (ans m) m) as [m' b]. eauto.
Qed.

(* the Muniic plugin alone, with every-group-participates regex: every message forwarded once, in order, as the
   wrapper leaves it *)
Lemma muniic_rplugin_run regex known ans disp dbg ptext :
  all_participate regex ->
  forall ms st0,
    rprocess [muniic_rplugin regex known ans disp dbg ptext st0] ms = (map (fun m => fst (muniic_wrap (ans m) m)) ms, None).
Proof.
  intros Hall. induction ms as [|m rest IH]; intros st0; [reflexivity|].
  cbn [rprocess rpass]. unfold rp_apply. cbn [muniic_rplugin rp_step rp_state rp_st].
  destruct (muniic_process_ok regex known Hall (ans m) (disp m) (dbg m) (ptext m) st0 m) as [st' H]. rewrite H.
  destruct (muniic_wrap (ans m) m) as [m' b] eqn:W.
  assert (b = true) as -> by (pose proof (muniic_wrap_ok false (ans m) m) as [Hb _]; rewrite W in Hb; exact Hb).
  change ({| rp_st := cfg_st; rp_state := st'; rp_step := _ |}) with (muniic_rplugin regex known ans disp dbg ptext st').
  rewrite IH. cbn. rewrite W. reflexivity.
Qed.

(* lifted total plugins: the panic-aware loop is the loop of Chain.v *)
Lemma rpass_lift ps : forall m,
  rpass (map lift_plugin ps) m =
  match pass ps m with (ps', m', b) => Ok (map lift_plugin ps', m', b) end.
Proof.
  induction ps as [|p r IH]; intros m; cbn; [reflexivity|].
  unfold rp_apply, p_apply. cbn. destruct (p_step p (p_state p) m) as [[s' m'] b]. destruct b; [|reflexivity].
  rewrite IH. destruct (pass r m') as [[r' m''] b']. reflexivity.
Qed.

Lemma rprocess_lift ms : forall ps, rprocess (map lift_plugin ps) ms = (snd (process ps ms), None).
Proof.
  induction ms as [|m rest IH]; intros ps; [reflexivity|].
  cbn [rprocess]. rewrite rpass_lift. unfold process in *. cbn [process_opt].
  destruct (pass ps m) as [[ps' m'] fwd]. rewrite IH.
  destruct (process_opt ps' rest) as [ps'' outs]. destruct fwd; reflexivity.
Qed.
