(* C19 — anonymisation and lifecycle detection: the stream the detector model (Lifecycle/Model.v) sees after
   AnonymizePlugin is the stream it sees before, with the ECU ids renamed by the anonymiser's ECU table; below the
   capacity that renaming is injective on the ids of the stream, so (Plugins/LcEquiv.v) the detector produces the
   same deliveries, lifecycle ids, boundaries and counts — only the ECU labels differ. *)
From Coq Require Import List NArith Bool Lia.
From AdltV Require Import Base.Res Plugins.Chain Plugins.Anon Plugins.AnonProofs.
From AdltV Require Lifecycle.Model Plugins.LcEquiv.
Import ListNotations.
Open Scope N_scope.

(* what parse_lifecycles_buffered_from_stream reads of a message (the abstraction the lifecycle properties'
   correspondence check uses): index, ecu, reception time, timestamp_us() = timestamp_dms * 100,
   standard_header.has_timestamp(), is_ctrl_request(), lifecycle *)
Definition lc_view (m : msg) : Model.msg :=
  {| Model.m_index := m_index m; Model.m_ecu := m_ecu m; Model.m_rt := m_rtime m; Model.m_ts := m_ts m * 100;
     Model.m_has_ts := has_timestamp m; Model.m_creq := is_ctrl_request m; Model.m_lc := m_lc m |}.

(* the renaming of ECU ids performed by a state of the anonymiser *)
Definition ecu_renaming (st : anon_st) (e : N) : N := match ecu_of st e with Some p => p | None => e end.

Lemma in_keys_lookup k t : In k (map fst t) -> exists p, alookup k t = Some p.
Proof.
  unfold alookup. induction t as [|[k' v] r IH]; cbn; [intros []|].
  destruct (N.eqb k k') eqn:E; [intros _; eexists; reflexivity|].
  intros [H|H]; [apply N.eqb_neq in E; congruence|exact (IH H)].
Qed.

Lemma Forall2_and {A B} (P Q : A -> B -> Prop) l l' : Forall2 P l l' -> Forall2 Q l l' -> Forall2 (fun a b => P a b /\ Q a b) l l'.
Proof.
  intros H. induction H as [|a b l l' Hab H IH]; intros HQ; inversion HQ; subst; constructor; auto.
Qed.

Lemma Forall2_imp {A B} (P Q : A -> B -> Prop) l l' : (forall a b, P a b -> Q a b) -> Forall2 P l l' -> Forall2 Q l l'.
Proof. intros H. induction 1; constructor; auto. Qed.

Lemma Forall2_map_eq {A B C} (g : B -> C) (h : A -> C) l l' : Forall2 (fun a b => g b = h a) l l' -> map g l' = map h l.
Proof. induction 1 as [|a b l l' Hab H IH]; cbn; [reflexivity|rewrite Hab, IH; reflexivity]. Qed.

Theorem anon_lifecycles_equivariant ms st' outs first_id :
  anon_run true anon_init ms = Ok (st', outs) ->
  blen (a_ecus st') <= capacity ->
  Model.detect first_id [] (map lc_view outs) =
  (map (LcEquiv.ren_del (ecu_renaming st')) (fst (Model.detect first_id [] (map lc_view ms))),
   LcEquiv.ren_tbl (ecu_renaming st') (snd (Model.detect first_id [] (map lc_view ms)))).
Proof.
  intros E Hc.
  destruct (anon_run_renamed _ _ _ _ _ E) as (_ & R & _ & K & D).
  pose proof (anon_run_keeps _ _ _ _ _ E) as Kp.
  destruct (anon_tables_injective _ _ _ _ E) as (Inj & _).
  specialize (Inj Hc).
  set (S := fun e => In e (map m_ecu ms)).
  assert (f_inj : forall a b, S a -> S b -> ecu_renaming st' a = ecu_renaming st' b -> a = b).
  { intros a b Ha Hb. unfold ecu_renaming, ecu_of.
    assert (Ka : In a (map fst (a_ecus st'))) by (apply K; right; exact Ha).
    assert (Kb : In b (map fst (a_ecus st'))) by (apply K; right; exact Hb).
    destruct (in_keys_lookup _ _ Ka) as [pa Hpa]. destruct (in_keys_lookup _ _ Kb) as [pb Hpb].
    rewrite Hpa, Hpb. intros Heq. subst pb. exact (Inj _ _ _ Hpa Hpb). }
  assert (Ev : map lc_view outs = map (LcEquiv.ren_m (ecu_renaming st')) (map lc_view ms)).
  { rewrite map_map. apply Forall2_map_eq.
    pose proof (Forall2_and _ _ _ _ R Kp) as RK.
    eapply Forall2_imp; [|exact RK]. intros m o [[Re _] (Hi & Hr & Ht & Hh & _ & _ & Hl & _ & Hx)].
    destruct (ext_kind_kept_class m o Hx) as (Cq & _ & _).
    unfold lc_view, LcEquiv.ren_m, has_timestamp. cbn. unfold ecu_renaming. rewrite Re, Hi, Hr, Ht, Hh, Hl, Cq. reflexivity. }
  rewrite Ev. apply (LcEquiv.detect_equivariant (ecu_renaming st') S f_inj).
  apply Forall_forall. intros x Hx. apply in_map_iff in Hx. destruct Hx as [m [Hm1 Hm2]]. subst x.
  unfold S. cbn. apply in_map. exact Hm2.
Qed.

(* read off: per delivered message (index, lifecycle id) and per lifecycle of the final table
   (id, start, end, number of messages, number of control requests, resume origin) coincide *)
Definition delivery_key (x : Model.msg * Model.table) : N * N := (Model.m_index (fst x), Model.m_lc (fst x)).
Definition lc_boundaries (kv : N * Model.lcy) : N * (N * N * N * N * option Model.resume) :=
  (fst kv, (Model.l_start (snd kv), Model.end_time (snd kv), Model.l_nr (snd kv), Model.l_nr_creq (snd kv), Model.l_resume (snd kv))).

Corollary anon_same_boundaries ms st' outs first_id :
  anon_run true anon_init ms = Ok (st', outs) ->
  blen (a_ecus st') <= capacity ->
  map delivery_key (fst (Model.detect first_id [] (map lc_view outs))) =
  map delivery_key (fst (Model.detect first_id [] (map lc_view ms))) /\
  map lc_boundaries (snd (Model.detect first_id [] (map lc_view outs))) =
  map lc_boundaries (snd (Model.detect first_id [] (map lc_view ms))) /\
  map (fun x => map lc_boundaries (snd x)) (fst (Model.detect first_id [] (map lc_view outs))) =
  map (fun x => map lc_boundaries (snd x)) (fst (Model.detect first_id [] (map lc_view ms))).
Proof.
  intros E Hc. rewrite (anon_lifecycles_equivariant ms st' outs first_id E Hc). cbn [fst snd].
  split; [|split].
  - rewrite map_map. apply map_ext. intros [m t]. reflexivity.
  - unfold LcEquiv.ren_tbl. rewrite map_map. apply map_ext. intros [k L]. reflexivity.
  - rewrite map_map. apply map_ext. intros [m t]. cbn [LcEquiv.ren_del fst snd].
    unfold LcEquiv.ren_tbl. rewrite map_map. apply map_ext. intros [k L]. reflexivity.
Qed.
