(* C19 — every wrapper of Plugins/Decoders.v stays inside the frame and returns true, for every answer of the
   abstract decoding; hence the five plugins are Conservative for every decoding behaviour. *)
From Coq Require Import List NArith Bool.
From AdltV Require Import Base.Res Base.MachInt Plugins.Chain Plugins.ChainProofs Plugins.Anon Plugins.Decoders.
Import ListNotations.
Open Scope N_scope.

Lemma frame_with_text a m t : frame a m (with_text m t).
Proof. apply frame_iff. cbn. repeat split; auto. unfold ext_fill_ok. destruct (m_ext m); reflexivity. Qed.

Lemma frame_with_ext a m e : m_ext m = None -> frame a m (with_ext m e).
Proof. intros H. apply frame_iff. cbn. repeat split; auto. unfold ext_fill_ok. rewrite H. exact I. Qed.

Lemma frame_with_ts m ts : frame true m (with_ts m ts).
Proof. apply frame_iff. cbn. repeat split; auto; try discriminate. unfold ext_fill_ok. destruct (m_ext m); reflexivity. Qed.

Definition wrap_ok (a : bool) (r : msg * bool) (m : msg) : Prop := snd r = true /\ frame a m (fst r).

Lemma nv_wrap_ok a enabled ans m : wrap_ok a (nv_wrap enabled ans m) m.
Proof.
  unfold nv_wrap, wrap_ok. destruct (negb enabled || is_verbose m); [split; [reflexivity|apply frame_refl]|].
  destruct (first_arg false (is_big_endian m) (m_payload m)) as [[raw|]| |]; try (split; [reflexivity|apply frame_refl]).
  destruct (4 <=? blen raw); [|split; [reflexivity|apply frame_with_text]].
  destruct ans as [|t install]; [split; [reflexivity|apply frame_refl]|].
  cbn [fst snd]. split; [reflexivity|].
  destruct install as [e|]; [|apply frame_with_text].
  destruct (m_ext (with_text m (Some t))) eqn:Ex; [apply frame_with_text|].
  eapply frame_trans; [apply (frame_with_text a m (Some t))|apply frame_with_ext; exact Ex].
Qed.

Lemma someip_wrap_ok a ans m : wrap_ok a (someip_wrap ans m) m.
Proof.
  unfold someip_wrap, wrap_ok. destruct (is_nw_ipc m && noar2_ctid_tc m); [|split; [reflexivity|apply frame_refl]].
  destruct ans; split; try reflexivity; [apply frame_refl|apply frame_with_text].
Qed.

Lemma can_wrap_ok a ans m : wrap_ok a (can_wrap ans m) m.
Proof.
  unfold can_wrap, wrap_ok. destruct (is_nw_can m && noar2_ctid_tc m); [|split; [reflexivity|apply frame_refl]].
  destruct ans; split; try reflexivity; cbn [fst]; [apply frame_with_text|].
  destruct (m_text m); [apply frame_refl|apply frame_with_text].
Qed.

Lemma muniic_wrap_ok a ans m : wrap_ok a (muniic_wrap ans m) m.
Proof.
  unfold muniic_wrap, wrap_ok. destruct (m_ext m) as [e|]; [|split; [reflexivity|apply frame_refl]].
  destruct ((e_vmm e mod 2 =? 1) && (e_ctid e =? ctid_MMSG) && (e_noar e =? 13)); [|split; [reflexivity|apply frame_refl]].
  destruct ans; split; try reflexivity; [apply frame_refl|apply frame_with_text].
Qed.

Lemma rw_fold_frame acts : forall m m0, frame true m m0 -> frame true m (fold_left rw_apply acts m0).
Proof.
  induction acts as [|x r IH]; intros m m0 H; cbn; [exact H|].
  apply IH. eapply frame_trans; [exact H|]. destruct x; cbn; [apply frame_with_text|apply frame_with_ts].
Qed.

Lemma rewrite_wrap_ok enabled acts m : wrap_ok true (rewrite_wrap enabled acts m) m.
Proof.
  unfold rewrite_wrap, wrap_ok. destruct (negb enabled); split; try reflexivity; [apply frame_refl|].
  cbn [fst]. apply rw_fold_frame. apply frame_refl.
Qed.

(* a rewrite plugin whose regexes have no timeStamp group does not need the licence either *)
Lemma rewrite_wrap_text_only enabled acts m :
  Forall (fun x => match x with RwText _ => True | RwTs _ => False end) acts ->
  wrap_ok false (rewrite_wrap enabled acts m) m.
Proof.
  unfold rewrite_wrap, wrap_ok. intros HA. destruct (negb enabled); split; try reflexivity; [apply frame_refl|].
  cbn [fst]. assert (G : forall m0, frame false m m0 -> frame false m (fold_left rw_apply acts m0)).
  { induction HA as [|x r Hx Hr IH]; intros m0 H; cbn; [exact H|]. apply IH. eapply frame_trans; [exact H|].
    destruct x; [apply frame_with_text|contradiction]. }
  apply G. apply frame_refl.
Qed.

Lemma wrapped_conservative {St A} a (s0 : St) next (wrap : A -> msg -> msg * bool) ans :
  (forall x m, wrap_ok a (wrap x m) m) -> Conservative a (wrapped s0 next wrap ans).
Proof.
  intros H. exists (fun _ => True). split; [exact I|]. intros s m _. cbn.
  specialize (H (ans s m) m). destruct (wrap (ans s m) m) as [m' b]. destruct H as [Hb Hf]. cbn in Hb, Hf.
  split; [exact I|]. split; [exact Hf|]. intros Hc. congruence.
Qed.

Theorem real_decoder_conservative a p : real_decoder a p -> Conservative a p.
Proof.
  intros H. destruct H.
  - apply wrapped_conservative. intros x m. apply nv_wrap_ok.
  - apply wrapped_conservative. intros x m. apply someip_wrap_ok.
  - apply wrapped_conservative. intros x m. apply can_wrap_ok.
  - apply wrapped_conservative. intros x m. apply muniic_wrap_ok.
  - apply wrapped_conservative. intros x m. apply rewrite_wrap_ok.
Qed.

Theorem real_decoders_chain a ps ms :
  Forall (real_decoder a) ps ->
  exists ps' outs, process ps ms = (ps', outs) /\ Forall2 (frame a) ms outs /\ Forall (Conservative a) ps'.
Proof.
  intros H. apply chain_conservative. eapply Forall_impl; [|exact H]. intros p Hp. apply real_decoder_conservative. exact Hp.
Qed.
