(* C19 — model of src/plugins/mod.rs::plugins_process_msgs and of the frame condition of the decoding
   plugins (src/plugins/plugin.rs: trait Plugin::process_msg(&mut self, &mut DltMessage) -> bool).
   No proofs in this file (Plugins/ChainProofs.v).

   for mut msg in inflow {
       let mut forward_msg = true;
       for plugin in &mut plugins_active {
           if !plugin.process_msg(&mut msg) { forward_msg = false; break; }
       }
       if forward_msg { outflow(msg)?; }
   }
   Ok(plugins_active)                                                                          *)
From Coq Require Import List NArith Bool.
Import ListNotations.
Open Scope N_scope.

(* ---------------------------------------------------------------- DltMessage *)
(* DltChar4 is the u32 built big-endian from its four bytes (equality of DltChar4 = equality of the 4 bytes) *)
Record ext_hdr := { e_vmm : N; e_noar : N; e_apid : N; e_ctid : N }.

Record msg := {
  m_index : N;             (* index: u32 *)
  m_rtime : N;             (* reception_time_us: u64 *)
  m_ecu : N;               (* ecu: DltChar4 *)
  m_ts : N;                (* timestamp_dms: u32 *)
  m_htyp : N; m_mcnt : N; m_len : N;   (* standard_header *)
  m_ext : option ext_hdr;  (* extended_header *)
  m_payload : list N;      (* payload bytes *)
  m_text : option (list N);(* payload_text (bytes of the string) *)
  m_lc : N                 (* lifecycle id *)
}.

Definition ext_eqb (a b : ext_hdr) : bool :=
  N.eqb (e_vmm a) (e_vmm b) && N.eqb (e_noar a) (e_noar b) && N.eqb (e_apid a) (e_apid b) && N.eqb (e_ctid a) (e_ctid b).

Fixpoint bytes_eqb (a b : list N) : bool :=
  match a, b with
  | [], [] => true
  | x :: a', y :: b' => N.eqb x y && bytes_eqb a' b'
  | _, _ => false
  end.

(* ---------------------------------------------------------------- plugins and the loop *)
(* a plugin: private state + process_msg.  The state type is existential: chains are heterogeneous. *)
Record plugin := {
  p_st : Type;
  p_state : p_st;
  p_step : p_st -> msg -> p_st * msg * bool
}.

Definition p_apply (p : plugin) (m : msg) : plugin * msg * bool :=
  match p_step p (p_state p) m with
  | (s', m', b) => ({| p_st := p_st p; p_state := s'; p_step := p_step p |}, m', b)
  end.

(* the inner loop: plugins in order; the first `false` stops the pass — later plugins do not see the message *)
Fixpoint pass (ps : list plugin) (m : msg) : list plugin * msg * bool :=
  match ps with
  | [] => ([], m, true)
  | p :: r =>
      match p_apply p m with
      | (p', m', true) => match pass r m' with (r', m'', b) => (p' :: r', m'', b) end
      | (p', m', false) => (p' :: r, m', false)
      end
  end.

(* the outer loop with an outflow that never fails: per input message Some forwarded / None dropped *)
Fixpoint process_opt (ps : list plugin) (ms : list msg) : list plugin * list (option msg) :=
  match ms with
  | [] => (ps, [])
  | m :: rest =>
      match pass ps m with
      | (ps', m', fwd) =>
          match process_opt ps' rest with
          | (ps'', outs) => (ps'', (if fwd then Some m' else None) :: outs)
          end
      end
  end.

Fixpoint keep (l : list (option msg)) : list msg :=
  match l with
  | [] => []
  | Some m :: r => m :: keep r
  | None :: r => keep r
  end.

Definition process (ps : list plugin) (ms : list msg) : list plugin * list msg :=
  match process_opt ps ms with (ps', outs) => (ps', keep outs) end.

(* the outer loop with an outflow that accepts [cap] messages and then returns Err: `outflow(msg)?`
   leaves the function at once (the remaining inflow is not read, the plugins are dropped).
   Result: (None = Ok(plugins) | Some m = Err(SendError(m)), plugins as far as they got, messages delivered) *)
Fixpoint run_cap (cap : nat) (ps : list plugin) (ms : list msg) : option msg * list plugin * list msg :=
  match ms with
  | [] => (None, ps, [])
  | m :: rest =>
      match pass ps m with
      | (ps', m', true) =>
          match cap with
          | O => (Some m', ps', [])
          | S c => match run_cap c ps' rest with (e, ps'', outs) => (e, ps'', m' :: outs) end
          end
      | (ps', _, false) => run_cap cap ps' rest
      end
  end.

(* ---------------------------------------------------------------- frame condition *)
(* what a decoding plugin may touch: payload_text always; the extended header only when it is missing;
   the timestamp only when [allow_ts] (rewrite plugin).  Everything else is kept. *)
Definition ext_fill_okb (a b : option ext_hdr) : bool :=
  match a, b with
  | Some x, Some y => ext_eqb x y
  | Some _, None => false
  | None, _ => true
  end.

Definition frameb (allow_ts : bool) (m m' : msg) : bool :=
  N.eqb (m_index m') (m_index m) && N.eqb (m_rtime m') (m_rtime m) && N.eqb (m_ecu m') (m_ecu m) &&
  bytes_eqb (m_payload m') (m_payload m) && N.eqb (m_lc m') (m_lc m) &&
  N.eqb (m_htyp m') (m_htyp m) && N.eqb (m_mcnt m') (m_mcnt m) && N.eqb (m_len m') (m_len m) &&
  ext_fill_okb (m_ext m) (m_ext m') &&
  (allow_ts || N.eqb (m_ts m') (m_ts m)).

Definition frame (allow_ts : bool) (m m' : msg) : Prop := frameb allow_ts m m' = true.

(* a plugin that, on the states it can reach (invariant [I]), keeps every message inside the frame.
   [D] is the class of messages (as the plugin sees them) it is allowed to drop; [fun _ => False] for the decoders. *)
Definition Framed (allow_ts : bool) (D : msg -> Prop) (p : plugin) : Prop :=
  exists I : p_st p -> Prop,
    I (p_state p) /\
    forall s m, I s ->
      match p_step p s m with
      | (s', m', b) => I s' /\ frame allow_ts m m' /\ (b = false -> D m)
      end.

Definition Conservative (allow_ts : bool) (p : plugin) : Prop := Framed allow_ts (fun _ => False) p.

(* relation between an input message and what the loop did with it *)
Definition kept_or_dropped (allow_ts : bool) (D : msg -> Prop) (m : msg) (o : option msg) : Prop :=
  match o with
  | Some m' => frame allow_ts m m'
  | None => exists m'', frame allow_ts m m'' /\ D m''
  end.

(* subsequence *)
Inductive Subseq {A} : list A -> list A -> Prop :=
| sub_nil : Subseq [] []
| sub_take x l l' : Subseq l l' -> Subseq (x :: l) (x :: l')
| sub_skip x l l' : Subseq l l' -> Subseq l (x :: l').

(* ---------------------------------------------------------------- acceptor for observed real-plugin runs *)
(* inputs with a flag "this message may be dropped by the configured chain" and the observed output:
   the outputs are the inputs in order, each inside the frame, skipping only droppable ones *)
Fixpoint framed_run (allow_ts : bool) (ins : list (msg * bool)) (outs : list msg) : bool :=
  match ins with
  | [] => match outs with [] => true | _ => false end
  | (m, droppable) :: ins' =>
      match outs with
      | o :: outs' =>
          if frameb allow_ts m o then framed_run allow_ts ins' outs'
          else droppable && framed_run allow_ts ins' outs
      | [] => droppable && framed_run allow_ts ins' []
      end
  end.
