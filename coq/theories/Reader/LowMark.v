(* Model of /repo/src/utils/lowmarkbufreader.rs (LowMarkBufReader<R>): new, buffer, fill_buf (the loop with
   the compaction to a 4096-aligned offset), consume, read, seek (Start / Current / End).
   Model only, no proofs (proofs: Reader/LowMarkProofs.v).

   The inner reader R is a *scripted source*: the bytes not yet read plus a read-size schedule (the oracle
   for short reads).  One `inner.read(&mut buf[cap..])` delivers
       0 bytes                              when no data remain (end of input; the schedule is not touched)
       0 bytes                              when the destination slice is empty (`Read` contract)
       min (max 1 k) room, |rest|  bytes    when the schedule starts with k   (k is popped)
       min room |rest|  bytes               when the schedule is exhausted
   so a `0` before the end of the data never occurs (it would violate `Read`'s contract).
   Every source that hands out its bytes in order is described by some schedule.

   Machine integers are N; `+`/`-` of the Rust code that could overflow in a debug build are the checked
   operations of Base/MachInt.v, slices that could be out of range are [Panic site_index]. *)
From Coq Require Import List NArith ZArith Bool.
From AdltV Require Import Base.Res Base.MachInt.
Import ListNotations.
Open Scope N_scope.

Definition nlen (l : list N) : N := N.of_nat (length l).
Definition ntake (n : N) (l : list N) : list N := firstn (N.to_nat n) l.
Definition ndrop (n : N) (l : list N) : list N := skipn (N.to_nat n) l.

Definition CACHE_LINE_SIZE : N := 4096.

(* ---- the scripted source *)
Record source := { s_rest : list N; s_sched : list N }.

Definition src_read (room : N) (s : source) : list N * source :=
  match s_rest s with
  | [] => ([], s)
  | _ :: _ =>
      if room =? 0 then ([], s)
      else
        let want := match s_sched s with [] => room | k :: _ => N.max 1 k end in
        let n := N.min want room in
        (ntake n (s_rest s), {| s_rest := ndrop n (s_rest s); s_sched := tl (s_sched s) |})
  end.

(* ---- the reader *)
Record reader := {
  r_buf : list N;      (* buf: Box<[u8]>, fixed length = capacity *)
  r_pos : N;
  r_abs : N;           (* abs_pos *)
  r_cap : N;
  r_low : N;           (* low_mark *)
  r_elr : bool;        (* empty_last_read *)
  r_in : source        (* inner *)
}.

Definition set_pos (r : reader) (p : N) : reader :=
  {| r_buf := r_buf r; r_pos := p; r_abs := r_abs r; r_cap := r_cap r; r_low := r_low r; r_elr := r_elr r; r_in := r_in r |}.

(* LowMarkBufReader::new: the two asserts, a zeroed buffer *)
Definition new_reader (inner : source) (capacity low_mark : N) : res reader :=
  (s <- add_chk usizemax low_mark CACHE_LINE_SIZE ;;
   if negb (s <=? capacity) then Panic site_assert
   else if negb (0 <? low_mark) then Panic site_assert
   else Ok {| r_buf := repeat 0 (N.to_nat capacity); r_pos := 0; r_abs := 0; r_cap := 0; r_low := low_mark;
              r_elr := false; r_in := inner |})%res.

(* buffer(): &self.buf[self.pos..self.cap] *)
Definition window (r : reader) : list N := ntake (r_cap r - r_pos r) (ndrop (r_pos r) (r_buf r)).
Definition window_chk (r : reader) : res (list N) :=
  if (r_pos r <=? r_cap r) && (r_cap r <=? nlen (r_buf r)) then Ok (window r) else Panic site_index.

(* buf[off .. off+|bs|] = bs   (the destination range is inside the buffer at every use) *)
Definition write_at (buf : list N) (off : N) (bs : list N) : list N :=
  ntake off buf ++ bs ++ ndrop (off + nlen bs) buf.

(* buf.copy_within(a..b, dest): panics when a > b, b > len or dest + (b - a) > len *)
Definition copy_within (buf : list N) (a b dest : N) : res (list N) :=
  if (a <=? b) && (b <=? nlen buf) && (dest + (b - a) <=? nlen buf)
  then Ok (write_at buf dest (ntake (b - a) (ndrop a buf)))
  else Panic site_index.

(* the `if self.pos >= CACHE_LINE_SIZE { .. }` block of fill_buf:
     let new_cap = cap - pos; let mut offset = 4096 - new_cap % 4096; if offset == 4096 { offset = 0 }
     let new_cap = new_cap + offset;
     buf.copy_within(pos - offset..cap, 0);      (the `offset` bytes in front of pos are kept, so that
     cap = new_cap; abs_pos += pos - offset; pos = offset          buf[0..cap] stays a copy of the stream) *)
Definition compact (r : reader) : res reader :=
  (in_buf <- sub_chk (r_cap r) (r_pos r) ;;
   let offset0 := CACHE_LINE_SIZE - in_buf mod CACHE_LINE_SIZE in
   let offset := if offset0 =? CACHE_LINE_SIZE then 0 else offset0 in
   new_cap <- add_chk usizemax in_buf offset ;;
   from <- sub_chk (r_pos r) offset ;;
   buf' <- copy_within (r_buf r) from (r_cap r) 0 ;;
   abs' <- add_chk usizemax (r_abs r) from ;;
   Ok {| r_buf := buf'; r_pos := offset; r_abs := abs'; r_cap := new_cap; r_low := r_low r; r_elr := r_elr r;
         r_in := r_in r |})%res.

(* the code before the repair of the stale-gap defect (`copy_within(pos..cap, offset)`): kept only to state
   what was wrong (Properties/C04.v, C04_seek_stale_before_fix) *)
Definition compact_unfixed (r : reader) : res reader :=
  (in_buf <- sub_chk (r_cap r) (r_pos r) ;;
   let offset0 := CACHE_LINE_SIZE - in_buf mod CACHE_LINE_SIZE in
   let offset := if offset0 =? CACHE_LINE_SIZE then 0 else offset0 in
   new_cap <- add_chk usizemax in_buf offset ;;
   buf' <- copy_within (r_buf r) (r_pos r) (r_cap r) offset ;;
   d <- sub_chk (r_pos r) offset ;;
   abs' <- add_chk usizemax (r_abs r) d ;;
   Ok {| r_buf := buf'; r_pos := offset; r_abs := abs'; r_cap := new_cap; r_low := r_low r; r_elr := r_elr r;
         r_in := r_in r |})%res.

Inductive op : Type :=
| OFill | OConsume (n : N) | ORead (k : N) | OSeekStart (n : N) | OSeekCur (d : Z) | OSeekEnd (d : Z).
Inductive out : Type :=
| RFill (w : list N) | RUnit | RRead (bs : list N) | RSeek (r : option N).

(* an event: the operation, what it returned, and `buffer()` right after it *)
Record event := { e_op : op; e_out : out; e_win : list N }.

(* the `loop { .. }` of fill_buf; every iteration that does not leave the loop reads at least one byte, so
   fuel = |rest| + 1 suffices (OutOfFuel is proved unreachable) *)
Section Loop.
  Variable compact_fn : reader -> res reader.

  Fixpoint fill_loop (fuel : nat) (r : reader) : res reader :=
    match fuel with
    | O => OutOfFuel
    | S fuel' =>
        (in_buf <- sub_chk (r_cap r) (r_pos r) ;;
         if in_buf <? r_low r then
           r1 <- (if CACHE_LINE_SIZE <=? r_pos r then compact_fn r else Ok r) ;;
           (* let read = self.inner.read(&mut self.buf[self.cap..])? *)
           room <- (if r_cap r1 <=? nlen (r_buf r1) then Ok (nlen (r_buf r1) - r_cap r1) else Panic site_index) ;;
           let '(bs, inner') := src_read room (r_in r1) in
           let n := nlen bs in
           if n =? 0 then
             Ok {| r_buf := r_buf r1; r_pos := r_pos r1; r_abs := r_abs r1; r_cap := r_cap r1; r_low := r_low r1;
                   r_elr := true; r_in := inner' |}
           else
             cap' <- add_chk usizemax (r_cap r1) n ;;
             let r2 := {| r_buf := write_at (r_buf r1) (r_cap r1) bs; r_pos := r_pos r1; r_abs := r_abs r1;
                          r_cap := cap'; r_low := r_low r1; r_elr := r_elr r1; r_in := inner' |} in
             if n =? room then Ok r2 else fill_loop fuel' r2
         else Ok r)%res
    end.

  (* fill_buf: returns the new state; the slice handed out is [window] of it *)
  Definition fill_buf (r : reader) : res reader :=
    (r1 <- (if r_elr r then Ok r else fill_loop (S (length (s_rest (r_in r)))) r) ;;
     _ <- window_chk r1 ;;
     Ok r1)%res.

  (* consume: self.pos = min(self.pos + amt, self.cap) *)
  Definition consume (r : reader) (amt : N) : res reader :=
    (p <- add_chk usizemax (r_pos r) amt ;; Ok (set_pos r (N.min p (r_cap r))))%res.

  (* Read::read(buf) with buf.len() = k: fill_buf, copy min(k, |slice|) bytes, consume them *)
  Definition read (r : reader) (k : N) : res (list N * reader) :=
    (r1 <- fill_buf r ;;
     let bs := ntake k (window r1) in
     r2 <- consume r1 (nlen bs) ;;
     Ok (bs, r2))%res.

  (* Seek::seek(SeekFrom::Start(n)): None = Err(..) *)
  Definition seek_start (r : reader) (n : N) : res (option N * reader) :=
    (r1 <- (if r_cap r =? 0 then fill_buf r else Ok r) ;;
     if n <? r_abs r1 then Ok (None, r1)
     else
       e <- add_chk usizemax (r_abs r1) (r_cap r1) ;;
       if e <? n then Ok (None, r1)
       else p <- sub_chk n (r_abs r1) ;; Ok (Some n, set_pos r1 p))%res.

  (* (abs_pos + pos).saturating_add_signed(d) *)
  Definition sat_add_signed (a : N) (d : Z) : N :=
    let z := (Z.of_N a + d)%Z in
    if (z <? 0)%Z then 0 else N.min usizemax (Z.to_N z).

  Definition seek_cur (r : reader) (d : Z) : res (option N * reader) :=
    (a <- add_chk usizemax (r_abs r) (r_pos r) ;; seek_start r (sat_add_signed a d))%res.

  Definition step (r : reader) (o : op) : res (out * reader) :=
    (match o with
     | OFill => r1 <- fill_buf r ;; Ok (RFill (window r1), r1)
     | OConsume n => r1 <- consume r n ;; Ok (RUnit, r1)
     | ORead k => '(bs, r1) <- read r k ;; Ok (RRead bs, r1)
     | OSeekStart n => '(x, r1) <- seek_start r n ;; Ok (RSeek x, r1)
     | OSeekCur d => '(x, r1) <- seek_cur r d ;; Ok (RSeek x, r1)
     | OSeekEnd _ => Ok (RSeek None, r)
     end)%res.

  Fixpoint run (r : reader) (ops : list op) : res (list event * reader) :=
    match ops with
    | [] => Ok ([], r)
    | o :: ops' =>
        ('(x, r1) <- step r o ;;
         '(evs, r2) <- run r1 ops' ;;
         Ok ({| e_op := o; e_out := x; e_win := window r1 |} :: evs, r2))%res
    end.
End Loop.

(* the reader of /repo as it is now *)
Definition fill_buf_now := fill_buf compact.
Definition step_now := step compact.
Definition run_now := run compact.
