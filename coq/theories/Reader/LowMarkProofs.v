(* Proofs about the LowMarkBufReader model (Reader/LowMark.v) against the client-level specification
   (Reader/LowMarkSpec.v). *)
From Coq Require Import List NArith ZArith Bool Lia.
From AdltV Require Import Base.Res Base.MachInt Reader.LowMark Reader.LowMarkSpec.
Import ListNotations.
Open Scope N_scope.

(* ------------------------------------------------------------------ N-indexed list lemmas *)
Lemma nlen_nil : nlen [] = 0. Proof. reflexivity. Qed.
Lemma nlen_app a b : nlen (a ++ b) = nlen a + nlen b.
Proof. unfold nlen. rewrite app_length. lia. Qed.
Lemma nlen_ntake n l : nlen (ntake n l) = N.min n (nlen l).
Proof. unfold nlen, ntake. rewrite firstn_length. lia. Qed.
Lemma nlen_ndrop n l : nlen (ndrop n l) = nlen l - n.
Proof. unfold nlen, ndrop. rewrite skipn_length. lia. Qed.
Lemma nlen_zero l : nlen l = 0 -> l = [].
Proof. unfold nlen. destruct l; cbn; [reflexivity|lia]. Qed.
Lemma nlen_repeat (x : N) n : nlen (repeat x n) = N.of_nat n.
Proof. unfold nlen. rewrite repeat_length. reflexivity. Qed.

Lemma ntake_ndrop_cat n l : ntake n l ++ ndrop n l = l.
Proof. apply firstn_skipn. Qed.
Lemma ntake_0 l : ntake 0 l = []. Proof. reflexivity. Qed.
Lemma ndrop_0 l : ndrop 0 l = l. Proof. reflexivity. Qed.
Lemma ntake_all n l : nlen l <= n -> ntake n l = l.
Proof. unfold nlen, ntake. intros H. apply firstn_all2. lia. Qed.
Lemma ndrop_all n l : nlen l <= n -> ndrop n l = [].
Proof. unfold nlen, ndrop. intros H. apply skipn_all2. lia. Qed.
Lemma skipn_skipn_nat (x y : nat) (l : list N) : skipn x (skipn y l) = skipn (y + x) l.
Proof.
  revert l. induction y as [|y IH]; intros l; [reflexivity|].
  destruct l as [|h t]; [rewrite !skipn_nil; reflexivity|]. cbn. apply IH.
Qed.
Lemma ndrop_ndrop a b l : ndrop a (ndrop b l) = ndrop (b + a) l.
Proof. unfold ndrop. rewrite skipn_skipn_nat. f_equal. lia. Qed.
Lemma ntake_ntake a b l : ntake a (ntake b l) = ntake (N.min a b) l.
Proof. unfold ntake. rewrite firstn_firstn. f_equal. lia. Qed.
Lemma ntake_app_le n l l' : n <= nlen l -> ntake n (l ++ l') = ntake n l.
Proof.
  unfold nlen, ntake. intros H. rewrite firstn_app.
  replace (N.to_nat n - length l)%nat with 0%nat by lia. cbn. apply app_nil_r.
Qed.
Lemma ntake_app_ge k l l' : ntake (nlen l + k) (l ++ l') = l ++ ntake k l'.
Proof.
  unfold nlen, ntake. rewrite firstn_app.
  rewrite firstn_all2 by lia. f_equal. f_equal. lia.
Qed.
Lemma ndrop_app_ge k l l' : ndrop (nlen l + k) (l ++ l') = ndrop k l'.
Proof.
  unfold nlen, ndrop. rewrite skipn_app.
  rewrite skipn_all2 by lia. cbn. f_equal. lia.
Qed.
Lemma ndrop_app_le n l l' : n <= nlen l -> ndrop n (l ++ l') = ndrop n l ++ l'.
Proof.
  unfold nlen, ndrop. intros H. rewrite skipn_app.
  replace (N.to_nat n - length l)%nat with 0%nat by lia. reflexivity.
Qed.
Lemma ntake_ndrop_comm n k l : ntake n (ndrop k l) = ndrop k (ntake (k + n) l).
Proof. unfold ntake, ndrop. rewrite firstn_skipn_comm. f_equal. f_equal. lia. Qed.
Lemma ntake_split a b l : ntake a l ++ ntake b (ndrop a l) = ntake (a + b) l.
Proof.
  unfold ntake, ndrop. replace (N.to_nat (a + b)) with (N.to_nat a + N.to_nat b)%nat by lia.
  generalize (N.to_nat a) as x, (N.to_nat b) as y. intros x. revert l.
  induction x as [|x IH]; intros l y; [reflexivity|].
  destruct l as [|h t]; cbn; [rewrite firstn_nil; reflexivity|]. f_equal. apply IH.
Qed.
Lemma ntake_prefix_of n m l : n <= m -> ntake n (ntake m l) = ntake n l.
Proof. intros H. rewrite ntake_ntake. f_equal. lia. Qed.

Lemma ntake_min n l : ntake (N.min n (nlen l)) l = ntake n l.
Proof.
  destruct (N.le_ge_cases n (nlen l)) as [H|H]; [rewrite N.min_l by exact H; reflexivity|].
  rewrite N.min_r by exact H. rewrite !ntake_all by lia. reflexivity.
Qed.
Lemma ndrop_min n l : ndrop (N.min n (nlen l)) l = ndrop n l.
Proof.
  destruct (N.le_ge_cases n (nlen l)) as [H|H]; [rewrite N.min_l by exact H; reflexivity|].
  rewrite N.min_r by exact H. rewrite !ndrop_all by lia. reflexivity.
Qed.

(* ------------------------------------------------------------------ monad / checked arithmetic *)
Lemma add_chk_ok m a b : a + b <= m -> add_chk m a b = Ok (a + b).
Proof. intros H. unfold add_chk. apply N.leb_le in H. rewrite H. reflexivity. Qed.
Lemma sub_chk_ok a b : b <= a -> sub_chk a b = Ok (a - b).
Proof. intros H. unfold sub_chk. apply N.leb_le in H. rewrite H. reflexivity. Qed.

(* ------------------------------------------------------------------ the source *)
Lemma src_read_spec room s bs s' :
  src_read room s = (bs, s') ->
  bs = ntake (nlen bs) (s_rest s) /\ s_rest s' = ndrop (nlen bs) (s_rest s) /\ nlen bs <= room /\
  (nlen bs = 0 -> s_rest s = [] \/ room = 0) /\ (nlen bs = 0 -> s' = s).
Proof.
  unfold src_read. destruct (s_rest s) as [|h t] eqn:E.
  - intros H. inversion H; subst. rewrite E. cbn. repeat split; auto; lia.
  - destruct (room =? 0) eqn:Er.
    + intros H. inversion H; subst. apply N.eqb_eq in Er. cbn. rewrite E. repeat split; auto; lia.
    + apply N.eqb_neq in Er. intros H. inversion H; subst; clear H. cbn [s_rest].
      set (want := match s_sched s with [] => room | k :: _ => N.max 1 k end).
      assert (Hw : 1 <= want) by (unfold want; destruct (s_sched s); lia).
      set (n := N.min want room).
      assert (Hl : nlen (ntake n (h :: t)) = N.min n (nlen (h :: t))) by apply nlen_ntake.
      assert (Hpos : 1 <= nlen (h :: t)) by (unfold nlen; cbn; lia).
      rewrite Hl. split; [|split; [|split; [|split]]].
      * symmetry. apply ntake_min.
      * symmetry. apply ndrop_min.
      * lia.
      * lia.
      * lia.
Qed.

(* ------------------------------------------------------------------ the invariant *)
(* S is the whole byte string of the source (ghost).  buf[0..cap] is a copy of S[abs .. abs+cap], the
   source still holds S[abs+cap ..]. *)
Record Inv (S : list N) (r : reader) : Prop := {
  inv_pos : r_pos r <= r_cap r;
  inv_cap : r_cap r <= nlen (r_buf r);
  inv_low : 0 < r_low r;
  inv_room : r_low r + CACHE_LINE_SIZE <= nlen (r_buf r);
  inv_usz : nlen (r_buf r) <= usizemax;
  inv_S : nlen S <= usizemax;
  inv_end : r_abs r + r_cap r <= nlen S;
  inv_buf : ntake (r_cap r) (r_buf r) = ntake (r_cap r) (ndrop (r_abs r) S);
  inv_rest : s_rest (r_in r) = ndrop (r_abs r + r_cap r) S;
  inv_elr : r_elr r = true -> s_rest (r_in r) = []
}.

Lemma window_spec S r : Inv S r -> window r = ntake (r_cap r - r_pos r) (ndrop (stream_pos r) S).
Proof.
  intros HI. destruct HI as [Hp Hc _ _ _ _ He Hb _ _]. unfold window, stream_pos.
  rewrite ntake_ndrop_comm. replace (r_pos r + (r_cap r - r_pos r)) with (r_cap r) by lia.
  rewrite Hb. rewrite <- (ndrop_ndrop (r_pos r) (r_abs r) S).
  rewrite (ntake_ndrop_comm (r_cap r - r_pos r) (r_pos r)).
  replace (r_pos r + (r_cap r - r_pos r)) with (r_cap r) by lia. reflexivity.
Qed.

Lemma window_len S r : Inv S r -> nlen (window r) = r_cap r - r_pos r.
Proof.
  intros HI. rewrite (window_spec S r HI). destruct HI as [Hp Hc _ _ _ _ He _ _ _].
  rewrite nlen_ntake, nlen_ndrop. unfold stream_pos. lia.
Qed.

Lemma window_slice S r : Inv S r -> slice_of S (stream_pos r) (window r).
Proof.
  intros HI. unfold slice_of. rewrite (window_len S r HI). split.
  - apply window_spec. exact HI.
  - destruct HI as [Hp Hc _ _ _ _ He _ _ _]. unfold stream_pos. lia.
Qed.

Lemma window_chk_ok S r : Inv S r -> window_chk r = Ok (window r).
Proof.
  intros HI. destruct HI as [Hp Hc _ _ _ _ _ _ _ _]. unfold window_chk.
  apply N.leb_le in Hp. apply N.leb_le in Hc. rewrite Hp, Hc. reflexivity.
Qed.

Lemma write_at_len buf off bs : off + nlen bs <= nlen buf -> nlen (write_at buf off bs) = nlen buf.
Proof.
  intros H. unfold write_at. rewrite !nlen_app, nlen_ntake, nlen_ndrop. lia.
Qed.
Lemma write_at_prefix buf off bs :
  off + nlen bs <= nlen buf -> ntake (off + nlen bs) (write_at buf off bs) = ntake off buf ++ bs.
Proof.
  intros H. unfold write_at.
  assert (Hl : nlen (ntake off buf) = off) by (rewrite nlen_ntake; lia).
  rewrite <- Hl at 1. rewrite ntake_app_ge. f_equal.
  rewrite ntake_app_le by lia. apply ntake_all. lia.
Qed.

(* ------------------------------------------------------------------ new *)
Lemma new_reader_inv data sched capacity low :
  0 < low -> low + CACHE_LINE_SIZE <= capacity -> capacity <= usizemax -> nlen data <= usizemax ->
  exists r, new_reader {| s_rest := data; s_sched := sched |} capacity low = Ok r /\ Inv data r /\
            stream_pos r = 0 /\ window r = [] /\ r_low r = low /\ nlen (r_buf r) = capacity.
Proof.
  intros Hl Hc Hu Hd. unfold new_reader. rewrite add_chk_ok by lia. cbn [bind].
  assert (E1 : (low + CACHE_LINE_SIZE <=? capacity) = true) by (apply N.leb_le; exact Hc).
  assert (E2 : (0 <? low) = true) by (apply N.ltb_lt; exact Hl).
  rewrite E1, E2. cbn [negb]. eexists. split; [reflexivity|].
  split; [|split; [reflexivity|split; [reflexivity|split; [reflexivity|]]]].
  - constructor; cbn [r_pos r_cap r_buf r_low r_abs r_in r_elr s_rest]; rewrite ?nlen_repeat, ?N2Nat.id; try lia;
      try reflexivity; try discriminate.
  - cbn [r_buf]. rewrite nlen_repeat, N2Nat.id. reflexivity.
Qed.

(* ------------------------------------------------------------------ compaction *)
Lemma compact_spec S r :
  Inv S r -> CACHE_LINE_SIZE <= r_pos r -> r_cap r - r_pos r < r_low r ->
  exists r', compact r = Ok r' /\ Inv S r' /\ stream_pos r' = stream_pos r /\
             r_cap r' - r_pos r' = r_cap r - r_pos r /\ r_pos r' < CACHE_LINE_SIZE /\
             r_low r' = r_low r /\ nlen (r_buf r') = nlen (r_buf r) /\ r_in r' = r_in r /\ r_elr r' = r_elr r.
Proof.
  intros HI Hge Hlt. pose proof HI as HI0. destruct HI as [Hp Hc Hl Hr Hu HS He Hb Hre Hel].
  unfold compact, CACHE_LINE_SIZE in *.
  rewrite sub_chk_ok by exact Hp. cbn [bind].
  set (in_buf := r_cap r - r_pos r) in *.
  pose proof (N.mod_upper_bound in_buf 4096 ltac:(lia)) as Hm.
  set (m := in_buf mod 4096) in *. clearbody m.
  set (offset := if 4096 - m =? 4096 then 0 else 4096 - m).
  assert (Ho : offset < 4096).
  { unfold offset. destruct (4096 - m =? 4096) eqn:E; [lia|]. apply N.eqb_neq in E. lia. }
  rewrite add_chk_ok by lia. cbn [bind].
  rewrite sub_chk_ok by lia. cbn [bind].
  set (from := r_pos r - offset).
  assert (Hfrom : from + (in_buf + offset) = r_cap r) by (unfold from, in_buf; lia).
  unfold copy_within.
  assert (E1 : (from <=? r_cap r) = true) by (apply N.leb_le; lia).
  assert (E2 : (r_cap r <=? nlen (r_buf r)) = true) by (apply N.leb_le; lia).
  assert (E3 : (0 + (r_cap r - from) <=? nlen (r_buf r)) = true) by (apply N.leb_le; lia).
  rewrite E1, E2, E3. cbn [andb bind].
  rewrite add_chk_ok by lia. cbn [bind].
  set (X := ntake (r_cap r - from) (ndrop from (r_buf r))).
  assert (HX : nlen X = in_buf + offset) by (unfold X; rewrite nlen_ntake, nlen_ndrop; lia).
  eexists. split; [reflexivity|].
  assert (Hwl : nlen (write_at (r_buf r) 0 X) = nlen (r_buf r)) by (apply write_at_len; lia).
  split; [|cbn [r_pos r_cap r_abs r_low r_buf r_in r_elr]; unfold stream_pos; cbn [r_pos r_abs];
           repeat split; try reflexivity; try lia; exact Hwl].
  constructor; cbn [r_pos r_cap r_abs r_low r_buf r_in r_elr]; rewrite ?Hwl; unfold CACHE_LINE_SIZE; try lia.
  - (* content *)
    replace (in_buf + offset) with (0 + nlen X) by lia.
    rewrite write_at_prefix by lia. rewrite ntake_0. cbn [app].
    rewrite HX. unfold X.
    rewrite ntake_ndrop_comm. replace (from + (r_cap r - from)) with (r_cap r) by lia.
    rewrite Hb. rewrite <- (ndrop_ndrop from (r_abs r) S).
    rewrite (ntake_ndrop_comm (in_buf + offset) from).
    replace (from + (in_buf + offset)) with (r_cap r) by lia. reflexivity.
  - rewrite Hre. f_equal. lia.
  - exact Hel.
Qed.

(* ------------------------------------------------------------------ fill_buf *)
Definition fill_post (S : list N) (r r' : reader) : Prop :=
  Inv S r' /\ stream_pos r' = stream_pos r /\
  (r_low r' <= r_cap r' - r_pos r' \/ s_rest (r_in r') = []) /\
  r_cap r - r_pos r <= r_cap r' - r_pos r' /\ r_low r' = r_low r /\ nlen (r_buf r') = nlen (r_buf r).

Lemma fill_post_refl S r : Inv S r -> (r_low r <= r_cap r - r_pos r \/ s_rest (r_in r) = []) -> fill_post S r r.
Proof. intros HI H. unfold fill_post. split; [exact HI|]. repeat split; auto; lia. Qed.

Lemma fill_post_trans S r1 r2 r3 : fill_post S r1 r2 -> fill_post S r2 r3 -> fill_post S r1 r3.
Proof.
  unfold fill_post. intros [_ [A1 [_ [A2 [A3 A4]]]]] [B0 [B1 [B2 [B3 [B4 B5]]]]].
  split; [exact B0|]. repeat split; auto; try lia; congruence.
Qed.

Lemma fill_loop_spec S : forall fuel r,
  Inv S r -> r_elr r = false -> (length (s_rest (r_in r)) < fuel)%nat ->
  exists r', fill_loop compact fuel r = Ok r' /\ fill_post S r r'.
Proof.
  induction fuel as [|f IH]; intros r HI Hel Hf; [lia|].
  cbn [fill_loop]. pose proof HI as HI0. destruct HI as [Hp Hc Hl Hr Hu HS He Hb Hre Hel'].
  rewrite sub_chk_ok by exact Hp. cbn [bind].
  destruct (r_cap r - r_pos r <? r_low r) eqn:Elow.
  2:{ apply N.ltb_ge in Elow. exists r. split; [reflexivity|]. apply fill_post_refl; auto. }
  apply N.ltb_lt in Elow.
  assert (H1 : exists r1, (if CACHE_LINE_SIZE <=? r_pos r then compact r else Ok r) = Ok r1 /\ Inv S r1 /\
            stream_pos r1 = stream_pos r /\ r_cap r1 - r_pos r1 = r_cap r - r_pos r /\
            r_pos r1 < CACHE_LINE_SIZE /\ r_low r1 = r_low r /\ nlen (r_buf r1) = nlen (r_buf r) /\
            r_in r1 = r_in r /\ r_elr r1 = r_elr r).
  { destruct (CACHE_LINE_SIZE <=? r_pos r) eqn:Ec.
    - apply N.leb_le in Ec. exact (compact_spec S r HI0 Ec Elow).
    - apply N.leb_gt in Ec. exists r. repeat split; auto. }
  destruct H1 as [r1 [E1 [HI1 [Hsp [Hib [Hp1 [Hl1 [Hb1 [Hin1 Hel1]]]]]]]]].
  rewrite E1. cbn [bind]. pose proof HI1 as HI1'.
  destruct HI1 as [Hp' Hc' Hl' Hr' Hu' _ He' Hb' Hre' Hel''].
  unfold CACHE_LINE_SIZE in *.
  assert (Hroom : r_cap r1 < nlen (r_buf r1)) by lia.
  assert (Eroom : (r_cap r1 <=? nlen (r_buf r1)) = true) by (apply N.leb_le; lia).
  rewrite Eroom. cbn [bind].
  destruct (src_read (nlen (r_buf r1) - r_cap r1) (r_in r1)) as [bs inner'] eqn:Esr.
  apply src_read_spec in Esr. destruct Esr as [Hbs [Hrest' [Hle [Hz Hsame]]]].
  assert (Hn : nlen bs <= nlen (s_rest (r_in r1))).
  { rewrite Hbs at 1. rewrite nlen_ntake. lia. }
  destruct (nlen bs =? 0) eqn:En.
  - (* end of input *)
    apply N.eqb_eq in En. specialize (Hz En). specialize (Hsame En). subst inner'.
    destruct Hz as [Hz|Hz]; [|lia].
    eexists. split; [reflexivity|].
    unfold fill_post. cbn [r_pos r_cap r_abs r_low r_buf r_in r_elr]. unfold stream_pos in *.
    cbn [r_pos r_abs].
    split; [constructor; cbn [r_pos r_cap r_abs r_low r_buf r_in r_elr]; unfold CACHE_LINE_SIZE; auto; lia|].
    repeat split; auto; lia.
  - apply N.eqb_neq in En.
    rewrite add_chk_ok by lia. cbn [bind].
    set (r2 := {| r_buf := write_at (r_buf r1) (r_cap r1) bs; r_pos := r_pos r1; r_abs := r_abs r1;
                  r_cap := r_cap r1 + nlen bs; r_low := r_low r1; r_elr := r_elr r1; r_in := inner' |}).
    assert (Hwl : nlen (write_at (r_buf r1) (r_cap r1) bs) = nlen (r_buf r1)) by (apply write_at_len; lia).
    assert (Hrl : nlen (s_rest (r_in r1)) = nlen S - (r_abs r1 + r_cap r1)) by (rewrite Hre', nlen_ndrop; reflexivity).
    assert (HI2 : Inv S r2).
    { constructor; unfold r2; cbn [r_pos r_cap r_abs r_low r_buf r_in r_elr]; rewrite ?Hwl; unfold CACHE_LINE_SIZE; try lia.
      - rewrite write_at_prefix by lia. rewrite Hb'. rewrite Hbs at 1. rewrite Hre'.
        rewrite <- (ndrop_ndrop (r_cap r1) (r_abs r1) S). apply ntake_split.
      - rewrite Hrest', Hre'. rewrite ndrop_ndrop. f_equal. lia.
      - rewrite Hel1, Hel. discriminate. }
    assert (Hpost12 : stream_pos r2 = stream_pos r /\ r_cap r - r_pos r <= r_cap r2 - r_pos r2 /\
                      r_low r2 = r_low r /\ nlen (r_buf r2) = nlen (r_buf r)).
    { unfold r2, stream_pos in *. cbn [r_pos r_cap r_abs r_low r_buf r_in r_elr]. rewrite Hwl. repeat split; lia. }
    destruct Hpost12 as [Q1 [Q2 [Q3 Q4]]].
    destruct (nlen bs =? nlen (r_buf r1) - r_cap r1) eqn:Efull.
    + (* the buffer is full *)
      apply N.eqb_eq in Efull. exists r2. split; [reflexivity|].
      unfold fill_post. split; [exact HI2|]. repeat split; auto.
      left. unfold r2. cbn [r_pos r_cap r_low]. lia.
    + (* short read: go round again *)
      destruct (IH r2 HI2) as [r3 [E3 P3]].
      * unfold r2. cbn [r_elr]. congruence.
      * unfold r2. cbn [r_in]. rewrite Hrest'. unfold ndrop. rewrite skipn_length.
        rewrite Hin1 in Hn |- *. unfold nlen in En, Hn |- *. lia.
      * exists r3. split; [exact E3|].
        destruct P3 as [B0 [B1 [B2 [B3 [B4 B5]]]]].
        unfold fill_post. split; [exact B0|]. repeat split; auto; try lia; congruence.
Qed.

Lemma fill_buf_spec S r : Inv S r -> exists r', fill_buf_now r = Ok r' /\ fill_post S r r'.
Proof.
  intros HI. unfold fill_buf_now, fill_buf.
  destruct (r_elr r) eqn:Hel.
  - cbn [bind]. rewrite (window_chk_ok S r HI). cbn [bind]. exists r. split; [reflexivity|].
    apply fill_post_refl; [exact HI|]. right. apply (inv_elr S r HI). exact Hel.
  - destruct (fill_loop_spec S (Datatypes.S (length (s_rest (r_in r)))) r HI Hel ltac:(lia)) as [r' [E P]].
    rewrite E. cbn [bind]. destruct P as [HI' P]. rewrite (window_chk_ok S r' HI'). cbn [bind].
    exists r'. split; [reflexivity|]. split; assumption.
Qed.

Lemma set_pos_inv S r p : Inv S r -> p <= r_cap r -> Inv S (set_pos r p).
Proof.
  intros [Hp Hc Hl Hr Hu HS He Hb Hre Hel] H. constructor; cbn [set_pos r_pos r_cap r_abs r_low r_buf r_in r_elr]; auto.
Qed.

Lemma consume_spec S r amt :
  Inv S r -> r_pos r + amt <= usizemax ->
  exists r', consume r amt = Ok r' /\ Inv S r' /\
             stream_pos r' = stream_pos r + N.min amt (r_cap r - r_pos r) /\
             r_cap r' - r_pos r' = (r_cap r - r_pos r) - N.min amt (r_cap r - r_pos r) /\
             r_low r' = r_low r /\ nlen (r_buf r') = nlen (r_buf r).
Proof.
  intros HI Ha. pose proof HI as HI0. destruct HI as [Hp Hc Hl Hr Hu HS He Hb Hre Hel].
  unfold consume. rewrite add_chk_ok by lia. cbn [bind]. eexists. split; [reflexivity|].
  split; [apply set_pos_inv; [exact HI0|lia]|].
  unfold stream_pos. cbn [set_pos r_pos r_cap r_abs r_low r_buf]. repeat split; lia.
Qed.

Lemma read_spec S r k :
  Inv S r ->
  exists bs r', read compact r k = Ok (bs, r') /\ Inv S r' /\
                bs = ntake (nlen bs) (ndrop (stream_pos r) S) /\
                stream_pos r' = stream_pos r + nlen bs /\ nlen bs <= k /\
                N.min k (N.min (r_low r) (nlen S - stream_pos r)) <= nlen bs /\
                r_low r' = r_low r /\ nlen (r_buf r') = nlen (r_buf r).
Proof.
  intros HI. unfold read. destruct (fill_buf_spec S r HI) as [r1 [E1 [HI1 [Hsp [Hla [Hmono [Hl1 Hb1]]]]]]].
  unfold fill_buf_now in E1. rewrite E1. cbn [bind].
  pose proof (window_spec S r1 HI1) as Hw. pose proof (window_len S r1 HI1) as Hwl.
  set (bs := ntake k (window r1)).
  assert (Hbl : nlen bs = N.min k (r_cap r1 - r_pos r1)) by (unfold bs; rewrite nlen_ntake, Hwl; reflexivity).
  pose proof HI1 as HI1'. destruct HI1' as [Hp Hc Hl Hr Hu HS He Hb Hre Hel].
  destruct (consume_spec S r1 (nlen bs) HI1 ltac:(lia)) as [r2 [E2 [HI2 [Hsp2 [Hib2 [Hl2 Hb2]]]]]].
  rewrite E2. cbn [bind]. exists bs, r2. split; [reflexivity|]. split; [exact HI2|].
  split; [|split; [|split; [|split; [|split]]]].
  - rewrite Hbl. unfold bs. rewrite Hw, ntake_ntake, Hsp. reflexivity.
  - lia.
  - lia.
  - rewrite Hbl. destruct Hla as [Hla|Hla].
    + lia.
    + rewrite Hre in Hla. apply (f_equal nlen) in Hla. rewrite nlen_ndrop in Hla. cbn in Hla.
      unfold stream_pos in *. lia.
  - congruence.
  - congruence.
Qed.

Lemma seek_start_spec S r n :
  Inv S r ->
  exists x r', seek_start compact r n = Ok (x, r') /\ Inv S r' /\
               r_low r' = r_low r /\ nlen (r_buf r') = nlen (r_buf r) /\
               match x with
               | Some m => m = n /\ stream_pos r' = n
               | None => stream_pos r' = stream_pos r /\
                         ~ (0 < r_cap r - r_pos r /\ stream_pos r <= n <= stream_pos r + (r_cap r - r_pos r))
               end.
Proof.
  intros HI. unfold seek_start.
  assert (H1 : exists r1, (if r_cap r =? 0 then fill_buf compact r else Ok r) = Ok r1 /\ Inv S r1 /\
                          stream_pos r1 = stream_pos r /\ r_low r1 = r_low r /\ nlen (r_buf r1) = nlen (r_buf r) /\
                          (r_cap r <> 0 -> r1 = r)).
  { destruct (r_cap r =? 0) eqn:E0.
    - apply N.eqb_eq in E0. destruct (fill_buf_spec S r HI) as [r1 [E1 [HI1 [Hsp [_ [_ [Hl1 Hb1]]]]]]].
      exists r1. split; [exact E1|]. split; [exact HI1|]. repeat split; auto. intros H. lia.
    - exists r. split; [reflexivity|]. split; [exact HI|]. repeat split; auto. }
  destruct H1 as [r1 [E1 [HI1 [Hsp [Hl1 [Hb1 Hsame]]]]]]. rewrite E1. cbn [bind].
  pose proof HI1 as HI1'. destruct HI1' as [Hp Hc Hl Hr Hu HS He Hb Hre Hel].
  destruct (n <? r_abs r1) eqn:En.
  - apply N.ltb_lt in En. exists None, r1. split; [reflexivity|]. split; [exact HI1|]. repeat split; auto.
    intros [Hpos [Hlo Hhi]]. assert (r1 = r) by (apply Hsame; lia). subst r1. unfold stream_pos in *. lia.
  - apply N.ltb_ge in En. rewrite add_chk_ok by lia. cbn [bind].
    destruct (r_abs r1 + r_cap r1 <? n) eqn:En2.
    + apply N.ltb_lt in En2. exists None, r1. split; [reflexivity|]. split; [exact HI1|]. repeat split; auto.
      intros [Hpos [Hlo Hhi]]. assert (r1 = r) by (apply Hsame; lia). subst r1. unfold stream_pos in *.
      pose proof (inv_pos S r HI). lia.
    + apply N.ltb_ge in En2. rewrite sub_chk_ok by lia. cbn [bind].
      exists (Some n), (set_pos r1 (n - r_abs r1)). split; [reflexivity|].
      split; [apply set_pos_inv; [exact HI1|lia]|].
      unfold stream_pos. cbn [set_pos r_pos r_abs r_low r_buf]. repeat split; auto. lia.
Qed.

Lemma seek_cur_spec S r d :
  Inv S r ->
  exists x r', seek_cur compact r d = Ok (x, r') /\ Inv S r' /\
               r_low r' = r_low r /\ nlen (r_buf r') = nlen (r_buf r) /\
               let n := sat_add_signed (stream_pos r) d in
               match x with
               | Some m => m = n /\ stream_pos r' = n
               | None => stream_pos r' = stream_pos r /\
                         ~ (0 < r_cap r - r_pos r /\ stream_pos r <= n <= stream_pos r + (r_cap r - r_pos r))
               end.
Proof.
  intros HI. unfold seek_cur. pose proof HI as HI'. destruct HI' as [Hp Hc Hl Hr Hu HS He Hb Hre Hel].
  rewrite add_chk_ok by lia. cbn [bind]. apply seek_start_spec. exact HI.
Qed.

(* ------------------------------------------------------------------ one step / a run *)
Lemma step_spec S r o :
  Inv S r -> op_wf (nlen (r_buf r)) o ->
  exists x r', step_now r o = Ok (x, r') /\ Inv S r' /\ r_low r' = r_low r /\ nlen (r_buf r') = nlen (r_buf r) /\
               let e := {| e_op := o; e_out := x; e_win := window r' |} in
               ev_ok S (r_low r) (stream_pos r) (nlen (window r)) e /\
               stream_pos r' = next_pos (stream_pos r) (nlen (window r)) e.
Proof.
  intros HI Hwf. rewrite (window_len S r HI). unfold step_now, step.
  destruct o as [|n|k|n|d|d].
  - (* fill *)
    destruct (fill_buf_spec S r HI) as [r1 [E1 [HI1 [Hsp [Hla [Hmono [Hl1 Hb1]]]]]]].
    unfold fill_buf_now in E1. rewrite E1. cbn [bind].
    exists (RFill (window r1)), r1. split; [reflexivity|]. split; [exact HI1|]. split; [exact Hl1|]. split; [exact Hb1|].
    cbn zeta. unfold ev_ok, next_pos. cbn [e_op e_out e_win].
    split; [|exact Hsp]. split; [rewrite <- Hsp; apply window_slice; exact HI1|].
    rewrite (window_len S r1 HI1). split; [reflexivity|]. split; [exact Hmono|].
    destruct Hla as [Hla|Hla]; [left; lia|right].
    rewrite (inv_rest S r1 HI1) in Hla. apply (f_equal nlen) in Hla. rewrite nlen_ndrop in Hla. cbn in Hla.
    pose proof (inv_end S r1 HI1). pose proof (inv_pos S r1 HI1). unfold stream_pos in *. lia.
  - (* consume *)
    cbn [op_wf] in Hwf.
    destruct (consume_spec S r n HI ltac:(pose proof (inv_pos S r HI); pose proof (inv_cap S r HI); lia)) as [r1 [E1 [HI1 [Hsp [Hib [Hl1 Hb1]]]]]].
    rewrite E1. cbn [bind]. exists RUnit, r1. split; [reflexivity|]. split; [exact HI1|]. split; [exact Hl1|]. split; [exact Hb1|].
    cbn zeta. unfold ev_ok, next_pos. cbn [e_op e_out e_win].
    split; [|exact Hsp]. split; [rewrite <- Hsp; apply window_slice; exact HI1|].
    rewrite (window_len S r1 HI1). exact Hib.
  - (* read *)
    destruct (read_spec S r k HI) as [bs [r1 [E1 [HI1 [Hbs [Hsp [Hk [Hmin [Hl1 Hb1]]]]]]]]].
    rewrite E1. cbn [bind]. exists (RRead bs), r1. split; [reflexivity|]. split; [exact HI1|]. split; [exact Hl1|]. split; [exact Hb1|].
    cbn zeta. unfold ev_ok, next_pos. cbn [e_op e_out e_win].
    split; [|exact Hsp]. split; [rewrite <- Hsp; apply window_slice; exact HI1|].
    split; [exact Hbs|]. split; [exact Hk|exact Hmin].
  - (* seek start *)
    destruct (seek_start_spec S r n HI) as [x [r1 [E1 [HI1 [Hl1 [Hb1 Hx]]]]]].
    rewrite E1. cbn [bind]. exists (RSeek x), r1. split; [reflexivity|]. split; [exact HI1|]. split; [exact Hl1|]. split; [exact Hb1|].
    cbn zeta. unfold ev_ok, next_pos. cbn [e_op e_out e_win seek_target].
    destruct x as [m|].
    + destruct Hx as [Hm Hsp]. subst m. split; [|exact Hsp].
      split; [rewrite <- Hsp; apply window_slice; exact HI1|reflexivity].
    + destruct Hx as [Hsp Hno]. split; [|exact Hsp].
      split; [rewrite <- Hsp; apply window_slice; exact HI1|].
      intros n' Hn'. inversion Hn'; subst n'. exact Hno.
  - (* seek current *)
    destruct (seek_cur_spec S r d HI) as [x [r1 [E1 [HI1 [Hl1 [Hb1 Hx]]]]]].
    rewrite E1. cbn [bind]. exists (RSeek x), r1. split; [reflexivity|]. split; [exact HI1|]. split; [exact Hl1|]. split; [exact Hb1|].
    cbn zeta in Hx |- *. unfold ev_ok, next_pos. cbn [e_op e_out e_win seek_target].
    destruct x as [m|].
    + destruct Hx as [Hm Hsp]. subst m. split; [|exact Hsp].
      split; [rewrite <- Hsp; apply window_slice; exact HI1|reflexivity].
    + destruct Hx as [Hsp Hno]. split; [|exact Hsp].
      split; [rewrite <- Hsp; apply window_slice; exact HI1|].
      intros n' Hn'. inversion Hn'; subst n'. exact Hno.
  - (* seek end: unsupported *)
    cbn [bind]. exists (RSeek None), r. split; [reflexivity|]. split; [exact HI|]. split; [reflexivity|]. split; [reflexivity|].
    cbn zeta. unfold ev_ok, next_pos. cbn [e_op e_out e_win].
    split; [|reflexivity]. split; [apply window_slice; exact HI|exact I].
Qed.

Lemma run_spec S : forall ops r,
  Inv S r -> Forall (op_wf (nlen (r_buf r))) ops ->
  exists evs r', run_now r ops = Ok (evs, r') /\ Inv S r' /\ r_low r' = r_low r /\ nlen (r_buf r') = nlen (r_buf r) /\
                 trace_ok S (r_low r) (stream_pos r) (nlen (window r)) evs /\
                 stream_pos r' = final_pos (stream_pos r) (nlen (window r)) evs /\
                 map e_op evs = ops.
Proof.
  induction ops as [|o ops IH]; intros r HI Hwf.
  - exists [], r. cbn. split; [reflexivity|]. split; [exact HI|]. repeat split; auto.
  - inversion Hwf as [|? ? Hwo Hwops]; subst.
    destruct (step_spec S r o HI Hwo) as [x [r1 [E1 [HI1 [Hl1 [Hb1 [Hev Hsp]]]]]]].
    cbn zeta in Hev, Hsp.
    destruct (IH r1 HI1 ltac:(rewrite Hb1; exact Hwops)) as [evs [r2 [E2 [HI2 [Hl2 [Hb2 [Htr [Hfin Hops]]]]]]]].
    unfold run_now in *. cbn [run]. unfold step_now in E1. rewrite E1. cbn [bind]. rewrite E2. cbn [bind].
    eexists. exists r2. split; [reflexivity|]. split; [exact HI2|]. split; [congruence|]. split; [congruence|].
    cbn [trace_ok final_pos map e_op e_win]. rewrite Hl1 in Htr. rewrite <- Hsp.
    split; [split; [exact Hev|exact Htr]|]. split; [exact Hfin|]. f_equal. exact Hops.
Qed.

(* ------------------------------------------------------------------ from new() *)
Lemma op_wf_cap c1 c2 o : c1 = c2 -> op_wf c1 o -> op_wf c2 o.
Proof. intros ->. auto. Qed.

Theorem reader_refines_stream data sched capacity low ops :
  0 < low -> low + CACHE_LINE_SIZE <= capacity -> capacity <= usizemax -> nlen data <= usizemax ->
  Forall (op_wf capacity) ops ->
  exists r0 evs r', new_reader {| s_rest := data; s_sched := sched |} capacity low = Ok r0 /\
                    run_now r0 ops = Ok (evs, r') /\ map e_op evs = ops /\
                    trace_ok data low 0 0 evs /\ stream_pos r' = final_pos 0 0 evs.
Proof.
  intros Hl Hc Hu Hd Hwf.
  destruct (new_reader_inv data sched capacity low Hl Hc Hu Hd) as [r0 [E0 [HI0 [Hsp0 [Hw0 [Hl0 Hb0]]]]]].
  destruct (run_spec data ops r0 HI0 ltac:(rewrite Hb0; exact Hwf)) as [evs [r' [E [HI' [_ [_ [Htr [Hfin Hops]]]]]]]].
  rewrite Hl0, Hsp0, Hw0 in *. cbn [nlen length N.of_nat] in *.
  exists r0, evs, r'. repeat split; assumption.
Qed.

Lemma reachable_inv data sched capacity low r :
  capacity <= usizemax -> nlen data <= usizemax ->
  Reachable data sched capacity low r -> Inv data r /\ r_low r = low /\ nlen (r_buf r) = capacity.
Proof.
  intros Hu Hd [r0 [ops [evs [E0 [Hwf Er]]]]].
  assert (Hside : 0 < low /\ low + CACHE_LINE_SIZE <= capacity).
  { unfold new_reader, add_chk in E0.
    destruct (low + CACHE_LINE_SIZE <=? usizemax); [|discriminate]. cbn [bind] in E0.
    destruct (low + CACHE_LINE_SIZE <=? capacity) eqn:E1; [|discriminate].
    destruct (0 <? low) eqn:E2; [|discriminate].
    apply N.leb_le in E1. apply N.ltb_lt in E2. split; assumption. }
  destruct Hside as [Hl Hc].
  destruct (new_reader_inv data sched capacity low Hl Hc Hu Hd) as [r0' [E0' [HI0 [_ [_ [Hl0 Hb0]]]]]].
  rewrite E0 in E0'. inversion E0'; subst r0'.
  destruct (run_spec data ops r0 HI0 ltac:(rewrite Hb0; exact Hwf)) as [evs' [r' [E [HI' [Hl' [Hb' _]]]]]].
  rewrite Er in E. inversion E; subst. split; [exact HI'|]. split; congruence.
Qed.

(* the bytes handed out (consumed parts of the windows shown, results of read) are the source's bytes from the
   start position on, once and in order *)
Lemma delivered_prefix S low : forall evs P B win,
  trace_ok S low P B evs -> (forall e, In e evs -> is_seek (e_op e) = false) ->
  slice_of S P win -> nlen win = B ->
  P <= final_pos P B evs /\ delivered win evs = ntake (final_pos P B evs - P) (ndrop P S).
Proof.
  induction evs as [|e evs IH]; intros P B win Htr Hns Hsl Hwb.
  - cbn. split; [lia|]. rewrite N.sub_diag. reflexivity.
  - cbn [trace_ok] in Htr. destruct Htr as [Hev Htr].
    assert (Hns' : forall e', In e' evs -> is_seek (e_op e') = false) by (intros e' H; apply Hns; right; exact H).
    pose proof (Hns e (or_introl eq_refl)) as Hne.
    unfold ev_ok in Hev. destruct Hev as [Hsl' Hev].
    destruct (IH (next_pos P B e) (nlen (e_win e)) (e_win e) Htr Hns' Hsl' eq_refl) as [Hle Hd].
    cbn [final_pos delivered]. rewrite Hd.
    assert (Hgen : forall a front, next_pos P B e = P + a -> front = ntake a (ndrop P S) ->
              P <= final_pos (next_pos P B e) (nlen (e_win e)) evs /\
              front ++ ntake (final_pos (next_pos P B e) (nlen (e_win e)) evs - next_pos P B e) (ndrop (next_pos P B e) S) =
              ntake (final_pos (next_pos P B e) (nlen (e_win e)) evs - P) (ndrop P S)).
    { intros a front Hnp Hfr. rewrite Hnp in *. split; [lia|]. subst front.
      rewrite <- (ndrop_ndrop a P S). rewrite ntake_split. f_equal. lia. }
    destruct Hsl as [Hwin _]. clear IH Htr Hd Hle Hsl'.
    unfold next_pos in *.
    destruct (e_op e) eqn:Eo; destruct (e_out e) eqn:Eu; cbv beta iota in *; try contradiction; try discriminate.
    + (* fill *) apply (Hgen 0 []); [lia|reflexivity].
    + (* consume *) apply (Hgen (N.min n B)); [reflexivity|].
      rewrite Hwin, Hwb, ntake_ntake. reflexivity.
    + (* read *) destruct Hev as [Hbs _]. apply (Hgen (nlen bs)); [reflexivity|exact Hbs].
Qed.

Theorem delivered_once_in_order data sched capacity low ops :
  0 < low -> low + CACHE_LINE_SIZE <= capacity -> capacity <= usizemax -> nlen data <= usizemax ->
  Forall (op_wf capacity) ops -> (forall o, In o ops -> is_seek o = false) ->
  exists r0 evs r', new_reader {| s_rest := data; s_sched := sched |} capacity low = Ok r0 /\
                    run_now r0 ops = Ok (evs, r') /\
                    delivered [] evs = ntake (stream_pos r') data.
Proof.
  intros Hl Hc Hu Hd Hwf Hns.
  destruct (reader_refines_stream data sched capacity low ops Hl Hc Hu Hd Hwf) as [r0 [evs [r' [E0 [Er [Hops [Htr Hfin]]]]]]].
  exists r0, evs, r'. split; [exact E0|]. split; [exact Er|].
  destruct (delivered_prefix data low evs 0 0 [] Htr) as [_ Hd'].
  - intros e He. apply Hns. rewrite <- Hops. apply in_map. exact He.
  - split; [reflexivity|cbn; lia].
  - reflexivity.
  - rewrite Hd', Hfin, N.sub_0_r. reflexivity.
Qed.

(* ------------------------------------------------------------------ clauses for a single reachable state *)
Section Reach.
  Variables (data sched : list N) (capacity low : N) (r : reader).
  Hypothesis Hu : capacity <= usizemax.
  Hypothesis Hd : nlen data <= usizemax.
  Hypothesis HR : Reachable data sched capacity low r.

  Lemma reach_fill :
    exists r', fill_buf_now r = Ok r' /\ Reachable data sched capacity low r' /\
               stream_pos r' = stream_pos r /\ slice_of data (stream_pos r) (window r') /\
               nlen (window r) <= nlen (window r') /\
               (low <= nlen (window r') \/ stream_pos r + nlen (window r') = nlen data).
  Proof.
    destruct (reachable_inv data sched capacity low r Hu Hd HR) as [HI [Hl Hb]].
    destruct (step_spec data r OFill HI I) as [x [r1 [E1 [HI1 [Hl1 [Hb1 [Hev Hsp]]]]]]].
    unfold step_now, step in E1.
    destruct (fill_buf compact r) as [r1'| |] eqn:Ef; cbn [bind] in E1; try discriminate.
    inversion E1; subst x r1'. clear E1.
    exists r1. split; [exact Ef|].
    cbn zeta in Hev, Hsp. unfold ev_ok, next_pos in Hev, Hsp. cbn [e_op e_out e_win] in Hev, Hsp.
    destruct Hev as [Hsl [_ [Hmono Hla]]].
    split.
    { destruct HR as [r0 [ops [evs [E0 [Hwf Er]]]]].
      exists r0, (ops ++ [OFill]), (evs ++ [{| e_op := OFill; e_out := RFill (window r1); e_win := window r1 |}]).
      split; [exact E0|]. split; [apply Forall_app; split; [exact Hwf|constructor; [exact I|constructor]]|].
      clear - Er Ef. revert r0 evs Er. induction ops as [|o ops IH]; intros r0 evs Er.
      - cbn in Er. inversion Er; subst. cbn [app run_now run step]. rewrite Ef. reflexivity.
      - unfold run_now in *. cbn [app run] in *.
        destruct (step compact r0 o) as [[x r0']| |]; cbn [bind] in *; try discriminate.
        destruct (run compact r0' ops) as [[evs' r2]| |] eqn:E2; cbn [bind] in *; try discriminate.
        inversion Er; subst. rewrite (IH r0' evs' E2). reflexivity. }
    rewrite Hl in Hla. split; [exact Hsp|]. split; [exact Hsl|]. split; [exact Hmono|exact Hla].
  Qed.

  Lemma reach_no_early_eof r' :
    fill_buf_now r = Ok r' -> window r' = [] -> stream_pos r = nlen data.
  Proof.
    intros Ef Hw. destruct reach_fill as [r1 [E1 [_ [_ [_ [_ Hla]]]]]].
    rewrite Ef in E1. inversion E1; subst r1. rewrite Hw in Hla. cbn in Hla.
    destruct (reachable_inv data sched capacity low r Hu Hd HR) as [HI [Hl _]].
    pose proof (inv_low data r HI). lia.
  Qed.

  Lemma reach_read k :
    exists bs r', read compact r k = Ok (bs, r') /\ bs = ntake (nlen bs) (ndrop (stream_pos r) data) /\
                  stream_pos r' = stream_pos r + nlen bs /\ nlen bs <= k /\
                  N.min k (N.min low (nlen data - stream_pos r)) <= nlen bs.
  Proof.
    destruct (reachable_inv data sched capacity low r Hu Hd HR) as [HI [Hl Hb]].
    destruct (read_spec data r k HI) as [bs [r1 [E1 [_ [Hbs [Hsp [Hk [Hmin _]]]]]]]].
    exists bs, r1. rewrite Hl in Hmin. repeat split; assumption.
  Qed.

  Lemma reach_seek n :
    exists x r', seek_start compact r n = Ok (x, r') /\
                 match x with
                 | Some m => m = n /\ stream_pos r' = n /\ slice_of data n (window r') /\
                             (forall k, exists bs r2, read compact r' k = Ok (bs, r2) /\
                                                      bs = ntake (nlen bs) (ndrop n data) /\
                                                      N.min k (N.min low (nlen data - n)) <= nlen bs)
                 | None => ~ (0 < nlen (window r) /\ stream_pos r <= n <= stream_pos r + nlen (window r))
                 end.
  Proof.
    destruct (reachable_inv data sched capacity low r Hu Hd HR) as [HI [Hl Hb]].
    destruct (seek_start_spec data r n HI) as [x [r1 [E1 [HI1 [Hl1 [_ Hx]]]]]].
    exists x, r1. split; [exact E1|]. destruct x as [m|].
    - destruct Hx as [Hm Hsp]. split; [exact Hm|]. split; [exact Hsp|].
      split; [rewrite <- Hsp; apply window_slice; exact HI1|].
      intros k. destruct (read_spec data r1 k HI1) as [bs [r2 [E2 [_ [Hbs [_ [_ [Hmin _]]]]]]]].
      exists bs, r2. rewrite Hsp in *. rewrite Hl1, Hl in Hmin. repeat split; assumption.
    - destruct Hx as [_ Hno]. rewrite (window_len data r HI). exact Hno.
  Qed.
End Reach.
