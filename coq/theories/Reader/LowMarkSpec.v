(* What a client of LowMarkBufReader may rely on, written against the source's byte string S only
   (no reader internals).  Definitions only; proofs: Reader/LowMarkProofs.v.

   A run is judged from its events (operation, result, `buffer()` after the operation).  The judge tracks
   P  the logical stream position (bytes handed out so far / target of the last accepted seek) and
   B  the number of bytes buffered ahead (length of `buffer()` after the previous event). *)
From Coq Require Import List NArith ZArith Bool.
From AdltV Require Import Base.Res Base.MachInt Reader.LowMark.
Import ListNotations.
Open Scope N_scope.

(* w is S[P .. P+|w|] *)
Definition slice_of (S : list N) (P : N) (w : list N) : Prop :=
  w = ntake (nlen w) (ndrop P S) /\ P + nlen w <= nlen S.

(* the position after an event *)
Definition next_pos (P B : N) (e : event) : N :=
  match e_op e, e_out e with
  | OConsume n, _ => P + N.min n B
  | ORead _, RRead bs => P + nlen bs
  | OSeekStart _, RSeek (Some m) => m
  | OSeekCur _, RSeek (Some m) => m
  | _, _ => P
  end.

(* target of a seek *)
Definition seek_target (P : N) (o : op) : option N :=
  match o with
  | OSeekStart n => Some n
  | OSeekCur d => Some (sat_add_signed P d)
  | _ => None
  end.

Definition ev_ok (S : list N) (low : N) (P B : N) (e : event) : Prop :=
  let P' := next_pos P B e in
  (* whatever is buffered after the operation is the stream's content at the logical position *)
  slice_of S P' (e_win e) /\
  match e_op e, e_out e with
  | OFill, RFill w =>
      w = e_win e /\ B <= nlen w /\
      (* look-ahead: at least low_mark bytes, or everything that is left (in particular: empty only at the end) *)
      (low <= nlen w \/ P + nlen w = nlen S)
  | OConsume n, RUnit => nlen (e_win e) = B - N.min n B
  | ORead k, RRead bs =>
      bs = ntake (nlen bs) (ndrop P S) /\ nlen bs <= k /\
      N.min k (N.min low (nlen S - P)) <= nlen bs
  | OSeekStart _, RSeek (Some m) | OSeekCur _, RSeek (Some m) => seek_target P (e_op e) = Some m
  | OSeekStart _, RSeek None | OSeekCur _, RSeek None =>
      (* a target inside the buffered window is never refused *)
      forall n, seek_target P (e_op e) = Some n -> ~ (0 < B /\ P <= n <= P + B)
  | OSeekEnd _, RSeek None => True
  | _, _ => False
  end.

Fixpoint trace_ok (S : list N) (low : N) (P B : N) (evs : list event) : Prop :=
  match evs with
  | [] => True
  | e :: evs' => ev_ok S low P B e /\ trace_ok S low (next_pos P B e) (nlen (e_win e)) evs'
  end.

Fixpoint final_pos (P B : N) (evs : list event) : N :=
  match evs with
  | [] => P
  | e :: evs' => final_pos (next_pos P B e) (nlen (e_win e)) evs'
  end.

(* the bytes a client has been handed: the consumed part of the window it was shown, and what read() returned *)
Fixpoint delivered (win : list N) (evs : list event) : list N :=
  match evs with
  | [] => []
  | e :: evs' =>
      match e_op e, e_out e with
      | OConsume n, _ => ntake n win
      | ORead _, RRead bs => bs
      | _, _ => []
      end ++ delivered (e_win e) evs'
  end.

Definition is_seek (o : op) : bool :=
  match o with OSeekStart _ | OSeekCur _ | OSeekEnd _ => true | _ => false end.

(* operations inside the contract: consume(amt) with pos + amt representable (BufRead demands amt <= |buffer|) *)
Definition op_wf (capacity : N) (o : op) : Prop :=
  match o with OConsume n => capacity + n <= usizemax | _ => True end.

(* logical position of a reader state *)
Definition stream_pos (r : reader) : N := r_abs r + r_pos r.

(* states reachable from new() by operations inside the contract *)
Definition Reachable (data sched : list N) (capacity low : N) (r : reader) : Prop :=
  exists r0 ops evs, new_reader {| s_rest := data; s_sched := sched |} capacity low = Ok r0 /\
                     Forall (op_wf capacity) ops /\ run_now r0 ops = Ok (evs, r).
