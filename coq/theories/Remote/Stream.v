(* Model of the stream / query machinery of the remote server
   - src/utils/remote_utils.rs : StreamContext, process_stream_new_msgs, match_filters
   - src/bin/adlt/remote.rs    : the per-stream part of process_file_context (send step, query end marker),
                                 stream_change_window, stop, process_stream_search_params,
                                 binary_search_by_time_us, binary_search_by_msg_index,
                                 std's binary_search_by / partition_point (contract and concrete algorithm)
   The model is the model of the code as it is NOW (i.e. after the `fix:` commits recorded in
   known_findings.d/C16.json).  The behaviour before each repair is kept as a separate definition
   ([*_prefix]) so that the defect it removed stays documented by a checked witness.
   Not modelled: one_pass streams / CollectMode::OnePassStreams (drained_all_msgs = 0 here), the text
   rendering of a message, bincode, the websocket.
   Assumptions written next to the definitions.  No proofs in this file. *)
From Coq Require Import List NArith Bool.
From AdltV Require Import Base.Res Base.MachInt.
Import ListNotations.
Open Scope N_scope.

Definition len {A} (l : list A) : N := N.of_nat (length l).
Definition is_nil {A} (l : list A) : bool := match l with [] => true | _ => false end.
Definition firstN {A} (n : N) (l : list A) : list A := firstn (N.to_nat n) l.
Definition skipN {A} (n : N) (l : list A) : list A := skipn (N.to_nat n) l.
Definition nthN {A} (l : list A) (n : N) : option A := nth_error l (N.to_nat n).
(* `v[i]` *)
Definition nth_chk {A} (l : list A) (n : N) : res A :=
  match nthN l n with Some a => Ok a | None => Panic site_index end.

Section Stream.
  Context {M : Type}.                     (* DltMessage *)

  (* ------------------------------------------------------------------ match_filters *)
  (* Filter::matches is C11's subject; here a filter is its truth function *)
  Definition filt := M -> bool.
  Record fset := { f_pos : list filt; f_neg : list filt; f_ev : list filt }.
  Definition fs_none : fset := {| f_pos := []; f_neg := []; f_ev := [] |}.

  Definition any_matches (fs : list filt) (m : M) : bool := existsb (fun f => f m) fs.

  Definition match_filters (fs : fset) (m : M) : bool :=
    if is_nil (f_pos fs) || any_matches (f_pos fs) m then
      if negb (any_matches (f_neg fs) m) then
        is_nil (f_ev fs) || any_matches (f_ev fs) m
      else false
    else false.

  (* StreamContext::from: `filters[Positive].len() + filters[Negative].len() + filters[Event].len() > 0` *)
  Definition filters_active_of (fs : fset) : bool :=
    negb (is_nil (f_pos fs) && is_nil (f_neg fs) && is_nil (f_ev fs)).

  (* ------------------------------------------------------------------ StreamContext *)
  Record sctx := {
    s_id : N;
    s_is_done : bool;
    s_is_stream : bool;
    s_binary : bool;
    s_filters_active : bool;
    s_filters : fset;
    s_filtered : list N;        (* filtered_msgs: indices into all_msgs *)
    s_last : N;                 (* all_msgs_last_processed_len *)
    s_to_start : N; s_to_end : N;       (* msgs_to_send *)
    s_sent_start : N; s_sent_end : N    (* msgs_sent *)
  }.

  Definition new_ctx (id : N) (is_stream binary : bool) (fs : fset) (start end_ : N) : sctx :=
    {| s_id := id; s_is_done := false; s_is_stream := is_stream; s_binary := binary;
       s_filters_active := filters_active_of fs; s_filters := fs;
       s_filtered := []; s_last := 0;
       s_to_start := start; s_to_end := end_; s_sent_start := start; s_sent_end := start |}.

  Definition set_progress (s : sctx) (filtered : list N) (last : N) : sctx :=
    {| s_id := s_id s; s_is_done := s_is_done s; s_is_stream := s_is_stream s; s_binary := s_binary s;
       s_filters_active := s_filters_active s; s_filters := s_filters s;
       s_filtered := filtered; s_last := last;
       s_to_start := s_to_start s; s_to_end := s_to_end s; s_sent_start := s_sent_start s; s_sent_end := s_sent_end s |}.
  Definition set_sent_end (s : sctx) (e : N) : sctx :=
    {| s_id := s_id s; s_is_done := s_is_done s; s_is_stream := s_is_stream s; s_binary := s_binary s;
       s_filters_active := s_filters_active s; s_filters := s_filters s;
       s_filtered := s_filtered s; s_last := s_last s;
       s_to_start := s_to_start s; s_to_end := s_to_end s; s_sent_start := s_sent_start s; s_sent_end := e |}.
  Definition set_done (s : sctx) : sctx :=
    {| s_id := s_id s; s_is_done := true; s_is_stream := s_is_stream s; s_binary := s_binary s;
       s_filters_active := s_filters_active s; s_filters := s_filters s;
       s_filtered := s_filtered s; s_last := s_last s;
       s_to_start := s_to_start s; s_to_end := s_to_end s; s_sent_start := s_sent_start s; s_sent_end := s_sent_end s |}.
  (* stream_change_window: new window, msgs_sent reset to start..start, new id *)
  Definition set_window (s : sctx) (id start end_ : N) : sctx :=
    {| s_id := id; s_is_done := s_is_done s; s_is_stream := s_is_stream s; s_binary := s_binary s;
       s_filters_active := s_filters_active s; s_filters := s_filters s;
       s_filtered := s_filtered s; s_last := s_last s;
       s_to_start := start; s_to_end := end_; s_sent_start := start; s_sent_end := start |}.
  (* tests (and only tests) assign msgs_to_send.end directly *)
  Definition set_to_end (s : sctx) (end_ : N) : sctx :=
    {| s_id := s_id s; s_is_done := s_is_done s; s_is_stream := s_is_stream s; s_binary := s_binary s;
       s_filters_active := s_filters_active s; s_filters := s_filters s;
       s_filtered := s_filtered s; s_last := s_last s;
       s_to_start := s_to_start s; s_to_end := end_; s_sent_start := s_sent_start s; s_sent_end := s_sent_end s |}.

  (* ------------------------------------------------------------------ process_stream_new_msgs *)
  (* get_matching_idxs: par_iter().enumerate().filter(match).map(offset + i).collect()
     assumption: rayon's collect of an indexed parallel iterator keeps the order (documented by rayon) *)
  Fixpoint matching_idxs (fs : fset) (msgs : list M) (off : N) : list N :=
    match msgs with
    | [] => []
    | m :: r => if match_filters fs m then off :: matching_idxs fs r (off + 1) else matching_idxs fs r (off + 1)
    end.

  (* PART_CHUNK_SIZE: 64 under cfg!(test), 64 * 1024 otherwise *)
  Variable part_chunk_const : N.

  (* the `while stream.filtered_msgs.len() < max_matching && start_idx < max_idx` loop of the query branch;
     [rest] = new_msgs[start_idx..max_idx], [off] = new_msgs_offset + start_idx.
     fuel = length rest (every iteration with pcs >= 1 consumes at least one message) *)
  Fixpoint qloop (fuel : nat) (fs : fset) (pcs maxm off : N) (rest : list M) (filtered : list N) (last : N)
    : list N * N :=
    match fuel with
    | O => (filtered, last)
    | S f =>
      if (len filtered <? maxm) && negb (is_nil rest) then
        let nr_wanted := maxm - len filtered in
        let chunk := firstN pcs rest in
        let rest' := skipN pcs rest in
        let midx := matching_idxs fs chunk off in
        let off' := off + len chunk in
        if len midx <=? nr_wanted then
          qloop f fs pcs maxm off' rest' (filtered ++ midx) off'
        else
          (* found more than wanted: resume at the first unwanted one *)
          qloop f fs pcs maxm off' rest' (filtered ++ firstN nr_wanted midx) (nth (N.to_nat nr_wanted) midx 0)
      else (filtered, last)
    end.

  (* assumption: new_msgs_offset + new_msgs.len() does not overflow usize (both are positions in one Vec) *)
  Definition process_stream_new_msgs (s : sctx) (offset : N) (new_msgs : list M) (max_chunk : N) : sctx :=
    match new_msgs with
    | [] => s
    | _ =>
      if s_filters_active s then
        let max_idx := N.min (len new_msgs) max_chunk in
        if s_is_stream s then
          set_progress s (s_filtered s ++ matching_idxs (s_filters s) (firstN max_idx new_msgs) offset) (offset + max_idx)
        else
          let pcs := N.min max_chunk part_chunk_const in
          let rest := firstN max_idx new_msgs in
          let '(f, l) := qloop (length rest) (s_filters s) pcs (s_to_end s) offset rest (s_filtered s) (s_last s) in
          set_progress s f l
      else set_progress s (s_filtered s) (s_last s + len new_msgs)
    end.

  (* how process_file_context calls it: offset = min(marker, all_msgs.len()), new_msgs = all_msgs[offset..] *)
  Definition feed (all : list M) (max_chunk : N) (s : sctx) : sctx :=
    let off := N.min (s_last s) (len all) in
    process_stream_new_msgs s off (skipN off all) max_chunk.

  (* every way in which parsed messages can become available to the server loop: batches of arrivals
     interleaved with processing calls of any chunk size (and, for queries, changes of the window end) *)
  Inductive sstep :=
  | SArrive (ms : list M)
  | SProc (chunk : N)
  | SEnd (e : N).
  Fixpoint sched_run (all : list M) (s : sctx) (sch : list sstep) : list M * sctx :=
    match sch with
    | [] => (all, s)
    | SArrive ms :: r => sched_run (all ++ ms) s r
    | SProc c :: r => sched_run all (feed all c s) r
    | SEnd e :: r => sched_run all (set_to_end s e) r
    end.
  Definition chunks_ok (sch : list sstep) : Prop :=
    forall c, In (SProc c) sch -> 1 <= c.
  Definition no_end_change (sch : list sstep) : Prop :=
    forall e, ~ In (SEnd e) sch.
  (* all positions of the log that pass the filter set *)
  Definition matching (fs : fset) (all : list M) : list N := matching_idxs fs all 0.

  (* ------------------------------------------------------------------ send step of process_file_context *)
  Inductive frame :=
  | FInfo (id nr_stream processed total : N)      (* BinType::StreamInfo *)
  | FMsgs (id : N) (ms : list M)                  (* BinType::DltMsgs((id, non-empty vec)) *)
  | FText (id : N) (pos : N) (m : M)              (* "stream:<id> msg(<pos>):<header text>" *)
  | FDone (id : N).                               (* BinType::DltMsgs((id, vec![])): end of a query *)

  Definition frame_id (f : frame) : N :=
    match f with FInfo id _ _ _ | FMsgs id _ | FText id _ _ | FDone id => id end.

  (* number of messages of the stream *)
  Definition stream_len (s : sctx) (all_len : N) : N :=
    if s_filters_active s then len (s_filtered s) else all_len.

  (* the message at stream position i: `all_msgs[if filters_active { filtered_msgs[i] } else { i }]` *)
  Definition stream_msg (all : list M) (s : sctx) (i : N) : res M :=
    bind (if s_filters_active s then nth_chk (s_filtered s) i else Ok i) (fun mi => nth_chk all mi).

  (* `for i in msgs_sent.end..new_end` *)
  Fixpoint collect (all : list M) (s : sctx) (from : N) (cnt : nat) : res (list (N * M)) :=
    match cnt with
    | O => Ok []
    | S c =>
      bind (stream_msg all s from) (fun m =>
      bind (collect all s (from + 1) c) (fun r => Ok ((from, m) :: r)))
    end.

  Definition max_chunk_server : N := 3000000.

  (* how many messages one call of process_file_context may send for one stream: the code sends everything
     that is due ([None] = no bound).  The bound is explicit because the rule that ends a query relies on it:
     "everything processed in this call was also sent in this call". *)
  Definition cap (budget : option N) (from x : N) : N :=
    match budget with None => x | Some k => N.min x (from + k) end.
  Definition send_budget : option N := None.

  (* one stream in one call of process_file_context; [finished] = parser_thread_finished;
     [coll] = the loop that fetches the messages to send ([collect]; an equivalent single-pass version is used
     for evaluating big sessions, see Remote/StreamFast.v) *)
  Definition tick_stream_gen (coll : list M -> sctx -> N -> nat -> res (list (N * M))) (budget : option N)
      (all : list M) (finished : bool) (s : sctx) : res (sctx * list frame) :=
    let all_len := len all in
    let off := N.min (s_last s) all_len in
    let s1 := process_stream_new_msgs s off (skipN off all) max_chunk_server in
    let slen := stream_len s1 all_len in
    let f_info := if s_last s1 =? off then [] else [FInfo (s_id s1) slen (s_last s1) all_len] in
    bind
      (if (s_sent_end s1 <? s_to_end s1) && (s_sent_end s1 <? slen) then
         let new_end := cap budget (s_sent_end s1) (N.min slen (s_to_end s1)) in
         bind (coll all s1 (s_sent_end s1) (N.to_nat (new_end - s_sent_end s1))) (fun ms =>
         Ok (set_sent_end s1 new_end,
             if s_binary s1 then [FMsgs (s_id s1) (map snd ms)]
             else map (fun pm => FText (s_id s1) (fst pm) (snd pm)) ms))
       else Ok (s1, []))
      (fun r =>
         let '(s2, f_msgs) := r in
         let done := ((finished && (all_len <=? s_last s2)) || (s_to_end s2 <=? s_sent_end s2)) && negb (s_is_stream s2) in
         Ok (if done then set_done s2 else s2, f_info ++ f_msgs ++ (if done then [FDone (s_id s2)] else []))).

  Definition tick_stream : list M -> bool -> sctx -> res (sctx * list frame) :=
    tick_stream_gen collect send_budget.

  (* the condition before the repair b2216c6: a tick without new messages ended the query *)
  Definition query_done_prefix (got_new : bool) (all_len : N) (s2 : sctx) : bool :=
    ((negb got_new && (all_len <=? s_last s2)) || (s_to_end s2 <=? s_sent_end s2)) && negb (s_is_stream s2).

  (* ------------------------------------------------------------------ stream_search *)
  (* the `while i < stream_msgs_len` loop; fuel = stream_msgs_len - start_idx; returns (search_idxs, i) *)
  Fixpoint search_loop (fuel : nat) (all : list M) (s : sctx) (fs : fset) (maxr slen i : N) (acc : list N)
    : res (list N * N) :=
    match fuel with
    | O => Ok (acc, i)
    | S f =>
      if i <? slen then
        bind (stream_msg all s i) (fun m =>
          if match_filters fs m then
            let acc' := acc ++ [i] in
            if maxr <=? len acc' then Ok (acc', i + 1)
            else search_loop f all s fs maxr slen (i + 1) acc'
          else search_loop f all s fs maxr slen (i + 1) acc)
      else Ok (acc, i)
    end.

  (* reply: (search_idxs, next_search_idx) *)
  Definition stream_search (all : list M) (s : sctx) (start maxr : N) (fs : fset) : res (list N * option N) :=
    let slen := stream_len s (len all) in
    bind (search_loop (N.to_nat (slen - start)) all s fs maxr slen start []) (fun r =>
      let '(idxs, i) := r in
      Ok (idxs, if i <? slen then Some i else None)).

  (* before the repairs 536fc54 / fe9ae21: only filtered_msgs was searched and the continuation was i + 1 *)
  Definition stream_search_prefix (all : list M) (s : sctx) (start maxr : N) (fs : fset) : res (list N * option N) :=
    let slen := len (s_filtered s) in
    let s' := {| s_id := s_id s; s_is_done := s_is_done s; s_is_stream := s_is_stream s; s_binary := s_binary s;
                 s_filters_active := true; s_filters := s_filters s; s_filtered := s_filtered s; s_last := s_last s;
                 s_to_start := s_to_start s; s_to_end := s_to_end s; s_sent_start := s_sent_start s; s_sent_end := s_sent_end s |} in
    bind (search_loop (N.to_nat (slen - start)) all s' fs maxr slen start []) (fun r =>
      let '(idxs, i) := r in
      Ok (idxs, if i <? slen then Some (i + 1) else None)).

  (* following next_search_idx: the list of pages (search_idxs, examined range [from, to)) *)
  Fixpoint search_pages (fuel : nat) (all : list M) (s : sctx) (start maxr : N) (fs : fset)
    : res (list (list N * (N * N))) :=
    match fuel with
    | O => OutOfFuel
    | S f =>
      bind (stream_search all s start maxr fs) (fun r =>
        match snd r with
        | None => Ok [(fst r, (start, N.max start (stream_len s (len all))))]
        | Some nxt => bind (search_pages f all s nxt maxr fs) (fun rest => Ok ((fst r, (start, nxt)) :: rest))
        end)
    end.

  (* ------------------------------------------------------------------ std binary search *)
  Inductive bres := BOk (i : N) | BErr (i : N).
  Definition bres_idx (r : bres) : N := match r with BOk i | BErr i => i end.   (* .unwrap_or_else(|e| e) *)

  (* the documented contract of slice::binary_search_by on a slice that is partitioned Less* Equal* Greater*:
     Ok(i): element i compares Equal (any of them); Err(i): no Equal element, i = insertion point *)
  Definition bsearch_valid {A} (cmp : A -> comparison) (l : list A) (r : bres) : Prop :=
    match r with
    | BOk i => exists a, nthN l i = Some a /\ cmp a = Eq
    | BErr i => i <= len l /\
                (forall j a, j < i -> nthN l j = Some a -> cmp a = Lt) /\
                (forall j a, i <= j -> nthN l j = Some a -> cmp a = Gt)
    end.

  (* the algorithm of core::slice::binary_search_by of the pinned toolchain (branch-free variant) *)
  Definition cmp_at {A} (cmp : A -> comparison) (l : list A) (i : N) : comparison :=
    match nthN l i with Some a => cmp a | None => Gt end.
  Fixpoint bs_loop {A} (fuel : nat) (cmp : A -> comparison) (l : list A) (size base : N) : N :=
    match fuel with
    | O => base
    | S f =>
      if 1 <? size then
        let half := size / 2 in
        let mid := base + half in
        let base' := match cmp_at cmp l mid with Gt => base | _ => mid end in
        bs_loop f cmp l (size - half) base'
      else base
    end.
  Definition std_bsearch {A} (cmp : A -> comparison) (l : list A) : bres :=
    match l with
    | [] => BErr 0
    | _ =>
      let base := bs_loop (length l) cmp l (len l) 0 in
      match cmp_at cmp l base with
      | Eq => BOk base
      | Lt => BErr (base + 1)
      | Gt => BErr base
      end
    end.
  (* slice::partition_point(pred) = binary_search_by(|x| if pred(x) { Less } else { Greater }).unwrap_or_else(|i| i) *)
  Definition partition_point {A} (pred : A -> bool) (l : list A) : N :=
    bres_idx (std_bsearch (fun a => if pred a then Lt else Gt) l).

  (* ------------------------------------------------------------------ lookups *)
  Variable time_of : M -> N.    (* lifecycle start + timestamp, or the reception time (computed from the lifecycle table) *)
  Variable index_of : M -> N.   (* msg.index *)

  (* position in the stream of the all_msgs position [ai]: filtered_msgs.binary_search(&ai).unwrap_or_else(|e| e);
     [bs] is the binary search used (contract-level results are quantified in the theorems) *)
  Definition stream_pos_with (bs : (N -> comparison) -> list N -> bres) (s : sctx) (ai : N) : N :=
    if s_filters_active s then bres_idx (bs (fun f => N.compare f ai) (s_filtered s)) else ai.
  Definition stream_pos := stream_pos_with std_bsearch.

  (* binary_search_by_time_us *)
  Definition lookup_time (all : list M) (s : sctx) (t : N) : N :=
    stream_pos s (partition_point (fun m => time_of m <? t) all).
  (* before the repair 8464698: binary_search_by(time.cmp(&t)).unwrap_or_else(|e| e) *)
  Definition lookup_time_prefix (all : list M) (s : sctx) (t : N) : N :=
    stream_pos s (bres_idx (std_bsearch (fun m => N.compare (time_of m) t) all)).

  (* binary_search_by_msg_index has four branches: sort_by_time x filters_active.
     Files not sorted by time (None = the "err:" reply): binary_search_by(msg.index) on all_msgs - relies on
     msg.index being ascending along all_msgs - then (filters active) binary_search of that position in
     filtered_msgs - relies on filtered_msgs being ascending - or (no filters) the position itself.
     [bsA], [bsF]: the binary searches used (any result the contract allows, in the theorems). *)
  Definition lookup_index_with (bsA : (M -> comparison) -> list M -> bres)
      (bsF : (N -> comparison) -> list N -> bres) (all : list M) (s : sctx) (idx : N) : option N :=
    match bsA (fun m => N.compare (index_of m) idx) all with
    | BOk ai => Some (stream_pos_with bsF s ai)
    | BErr _ => None
    end.
  Definition lookup_index : list M -> sctx -> N -> option N := lookup_index_with std_bsearch std_bsearch.
  (* before the repair dc44c55: filtered_msgs was searched although it is empty without filters *)
  Definition lookup_index_prefix (all : list M) (s : sctx) (idx : N) : option N :=
    match std_bsearch (fun m => N.compare (index_of m) idx) all with
    | BOk ai => Some (bres_idx (std_bsearch (fun f => N.compare f ai) (s_filtered s)))
    | BErr _ => None
    end.

  (* binary_search_by_msg_index with sort_by_time: linear search of the message, then its position in the stream *)
  Fixpoint find_index (all : list M) (idx : N) (pos : N) : option (N * M) :=
    match all with
    | [] => None
    | m :: r => if index_of m =? idx then Some (pos, m) else find_index r idx (pos + 1)
    end.
  (* sort_by_time: the message is searched linearly (no order of msg.index is assumed), then (filters active) its
     all_msgs position is binary-searched in filtered_msgs - relies on filtered_msgs being ascending only - or
     (no filters) the position itself *)
  Definition lookup_index_sorted_with (bsF : (N -> comparison) -> list N -> bres)
      (all : list M) (s : sctx) (idx : N) : option N :=
    match find_index all idx 0 with
    | Some (ai, _) => Some (stream_pos_with bsF s ai)
    | None => None
    end.
  Definition lookup_index_sorted : list M -> sctx -> N -> option N := lookup_index_sorted_with std_bsearch.
  (* NOT the code: searching the stream's messages by msg.index (what the file-order branch may do, because there
     msg.index ascends along the stream) in a time-sorted file, where it does not *)
  Definition index_at (all : list M) (f : N) : N :=
    match nthN all f with Some m => index_of m | None => 0 end.
  Definition lookup_index_sorted_by_index (all : list M) (s : sctx) (idx : N) : option N :=
    match find_index all idx 0 with
    | Some (ai, _) =>
        Some (if s_filters_active s
              then bres_idx (std_bsearch (fun f => N.compare (index_at all f) idx) (s_filtered s))
              else ai)
    | None => None
    end.
  (* before the repair 38c5743: a search by time among the stream's messages *)
  Definition time_at (all : list M) (f : N) : N :=
    match nthN all f with Some m => time_of m | None => 0 end.
  Definition lookup_index_sorted_prefix (all : list M) (s : sctx) (idx : N) : option N :=
    match find_index all idx 0 with
    | Some (ai, m) =>
        Some (if s_filters_active s
              then bres_idx (std_bsearch (fun f => N.compare (time_at all f) (time_of m)) (s_filtered s))
              else ai)
    | None => None
    end.

  (* ------------------------------------------------------------------ the server: streams of one file context *)
  Record server := { sv_all : list M; sv_streams : list sctx; sv_next_id : N }.

  Inductive op :=
  | OTick (new : list M) (finished : bool)     (* process_file_context: [new] arrived from the parser threads *)
  | ONew (is_stream binary : bool) (fs : fset) (start end_ : N)    (* stream / query *)
  | OWindow (id start end_ : N)                (* stream_change_window *)
  | OStop (id : N)
  | OSearch (id start maxr : N) (fs : fset)
  | OLookupIdx (id idx : N)
  | OLookupTime (id t : N)
  | OReject.   (* a command the dispatcher rejects (malformed parameters, unknown key, bad JSON, invalid request): "err: ..." *)

  Inductive event :=
  | EReplyNew (id : N)
  | EReplyWindow (old new start end_ : N)
  | EReplyStop (id : N)
  | EReplySearch (id : N) (idxs : list N) (next : option N)
  | EReplyLookup (id : N) (pos : option N)
  | EErr                                     (* "err: ..." (stream id not found, or the command was rejected) *)
  | EFrame (f : frame).

  Fixpoint find_stream (id : N) (l : list sctx) : option sctx :=
    match l with
    | [] => None
    | s :: r => if s_id s =? id then Some s else find_stream id r
    end.
  Fixpoint replace_stream (id : N) (s' : sctx) (l : list sctx) : list sctx :=
    match l with
    | [] => []
    | s :: r => if s_id s =? id then s' :: r else s :: replace_stream id s' r
    end.
  Fixpoint remove_stream (id : N) (l : list sctx) : list sctx :=
    match l with
    | [] => []
    | s :: r => if s_id s =? id then r else s :: remove_stream id r
    end.

  (* `for stream in &mut fc.streams` then `fc.streams.retain(|stream| !stream.is_done)` *)
  Fixpoint tick_streams (all : list M) (finished : bool) (l : list sctx) : res (list sctx * list frame) :=
    match l with
    | [] => Ok ([], [])
    | s :: r =>
      bind (tick_stream all finished s) (fun sf =>
      bind (tick_streams all finished r) (fun rf =>
        Ok ((if s_is_done (fst sf) then fst rf else fst sf :: fst rf), snd sf ++ snd rf)))
    end.

  Variable sort_by_time : bool.

  Definition step (sv : server) (o : op) : res (server * list event) :=
    match o with
    | OTick new finished =>
        let all := sv_all sv ++ new in
        bind (tick_streams all finished (sv_streams sv)) (fun r =>
          Ok ({| sv_all := all; sv_streams := fst r; sv_next_id := sv_next_id sv |}, map EFrame (snd r)))
    | ONew is_stream binary fs start end_ =>
        let id := sv_next_id sv in
        Ok ({| sv_all := sv_all sv; sv_streams := sv_streams sv ++ [new_ctx id is_stream binary fs start end_];
               sv_next_id := id + 1 |}, [EReplyNew id])
    | OWindow id start end_ =>
        match find_stream id (sv_streams sv) with
        | Some s =>
            let nid := sv_next_id sv in
            Ok ({| sv_all := sv_all sv; sv_streams := replace_stream id (set_window s nid start end_) (sv_streams sv);
                   sv_next_id := nid + 1 |}, [EReplyWindow id nid start end_])
        | None => Ok (sv, [EErr])
        end
    | OStop id =>
        match find_stream id (sv_streams sv) with
        | Some _ => Ok ({| sv_all := sv_all sv; sv_streams := remove_stream id (sv_streams sv); sv_next_id := sv_next_id sv |},
                        [EReplyStop id])
        | None => Ok (sv, [EErr])
        end
    | OSearch id start maxr fs =>
        match find_stream id (sv_streams sv) with
        | Some s => bind (stream_search (sv_all sv) s start maxr fs) (fun r => Ok (sv, [EReplySearch id (fst r) (snd r)]))
        | None => Ok (sv, [EErr])
        end
    | OLookupIdx id idx =>
        match find_stream id (sv_streams sv) with
        | Some s => Ok (sv, [EReplyLookup id (if sort_by_time then lookup_index_sorted (sv_all sv) s idx
                                              else lookup_index (sv_all sv) s idx)])
        | None => Ok (sv, [EErr])
        end
    | OLookupTime id t =>
        match find_stream id (sv_streams sv) with
        | Some s => Ok (sv, [EReplyLookup id (Some (lookup_time (sv_all sv) s t))])
        | None => Ok (sv, [EErr])
        end
    | OReject => Ok (sv, [EErr])     (* nothing but the error reply: ids, windows, sent ranges stay as they are *)
    end.

  Fixpoint run (sv : server) (ops : list op) : res (server * list event) :=
    match ops with
    | [] => Ok (sv, [])
    | o :: r =>
      bind (step sv o) (fun se =>
      bind (run (fst se) r) (fun se' => Ok (fst se', snd se ++ snd se')))
    end.

  Definition server0 (first_id : N) : server := {| sv_all := []; sv_streams := []; sv_next_id := first_id |}.
End Stream.

Arguments fset : clear implicits.
Arguments sctx : clear implicits.
Arguments frame : clear implicits.
Arguments server : clear implicits.
Arguments op : clear implicits.
Arguments event : clear implicits.
