(* Proofs about Remote/StreamTimes.v: the time lookup reads `start_time` of the lifecycle table and nothing else; the key of a
   message is start_time + timestamp (reception time without table entry); the lookup answers the first stream message not
   before the requested time whenever all_msgs is partitioned by "time < requested"; keyed by resume_start_time() the answer
   is another (wrong) one on a table with a resumed lifecycle whose start was moved before its origin's *)
From Coq Require Import List NArith Bool Lia Arith.
From AdltV Require Import Base.Res Base.MachInt Remote.Stream Remote.StreamProofs Remote.StreamSearchProofs Remote.StreamTimes.
Import ListNotations.
Open Scope N_scope.

(* ------------------------------------------------------------------ the map built from the table *)
(* the value under [k] of the last pair with key [k] *)
Fixpoint assoc_last (k : N) (kvs : list (N * N)) : option N :=
  match kvs with
  | [] => None
  | (k', v) :: r =>
    match assoc_last k r with
    | Some x => Some x
    | None => if k' =? k then Some v else None
    end
  end.
(* the last entry of the table with id [k] (the ids of the evmap are unique: THE entry with that id) *)
Fixpoint entry_last (k : N) (tab : list lc_entry) : option lc_entry :=
  match tab with
  | [] => None
  | e :: r =>
    match entry_last k r with
    | Some x => Some x
    | None => if lc_id e =? k then Some e else None
    end
  end.

Lemma map_get_insert k k' v m : map_get k (map_insert k' v m) = if k' =? k then Some v else map_get k m.
Proof.
  induction m as [|[k2 v2] r IH]; cbn [map_insert map_get].
  - destruct (k' =? k); reflexivity.
  - destruct (k2 =? k') eqn:E2; cbn [map_get].
    + apply N.eqb_eq in E2. subst k2. destruct (k' =? k); reflexivity.
    + destruct (k2 =? k) eqn:E3.
      * apply N.eqb_eq in E3. subst k2. rewrite N.eqb_sym, E2. reflexivity.
      * exact IH.
Qed.

Lemma map_get_fold k kvs : forall m0,
  map_get k (fold_left (fun m kv => map_insert (fst kv) (snd kv) m) kvs m0) =
  match assoc_last k kvs with Some v => Some v | None => map_get k m0 end.
Proof.
  induction kvs as [|[k' v] r IH]; intros m0; cbn [fold_left assoc_last fst snd]; [reflexivity|].
  rewrite IH, map_get_insert. destruct (assoc_last k r); [reflexivity|]. destruct (k' =? k); reflexivity.
Qed.

Lemma map_get_build k kvs : map_get k (map_build kvs) = assoc_last k kvs.
Proof. unfold map_build. rewrite map_get_fold. destruct (assoc_last k kvs); reflexivity. Qed.

Lemma assoc_last_entries acc k tab :
  assoc_last k (map (fun e => (lc_id e, acc e)) tab) = option_map acc (entry_last k tab).
Proof.
  induction tab as [|e r IH]; cbn [map assoc_last entry_last option_map]; [reflexivity|].
  rewrite IH. destruct (entry_last k r); cbn [option_map]; [reflexivity|]. destruct (lc_id e =? k); reflexivity.
Qed.

(* what the map holds under an id: the field [acc] of the table's entry with that id *)
Lemma lc_map_get acc tab k : map_get k (lc_map_with acc tab) = option_map acc (entry_last k tab).
Proof. unfold lc_map_with. rewrite map_get_build. apply assoc_last_entries. Qed.

(* ------------------------------------------------------------------ std binary search only looks at the elements *)
Lemma cmp_at_ext {A} (c1 c2 : A -> comparison) l i :
  (forall a, In a l -> c1 a = c2 a) -> cmp_at c1 l i = cmp_at c2 l i.
Proof.
  intros H. unfold cmp_at, nthN. destruct (nth_error l (N.to_nat i)) as [a|] eqn:E; [|reflexivity].
  apply H. eapply nth_error_In. exact E.
Qed.

Lemma bs_loop_ext {A} (c1 c2 : A -> comparison) l : (forall a, In a l -> c1 a = c2 a) ->
  forall fuel size base, bs_loop fuel c1 l size base = bs_loop fuel c2 l size base.
Proof.
  intros H. induction fuel as [|f IH]; intros size base; cbn [bs_loop]; [reflexivity|].
  destruct (1 <? size); [|reflexivity]. rewrite (cmp_at_ext c1 c2 l _ H). apply IH.
Qed.

Lemma std_bsearch_ext {A} (c1 c2 : A -> comparison) l :
  (forall a, In a l -> c1 a = c2 a) -> std_bsearch c1 l = std_bsearch c2 l.
Proof.
  intros H. unfold std_bsearch. destruct l as [|a0 r] eqn:El; [reflexivity|]. rewrite <- El in *.
  rewrite (bs_loop_ext c1 c2 l H). rewrite (cmp_at_ext c1 c2 l _ H). reflexivity.
Qed.

Section TimeLookups.
  Context {M : Type}.
  Variable all : list M.
  Variable s : sctx M.

  (* the time lookup depends on the time function through the times of the messages of all_msgs only *)
  Lemma lookup_time_ext (f g : M -> N) t :
    (forall m, In m all -> f m = g m) -> lookup_time f all s t = lookup_time g all s t.
  Proof.
    intros H. unfold lookup_time, partition_point. f_equal. f_equal. apply std_bsearch_ext.
    intros a Ha. rewrite (H a Ha). reflexivity.
  Qed.

  (* all_msgs is partitioned by "time < t": no message not before [t] is followed by one before [t].
     (A log ordered by time is partitioned for every t.) *)
  Definition partitioned_at (time_of : M -> N) (t : N) : Prop :=
    forall i j a b, i <= j -> nthN all i = Some a -> nthN all j = Some b -> t <= time_of a -> t <= time_of b.

  Lemma time_ordered_partitioned_at time_of t : time_ordered time_of all -> partitioned_at time_of t.
  Proof. intros Hord i j a b Hij Ha Hb Hta. pose proof (Hord i j a b Hij Ha Hb). lia. Qed.

  Lemma partition_point_at time_of t : partitioned_at time_of t ->
    let ai := partition_point (fun m => time_of m <? t) all in
    ai <= len all /\
    (forall j m, j < ai -> nthN all j = Some m -> time_of m < t) /\
    (forall j m, ai <= j -> nthN all j = Some m -> t <= time_of m).
  Proof.
    intros Hpa. cbv zeta. unfold partition_point.
    set (cmp := fun a : M => if time_of a <? t then Lt else Gt).
    assert (Hp : partitioned cmp all).
    { intros i j a b Hij Ha Hb. unfold cmp.
      destruct (time_of a <? t) eqn:E1; [reflexivity|].
      apply N.ltb_ge in E1. pose proof (Hpa i j a b Hij Ha Hb E1) as E2. apply N.ltb_ge in E2. rewrite E2. reflexivity. }
    pose proof (std_bsearch_valid cmp all Hp) as Hv.
    destruct (std_bsearch cmp all) as [i|i]; cbn [bres_idx bsearch_valid] in *.
    - destruct Hv as [a [_ Hc]]. unfold cmp in Hc. destruct (time_of a <? t); discriminate.
    - destruct Hv as [Hi [Hlo Hhi]]. split; [exact Hi|]. split.
      + intros j m Hj Hm. pose proof (Hlo j m Hj Hm) as Hc. unfold cmp in Hc.
        destruct (time_of m <? t) eqn:E; [apply N.ltb_lt in E; exact E|discriminate].
      + intros j m Hj Hm. pose proof (Hhi j m Hj Hm) as Hc. unfold cmp in Hc.
        destruct (time_of m <? t) eqn:E; [discriminate|apply N.ltb_ge in E; exact E].
  Qed.

  Hypothesis Hinv : inv all s.

  (* the time lookup under exactly the fact the partition_point relies on *)
  Theorem lookup_time_first_not_before_at time_of t : partitioned_at time_of t ->
    let p := lookup_time time_of all s t in
    p <= stream_len s (len all) /\
    (forall q m, q < p -> stream_msg all s q = Ok m -> time_of m < t) /\
    (forall q m, p <= q -> stream_msg all s q = Ok m -> t <= time_of m).
  Proof.
    intros Hpa. cbv zeta. unfold lookup_time, stream_pos.
    destruct (partition_point_at time_of t Hpa) as [Hai [Hlo Hhi]]. cbv zeta in *.
    set (ai := partition_point (fun m => time_of m <? t) all) in *.
    destruct (stream_pos_first_not_before all s Hinv _ ai std_keeps_contract Hai) as [Hp [Hb Ha]]. cbv zeta in *.
    split; [exact Hp|]. split.
    - intros q m Hq Hm. destruct (stream_msg_all_pos all s q m Hm) as [a [Hqa Ham]].
      exact (Hlo a m (Hb q a Hq Hqa) Ham).
    - intros q m Hq Hm. destruct (stream_msg_all_pos all s q m Hm) as [a [Hqa Ham]].
      exact (Hhi a m (Ha q a Hq Hqa) Ham).
  Qed.
End TimeLookups.

Section Table.
  Context {M : Type}.
  Variable lc_of ts_us_of rt_of : M -> N.
  Notation mtime := (msg_time lc_of ts_us_of rt_of).
  Notation mtime_presented := (msg_time_presented lc_of ts_us_of rt_of).

  (* the key of a message: start_time of the table's entry under the message's lifecycle id + timestamp; the reception
     time without entry *)
  Lemma msg_time_with_spec acc tab m :
    msg_time_with lc_of ts_us_of rt_of acc tab m =
    match entry_last (lc_of m) tab with
    | Some e => acc e + ts_us_of m
    | None => rt_of m
    end.
  Proof.
    unfold msg_time_with, msg_time_of_map. rewrite lc_map_get. destruct (entry_last (lc_of m) tab); reflexivity.
  Qed.

  Lemma msg_time_spec tab m :
    mtime tab m = match entry_last (lc_of m) tab with Some e => lc_start e + ts_us_of m | None => rt_of m end.
  Proof. apply msg_time_with_spec. Qed.

  (* two tables whose entries agree on start_time (and on presence) under the lifecycle id of a message give it the same
     time, whatever else differs in the entries *)
  Lemma msg_time_reads_only_start_time tab1 tab2 m :
    option_map lc_start (entry_last (lc_of m) tab1) = option_map lc_start (entry_last (lc_of m) tab2) ->
    mtime tab1 m = mtime tab2 m.
  Proof.
    intros H. rewrite !msg_time_spec.
    destruct (entry_last (lc_of m) tab1), (entry_last (lc_of m) tab2); cbn [option_map] in H; try discriminate; [|reflexivity].
    inversion H. reflexivity.
  Qed.

  Theorem lookup_time_reads_only_start_time tab1 tab2 (all : list M) (s : sctx M) t :
    (forall m, In m all ->
       option_map lc_start (entry_last (lc_of m) tab1) = option_map lc_start (entry_last (lc_of m) tab2)) ->
    lookup_time_tab lc_of ts_us_of rt_of tab1 all s t = lookup_time_tab lc_of ts_us_of rt_of tab2 all s t.
  Proof.
    intros H. unfold lookup_time_tab. apply lookup_time_ext. intros m Hm. apply msg_time_reads_only_start_time. exact (H m Hm).
  Qed.

  (* resume_start_time() is start_time on every entry that is not a resume moved to / before its origin *)
  Lemma resume_start_time_unmoved e : moved_resume e = false -> resume_start_time e = lc_start e.
  Proof.
    unfold moved_resume, resume_start_time. destruct (lc_resume e) as [o|]; [|reflexivity]. intros ->. reflexivity.
  Qed.

  Lemma entry_last_in k tab e : entry_last k tab = Some e -> In e tab.
  Proof.
    induction tab as [|e0 r IH]; cbn [entry_last]; [discriminate|].
    destruct (entry_last k r) as [x|].
    - intros H. inversion H; subst x. right. apply IH. reflexivity.
    - destruct (lc_id e0 =? k); [|discriminate]. intros H. inversion H. left. reflexivity.
  Qed.

  (* ... so the presented time differs from the time only on tables with such an entry *)
  Lemma presented_time_differs_only_by_moved_resumes tab m :
    forallb (fun e => negb (moved_resume e)) tab = true -> mtime_presented tab m = mtime tab m.
  Proof.
    intros H. unfold msg_time_presented, msg_time. rewrite !msg_time_with_spec.
    destruct (entry_last (lc_of m) tab) as [e|] eqn:E; [|reflexivity].
    apply entry_last_in in E. rewrite forallb_forall in H. specialize (H e E). apply negb_true_iff in H.
    rewrite (resume_start_time_unmoved e H). reflexivity.
  Qed.

  (* the time lookup over a table: first stream message not before [t], the time of a message being
     start_time(lifecycle) + timestamp *)
  Theorem lookup_time_tab_first_not_before tab (all : list M) (s : sctx M) t :
    inv all s -> partitioned_at all (mtime tab) t ->
    let p := lookup_time_tab lc_of ts_us_of rt_of tab all s t in
    p <= stream_len s (len all) /\
    (forall q m, q < p -> stream_msg all s q = Ok m -> mtime tab m < t) /\
    (forall q m, p <= q -> stream_msg all s q = Ok m -> t <= mtime tab m).
  Proof. intros Hi Hp. exact (lookup_time_first_not_before_at all s Hi (mtime tab) t Hp). Qed.
End Table.

(* ------------------------------------------------------------------ a concrete table: resume_start_time() is not the key *)
(* messages (lifecycle, timestamp_us, reception time).  Lifecycle 1: start 100.  Lifecycle 2 resumes it; its start was
   moved to 95 (a message with a smaller buffering delay), the start recorded for its origin is 100: resume_start_time() = 101.
   The log is ordered by time (start_time + timestamp): 101..105, 106..115 *)
Definition w_tab : list lc_entry :=
  [ {| lc_id := 1; lc_start := 100; lc_resume := None |}; {| lc_id := 2; lc_start := 95; lc_resume := Some 100 |} ].
Definition w_lc (m : N * N * N) : N := fst (fst m).
Definition w_ts (m : N * N * N) : N := snd (fst m).
Definition w_rt (m : N * N * N) : N := snd m.
Definition w_all : list (N * N * N) :=
  [ (1, 1, 101); (1, 2, 102); (1, 3, 103); (1, 4, 104); (1, 5, 105);
    (2, 11, 130); (2, 12, 131); (2, 13, 108); (2, 14, 109); (2, 15, 110);
    (2, 16, 111); (2, 17, 112); (2, 18, 113); (2, 19, 114); (2, 20, 115) ].
Definition w_s : sctx (N * N * N) := new_ctx 1 true true (@fs_none (N * N * N)) 0 100.

Lemma w_times :
  map (msg_time w_lc w_ts w_rt w_tab) w_all = [101; 102; 103; 104; 105; 106; 107; 108; 109; 110; 111; 112; 113; 114; 115] /\
  map (msg_time_presented w_lc w_ts w_rt w_tab) w_all = [101; 102; 103; 104; 105; 112; 113; 114; 115; 116; 117; 118; 119; 120; 121].
Proof. split; vm_compute; reflexivity. Qed.

(* requested time 110: the first message not before it is at position 9 (time 110) - that is the answer of the code;
   keyed by resume_start_time() the answer is position 5, a message of time 106 < 110 *)
Lemma w_lookups :
  lookup_time_tab w_lc w_ts w_rt w_tab w_all w_s 110 = 9 /\
  lookup_time_presented w_lc w_ts w_rt w_tab w_all w_s 110 = 5 /\
  option_map (msg_time w_lc w_ts w_rt w_tab) (nthN w_all 5) = Some 106 /\
  moved_resume (nth 1 w_tab {| lc_id := 0; lc_start := 0; lc_resume := None |}) = true.
Proof. repeat split; vm_compute; reflexivity. Qed.

(* ------------------------------------------------------------------ known finding: a time-sorted view keyed by a stale start *)
(* sort:true.  One lifecycle; the sort thread cached start 100 for it.  The message with timestamp 13 got through 5 faster
   than the others (reception 108 = 95 + 13): the lifecycle's start_time moves to 95.  all_msgs is in the order of the
   sorter's key min(100 + timestamp, reception) - which is the reception order -, the times the lookup compares are
   95 + timestamp: 95..102, 108, 104..107, 109, 110.  Requested time 105: the answer is 10 (the message of time 105), but the
   stream message at position 8 (time 108) is not before 105 *)
Definition st_cached : list lc_entry := [ {| lc_id := 1; lc_start := 100; lc_resume := None |} ].
Definition st_final : list lc_entry := [ {| lc_id := 1; lc_start := 95; lc_resume := None |} ].
Definition st_all : list (N * N * N) :=
  [ (1, 0, 100); (1, 1, 101); (1, 2, 102); (1, 3, 103); (1, 4, 104); (1, 5, 105); (1, 6, 106); (1, 7, 107);
    (1, 13, 108);
    (1, 9, 109); (1, 10, 110); (1, 11, 111); (1, 12, 112); (1, 14, 114); (1, 15, 115) ].

Lemma st_witness :
  ordered_by (sort_key w_lc w_ts w_rt st_cached) st_all = true /\
  map (msg_time w_lc w_ts w_rt st_final) st_all = [95; 96; 97; 98; 99; 100; 101; 102; 108; 104; 105; 106; 107; 109; 110] /\
  lookup_time_tab w_lc w_ts w_rt st_final st_all w_s 105 = 10 /\
  stream_msg st_all w_s 8 = Ok (1, 13, 108) /\ msg_time w_lc w_ts w_rt st_final (1, 13, 108) = 108.
Proof. repeat split; vm_compute; reflexivity. Qed.

Lemma st_not_partitioned : ~ partitioned_at st_all (msg_time w_lc w_ts w_rt st_final) 105.
Proof.
  intros H. specialize (H 8 9 (1, 13, 108) (1, 9, 109)).
  assert (Hc : 105 <= msg_time w_lc w_ts w_rt st_final (1, 9, 109)).
  { apply H; [lia|reflexivity|reflexivity|]. vm_compute. discriminate. }
  vm_compute in Hc. apply Hc. reflexivity.
Qed.
