(* Remote/DispatchFs.v — model of the `fs` command of `adlt remote`: `process_fs_cmd`, `type_for_filetype` and
   `fs_cmd_archive` (src/bin/adlt/remote.rs, lines 1188-1424), line by line.  Model only, no proofs.

   An `fs` command is answered from the ENVIRONMENT its text refers to (files, directories, links, archives on
   disk).  Everything the operating system / the trusted archive helpers return for the path is an oracle input
   ([fs_orc]); the theorems quantify over EVERY value of it: any metadata (any file type, any length, modification
   / creation time before, at or after the unix epoch or not available at all), any outcome of read_dir, any
   archive (missing, unsupported, unreadable, corrupt, empty, a single member "data", any member list), and any
   path text (for the `archive!/path/within` split).

   Transcribed, with every unwrap / index / slice / subtraction as a possible [Panic]:
     * `(params.get("cmd").as_str(), params.get("path").as_str())`, `match cmd`;
     * "stat": `std::fs::symlink_metadata(path)` Ok / NotFound / other error;
       `attr.modified().unwrap_or(UNIX_EPOCH).duration_since(UNIX_EPOCH).unwrap_or(Duration::from_secs(0)).as_millis() as u64`
       (twice: mtime, ctime) = [time_ms]; `type_for_filetype` incl. the `std::fs::metadata` of a symlink's target;
     * "readDirectory": `std::fs::read_dir(path)` Ok (number of entries that survive the filter_map: no unwrap in
       the closure, `to_str().unwrap_or_default()`, `file_type().ok()`) / NotFound / other error;
     * fs_cmd_archive: `full_path.splitn(2, "!/")`, `ends_with('!')`, `uri[0]`, `uri[1]`,
       `&uri[0][..uri[0].len() - 1]` (usize subtraction + str slice at a char boundary), `archive_path.exists()`,
       `archive_is_supported_filename`, `open_regular_file(..)?` (metadata().is_file() then File::open: anything
       but a regular file is refused and never opened - a named pipe would block; single volume only; the multi
       volume branch drops the parts that fail to open), `list_archive_contents_cached(..)?`, `files.len() == 1 && files[0] == "data"`,
       `archive_contents_read_dir(..)` (count), `archive_contents_metadata(..)` Ok / Err, the constant times.
   Not transcribed (trusted, results are oracle inputs): serde_json, the OS calls, utils/unzip.rs. *)
From Coq Require Import List NArith ZArith Bool Ascii String.
From AdltV Require Import Base.Res Base.MachInt.
Import ListNotations.
Open Scope string_scope.
Open Scope N_scope.

(* ------------------------------------------------------------------ panic sites *)
Definition site_fs_uri_index : N := 1507.       (* remote.rs:1332/1333  uri[0], uri[1] *)
Definition site_fs_archive_slice : N := 1508.   (* remote.rs:1333  &uri[0][..uri[0].len() - 1] *)
Definition site_fs_files_0 : N := 1509.         (* remote.rs:1364/1386  files[0] *)
Definition site_fs_time_unwrap : N := 1510.     (* NOT in the code: the variant `duration_since(UNIX_EPOCH).unwrap()` ([time_ms_unwrap]) *)

(* ------------------------------------------------------------------ the environment (oracle inputs) *)
Inductive io_err := IoNotFound | IoOther.       (* e.kind() == ErrorKind::NotFound, or any other error *)

(* io::Result<SystemTime> of Metadata::modified() / created(): None = Err (not available on the platform / file
   system), Some t = the time as signed nanoseconds relative to 1970-01-01T00:00:00Z (negative: before the epoch) *)
Definition time_res := option Z.

Inductive fkind := KDir | KFile | KSymlink | KOther.        (* FileType: is_dir / is_file / is_symlink / none of them *)
Inductive ftarget := TgDir | TgFile | TgOther | TgErr.      (* std::fs::metadata(path) of a symlink: type of the target, or Err *)

Record fmeta := {
  m_kind : fkind;            (* attr.file_type() *)
  m_target : ftarget;        (* only looked at for a symlink *)
  m_len : N;                 (* attr.len() : u64 *)
  m_modified : time_res;     (* attr.modified() *)
  m_created : time_res       (* attr.created() *)
}.
Inductive meta_res := MetaOk (m : fmeta) | MetaErr (e : io_err).
Inductive readdir_res := RdOk (n : N) | RdErr (e : io_err).
Inductive fs_cmd := FsCmdStat | FsCmdReadDir | FsCmdOther.

Record fs_orc := {
  fo_cmd_path : bool;               (* both params["cmd"] and params["path"] are strings *)
  fo_cmd : fs_cmd;                  (* "stat" / "readDirectory" / anything else *)
  fo_path : string;                 (* the path text *)
  fo_meta : meta_res;               (* std::fs::symlink_metadata(path) *)
  fo_readdir : readdir_res;         (* std::fs::read_dir(path) + the filter_map over its entries *)
  (* about the archive_path fs_cmd_archive computes from the path text: *)
  fo_exists : bool;                 (* archive_path.exists() *)
  fo_supported : bool;              (* archive_is_supported_filename(&archive_path) *)
  fo_multi : bool;                  (* is_part_of_multi_volume_archive(&archive_path) *)
  fo_open_ok : bool;                (* open_regular_file(&archive_path) is Ok (a regular file that can be opened) *)
  fo_list : option (list string);   (* list_archive_contents_cached(..): the member names, None = Err *)
  fo_rd_count : N;                  (* archive_contents_read_dir(&files, path_within).count() *)
  fo_ameta : option (N * N)         (* archive_contents_metadata(&files, path_within): (type code, size), None = Err *)
}.

(* what an Ok(..) of process_fs_cmd holds (the JSON value after `ok: fs:`) *)
Inductive fs_value :=
| FsStat (ty size mtime ctime : N)   (* {"stat":{"type":..,"size":..,"mtime":..,"ctime":..}} *)
| FsInnerErr                         (* {"err":"stat|readDirectory failed with '..'"} - returned as Ok *)
| FsList (n : N).                    (* an array of n {"name":..,"type":..} entries *)

(* ------------------------------------------------------------------ file times *)
Definition unix_epoch : Z := 0%Z.
(* SystemTime::duration_since(UNIX_EPOCH): Err(SystemTimeError) iff the time lies before the epoch *)
Definition duration_since_epoch (t : Z) : option N := if (0 <=? t)%Z then Some (Z.to_N t) else None.
(* Duration::as_millis() as u64  (u128 -> u64: truncation, never a panic) *)
Definition as_millis_u64 (nanos : N) : N := trunc 64 (nanos / 1000000).
(* t.unwrap_or(UNIX_EPOCH).duration_since(UNIX_EPOCH).unwrap_or(Duration::from_secs(0)).as_millis() as u64 *)
Definition time_ms (t : time_res) : N :=
  let st := match t with Some x => x | None => unix_epoch end in
  as_millis_u64 (match duration_since_epoch st with Some d => d | None => 0 end).
(* the same expression with `.unwrap()` in place of the second fallback - what the code must NOT be *)
Definition time_ms_unwrap (t : time_res) : res N :=
  let st := match t with Some x => x | None => unix_epoch end in
  match duration_since_epoch st with
  | Some d => Ok (as_millis_u64 d)
  | None => Panic site_fs_time_unwrap
  end.

(* ------------------------------------------------------------------ type_for_filetype *)
(* codes: 0 "dir", 1 "file", 2 "symlink_dir", 3 "symlink_file", 4 "symlink", 5 "unknown" *)
Definition type_for_filetype (k : fkind) (tg : ftarget) : N :=
  match k with
  | KDir => 0
  | KFile => 1
  | KSymlink => match tg with TgDir => 2 | TgFile => 3 | TgOther => 4 | TgErr => 4 end
  | KOther => 5
  end.

Definition stat_value (m : fmeta) : fs_value :=
  FsStat (type_for_filetype (m_kind m) (m_target m)) (m_len m) (time_ms (m_modified m)) (time_ms (m_created m)).

(* ------------------------------------------------------------------ text layer of fs_cmd_archive *)
Definition bang : ascii := "!"%char.
Definition slash : ascii := "/"%char.

(* str::split_once on a two-character pattern *)
Fixpoint split_once2 (c1 c2 : ascii) (s : string) : option (string * string) :=
  match s with
  | EmptyString => None
  | String a r =>
      match r with
      | EmptyString => None
      | String b r' =>
          if Ascii.eqb a c1 && Ascii.eqb b c2 then Some (EmptyString, r')
          else match split_once2 c1 c2 r with
               | Some (x, y) => Some (String a x, y)
               | None => None
               end
      end
  end.
(* full_path.splitn(2, "!/").collect::<Vec<&str>>() *)
Definition splitn2_2 (c1 c2 : ascii) (s : string) : list string :=
  match split_once2 c1 c2 s with
  | Some (a, b) => [a; b]
  | None => [s]
  end.
(* str::ends_with(char) *)
Fixpoint ends_with_char (c : ascii) (s : string) : bool :=
  match s with
  | EmptyString => false
  | String a r => match r with EmptyString => Ascii.eqb a c | String _ _ => ends_with_char c r end
  end.
(* str::is_char_boundary(i) on the UTF-8 bytes: 0, len, or a byte that is not a continuation byte 0x80..0xBF *)
Definition is_char_boundary (s : string) (i : N) : bool :=
  if i =? 0 then true
  else match String.get (N.to_nat i) s with
       | None => i =? N.of_nat (String.length s)
       | Some a => let b := N_of_ascii a in (b <? 128) || (192 <=? b)
       end.
(* &s[..i]: panics unless i is a char boundary (which includes i <= len) *)
Definition slice_to (site : N) (s : string) (i : N) : res string :=
  if is_char_boundary s i then Ok (String.substring 0 (N.to_nat i) s) else Panic site.
Definition nth_str (site : N) (l : list string) (i : nat) : res string :=
  match nth_error l i with Some a => Ok a | None => Panic site end.

(* the head of fs_cmd_archive: Ok None = the "not in expected format" Err, Ok (Some (archive_path, path_within)) *)
Definition archive_split (full_path : string) : res (option (string * string)) :=
  let uri := splitn2_2 bang slash full_path in
  if negb (Nat.eqb (List.length uri) 2) && negb (ends_with_char bang full_path) then Ok None
  else match List.length uri with
       | 2%nat => (a <- nth_str site_fs_uri_index uri 0 ;; b <- nth_str site_fs_uri_index uri 1 ;; Ok (Some (a, b)))%res
       | 1%nat => (u0 <- nth_str site_fs_uri_index uri 0 ;;
                   l <- sub_chk (N.of_nat (String.length u0)) 1 ;;
                   p <- slice_to site_fs_archive_slice u0 l ;;
                   Ok (Some (p, EmptyString)))%res
       | _ => Ok None
       end.

(* `files.len() == 1 && files[0] == "data"` (the && short-circuits) *)
Definition single_data (files : list string) : res bool :=
  if Nat.eqb (List.length files) 1 then (f0 <- nth_str site_fs_files_0 files 0 ;; Ok (String.eqb f0 "data"))%res
  else Ok false.

(* fs_cmd_archive: Ok (Some v) = Ok(v), Ok None = Err(..) *)
Definition fs_cmd_archive (f : fs_orc) : res (option fs_value) :=
  (sp <- archive_split (fo_path f) ;;
   match sp with
   | None => Ok None
   | Some _ =>
       if fo_exists f then
         if fo_supported f then
           (* multi volume: `flat_map(open_regular_file)` keeps the parts that open; single volume: `open_regular_file(..)?` *)
           if negb (fo_multi f) && negb (fo_open_ok f) then Ok None
           else
             match fo_cmd f with
             | FsCmdReadDir =>
                 match fo_list f with
                 | None => Ok None
                 | Some files =>
                     d <- single_data files ;;
                     if d then Ok (Some (FsList 1)) else Ok (Some (FsList (fo_rd_count f)))
                 end
             | FsCmdStat =>
                 match fo_list f with
                 | None => Ok None
                 | Some files =>
                     d <- single_data files ;;
                     if d then Ok (Some (FsStat 1 42 0 0))
                     else match fo_ameta f with
                          | Some (ty, size) => Ok (Some (FsStat ty size (time_ms (Some unix_epoch)) (time_ms (Some unix_epoch))))
                          | None => Ok (Some FsInnerErr)
                          end
                 end
             | FsCmdOther => Ok None
             end
         else Ok None
       else Ok None
   end)%res.

(* process_fs_cmd: Ok (Some v) = Ok(v) (answered `ok: fs:<v>`), Ok None = Err(..) (answered `err: fs ..`) *)
Definition process_fs_cmd (f : fs_orc) : res (option fs_value) :=
  if fo_cmd_path f then
    match fo_cmd f with
    | FsCmdStat =>
        match fo_meta f with
        | MetaOk m => Ok (Some (stat_value m))
        | MetaErr IoNotFound => fs_cmd_archive f
        | MetaErr IoOther => Ok (Some FsInnerErr)
        end
    | FsCmdReadDir =>
        match fo_readdir f with
        | RdOk n => Ok (Some (FsList n))
        | RdErr IoNotFound => fs_cmd_archive f
        | RdErr IoOther => Ok (Some FsInnerErr)
        end
    | FsCmdOther => Ok None
    end
  else Ok None.

(* a value of the oracle for frames that are not `fs` commands *)
Definition fs0 : fs_orc :=
  {| fo_cmd_path := false; fo_cmd := FsCmdOther; fo_path := EmptyString; fo_meta := MetaErr IoNotFound;
     fo_readdir := RdErr IoNotFound; fo_exists := false; fo_supported := false; fo_multi := false; fo_open_ok := false;
     fo_list := None; fo_rd_count := 0; fo_ameta := None |}.
