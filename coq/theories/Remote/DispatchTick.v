(* Remote/DispatchTick.v — the index arithmetic of process_file_context (src/bin/adlt/remote.rs) between
   two commands, as far as "the connection thread survives" depends on it, and the complete event
   loop (tick; read frame; dispatch; tick; ...).  Model only, no proofs.

   Transcribed: the paused check, growth of all_msgs, per stream
     `min(all_msgs_last_processed_len, all_msgs_len)`,
     `&fc.all_msgs[last - fc.drained_all_msgs..]`                       (subtraction + slice start),
     process_stream_new_msgs (utils/remote_utils.rs: stream branch, query branch with the 64k part
     chunks and the `first_unwanted` resume marker, unfiltered branch),
     the send loop `msg_idx = filtered_msgs[i] | i`, `fc.all_msgs[msg_idx - fc.drained_all_msgs]`,
     `msgs_sent.end = new_end`, and the one_pass_streams draining
     (`min` of all_msgs_last_processed_len, `saturating_sub`, `all_msgs.drain(0..amount)`).
   The lifecycle part of the pass: `for lc in lc_map.iter().map(|(_id, b)| b.get_one().unwrap())` over the
   evmap published by the lifecycle thread; the table the pass reads is an oracle value (event [TLcs]), an
   entry is a key with its VALUE BAG (evmap: any number of values, also none).
   Not transcribed (C16 / C13 / threads): what is put into the frames (which lifecycles a Lifecycles frame
   carries: `lcs_w_refresh_idx > last_lcs_w_refresh_index`), eac / plugin-state frames,
   the completion test of queries (its outcome arrives as the event [EvDone]).
   Messages are represented by their position in all_msgs + drained (0,1,2,...); `match_filters` of a
   filtered stream is the predicate stored in [s_filter]. *)
From Coq Require Import List NArith Bool Ascii String.
From AdltV Require Import Base.Res Base.MachInt Remote.Dispatch.
Import ListNotations.
Open Scope N_scope.

Definition site_tick_slice_sub : N := 1520.    (* last_all_msgs_last_processed_len - fc.drained_all_msgs *)
Definition site_tick_slice_start : N := 1521.  (* &fc.all_msgs[x..] with x > len *)
Definition site_tick_filtered_idx : N := 1522. (* stream.filtered_msgs[i] *)
Definition site_tick_msg_sub : N := 1523.      (* msg_idx - fc.drained_all_msgs *)
Definition site_tick_msg_idx : N := 1524.      (* fc.all_msgs[..] out of bounds *)
Definition site_tick_drain : N := 1525.        (* all_msgs.drain(0..amount) with amount > len *)
Definition site_psnm_first_unwanted : N := 1526. (* matching_idxs[nr_wanted] *)
Definition site_tick_lc_get_one : N := 1527.   (* b.get_one().unwrap() on an entry of the lifecycle table *)

Definition max_chunk_size : N := 3000000.
Definition part_chunk_size : N := N.min max_chunk_size (64 * 1024).

(* offset + i for the i in [from, to) whose message matches, in order (rayon's collect keeps the order) *)
Fixpoint matching_from (matches : N -> bool) (from : N) (count : nat) : list N :=
  match count with
  | O => []
  | S c => if matches from then from :: matching_from matches (from + 1) c else matching_from matches (from + 1) c
  end.
Definition matching_idxs (matches : N -> bool) (from to : N) : list N :=
  matching_from matches from (N.to_nat (to - from)).

Definition set_tick (s : stream) (sent_end : N) (filtered : list N) (last : N) : stream :=
  {| s_id := s_id s; s_is_stream := s_is_stream s; s_one_pass := s_one_pass s; s_start := s_start s; s_end := s_end s;
     s_sent_end := sent_end; s_filter := s_filter s; s_filtered := filtered; s_last := last |}.

(* the `while stream.filtered_msgs.len() < max_matching && start_idx < max_idx` loop of the query branch;
   positions are absolute (new_msgs_offset already added) *)
Fixpoint query_loop (fuel : nat) (matches : N -> bool) (max_matching offset max_idx start_idx : N)
    (filtered : list N) (last : N) : res (list N * N) :=
  match fuel with
  | O => OutOfFuel
  | S f =>
      if (N.of_nat (List.length filtered) <? max_matching) && (start_idx <? max_idx) then
        let nr_wanted := max_matching - N.of_nat (List.length filtered) in
        let max_this_chunk := N.min max_idx (start_idx + part_chunk_size) in
        let m := matching_idxs matches (offset + start_idx) (offset + max_this_chunk) in
        if N.of_nat (List.length m) <=? nr_wanted then
          query_loop f matches max_matching offset max_idx max_this_chunk (filtered ++ m) (offset + max_this_chunk)
        else
          match nth_error m (N.to_nat nr_wanted) with
          | Some first_unwanted =>
              query_loop f matches max_matching offset max_idx max_this_chunk
                         (filtered ++ firstn (N.to_nat nr_wanted) m) first_unwanted
          | None => Panic site_psnm_first_unwanted
          end
      else Ok (filtered, last)
  end.

(* process_stream_new_msgs(stream, new_msgs_offset, new_msgs (n of them), 3_000_000) *)
Definition process_stream_new_msgs (s : stream) (offset n : N) : res stream :=
  if n =? 0 then Ok s
  else
    match s_filter s with
    | Some matches =>
        let max_idx := N.min n max_chunk_size in
        if s_is_stream s then
          Ok (set_tick s (s_sent_end s) (s_filtered s ++ matching_idxs matches offset (offset + max_idx)) (offset + max_idx))
        else
          (r <- query_loop (S (N.to_nat max_idx)) matches (s_end s) offset max_idx 0 (s_filtered s) (s_last s) ;;
           Ok (set_tick s (s_sent_end s) (fst r) (snd r)))%res
    | None => Ok (set_tick s (s_sent_end s) (s_filtered s) (s_last s + n))
    end.

(* the send loop: every message of [sent_end, new_end) is looked up in all_msgs *)
Fixpoint send_filtered (drained len : N) (idxs : list N) : res unit :=
  match idxs with
  | [] => Ok tt
  | msg_idx :: r =>
      (i <- (if drained <=? msg_idx then Ok (msg_idx - drained) else Panic site_tick_msg_sub) ;;
       if i <? len then send_filtered drained len r else Panic site_tick_msg_idx)%res
  end.

Definition tick_stream (all_msgs_len drained : N) (s : stream) : res stream :=
  let len := all_msgs_len - drained in                 (* fc.all_msgs.len() *)
  let last0 := N.min (s_last s) all_msgs_len in
  (off <- (if drained <=? last0 then Ok (last0 - drained) else Panic site_tick_slice_sub) ;;
   _ <- (if off <=? len then Ok tt else Panic site_tick_slice_start) ;;
   s1 <- process_stream_new_msgs s last0 (len - off) ;;
   let stream_msgs_len := match s_filter s1 with Some _ => N.of_nat (List.length (s_filtered s1)) | None => all_msgs_len end in
   if (s_sent_end s1 <? s_end s1) && (s_sent_end s1 <? stream_msgs_len) then
     let new_end := N.min stream_msgs_len (s_end s1) in
     (_ <- match s_filter s1 with
           | Some _ =>
               (* for i in sent_end..new_end: filtered_msgs[i] exists as new_end <= filtered_msgs.len() *)
               let idxs := firstn (N.to_nat (new_end - s_sent_end s1)) (skipn (N.to_nat (s_sent_end s1)) (s_filtered s1)) in
               if N.of_nat (List.length idxs) =? new_end - s_sent_end s1 then send_filtered drained len idxs
               else Panic site_tick_filtered_idx
           | None =>
               (* msg_idx = i for i in sent_end..new_end (not empty): the smallest is sent_end, the largest new_end-1 *)
               if drained <=? s_sent_end s1 then (if new_end - 1 - drained <? len then Ok tt else Panic site_tick_msg_idx)
               else Panic site_tick_msg_sub
           end ;;
      Ok (set_tick s1 new_end (s_filtered s1) (s_last s1)))
   else Ok s1)%res.

Fixpoint tick_streams (all_msgs_len drained : N) (l : list stream) : res (list stream) :=
  match l with
  | [] => Ok []
  | s :: r => (s' <- tick_stream all_msgs_len drained s ;; r' <- tick_streams all_msgs_len drained r ;; Ok (s' :: r'))%res
  end.

Definition set_tick_fc (fc : fctx) (streams : list stream) (all_len drained : N) : fctx :=
  {| fc_collect := fc_collect fc; fc_sort := fc_sort fc; fc_plugins := fc_plugins fc; fc_paused := fc_paused fc;
     fc_streams := streams; fc_all_len := all_len; fc_drained := drained;
     fc_nfiles := fc_nfiles fc; fc_extracting := fc_extracting fc |}.

Fixpoint min_last (l : list stream) (default : N) : N :=
  match l with
  | [] => default
  | s :: r => match r with [] => s_last s | _ => N.min (s_last s) (min_last r default) end
  end.

(* one pass through process_file_context in which the final channel delivered messages up to total
   [now] (= all_msgs.len() + drained afterwards; the FileInfo frame reports it) *)
Definition tick_fc (fc : fctx) (now : N) : res fctx :=
  if fc_extracting fc then Ok fc          (* ProgressPoll::Progress: a Progress frame, sleep, return *)
  else if fc_paused fc then Ok fc
  else
    let all_msgs_len := match fc_collect fc with CNone => fc_all_len fc | _ => N.max (fc_all_len fc) now end in
    (streams <- tick_streams all_msgs_len (fc_drained fc) (fc_streams fc) ;;
     match fc_collect fc with
     | COnePass =>
         let amount := min_last streams all_msgs_len - fc_drained fc in     (* saturating_sub *)
         if amount <=? all_msgs_len - fc_drained fc then Ok (set_tick_fc fc streams all_msgs_len (fc_drained fc + amount))
         else Panic site_tick_drain
     | _ => Ok (set_tick_fc fc streams all_msgs_len (fc_drained fc))
     end)%res.

Definition tick (st : state) (now : N) : res state :=
  match st_fc st with
  | Some fc => (fc' <- tick_fc fc now ;; Ok (with_fc st fc'))%res
  | None => Ok st
  end.

(* ------------------------------------------------------------------ the lifecycle table as a pass reads it *)
(* `pt.lcs_r.read()`: a read reference on the evmap<LifecycleId, LifecycleItem> written by the lifecycle thread
   (`None`: the map was destroyed).  Per key the reader gets the VALUE BAG of the key.  evmap keeps any number of
   values per key: `insert` adds one, `update` replaces the bag by exactly one value, `empty` removes the key with
   its bag, `clear` empties the bag but KEEPS the key.  `get_one` returns some value of the bag, `None` iff the
   bag is empty (with several values: an arbitrary one - here the first; which one is irrelevant for the panic).
   A value is what the pass looks at: (lifecycle id, nr_msgs). *)
Definition lc_val := (N * N)%type.
Definition lc_bag := list lc_val.
Definition lc_entry := (N * lc_bag)%type.            (* key, bag *)
Definition lc_table := option (list lc_entry).
Definition get_one (b : lc_bag) : option lc_val := hd_error b.

(* `lc_map.iter().map(|(_id, b)| b.get_one().unwrap())`: the values the loop body receives, in iteration order;
   nothing is written to the socket before the loop has ended (the frame is built in a local vector) *)
Fixpoint lc_loop (entries : list lc_entry) : res (list lc_val) :=
  match entries with
  | [] => Ok []
  | (_, b) :: r =>
      match get_one b with
      | Some lc => (vs <- lc_loop r ;; Ok (lc :: vs))%res
      | None => Panic site_tick_lc_get_one
      end
  end.

(* the lifecycle part of one pass through process_file_context that read the table [t]: not reached while an
   extraction is pending (return after the Progress frame; no parsing thread yet) or while paused *)
Definition tick_lcs_fc (fc : fctx) (t : lc_table) : res unit :=
  if fc_extracting fc then Ok tt
  else if fc_paused fc then Ok tt
  else match t with
       | Some entries => (_ <- lc_loop entries ;; Ok tt)%res
       | None => Ok tt
       end.

Definition tick_lcs (st : state) (t : lc_table) : res state :=
  match st_fc st with
  | Some fc => (_ <- tick_lcs_fc fc t ;; Ok st)%res
  | None => Ok st
  end.

(* the contract of the lifecycle module the pass relies on (the lifecycle check states it on the writer's side:
   clauses published_key_single_value / table_key_single_value of C05..C08): every published key has exactly
   one value (entries are only ever `update`d = replaced, or `empty`d = removed with their key) *)
Definition bag_single (b : lc_bag) : bool := match b with [_] => true | _ => false end.
Definition published_key_single_value (t : lc_table) : bool :=
  match t with Some entries => forallb (fun e => bag_single (snd e)) entries | None => true end.

(* ------------------------------------------------------------------ the event loop *)
(* what the client sees of process_file_context between two replies *)
Inductive tevent :=
| TMsgs (now : N)      (* a pass that received messages: FileInfo{nr_msgs = now} *)
| TDone (id : N)       (* the query id was finished and removed *)
| TExtracted (nfiles : N)   (* ProgressPoll::Done: file_streams := the extracted files (nfiles of them with a DLT
                               message, possibly 0), pending_extract := None, parser thread created *)
| TLcs (t : lc_table).      (* a pass that read the lifecycle table t *)

Definition tevent_contract (e : tevent) : bool :=
  match e with TLcs t => published_key_single_value t | _ => true end.

Definition extracted (st : state) (nfiles : N) : state :=
  match st_fc st with
  | Some fc =>
      if fc_extracting fc then
        with_fc st {| fc_collect := fc_collect fc; fc_sort := fc_sort fc; fc_plugins := fc_plugins fc; fc_paused := fc_paused fc;
                      fc_streams := fc_streams fc; fc_all_len := fc_all_len fc; fc_drained := fc_drained fc;
                      fc_nfiles := nfiles; fc_extracting := false |}
      else st
  | None => st
  end.

Definition apply_tevent (st : state) (ev : tevent) : res state :=
  match ev with
  | TMsgs now => tick st now
  | TDone id => Ok (apply_event st (EvDone id))
  | TExtracted n => Ok (extracted st n)
  | TLcs t => tick_lcs st t
  end.
Fixpoint apply_tevents (st : state) (evs : list tevent) : res state :=
  match evs with
  | [] => Ok st
  | e :: r => (st1 <- apply_tevent st e ;; apply_tevents st1 r)%res
  end.

Record titem := { t_pre : list tevent; t_frame : string; t_orc : orc }.

(* loop { process_file_context; read_message; process_incoming_text_message }: the passes that received
   messages are the TMsgs events; the pass directly after a command sees the changed stream list with
   the messages collected so far *)
Fixpoint run_loop (st : state) (h : list titem) : res (state * list (list reply)) :=
  match h with
  | [] => Ok (st, [])
  | it :: r =>
      (st0 <- apply_tevents st (t_pre it) ;;
       x <- step st0 (t_frame it) (t_orc it) ;;
       st1 <- tick (fst x) 0 ;;
       y <- run_loop st1 r ;;
       Ok (fst y, snd x :: snd y))%res
  end.

Definition opens_one_pass (it : titem) : bool :=
  match o_open (t_orc it) with OpenOk COnePass _ _ => true | _ => false end.
