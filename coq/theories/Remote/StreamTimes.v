(* C16 - the time base of `binary_search_by_time_us` (src/bin/adlt/remote.rs): which field of the lifecycle table the
   lookup reads, and the time of a message computed from it.

     let mut lc_map = BTreeMap::<LifecycleId, u64>::new();
     map_read_ref.iter().for_each(|(id, l)| if let Some(l) = l.get_one() { lc_map.insert(id, l.start_time); });
     fc.all_msgs.partition_point(|m| {
         let m_time = if let Some(lc_start_time) = lc_id_map.get(&m.lifecycle) { lc_start_time + m.timestamp_us() }
                      else { m.reception_time_us };
         m_time < time_us })

   `Lifecycle::start_time` is the reference of the message timestamps (MIN(reception time - timestamp) over the lifecycle's
   messages; the sort thread orders all_msgs by start_time + timestamp, Lifecycle/... C10).  `Lifecycle::resume_start_time()`
   is a presentation value: it is what `process_file_context` puts into `BinLifecycle.start_time` for the client; it equals
   start_time except for a RESUMED lifecycle whose start_time is at or before the start recorded for the lifecycle it
   resumes - then it is that start + 1.  The lookup does NOT read it ([msg_time_presented] below is not the code, it is kept
   for a checked counter-example).

   Not modelled: u64 overflow of `lc_start_time + m.timestamp_us()` (start_time of a live lifecycle is at most the reception
   time of its messages, timestamps are below 2^32 * 100).  No proofs in this file. *)
From Coq Require Import List NArith Bool.
From AdltV Require Import Base.Res Base.MachInt Remote.Stream.
Import ListNotations.
Open Scope N_scope.

(* what exists of one `Lifecycle` of the table for this function and for the frame sent to the client *)
Record lc_entry := {
  lc_id : N;                (* key of the evmap *)
  lc_start : N;             (* Lifecycle.start_time *)
  lc_resume : option N      (* resume_lc.map(|r| r.start_time): start recorded for the lifecycle this one resumes *)
}.

(* Lifecycle::resume_start_time() *)
Definition resume_start_time (e : lc_entry) : N :=
  match lc_resume e with
  | Some origin => if lc_start e <=? origin then origin + 1 else lc_start e
  | None => lc_start e
  end.

(* BTreeMap<LifecycleId, u64>: insert replaces the value of an existing key *)
Fixpoint map_insert (k v : N) (m : list (N * N)) : list (N * N) :=
  match m with
  | [] => [(k, v)]
  | (k', v') :: r => if k' =? k then (k, v) :: r else (k', v') :: map_insert k v r
  end.
Fixpoint map_get (k : N) (m : list (N * N)) : option N :=
  match m with
  | [] => None
  | (k', v) :: r => if k' =? k then Some v else map_get k r
  end.
Definition map_build (kvs : list (N * N)) : list (N * N) :=
  fold_left (fun m kv => map_insert (fst kv) (snd kv) m) kvs [].

(* the for_each over the table: `lc_map.insert(id, ACC(l))`; [acc] is the field read from an entry *)
Definition lc_map_with (acc : lc_entry -> N) (tab : list lc_entry) : list (N * N) :=
  map_build (map (fun e => (lc_id e, acc e)) tab).

Section Times.
  Context {M : Type}.
  Variable lc_of : M -> N.      (* m.lifecycle *)
  Variable ts_us_of : M -> N.   (* m.timestamp_us() = timestamp_dms * 100 *)
  Variable rt_of : M -> N.      (* m.reception_time_us *)

  (* m_time of the closure, over the map built with [acc] *)
  Definition msg_time_of_map (mp : list (N * N)) (m : M) : N :=
    match map_get (lc_of m) mp with
    | Some st => st + ts_us_of m
    | None => rt_of m
    end.
  Definition msg_time_with (acc : lc_entry -> N) (tab : list lc_entry) : M -> N :=
    let mp := lc_map_with acc tab in msg_time_of_map mp.

  (* the code: `l.start_time` *)
  Definition msg_time : list lc_entry -> M -> N := msg_time_with lc_start.
  (* NOT the code: the start time as presented to the client *)
  Definition msg_time_presented : list lc_entry -> M -> N := msg_time_with resume_start_time.

  (* binary_search_by_time_us over a lifecycle table *)
  Definition lookup_time_tab (tab : list lc_entry) (all : list M) (s : sctx M) (t : N) : N :=
    lookup_time (msg_time tab) all s t.
  Definition lookup_time_presented (tab : list lc_entry) (all : list M) (s : sctx M) (t : N) : N :=
    lookup_time (msg_time_presented tab) all s t.

  (* `calculated_time_us` of utils::buffer_sort_messages (the sort thread of sort:true; C10's subject), for the start value
     the sorter has CACHED for the lifecycle (`lc_map`: the published start_time at the time the sorter saw the lifecycle's
     first message - never refreshed): cached start + timestamp, capped at the reception time *)
  Definition sort_key (cached : list lc_entry) (m : M) : N := N.min (msg_time cached m) (rt_of m).
  Fixpoint ordered_by (key : M -> N) (l : list M) : bool :=
    match l with
    | a :: ((b :: _) as r) => (key a <=? key b) && ordered_by key r
    | _ => true
    end.

  (* a resumed entry whose start is at or before the start recorded for its origin: the only kind of entry on which
     resume_start_time() differs from start_time *)
  Definition moved_resume (e : lc_entry) : bool :=
    match lc_resume e with Some origin => lc_start e <=? origin | None => false end.
End Times.
