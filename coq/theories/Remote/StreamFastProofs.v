(* [fast_run] (Remote/StreamFast.v) computes exactly [run] on every reachable state *)
From Coq Require Import List NArith Bool Lia Arith.
From AdltV Require Import Base.Res Base.MachInt Remote.Stream Remote.StreamProofs Remote.StreamSearchProofs
  Remote.StreamSendProofs Remote.StreamFast.
Import ListNotations.
Open Scope N_scope.

Lemma positions_rangeN a n : positions a n = rangeN a n.
Proof. revert a. induction n as [|n IH]; intros a; cbn; [reflexivity|]. rewrite IH. reflexivity. Qed.

Lemma nthN_app_r' {A} (l1 l2 : list A) k : len l1 <= k -> nthN (l1 ++ l2) k = nthN l2 (k - len l1).
Proof. unfold nthN, len. intros H. rewrite nth_error_app2 by lia. f_equal. lia. Qed.

Lemma increasing_tail x (l : list N) : increasing (x :: l) -> increasing l /\ forall a, In a l -> x < a.
Proof.
  intros H. split.
  - intros i j a b Hij Ha Hb. apply (H (i + 1) (j + 1) a b); [lia| |]; rewrite nthN_cons_succ; assumption.
  - intros a Ha. apply In_nth_error in Ha. destruct Ha as [k Hk].
    apply (H 0 (N.of_nat k + 1) x a); [lia|apply nthN_cons_0|].
    rewrite nthN_cons_succ. unfold nthN. rewrite Nat2N.id. exact Hk.
Qed.

Section FastProofs.
  Context {M : Type}.
  Variable part : N.
  Hypothesis part_pos : 1 <= part.

  Lemma pick_spec (all : list M) : forall pre idxs,
    increasing idxs -> (forall p, In p idxs -> len pre <= p < len pre + len all) ->
    length (pick all (len pre) idxs) = length idxs /\
    forall k p m, nthN idxs k = Some p -> nthN (pre ++ all) p = Some m ->
                  nthN (pick all (len pre) idxs) k = Some m.
  Proof.
    induction all as [|x r IH]; intros pre idxs Hinc Hb.
    - destruct idxs as [|i is].
      + split; [reflexivity|]. intros k p m Hk. unfold nthN in Hk. destruct (N.to_nat k); discriminate.
      + exfalso. specialize (Hb i (or_introl eq_refl)). rewrite len_nil in Hb. lia.
    - destruct idxs as [|i is]; cbn [pick].
      + split; [reflexivity|]. intros k p m Hk. unfold nthN in Hk. destruct (N.to_nat k); discriminate.
      + assert (Epre : pre ++ x :: r = (pre ++ [x]) ++ r) by (rewrite <- app_assoc; reflexivity).
        assert (Elen : len pre + 1 = len (pre ++ [x])) by (rewrite len_app, len_cons, len_nil; lia).
        destruct (increasing_tail _ _ Hinc) as [Hinc' Hgt].
        pose proof (Hb i (or_introl eq_refl)) as Hi. rewrite len_cons in Hi.
        destruct (N.eqb_spec i (len pre)) as [Ei|Ei].
        * (* the head of idxs is this position *)
          rewrite Elen.
          destruct (IH (pre ++ [x]) is Hinc') as [L1 L2].
          { intros p Hp. pose proof (Hb p (or_intror Hp)) as Hp'. pose proof (Hgt p Hp). rewrite len_cons in Hp'. rewrite <- Elen. lia. }
          split; [cbn [length]; rewrite L1; reflexivity|].
          intros k p m Hk Hp. destruct (N.eq_dec k 0) as [->|Hn].
          -- rewrite nthN_cons_0 in Hk. inversion Hk; subst p. rewrite Ei in Hp.
             rewrite nthN_app_r' in Hp by lia. rewrite N.sub_diag, nthN_cons_0 in Hp. rewrite nthN_cons_0. exact Hp.
          -- replace k with ((k - 1) + 1) in Hk |- * by lia. rewrite nthN_cons_succ in Hk. rewrite nthN_cons_succ.
             rewrite Epre in Hp. exact (L2 _ _ _ Hk Hp).
        * (* this position is not wanted *)
          rewrite Elen.
          destruct (IH (pre ++ [x]) (i :: is) Hinc) as [L1 L2].
          { intros p Hp. pose proof (Hb p Hp) as Hp'. rewrite len_cons in Hp'. rewrite <- Elen.
            destruct Hp as [<-|Hp]; [lia|]. pose proof (Hgt p Hp). lia. }
          split; [exact L1|]. intros k p m Hk Hp. rewrite Epre in Hp. exact (L2 _ _ _ Hk Hp).
  Qed.

  Lemma nthN_firstn_skipN {A} (l : list A) from cnt k :
    (N.to_nat k < cnt)%nat -> nthN (firstn cnt (skipN from l)) k = nthN l (from + k).
  Proof.
    intros Hk. rewrite <- (Nat2N.id cnt). change (firstn (N.to_nat (N.of_nat cnt)) (skipN from l)) with (firstN (N.of_nat cnt) (skipN from l)).
    rewrite (nthN_firstN part part_pos) by lia. apply (nthN_skipN part part_pos).
  Qed.

  Lemma combine_fst_snd {A B} (l : list (A * B)) : combine (map fst l) (map snd l) = l.
  Proof. induction l as [|[a b] r IH]; cbn; [reflexivity|]. rewrite IH. reflexivity. Qed.

  Lemma collect_fast_eq (all : list M) (s : sctx M) from cnt :
    inv all s -> from + N.of_nat cnt <= stream_len s (len all) ->
    collect_fast all s from cnt = collect all s from cnt.
  Proof.
    intros Hinv Hb.
    destruct (collect_spec part part_pos all s (inv_stream_ok all s Hinv) cnt from Hb) as [l [Hl [Hfst [Hlen Hnth]]]].
    rewrite Hl. unfold collect_fast.
    assert (Hcnt : length (map snd l) = cnt).
    { unfold len in Hlen. lia. }
    assert (Hms : (if s_filters_active s then pick all 0 (firstn cnt (skipN from (s_filtered s)))
                   else firstn cnt (skipN from all)) = map snd l).
    { symmetry. unfold stream_len in Hb. destruct (s_filters_active s) eqn:Ea.
      - set (idxs := firstn cnt (skipN from (s_filtered s))).
        assert (Hil : length idxs = cnt).
        { unfold idxs. rewrite firstn_length. pose proof (len_skipN from (s_filtered s)) as H. unfold len, skipN in *. lia. }
        assert (Hin : forall k, (N.to_nat k < cnt)%nat -> nthN idxs k = nthN (s_filtered s) (from + k)).
        { intros k Hk. apply nthN_firstn_skipN. exact Hk. }
        pose proof (filtered_increasing all s Hinv Ea) as Hinc.
        assert (Hinc' : increasing idxs).
        { intros i j a b Hij Ha Hb'.
          assert (Hj : (N.to_nat j < cnt)%nat) by (pose proof (nthN_some_lt _ _ _ Hb') as H; unfold len in H; lia).
          rewrite Hin in Ha by lia. rewrite Hin in Hb' by lia. apply (Hinc (from + i) (from + j) a b); [lia|exact Ha|exact Hb']. }
        assert (Hbounds : forall p, In p idxs -> len (@nil M) <= p < len (@nil M) + len all).
        { intros p Hp. rewrite len_nil. apply In_nth_error in Hp. destruct Hp as [k Hk].
          assert (Hk' : (k < cnt)%nat) by (rewrite <- Hil; apply nth_error_Some; congruence).
          assert (Hp' : nthN idxs (N.of_nat k) = Some p) by (unfold nthN; rewrite Nat2N.id; exact Hk).
          rewrite Hin in Hp' by lia.
          assert (Hinf : In p (s_filtered s)) by (eapply nth_error_In; exact Hp').
          destruct Hinv as [Hl' [Ha' _]]. rewrite (Ha' Ea) in Hinf. apply matching_bounds in Hinf. rewrite len_firstN in Hinf. lia. }
        destruct (pick_spec all [] idxs Hinc' Hbounds) as [L1 L2]. rewrite len_nil in L1, L2. cbn [app] in L2.
        apply (nthN_ext part part_pos).
        + unfold len. rewrite Hcnt, L1, Hil. reflexivity.
        + intros k m Hk. pose proof (nthN_some_lt _ _ _ Hk) as Hlt. unfold len in Hlt. rewrite Hcnt in Hlt.
          pose proof (Hnth k m Hk) as Hsm. unfold stream_msg in Hsm. rewrite Ea in Hsm.
          unfold nth_chk at 1 in Hsm. destruct (nthN (s_filtered s) (from + k)) as [p|] eqn:Ep; cbn [bind] in Hsm; [|discriminate].
          unfold nth_chk in Hsm. destruct (nthN all p) as [m'|] eqn:Em; [|discriminate]. inversion Hsm; subst m'.
          apply (L2 k p m); [rewrite Hin by lia; exact Ep|exact Em].
      - apply (nthN_ext part part_pos).
        + unfold len. rewrite Hcnt, firstn_length. pose proof (len_skipN from all) as H. unfold len, skipN in *. lia.
        + intros k m Hk. pose proof (nthN_some_lt _ _ _ Hk) as Hlt. unfold len in Hlt. rewrite Hcnt in Hlt.
          rewrite nthN_firstn_skipN by lia.
          pose proof (Hnth k m Hk) as Hsm. unfold stream_msg in Hsm. rewrite Ea in Hsm. cbn [bind] in Hsm.
          unfold nth_chk in Hsm. destruct (nthN all (from + k)) as [m'|]; [|discriminate]. inversion Hsm; reflexivity. }
    rewrite Hms, Hcnt, Nat.eqb_refl. f_equal. rewrite positions_rangeN, <- Hfst. apply combine_fst_snd.
  Qed.

  Variable time_of index_of : M -> N.
  Variable sort_by_time : bool.

  Lemma fast_tick_stream_eq all fin (s : sctx M) : inv all s ->
    fast_tick_stream part all fin s = tick_stream part all fin s.
  Proof.
    intros Hinv. unfold fast_tick_stream, tick_stream, tick_stream_gen, send_budget, cap.
    assert (Hc : 1 <= max_chunk_server) by (unfold max_chunk_server; lia).
    destruct (feed_spec part part_pos all max_chunk_server s Hinv Hc) as [Hi' _]. cbv zeta in Hi'.
    unfold feed in Hi'.
    set (s1 := process_stream_new_msgs part s (N.min (s_last s) (len all)) (skipN (N.min (s_last s) (len all)) all) max_chunk_server) in *.
    destruct ((s_sent_end s1 <? s_to_end s1) && (s_sent_end s1 <? stream_len s1 (len all))) eqn:E; [|reflexivity].
    apply andb_true_iff in E. destruct E as [E1 E2]. apply N.ltb_lt in E1, E2.
    rewrite collect_fast_eq; [reflexivity|exact Hi'|lia].
  Qed.

  Lemma fast_tick_streams_eq all fin (l : list (sctx M)) : Forall (inv all) l ->
    fast_tick_streams part all fin l = tick_streams part all fin l.
  Proof.
    induction l as [|s r IH]; intros H; [reflexivity|]. inversion H as [|? ? H1 H2]; subst.
    cbn [fast_tick_streams tick_streams]. rewrite (fast_tick_stream_eq all fin s H1), (IH H2). reflexivity.
  Qed.

  Lemma fast_step_eq (sv : server M) evs0 o : SInv sv evs0 ->
    fast_step part time_of index_of sort_by_time sv o = step part time_of index_of sort_by_time sv o.
  Proof.
    intros [Hlive _]. destruct o; try reflexivity.
    cbn [fast_step step]. rewrite fast_tick_streams_eq; [reflexivity|].
    apply Forall_forall. intros s Hs. apply inv_arrive.
    exact (proj1 (proj1 (proj1 (Forall_forall _ _) Hlive s Hs))).
  Qed.

  Theorem fast_run_eq ops : forall (sv : server M) evs0, SInv sv evs0 ->
    fast_run part time_of index_of sort_by_time sv ops = run part time_of index_of sort_by_time sv ops.
  Proof.
    induction ops as [|o r IH]; intros sv evs0 HI; [reflexivity|].
    cbn [fast_run run]. rewrite (fast_step_eq sv evs0 o HI).
    destruct (step_preserves part part_pos time_of index_of sort_by_time sv evs0 o HI) as [sv1 [ev [Hs HI1]]].
    rewrite Hs. cbn [bind fst snd]. rewrite (IH sv1 (evs0 ++ ev) HI1). reflexivity.
  Qed.

  (* in particular from the initial state: the shards may evaluate fast_run instead of run *)
  Theorem fast_run_is_run n0 ops :
    fast_run part time_of index_of sort_by_time (server0 n0) ops = run part time_of index_of sort_by_time (server0 n0) ops.
  Proof. exact (fast_run_eq ops (server0 n0) [] (SInv_init n0)). Qed.
End FastProofs.
