(* Proofs about Remote/Stream.v, part 1: the incremental index (process_stream_new_msgs) *)
From Coq Require Import List NArith Bool Lia Arith.
From AdltV Require Import Base.Res Base.MachInt Remote.Stream.
Import ListNotations.
Open Scope N_scope.

(* ------------------------------------------------------------------ lists indexed by N *)
Lemma len_nil {A} : len (@nil A) = 0. Proof. reflexivity. Qed.
Lemma len_cons {A} (a : A) l : len (a :: l) = len l + 1.
Proof. unfold len. cbn [length]. lia. Qed.
Lemma len_app {A} (a b : list A) : len (a ++ b) = len a + len b.
Proof. unfold len. rewrite app_length. lia. Qed.
Lemma len_zero_nil {A} (l : list A) : len l = 0 -> l = [].
Proof. destruct l; [reflexivity|]. rewrite len_cons. lia. Qed.
Lemma is_nil_len {A} (l : list A) : is_nil l = (len l =? 0).
Proof. destruct l; [reflexivity|]. rewrite len_cons. cbn [is_nil]. symmetry. apply N.eqb_neq. lia. Qed.

Lemma firstN_0 {A} (l : list A) : firstN 0 l = [].
Proof. reflexivity. Qed.
Lemma firstN_nil {A} n : firstN n (@nil A) = [].
Proof. unfold firstN. apply firstn_nil. Qed.
Lemma skipN_0 {A} (l : list A) : skipN 0 l = l.
Proof. reflexivity. Qed.
Lemma firstN_succ_cons {A} n (a : A) l : firstN (n + 1) (a :: l) = a :: firstN n l.
Proof. unfold firstN. replace (N.to_nat (n + 1)) with (S (N.to_nat n)) by lia. reflexivity. Qed.
Lemma skipN_succ_cons {A} n (a : A) l : skipN (n + 1) (a :: l) = skipN n l.
Proof. unfold skipN. replace (N.to_nat (n + 1)) with (S (N.to_nat n)) by lia. reflexivity. Qed.

Lemma len_firstN {A} n (l : list A) : len (firstN n l) = N.min n (len l).
Proof. unfold len, firstN. rewrite firstn_length. lia. Qed.
Lemma len_skipN {A} n (l : list A) : len (skipN n l) = len l - n.
Proof. unfold len, skipN. rewrite skipn_length. lia. Qed.
Lemma firstN_all {A} n (l : list A) : len l <= n -> firstN n l = l.
Proof. unfold len, firstN. intros H. apply firstn_all2. lia. Qed.
Lemma skipN_all {A} n (l : list A) : len l <= n -> skipN n l = [].
Proof. unfold len, skipN. intros H. apply skipn_all2. lia. Qed.
Lemma firstN_skipN {A} n (l : list A) : firstN n l ++ skipN n l = l.
Proof. apply firstn_skipn. Qed.

Lemma firstN_add {A} a b (l : list A) : firstN (a + b) l = firstN a l ++ firstN b (skipN a l).
Proof.
  unfold firstN, skipN. replace (N.to_nat (a + b)) with (N.to_nat a + N.to_nat b)%nat by lia.
  generalize (N.to_nat a) as x. generalize (N.to_nat b) as y. intros y x. revert l.
  induction x as [|x IH]; intros l; cbn [Nat.add firstn skipn app]; [reflexivity|].
  destruct l as [|h t]; cbn [firstn skipn app]; [rewrite firstn_nil; reflexivity|].
  rewrite IH. reflexivity.
Qed.
Lemma firstN_firstN {A} a b (l : list A) : a <= b -> firstN a (firstN b l) = firstN a l.
Proof.
  intros H. unfold firstN. rewrite firstn_firstn. f_equal. lia.
Qed.
Lemma firstN_app_l {A} n (a b : list A) : n <= len a -> firstN n (a ++ b) = firstN n a.
Proof.
  unfold firstN, len. intros H. rewrite firstn_app. replace (N.to_nat n - length a)%nat with 0%nat by lia.
  cbn [firstn]. rewrite app_nil_r. reflexivity.
Qed.
Lemma firstN_len_app {A} (a b : list A) : firstN (len a) (a ++ b) = a.
Proof.
  rewrite firstN_app_l by lia. apply firstN_all. lia.
Qed.
Lemma firstN_len_firstN {A} n (l : list A) : firstN (len (firstN n l)) l = firstN n l.
Proof. pose proof (firstN_len_app (firstN n l) (skipN n l)) as H. rewrite firstN_skipN in H. exact H. Qed.
Lemma skipN_len_app {A} (a b : list A) : skipN (len a) (a ++ b) = b.
Proof. unfold skipN, len. rewrite skipn_app, Nat2N.id, Nat.sub_diag, skipn_all. reflexivity. Qed.

Lemma nthN_app_l {A} (a b : list A) i : i < len a -> nthN (a ++ b) i = nthN a i.
Proof. unfold nthN, len. intros H. apply nth_error_app1. lia. Qed.
Lemma nthN_some_lt {A} (l : list A) i x : nthN l i = Some x -> i < len l.
Proof.
  unfold nthN, len. intros H. assert (N.to_nat i < length l)%nat by (apply nth_error_Some; congruence). lia.
Qed.
Lemma nthN_lt_some {A} (l : list A) i : i < len l -> exists x, nthN l i = Some x.
Proof.
  unfold nthN, len. intros H. destruct (nth_error l (N.to_nat i)) eqn:E; [eauto|].
  apply nth_error_None in E. lia.
Qed.
Lemma nthN_cons_succ {A} (a : A) l i : nthN (a :: l) (i + 1) = nthN l i.
Proof. unfold nthN. replace (N.to_nat (i + 1)) with (S (N.to_nat i)) by lia. reflexivity. Qed.
Lemma nthN_cons_0 {A} (a : A) l : nthN (a :: l) 0 = Some a.
Proof. reflexivity. Qed.

Ltac fin := repeat split; auto; try lia; try (intros; discriminate); try (eexists; reflexivity);
  try (exists []; rewrite app_nil_r; reflexivity); try (intros [?|?]; discriminate).

Section Matching.
  Context {M : Type}.
  Notation sctx := (sctx M).
  Notation fset := (fset M).

  (* ------------------------------------------------------------------ matching_idxs *)
  Lemma matching_app (fs : fset) a : forall b off,
    matching_idxs fs (a ++ b) off = matching_idxs fs a off ++ matching_idxs fs b (off + len a).
  Proof.
    induction a as [|m r IH]; intros b off; cbn [app matching_idxs].
    - rewrite len_nil, N.add_0_r. reflexivity.
    - rewrite IH, len_cons. replace (off + 1 + len r) with (off + (len r + 1)) by lia.
      destruct (match_filters fs m); reflexivity.
  Qed.

  Lemma matching_bounds (fs : fset) l : forall off p, In p (matching_idxs fs l off) -> off <= p < off + len l.
  Proof.
    induction l as [|m r IH]; intros off p H; cbn [matching_idxs] in H; [contradiction|].
    rewrite len_cons. destruct (match_filters fs m).
    - destruct H as [H|H]; [lia|]. apply IH in H. lia.
    - apply IH in H. lia.
  Qed.

  Lemma len_matching_le (fs : fset) l : forall off, len (matching_idxs fs l off) <= len l.
  Proof.
    induction l as [|m r IH]; intros off; cbn [matching_idxs]; [rewrite !len_nil; lia|].
    specialize (IH (off + 1)). rewrite len_cons. destruct (match_filters fs m); [rewrite len_cons|]; lia.
  Qed.

  (* "found more than wanted": the kept part is the index of the messages before the first unwanted one *)
  Lemma matching_trunc (fs : fset) l : forall off w,
    w < len (matching_idxs fs l off) ->
    let u := nth (N.to_nat w) (matching_idxs fs l off) 0 in
    off <= u < off + len l /\
    firstN w (matching_idxs fs l off) = matching_idxs fs (firstN (u - off) l) off /\
    (1 <= w -> off + 1 <= u).
  Proof.
    induction l as [|m r IH]; intros off w Hw; cbn [matching_idxs] in *.
    - rewrite len_nil in Hw. lia.
    - rewrite len_cons. destruct (match_filters fs m) eqn:Em.
      + rewrite len_cons in Hw.
        destruct (N.eq_dec w 0) as [->|Hn].
        * cbn [N.to_nat nth]. rewrite N.sub_diag, firstN_0. cbn [matching_idxs]. repeat split; lia.
        * replace w with ((w - 1) + 1) by lia.
          replace (N.to_nat (w - 1 + 1)) with (S (N.to_nat (w - 1))) by lia. cbn [nth].
          rewrite firstN_succ_cons.
          destruct (IH (off + 1) (w - 1)) as [Hb [Hf Hp]]; [lia|].
          cbv zeta in *.
          set (u := nth (N.to_nat (w - 1)) (matching_idxs fs r (off + 1)) 0) in *.
          replace (u - off) with ((u - (off + 1)) + 1) by lia.
          rewrite firstN_succ_cons. cbn [matching_idxs]. rewrite Em, Hf. repeat split; lia.
      + destruct (IH (off + 1) w Hw) as [Hb [Hf Hp]]. cbv zeta in *.
        set (u := nth (N.to_nat w) (matching_idxs fs r (off + 1)) 0) in *.
        replace (u - off) with ((u - (off + 1)) + 1) by lia.
        rewrite firstN_succ_cons. cbn [matching_idxs]. rewrite Em, Hf. repeat split; lia.
  Qed.

  (* ------------------------------------------------------------------ the invariant of the incremental index *)
  (* the index is exactly the matching positions below the marker: nothing skipped, nothing repeated *)
  Definition inv (all : list M) (s : sctx) : Prop :=
    s_last s <= len all /\
    (s_filters_active s = true -> s_filtered s = matching_idxs (s_filters s) (firstN (s_last s) all) 0) /\
    (s_filters_active s = false -> s_filtered s = []).

  Lemma set_progress_fields (s : sctx) f l :
    s_id (set_progress s f l) = s_id s /\ s_is_stream (set_progress s f l) = s_is_stream s /\
    s_filters_active (set_progress s f l) = s_filters_active s /\ s_filters (set_progress s f l) = s_filters s /\
    s_filtered (set_progress s f l) = f /\ s_last (set_progress s f l) = l /\
    s_to_end (set_progress s f l) = s_to_end s /\ s_to_start (set_progress s f l) = s_to_start s /\
    s_sent_end (set_progress s f l) = s_sent_end s /\ s_sent_start (set_progress s f l) = s_sent_start s /\
    s_binary (set_progress s f l) = s_binary s /\ s_is_done (set_progress s f l) = s_is_done s.
  Proof. repeat split. Qed.

  Lemma inv_arrive all ms (s : sctx) : inv all s -> inv (all ++ ms) s.
  Proof.
    intros [Hl [Ha Hna]]. unfold inv. rewrite len_app. split; [lia|]. split; [|exact Hna].
    intros E. rewrite firstN_app_l by exact Hl. auto.
  Qed.
  Lemma inv_set_to_end all e (s : sctx) : inv all s -> inv all (set_to_end s e).
  Proof. intros H. exact H. Qed.
  Lemma inv_new all id is_stream binary fs a b : inv all (new_ctx id is_stream binary fs a b).
  Proof.
    unfold inv, new_ctx. cbn. split; [lia|]. split; reflexivity.
  Qed.

End Matching.

Section Proofs.
  Context {M : Type}.
  Variable part : N.                      (* PART_CHUNK_SIZE *)
  Hypothesis part_pos : 1 <= part.

  Notation sctx := (sctx M).
  Notation fset := (fset M).
  Notation psnm := (@process_stream_new_msgs M part).
  Notation feed := (@feed M part).
  Notation sched_run := (@sched_run M part).

  (* ------------------------------------------------------------------ the query loop *)
  (* result of the loop: some prefix of [rest] (k messages) was indexed, the marker is right behind it *)
  Lemma qloop_spec (fs : fset) pcs maxm : 1 <= pcs -> forall fuel off rest filtered last,
    (length rest <= fuel)%nat ->
    let r := qloop fuel fs pcs maxm off rest filtered last in
    (((len filtered <? maxm) && negb (is_nil rest) = false) /\ r = (filtered, last)) \/
    (((len filtered <? maxm) && negb (is_nil rest) = true) /\
     exists k, 1 <= k <= len rest /\
               fst r = filtered ++ matching_idxs fs (firstN k rest) off /\
               snd r = off + k /\
               (k = len rest \/ maxm <= len (fst r)) /\
               len (fst r) <= maxm).
  Proof.
    intros Hp. induction fuel as [|f IH]; intros off rest filtered last Hf; cbv zeta.
    - destruct rest; [|cbn in Hf; lia]. left. cbn [qloop is_nil negb]. rewrite andb_false_r. auto.
    - cbn [qloop].
      destruct ((len filtered <? maxm) && negb (is_nil rest)) eqn:Ec; [right|left; auto].
      split; [reflexivity|].
      apply andb_true_iff in Ec. destruct Ec as [Elt Enn]. apply N.ltb_lt in Elt.
      assert (Hrl : 1 <= len rest).
      { destruct rest; [discriminate|]. rewrite len_cons. lia. }
      set (chunk := firstN pcs rest). set (rest' := skipN pcs rest).
      set (midx := matching_idxs fs chunk off).
      assert (Hcl : len chunk = N.min pcs (len rest)) by apply len_firstN.
      assert (Hrest : rest = chunk ++ rest') by (symmetry; apply firstN_skipN).
      assert (Hlr : len rest = len chunk + len rest') by (rewrite Hrest at 1; apply len_app).
      assert (Hf' : (length rest' <= f)%nat).
      { pose proof (len_skipN pcs rest) as H. fold rest' in H. unfold len in H. unfold len in Hrl. lia. }
      destruct (len midx <=? maxm - len filtered) eqn:Ele.
      + apply N.leb_le in Ele.
        specialize (IH (off + len chunk) rest' (filtered ++ midx) (off + len chunk) Hf'). cbv zeta in IH.
        destruct IH as [[Ec2 Er]|[Ec2 [k [Hk [Hfst [Hsnd [Hfin Hmax]]]]]]].
        * rewrite Er. cbn [fst snd]. exists (len chunk). split; [lia|].
          split; [unfold midx, chunk; rewrite firstN_len_firstN; reflexivity|].
          split; [reflexivity|]. rewrite len_app.
          apply andb_false_iff in Ec2. destruct Ec2 as [Ec2|Ec2].
          -- apply N.ltb_ge in Ec2. rewrite len_app in Ec2. split; [right; lia|lia].
          -- apply negb_false_iff in Ec2. rewrite is_nil_len in Ec2. apply N.eqb_eq in Ec2.
             split; [left; lia|lia].
        * exists (len chunk + k). rewrite Hfst, Hsnd.
          split; [lia|]. split.
          -- rewrite <- app_assoc. f_equal. rewrite firstN_add.
             assert (E1 : firstN (len chunk) rest = chunk) by (unfold chunk; apply firstN_len_firstN).
             assert (Es : skipN (len chunk) rest = rest') by (rewrite Hrest at 1; apply skipN_len_app).
             rewrite E1, Es, matching_app. reflexivity.
          -- split; [lia|]. rewrite <- Hfst. split; [|exact Hmax].
             destruct Hfin as [Hfin|Hfin]; [left; lia|right; exact Hfin].
      + apply N.leb_gt in Ele.
        set (w := maxm - len filtered) in *.
        assert (Hwdef : w = maxm - len filtered) by reflexivity.
        destruct (matching_trunc fs chunk off w Ele) as [Hb [Htr Hge]]. cbv zeta in Hb, Htr, Hge.
        fold midx in Hb, Htr, Hge. set (u := nth (N.to_nat w) midx 0) in *.
        specialize (IH (off + len chunk) rest' (filtered ++ firstN w midx) u Hf'). cbv zeta in IH.
        assert (Hlen : len (filtered ++ firstN w midx) = maxm).
        { rewrite len_app, len_firstN. lia. }
        destruct IH as [[Ec2 Er]|[Ec2 _]].
        * rewrite Er. cbn [fst snd]. exists (u - off). split; [lia|]. split.
          -- f_equal. rewrite Htr. unfold chunk. rewrite firstN_firstN by lia. reflexivity.
          -- split; [lia|]. split; [right; lia|lia].
        * apply andb_true_iff in Ec2. destruct Ec2 as [Ec2 _]. apply N.ltb_lt in Ec2. lia.
  Qed.

  (* what one call in the protocol of the server loop does *)
  Lemma feed_spec all c (s : sctx) : inv all s -> 1 <= c ->
    let s' := feed all c s in
    inv all s' /\ s_last s <= s_last s' /\
    s_filters s' = s_filters s /\ s_filters_active s' = s_filters_active s /\ s_is_stream s' = s_is_stream s /\
    s_to_end s' = s_to_end s /\ s_to_start s' = s_to_start s /\ s_id s' = s_id s /\
    s_sent_end s' = s_sent_end s /\ s_sent_start s' = s_sent_start s /\ s_binary s' = s_binary s /\
    s_is_done s' = s_is_done s /\
    (exists ext, s_filtered s' = s_filtered s ++ ext) /\
    (* progress *)
    (s_last s < len all -> (s_filters_active s && negb (s_is_stream s) && (s_to_end s <=? len (s_filtered s))) = false ->
     s_last s < s_last s') /\
    (* a query never collects more than its window end, and stops only when it has enough or the chunk is used up *)
    (s_filters_active s = true -> s_is_stream s = false ->
       len (s_filtered s') <= N.max (len (s_filtered s)) (s_to_end s) /\
       (s_last s' = len all \/ s_to_end s <= len (s_filtered s') \/ s_last s + c <= s_last s')) /\
    (s_is_stream s = true \/ s_filters_active s = false -> s_last s' = N.min (len all) (s_last s + c) \/ s_filters_active s = false /\ s_last s' = len all).
  Proof.
    intros [Hl [Ha Hna]] Hc. cbv zeta. unfold Stream.feed.
    rewrite (N.min_l (s_last s) (len all)) by exact Hl.
    set (new := skipN (s_last s) all).
    assert (Hnl : len new = len all - s_last s) by apply len_skipN.
    unfold Stream.process_stream_new_msgs.
    destruct new as [|m0 newr] eqn:Enew.
    { (* nothing new *)
      rewrite len_nil in Hnl. assert (s_last s = len all) by lia.
      unfold inv. repeat split; auto; try lia; try (exists []; rewrite app_nil_r; reflexivity). }
    assert (Hnn : 1 <= len new) by (rewrite Enew, len_cons; lia).
    rewrite <- Enew in *. clear Enew m0 newr.
    assert (Hsplit : forall k, k <= len new -> firstN (s_last s + k) all = firstN (s_last s) all ++ firstN k new).
    { intros k _. apply firstN_add. }
    destruct (s_filters_active s) eqn:Eact.
    - specialize (Ha eq_refl).
      set (max_idx := N.min (len new) c).
      destruct (s_is_stream s) eqn:Estr.
      + (* stream *)
        destruct (set_progress_fields s (s_filtered s ++ matching_idxs (s_filters s) (firstN max_idx new) (s_last s)) (s_last s + max_idx))
          as [E1 [E2 [E3 [E4 [E5 [E6 [E7 [E8 [E9 [E10 [E11 E12]]]]]]]]]]].
        unfold inv. rewrite E1, E2, E3, E4, E5, E6, E7, E8, E9, E10, E11, E12, Eact, Estr.
        repeat split; auto; try (unfold max_idx; lia); try (intros; discriminate); try (eexists; reflexivity).
        * intros _. rewrite Hsplit by (unfold max_idx; lia). rewrite matching_app, Ha.
          f_equal. rewrite len_firstN. rewrite N.min_l by lia. rewrite N.add_0_l. reflexivity.
      + (* query *)
        set (pcs := N.min c part).
        assert (Hpcs : 1 <= pcs) by (unfold pcs; lia).
        set (rest := firstN max_idx new).
        pose proof (qloop_spec (s_filters s) pcs (s_to_end s) Hpcs (length rest) (s_last s) rest (s_filtered s) (s_last s) (le_n _)) as Hq.
        cbv zeta in Hq.
        destruct (qloop (length rest) (s_filters s) pcs (s_to_end s) (s_last s) rest (s_filtered s) (s_last s)) as [f l] eqn:Eq.
        destruct (set_progress_fields s f l) as [E1 [E2 [E3 [E4 [E5 [E6 [E7 [E8 [E9 [E10 [E11 E12]]]]]]]]]]].
        unfold inv. rewrite E1, E2, E3, E4, E5, E6, E7, E8, E9, E10, E11, E12, Eact, Estr.
        assert (Hrl : len rest = max_idx) by (unfold rest; rewrite len_firstN; unfold max_idx; lia).
        cbn [fst snd] in Hq.
        destruct Hq as [[Ec Er]|[Ec [k [Hk [Hfst [Hsnd [Hfin Hmax]]]]]]].
        * inversion Er; subst f l. clear Er.
          assert (Hfull : s_to_end s <= len (s_filtered s)).
          { apply andb_false_iff in Ec. destruct Ec as [Ec|Ec]; [apply N.ltb_ge in Ec; exact Ec|].
            apply negb_false_iff in Ec. rewrite is_nil_len in Ec. apply N.eqb_eq in Ec. unfold max_idx in Hrl. lia. }
          fin.
          intros _ Hn. cbn [andb negb] in Hn. apply N.leb_gt in Hn. lia.
        * subst f l.
          fin.
          intros _. rewrite Hsplit by (unfold max_idx in Hrl; lia). rewrite matching_app, Ha. f_equal.
          rewrite len_firstN, N.min_l by lia. rewrite N.add_0_l. unfold rest. rewrite firstN_firstN by lia. reflexivity.
    - (* no filters: only the marker moves *)
      specialize (Hna eq_refl).
      destruct (set_progress_fields s (s_filtered s) (s_last s + len new)) as [E1 [E2 [E3 [E4 [E5 [E6 [E7 [E8 [E9 [E10 [E11 E12]]]]]]]]]]].
      unfold inv. rewrite E1, E2, E3, E4, E5, E6, E7, E8, E9, E10, E11, E12, Eact.
      fin.
  Qed.

  (* fields that a schedule never changes, and the invariant after every schedule *)
  Lemma sched_inv sch : chunks_ok sch -> forall all (s : sctx), inv all s ->
    let r := sched_run all s sch in
    inv (fst r) (snd r) /\ s_filters (snd r) = s_filters s /\ s_filters_active (snd r) = s_filters_active s /\
    s_is_stream (snd r) = s_is_stream s /\ (exists ext, fst r = all ++ ext) /\
    (exists ext, s_filtered (snd r) = s_filtered s ++ ext) /\ s_last s <= s_last (snd r).
  Proof.
    induction sch as [|st r IH]; intros Hc all s Hi; cbn [Stream.sched_run].
    - cbn [fst snd]. split; [exact Hi|]. fin.
    - assert (Hc' : chunks_ok r) by (intros c Hin; apply Hc; right; exact Hin).
      destruct st as [ms|c|e].
      + destruct (IH Hc' (all ++ ms) s (inv_arrive _ _ _ Hi)) as [H1 [H2 [H3 [H4 [[ext H5] [H6 H7]]]]]].
        cbv zeta in *. refine (conj H1 (conj H2 (conj H3 (conj H4 (conj _ (conj H6 H7)))))).
        exists (ms ++ ext). rewrite H5, app_assoc. reflexivity.
      + assert (H1c : 1 <= c) by (apply Hc; left; reflexivity).
        destruct (feed_spec all c s Hi H1c) as [Hi' [Hmono [Ef [Ea [Es [_ [_ [_ [_ [_ [_ [_ [[ext0 Hext0] _]]]]]]]]]]]]].
        cbv zeta in *.
        destruct (IH Hc' all (feed all c s) Hi') as [H1 [H2 [H3 [H4 [H5 [[ext H6] H7]]]]]].
        cbv zeta in *. rewrite H2, H3, H4, Ef, Ea, Es.
        refine (conj H1 (conj eq_refl (conj eq_refl (conj eq_refl (conj H5 (conj _ _)))))); [|lia].
        exists (ext0 ++ ext). rewrite H6, Hext0, app_assoc. reflexivity.
      + destruct (IH Hc' all (set_to_end s e) (inv_set_to_end _ _ _ Hi)) as [H1 [H2 [H3 [H4 [H5 [H6 H7]]]]]].
        cbv zeta in *. exact (conj H1 (conj H2 (conj H3 (conj H4 (conj H5 (conj H6 H7)))))).
  Qed.

  (* a query without window changes never collects more than its window end *)
  Lemma sched_query_bound sch : chunks_ok sch -> no_end_change sch -> forall all (s : sctx), inv all s ->
    s_filters_active s = true -> s_is_stream s = false -> len (s_filtered s) <= s_to_end s ->
    let r := sched_run all s sch in
    len (s_filtered (snd r)) <= s_to_end s /\ s_to_end (snd r) = s_to_end s.
  Proof.
    induction sch as [|st r IH]; intros Hc Hne all s Hi Ha Hs Hb; cbn [Stream.sched_run].
    - cbn [snd]. auto.
    - assert (Hc' : chunks_ok r) by (intros c Hin; apply Hc; right; exact Hin).
      assert (Hne' : no_end_change r) by (intros e Hin; apply (Hne e); right; exact Hin).
      destruct st as [ms|c|e].
      + apply IH; auto. apply inv_arrive; assumption.
      + assert (H1c : 1 <= c) by (apply Hc; left; reflexivity).
        destruct (feed_spec all c s Hi H1c) as [Hi' [Hmono [Ef [Ea [Es [Ee [_ [_ [_ [_ [_ [_ [_ [_ [Hq _]]]]]]]]]]]]]]].
        cbv zeta in *. destruct (Hq Ha Hs) as [Hq1 _].
        destruct (IH Hc' Hne' all (feed all c s) Hi') as [H1 H2]; try congruence; try lia.
      + exfalso. apply (Hne e). left. reflexivity.
  Qed.

  (* ------------------------------------------------------------------ the headline theorem *)
  Theorem filtered_batch_independent id is_stream binary (fs : fset) start end_ sch :
    chunks_ok sch ->
    let r := sched_run [] (new_ctx id is_stream binary fs start end_) sch in
    let all := fst r in let s := snd r in
    (* at every point: the index is exactly the matching positions below the marker *)
    s_last s <= len all /\
    (filters_active_of fs = true -> s_filtered s = matching_idxs fs (firstN (s_last s) all) 0) /\
    (filters_active_of fs = false -> s_filtered s = []) /\
    (* once all messages are processed *)
    (filters_active_of fs = true -> is_stream = true -> s_last s = len all -> s_filtered s = matching fs all) /\
    (filters_active_of fs = true -> is_stream = false -> no_end_change sch ->
       s_last s = len all \/ end_ <= len (s_filtered s) -> s_filtered s = firstN end_ (matching fs all)) /\
    (* with window changes in between: still a prefix of the matching positions, complete at the end *)
    (filters_active_of fs = true -> is_stream = false ->
       s_filtered s = firstN (len (s_filtered s)) (matching fs all) /\ (s_last s = len all -> s_filtered s = matching fs all)).
  Proof.
    intros Hc. cbv zeta.
    set (s0 := new_ctx id is_stream binary fs start end_).
    destruct (sched_inv sch Hc [] s0 (inv_new _ _ _ _ _ _ _)) as [[Hl [Ha Hna]] [Ef [Eact [Estr _]]]].
    cbv zeta in *. fold s0.
    set (all := fst (sched_run [] s0 sch)) in *. set (s := snd (sched_run [] s0 sch)) in *.
    change (s_filters s0) with fs in Ef. change (s_filters_active s0) with (filters_active_of fs) in Eact.
    change (s_is_stream s0) with is_stream in Estr.
    rewrite Ef in Ha. rewrite Eact in Ha, Hna.
    assert (Hprefix : filters_active_of fs = true ->
                      matching fs all = s_filtered s ++ matching_idxs fs (skipN (s_last s) all) (s_last s)).
    { intros E. unfold matching. rewrite <- (firstN_skipN (s_last s) all) at 1. rewrite matching_app, (Ha E).
      rewrite len_firstN, N.min_l by exact Hl. reflexivity. }
    split; [exact Hl|]. split; [exact Ha|]. split; [exact Hna|]. split; [|split].
    - intros E _ Hall. rewrite (Ha E), Hall, firstN_all by lia. reflexivity.
    - intros E Eq Hne Hdone. clear Estr. subst is_stream.
      destruct (sched_query_bound sch Hc Hne [] s0 (inv_new _ _ _ _ _ _ _) E eq_refl) as [Hb _].
      { cbn. lia. }
      cbv zeta in Hb. fold s in Hb. change (s_to_end s0) with end_ in Hb.
      rewrite (Hprefix E). destruct Hdone as [Hall|Hfull].
      + rewrite Hall, skipN_all by lia. cbn [matching_idxs]. rewrite app_nil_r. symmetry. apply firstN_all. exact Hb.
      + assert (He : end_ = len (s_filtered s)) by lia. rewrite He. symmetry. apply firstN_len_app.
    - intros E _. split.
      + rewrite (Hprefix E). symmetry. apply firstN_len_app.
      + intros Hall. rewrite (Ha E), Hall, firstN_all by lia. reflexivity.
  Qed.

  (* the marker reaches the end: a call makes progress unless everything is processed or the query has enough *)
  Fixpoint feed_n (n : nat) (all : list M) (c : N) (s : sctx) : sctx :=
    match n with O => s | S k => feed_n k all c (feed all c s) end.

  Theorem all_processed_after_enough_calls all c (s : sctx) : inv all s -> 1 <= c ->
    forall n, (N.to_nat (len all - s_last s) <= n)%nat ->
    let s' := feed_n n all c s in
    inv all s' /\
    (s_last s' = len all \/
     (s_filters_active s' = true /\ s_is_stream s' = false /\ s_to_end s' <= len (s_filtered s'))).
  Proof.
    intros Hi Hc n. revert s Hi. induction n as [|n IH]; intros s Hi Hn; cbn [feed_n].
    - split; [exact Hi|]. left. destruct Hi as [Hl _]. lia.
    - destruct (feed_spec all c s Hi Hc) as [Hi' [Hmono [Ef [Ea [Es [Ee [_ [_ [_ [_ [_ [_ [[ext Hext] [Hprog _]]]]]]]]]]]]]].
      cbv zeta in *.
      destruct (N.eq_dec (s_last s) (len all)) as [Heq|Hneq].
      + apply IH; [exact Hi'|]. lia.
      + destruct (s_filters_active s && negb (s_is_stream s) && (s_to_end s <=? len (s_filtered s))) eqn:Ec.
        * (* the query already has enough: further calls change nothing relevant *)
          apply andb_true_iff in Ec. destruct Ec as [Ec E3]. apply andb_true_iff in Ec. destruct Ec as [E1 E2].
          apply negb_true_iff in E2. apply N.leb_le in E3.
          clear IH Hn.
          assert (Hgen : forall k t, inv all t -> s_filters_active t = true -> s_is_stream t = false ->
                                     s_to_end t <= len (s_filtered t) ->
                                     inv all (feed_n k all c t) /\
                                     s_filters_active (feed_n k all c t) = true /\ s_is_stream (feed_n k all c t) = false /\
                                     s_to_end (feed_n k all c t) <= len (s_filtered (feed_n k all c t))).
          { induction k as [|k IHk]; intros t Ht T1 T2 T3; cbn [feed_n]; [auto|].
            destruct (feed_spec all c t Ht Hc) as [Ht' [_ [_ [Ta [Ts [Te [_ [_ [_ [_ [_ [_ [[ext' Hext'] _]]]]]]]]]]]]].
            cbv zeta in *. apply IHk; try congruence. rewrite Te, Hext', len_app. lia. }
          destruct (Hgen n (feed all c s) Hi') as [G1 [G2 [G3 G4]]]; try congruence.
          { rewrite Ee, Hext, len_app. lia. }
          split; [exact G1|]. right. auto.
        * destruct Hi as [Hl _]. assert (Hlt : s_last s < s_last (feed all c s)) by (apply Hprog; [lia|reflexivity]).
          apply IH; [exact Hi'|]. lia.
  Qed.
End Proofs.
