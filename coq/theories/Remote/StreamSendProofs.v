(* Proofs about Remote/Stream.v, part 3: the send step of process_file_context, window changes, ids *)
From Coq Require Import List NArith Bool Lia Arith.
From AdltV Require Import Base.Res Base.MachInt Remote.Stream Remote.StreamProofs Remote.StreamSearchProofs.
Import ListNotations.
Open Scope N_scope.

Section Send.
  Context {M : Type}.
  Variable part : N.
  Hypothesis part_pos : 1 <= part.
  Variable time_of index_of : M -> N.
  Variable sort_by_time : bool.

  Notation sctx := (sctx M).
  Notation frame := (frame M).
  Notation event := (event M).
  Notation server := (server M).
  Notation tick_stream := (@tick_stream M part).
  Notation tick_streams := (@tick_streams M part).
  Notation step := (@step M part time_of index_of sort_by_time).
  Notation run := (@run M part time_of index_of sort_by_time).

  (* ------------------------------------------------------------------ windows of the stream's message sequence *)
  (* l is the list of the messages at stream positions [a, b) *)
  Definition is_window (all : list M) (s : sctx) (a b : N) (l : list M) : Prop :=
    len l = b - a /\ forall k m, nthN l k = Some m -> stream_msg all s (a + k) = Ok m.

  Lemma is_window_nil all s a b : b <= a -> is_window all s a b [].
  Proof. intros H. split; [rewrite len_nil; lia|]. intros k m Hk. unfold nthN in Hk. destruct (N.to_nat k); discriminate. Qed.

  Lemma nthN_app_r {A} (l1 l2 : list A) k : len l1 <= k -> nthN (l1 ++ l2) k = nthN l2 (k - len l1).
  Proof.
    unfold nthN, len. intros H. rewrite nth_error_app2 by lia. f_equal. lia.
  Qed.

  Lemma is_window_app all s a b c l1 l2 : a <= b -> b <= c ->
    is_window all s a b l1 -> is_window all s b c l2 -> is_window all s a c (l1 ++ l2).
  Proof.
    intros Hab Hbc [H1 H1'] [H2 H2']. split; [rewrite len_app; lia|].
    intros k m Hk. destruct (N.lt_ge_cases k (len l1)) as [Hlt|Hge].
    - rewrite nthN_app_l in Hk by exact Hlt. apply H1'. exact Hk.
    - rewrite nthN_app_r in Hk by exact Hge. apply H2' in Hk. replace (a + k) with (b + (k - len l1)) by lia. exact Hk.
  Qed.

  (* messages already in the stream's sequence stay where they are when the log and the index grow *)
  Lemma stream_msg_stable all new (s s' : sctx) i m :
    s_filters_active s' = s_filters_active s -> (exists ext, s_filtered s' = s_filtered s ++ ext) ->
    stream_msg all s i = Ok m -> stream_msg (all ++ new) s' i = Ok m.
  Proof.
    intros Ea [ext He]. unfold stream_msg. rewrite Ea. destruct (s_filters_active s).
    - unfold nth_chk at 1 3. destruct (nthN (s_filtered s) i) as [p|] eqn:Ep; cbn [bind]; [|discriminate].
      rewrite He, nthN_app_l by (eapply nthN_some_lt; exact Ep). rewrite Ep. cbn [bind].
      unfold nth_chk. destruct (nthN all p) as [m'|] eqn:Em; [|discriminate].
      rewrite nthN_app_l by (eapply nthN_some_lt; exact Em). rewrite Em. auto.
    - cbn [bind]. unfold nth_chk. destruct (nthN all i) as [m'|] eqn:Em; [|discriminate].
      rewrite nthN_app_l by (eapply nthN_some_lt; exact Em). rewrite Em. auto.
  Qed.

  Lemma is_window_stable all new (s s' : sctx) a b l :
    s_filters_active s' = s_filters_active s -> (exists ext, s_filtered s' = s_filtered s ++ ext) ->
    is_window all s a b l -> is_window (all ++ new) s' a b l.
  Proof.
    intros Ea He [H1 H2]. split; [exact H1|]. intros k m Hk. eapply stream_msg_stable; eauto.
  Qed.

  Lemma stream_msg_same_fields all (s s' : sctx) i :
    s_filters_active s' = s_filters_active s -> s_filtered s' = s_filtered s ->
    stream_msg all s' i = stream_msg all s i.
  Proof. intros Ea Ef. unfold stream_msg. rewrite Ea, Ef. reflexivity. Qed.

  Lemma is_window_same_fields all (s s' : sctx) a b l :
    s_filters_active s' = s_filters_active s -> s_filtered s' = s_filtered s ->
    is_window all s a b l -> is_window all s' a b l.
  Proof.
    intros Ea Ef [H1 H2]. split; [exact H1|]. intros k m Hk. rewrite (stream_msg_same_fields all s s' _ Ea Ef). auto.
  Qed.

  (* `for i in msgs_sent.end..new_end` collects exactly that window *)
  Lemma collect_spec all (s : sctx) : stream_ok all s -> forall cnt from,
    from + N.of_nat cnt <= stream_len s (len all) ->
    exists l, collect all s from cnt = Ok l /\
              map fst l = rangeN from cnt /\
              is_window all s from (from + N.of_nat cnt) (map snd l).
  Proof.
    intros Hok. induction cnt as [|c IH]; intros from Hb.
    - exists []. cbn [collect map rangeN]. split; [reflexivity|]. split; [reflexivity|]. apply is_window_nil. lia.
    - cbn [collect]. destruct (Hok from) as [m Hm]; [lia|]. rewrite Hm. cbn [bind].
      destruct (IH (from + 1)) as [l [Hl [Hf Hw]]]; [lia|]. rewrite Hl. cbn [bind].
      exists ((from, m) :: l). split; [reflexivity|]. cbn [map fst snd rangeN]. split; [rewrite Hf; reflexivity|].
      replace (from + N.of_nat (S c)) with (from + 1 + N.of_nat c) by lia.
      change (m :: map snd l) with ([m] ++ map snd l).
      apply (is_window_app all s from (from + 1)); try lia; [|exact Hw].
      split; [rewrite len_cons, len_nil; lia|].
      intros k m' Hk. destruct (N.eq_dec k 0) as [->|Hn].
      + rewrite nthN_cons_0 in Hk. inversion Hk; subst. rewrite N.add_0_r. exact Hm.
      + replace k with ((k - 1) + 1) in Hk by lia. rewrite nthN_cons_succ in Hk. unfold nthN in Hk.
        destruct (N.to_nat (k - 1)); discriminate.
  Qed.

  (* ------------------------------------------------------------------ frames *)
  Definition frame_msgs (id : N) (f : frame) : list M :=
    match f with
    | FMsgs i ms => if i =? id then ms else []
    | FText i _ m => if i =? id then [m] else []
    | _ => []
    end.
  Definition frames_msgs (id : N) (fr : list frame) : list M := flat_map (frame_msgs id) fr.
  Definition is_done_frame (id : N) (f : frame) : bool :=
    match f with FDone i => i =? id | _ => false end.
  (* what the client got under [id] *)
  Definition delivered (id : N) (evs : list event) : list M :=
    flat_map (fun e => match e with EFrame f => frame_msgs id f | _ => [] end) evs.
  Definition end_markers (id : N) (evs : list event) : N :=
    len (filter (fun e => match e with EFrame f => is_done_frame id f | _ => false end) evs).

  Lemma delivered_app id a b : delivered id (a ++ b) = delivered id a ++ delivered id b.
  Proof. unfold delivered. apply flat_map_app. Qed.
  Lemma delivered_frames id fr : delivered id (map (@EFrame M) fr) = frames_msgs id fr.
  Proof.
    unfold delivered, frames_msgs. induction fr as [|f r IH]; cbn [map flat_map]; [reflexivity|]. rewrite IH. reflexivity.
  Qed.
  Lemma frames_msgs_app id a b : frames_msgs id (a ++ b) = frames_msgs id a ++ frames_msgs id b.
  Proof. unfold frames_msgs. apply flat_map_app. Qed.

  Lemma frames_msgs_other id fr : (forall f, In f fr -> frame_id f <> id) -> frames_msgs id fr = [].
  Proof.
    intros H. unfold frames_msgs. induction fr as [|f r IH]; cbn [flat_map]; [reflexivity|].
    rewrite IH by (intros g Hg; apply H; right; exact Hg).
    assert (Hf : frame_id f <> id) by (apply H; left; reflexivity).
    destruct f; cbn [frame_msgs frame_id] in *; try reflexivity;
      (destruct (N.eqb_spec id0 id); [contradiction|reflexivity]).
  Qed.

  Lemma text_frames_msgs id (l : list (N * M)) :
    frames_msgs id (map (fun pm => FText id (fst pm) (snd pm)) l) = map snd l.
  Proof.
    unfold frames_msgs. induction l as [|x r IH]; cbn [map flat_map frame_msgs]; [reflexivity|].
    rewrite N.eqb_refl, IH. reflexivity.
  Qed.

  (* ------------------------------------------------------------------ one stream in one tick *)
  (* the sent range follows the window: msgs_sent = start .. max(start, min(end, stream length)) after a tick *)
  Definition sent_ok (all_len : N) (s : sctx) : Prop :=
    s_sent_start s = s_to_start s /\ s_to_start s <= s_sent_end s /\
    s_sent_end s <= N.max (s_to_start s) (N.min (s_to_end s) (stream_len s all_len)).

  Lemma stream_len_mono (s s' : sctx) n n' :
    s_filters_active s' = s_filters_active s -> (exists ext, s_filtered s' = s_filtered s ++ ext) -> n <= n' ->
    stream_len s n <= stream_len s' n'.
  Proof.
    intros Ea [ext He] Hn. unfold stream_len. rewrite Ea, He, len_app. destruct (s_filters_active s); lia.
  Qed.

  Lemma feed_is_tick_prefix all (s : sctx) :
    process_stream_new_msgs part s (N.min (s_last s) (len all)) (skipN (N.min (s_last s) (len all)) all) max_chunk_server
    = feed part all max_chunk_server s.
  Proof. reflexivity. Qed.

  Definition no_done (fr : list frame) : Prop := forall f i, In f fr -> f <> FDone i.

  (* the part of the tick that sends the due messages of the window *)
  Definition send_part (all : list M) (s1 : sctx) : res (sctx * list frame) :=
    let slen := stream_len s1 (len all) in
    if (s_sent_end s1 <? s_to_end s1) && (s_sent_end s1 <? slen) then
      let new_end := N.min slen (s_to_end s1) in
      bind (collect all s1 (s_sent_end s1) (N.to_nat (new_end - s_sent_end s1))) (fun ms =>
      Ok (set_sent_end s1 new_end,
          if s_binary s1 then [FMsgs (s_id s1) (map snd ms)]
          else map (fun pm => FText (s_id s1) (fst pm) (snd pm)) ms))
    else Ok (s1, []).

  Lemma send_part_spec all (s1 : sctx) : inv all s1 ->
    s_to_start s1 <= s_sent_end s1 ->
    exists e fm,
      send_part all s1 = Ok (set_sent_end s1 e, fm) /\
      s_sent_end s1 <= e /\
      (s_sent_end s1 <= N.max (s_to_start s1) (N.min (s_to_end s1) (stream_len s1 (len all))) ->
       e = N.max (s_to_start s1) (N.min (s_to_end s1) (stream_len s1 (len all)))) /\
      (forall f, In f fm -> frame_id f = s_id s1) /\ no_done fm /\
      is_window all s1 (s_sent_end s1) e (frames_msgs (s_id s1) fm).
  Proof.
    intros Hinv Hst. unfold send_part.
    set (slen := stream_len s1 (len all)).
    assert (Hok : stream_ok all s1) by (apply inv_stream_ok; exact Hinv).
    destruct ((s_sent_end s1 <? s_to_end s1) && (s_sent_end s1 <? slen)) eqn:Esend.
    - apply andb_true_iff in Esend. destruct Esend as [E1 E2]. apply N.ltb_lt in E1, E2.
      set (new_end := N.min slen (s_to_end s1)).
      destruct (collect_spec all s1 Hok (N.to_nat (new_end - s_sent_end s1)) (s_sent_end s1)) as [l [Hl [Hfst Hw]]].
      { unfold new_end. fold slen. lia. }
      rewrite Hl. cbn [bind].
      replace (s_sent_end s1 + N.of_nat (N.to_nat (new_end - s_sent_end s1))) with new_end in Hw by (unfold new_end; lia).
      eexists new_end, _. split; [reflexivity|]. split; [unfold new_end; lia|]. split; [intros _; unfold new_end; lia|].
      split; [|split].
      + intros f Hf. destruct (s_binary s1).
        * destruct Hf as [<-|[]]. reflexivity.
        * apply in_map_iff in Hf. destruct Hf as [pm [<- _]]. reflexivity.
      + intros f i Hf. destruct (s_binary s1).
        * destruct Hf as [<-|[]]. discriminate.
        * apply in_map_iff in Hf. destruct Hf as [pm [<- _]]. discriminate.
      + replace (frames_msgs (s_id s1) (if s_binary s1 then [FMsgs (s_id s1) (map snd l)]
                                         else map (fun pm => FText (s_id s1) (fst pm) (snd pm)) l)) with (map snd l); [exact Hw|].
        destruct (s_binary s1).
        * unfold frames_msgs. cbn [flat_map frame_msgs]. rewrite N.eqb_refl, app_nil_r. reflexivity.
        * symmetry. apply text_frames_msgs.
    - exists (s_sent_end s1), []. split.
      + f_equal. f_equal. destruct s1; reflexivity.
      + split; [lia|]. split.
        * intros Hle. apply andb_false_iff in Esend. fold slen in Hle. fold slen.
          destruct Esend as [E|E]; apply N.ltb_ge in E; lia.
        * split; [intros f []|]. split; [intros f i []|]. apply is_window_nil. lia.
  Qed.

  Lemma tick_stream_unfold all fin (s : sctx) :
    tick_stream all fin s =
    let s1 := feed part all max_chunk_server s in
    let f_info := if s_last s1 =? N.min (s_last s) (len all) then []
                  else [FInfo (s_id s1) (stream_len s1 (len all)) (s_last s1) (len all)] in
    bind (send_part all s1) (fun r =>
      let '(s2, f_msgs) := r in
      let done := ((fin && (len all <=? s_last s2)) || (s_to_end s2 <=? s_sent_end s2)) && negb (s_is_stream s2) in
      Ok (if done then set_done s2 else s2, f_info ++ f_msgs ++ (if done then [FDone (s_id s2)] else []))).
  Proof. reflexivity. Qed.

  (* when is a query finished *)
  Definition done_cond (fin : bool) (all_len : N) (s' : sctx) : bool :=
    ((fin && (all_len <=? s_last s')) || (s_to_end s' <=? s_sent_end s')) && negb (s_is_stream s').

  Lemma tick_stream_spec all fin (s : sctx) : inv all s -> sent_ok (len all) s -> s_is_done s = false ->
    exists s' fr0,
      tick_stream all fin s = Ok (s', fr0 ++ (if s_is_done s' then [FDone (s_id s)] else [])) /\
      inv all s' /\
      s_id s' = s_id s /\ s_to_start s' = s_to_start s /\ s_to_end s' = s_to_end s /\
      s_filters s' = s_filters s /\ s_filters_active s' = s_filters_active s /\ s_is_stream s' = s_is_stream s /\
      s_binary s' = s_binary s /\ s_sent_start s' = s_sent_start s /\
      (exists ext, s_filtered s' = s_filtered s ++ ext) /\ s_last s <= s_last s' /\
      (* everything due is sent in this tick *)
      s_sent_end s' = N.max (s_to_start s) (N.min (s_to_end s) (stream_len s' (len all))) /\
      (forall f, In f fr0 -> frame_id f = s_id s) /\ no_done fr0 /\
      is_window all s' (s_sent_end s) (s_sent_end s') (frames_msgs (s_id s) fr0) /\
      s_is_done s' = done_cond fin (len all) s'.
  Proof.
    intros Hinv [Hs1 [Hs2 Hs3]] Hnd.
    assert (Hc : 1 <= max_chunk_server) by (unfold max_chunk_server; lia).
    destruct (feed_spec part part_pos all max_chunk_server s Hinv Hc)
      as [Hi' [Hmono [Ef [Ea [Es [Ee [Est [Eid [Ese [Ess [Eb [Ed [[ext Hext] _]]]]]]]]]]]]].
    cbv zeta in *. rewrite tick_stream_unfold. cbv zeta.
    set (s1 := feed part all max_chunk_server s) in *.
    assert (Hslen : stream_len s (len all) <= stream_len s1 (len all)).
    { apply stream_len_mono; [exact Ea|exists ext; exact Hext|lia]. }
    destruct (send_part_spec all s1 Hi') as [e [fm [Hsp [He1 [He2 [Hfid [Hfnd Hw]]]]]]]; [lia|].
    rewrite Hsp. cbn [bind].
    set (f_info := if s_last s1 =? N.min (s_last s) (len all) then []
                   else [FInfo (s_id s1) (stream_len s1 (len all)) (s_last s1) (len all)]).
    set (s2 := set_sent_end s1 e).
    set (done := ((fin && (len all <=? s_last s2)) || (s_to_end s2 <=? s_sent_end s2)) && negb (s_is_stream s2)).
    assert (He : e = N.max (s_to_start s) (N.min (s_to_end s) (stream_len s1 (len all)))).
    { rewrite <- Est, <- Ee. apply He2. rewrite Ese, Est, Ee. lia. }
    exists (if done then set_done s2 else s2), (f_info ++ fm).
    assert (Hfields : inv all (if done then set_done s2 else s2) /\
              s_id (if done then set_done s2 else s2) = s_id s /\ s_to_start (if done then set_done s2 else s2) = s_to_start s /\
              s_to_end (if done then set_done s2 else s2) = s_to_end s /\
              s_filters (if done then set_done s2 else s2) = s_filters s /\
              s_filters_active (if done then set_done s2 else s2) = s_filters_active s /\
              s_is_stream (if done then set_done s2 else s2) = s_is_stream s /\
              s_binary (if done then set_done s2 else s2) = s_binary s /\
              s_sent_start (if done then set_done s2 else s2) = s_sent_start s /\
              s_filtered (if done then set_done s2 else s2) = s_filtered s1 /\
              s_last (if done then set_done s2 else s2) = s_last s1 /\
              s_sent_end (if done then set_done s2 else s2) = e /\
              s_is_done (if done then set_done s2 else s2) = done).
    { destruct done eqn:Edone; cbn; repeat split; try (apply Hi'); try congruence. }
    destruct Hfields as [F1 [F2 [F3 [F4 [F5 [F6 [F7 [F8 [F9 [F10 [F11 [F12 F13]]]]]]]]]]]].
    assert (Eslen : stream_len (if done then set_done s2 else s2) (len all) = stream_len s1 (len all)).
    { unfold stream_len. rewrite F6, F10, Ea. reflexivity. }
    split.
    { rewrite F13. rewrite <- app_assoc. do 4 f_equal. destruct done; [|reflexivity]. cbn. rewrite Eid. reflexivity. }
    split; [exact F1|]. split; [exact F2|]. split; [exact F3|]. split; [exact F4|]. split; [exact F5|].
    split; [exact F6|]. split; [exact F7|]. split; [exact F8|]. split; [exact F9|].
    split; [exists ext; rewrite F10; exact Hext|]. split; [rewrite F11; exact Hmono|].
    split; [rewrite F12, Eslen; exact He|].
    split.
    { intros f Hf. apply in_app_or in Hf. destruct Hf as [Hf|Hf]; [|rewrite <- Eid; apply Hfid; exact Hf].
      unfold f_info in Hf. destruct (s_last s1 =? N.min (s_last s) (len all)); [contradiction|].
      destruct Hf as [<-|[]]. cbn. exact Eid. }
    split.
    { intros f i Hf. apply in_app_or in Hf. destruct Hf as [Hf|Hf]; [|apply Hfnd; exact Hf].
      unfold f_info in Hf. destruct (s_last s1 =? N.min (s_last s) (len all)); [contradiction|].
      destruct Hf as [<-|[]]. discriminate. }
    split.
    { rewrite F12, frames_msgs_app.
      replace (frames_msgs (s_id s) f_info) with (@nil M)
        by (unfold f_info; destruct (s_last s1 =? N.min (s_last s) (len all)); reflexivity).
      cbn [app]. rewrite <- Eid, <- Ese.
      apply (is_window_same_fields all s1); [exact (eq_trans F6 (eq_sym Ea))|exact F10|exact Hw]. }
    rewrite F13. unfold done_cond. rewrite F11, F12, F4, F7. unfold done, s2. cbn. rewrite Ee, Es. reflexivity.
  Qed.

  (* ------------------------------------------------------------------ all streams in one tick *)
  Definition pre_ok (all : list M) (s : sctx) : Prop := inv all s /\ sent_ok (len all) s /\ s_is_done s = false.

  (* relation between a stream before and after the tick, with the frames sent for it (end marker apart) *)
  Definition tick_rel (all : list M) (fin : bool) (s s' : sctx) (fr0 : list frame) : Prop :=
    inv all s' /\
    s_id s' = s_id s /\ s_to_start s' = s_to_start s /\ s_to_end s' = s_to_end s /\
    s_filters s' = s_filters s /\ s_filters_active s' = s_filters_active s /\ s_is_stream s' = s_is_stream s /\
    s_binary s' = s_binary s /\ s_sent_start s' = s_sent_start s /\
    (exists ext, s_filtered s' = s_filtered s ++ ext) /\ s_last s <= s_last s' /\
    s_sent_end s' = N.max (s_to_start s) (N.min (s_to_end s) (stream_len s' (len all))) /\
    (forall f, In f fr0 -> frame_id f = s_id s) /\ no_done fr0 /\
    is_window all s' (s_sent_end s) (s_sent_end s') (frames_msgs (s_id s) fr0) /\
    s_is_done s' = done_cond fin (len all) s'.

  Definition frames_of (r : sctx * list frame) : list frame :=
    snd r ++ (if s_is_done (fst r) then [FDone (s_id (fst r))] else []).
  Definition keep (l : list sctx) : list sctx := filter (fun s' => negb (s_is_done s')) l.

  Lemma tick_streams_spec all fin l : Forall (pre_ok all) l ->
    exists rs : list (sctx * list frame),
      Forall2 (fun s r => tick_rel all fin s (fst r) (snd r)) l rs /\
      tick_streams all fin l = Ok (keep (map fst rs), flat_map frames_of rs).
  Proof.
    induction l as [|s r IH]; intros Hpre.
    - exists []. split; [constructor|reflexivity].
    - inversion Hpre as [|? ? [H1 [H2 H3]] Hr]; subst.
      destruct (tick_stream_spec all fin s H1 H2 H3) as [s' [fr0 [Ht Hrel]]].
      destruct (IH Hr) as [rs [Hf Hts]].
      exists ((s', fr0) :: rs). split; [constructor; [exact Hrel|exact Hf]|].
      cbn [Stream.tick_streams]. rewrite Ht. cbn [bind]. rewrite Hts. cbn [bind fst snd map flat_map keep filter frames_of].
      destruct Hrel as [_ [Eid _]]. unfold frames_of. cbn [fst snd]. rewrite Eid.
      destruct (s_is_done s'); reflexivity.
  Qed.

  (* ------------------------------------------------------------------ the invariant of the server *)
  Definition live_ok (all : list M) (next : N) (evs : list event) (s : sctx) : Prop :=
    pre_ok all s /\ s_id s < next /\
    is_window all s (s_to_start s) (s_sent_end s) (delivered (s_id s) evs) /\
    end_markers (s_id s) evs = 0.

  Definition frames_below (next : N) (evs : list event) : Prop :=
    forall f, In (EFrame f) evs -> frame_id f < next.

  Definition SInv (sv : server) (evs : list event) : Prop :=
    Forall (live_ok (sv_all sv) (sv_next_id sv) evs) (sv_streams sv) /\
    NoDup (map (@s_id M) (sv_streams sv)) /\
    frames_below (sv_next_id sv) evs.

  Lemma delivered_fresh next evs id : frames_below next evs -> next <= id -> delivered id evs = [].
  Proof.
    intros Hb Hid. unfold delivered. induction evs as [|e r IH]; cbn [flat_map]; [reflexivity|].
    rewrite IH by (intros f Hf; apply Hb; right; exact Hf).
    destruct e; try reflexivity. rewrite app_nil_r.
    assert (Hf : frame_id f < next) by (apply Hb; left; reflexivity).
    destruct f; cbn [frame_msgs frame_id] in *; try reflexivity;
      (destruct (N.eqb_spec id0 id); [lia|reflexivity]).
  Qed.
  Lemma end_markers_fresh next evs id : frames_below next evs -> next <= id -> end_markers id evs = 0.
  Proof.
    intros Hb Hid. unfold end_markers. induction evs as [|e r IH]; [reflexivity|]. cbn [filter].
    assert (IH' := IH (fun f Hf => Hb f (or_intror Hf))).
    destruct e; try exact IH'.
    assert (Hf : frame_id f < next) by (apply Hb; left; reflexivity).
    destruct f; cbn [is_done_frame frame_id] in *; try exact IH'.
    destruct (N.eqb_spec id0 id); [lia|exact IH'].
  Qed.
  Lemma end_markers_app id a b : end_markers id (a ++ b) = end_markers id a + end_markers id b.
  Proof. unfold end_markers. rewrite filter_app, len_app. reflexivity. Qed.

  Lemma sent_ok_arrive (all new : list M) (s : sctx) : sent_ok (len all) s -> sent_ok (len (all ++ new)) s.
  Proof.
    intros [H1 [H2 H3]]. split; [exact H1|]. split; [exact H2|].
    assert (Hm : stream_len s (len all) <= stream_len s (len (all ++ new))).
    { apply stream_len_mono; [reflexivity|exists (@nil N); rewrite app_nil_r; reflexivity|rewrite len_app; lia]. }
    lia.
  Qed.

  (* frames of the other streams do not count for this id *)
  Lemma frames_of_other id (r : sctx * list frame) :
    (forall f, In f (snd r) -> frame_id f = s_id (fst r)) -> s_id (fst r) <> id ->
    frames_msgs id (frames_of r) = [] /\ (forall f, In f (frames_of r) -> is_done_frame id f = false).
  Proof.
    intros Hid Hne. split.
    - apply frames_msgs_other. intros f Hf. unfold frames_of in Hf. apply in_app_or in Hf. destruct Hf as [Hf|Hf].
      + rewrite (Hid f Hf). exact Hne.
      + destruct (s_is_done (fst r)); [|contradiction]. destruct Hf as [<-|[]]. exact Hne.
    - intros f Hf. unfold frames_of in Hf. apply in_app_or in Hf. destruct Hf as [Hf|Hf].
      + pose proof (Hid f Hf) as E. destruct f; try reflexivity. cbn in *. apply N.eqb_neq. congruence.
      + destruct (s_is_done (fst r)); [|contradiction]. destruct Hf as [<-|[]]. cbn. apply N.eqb_neq. exact Hne.
  Qed.

  Definition count_done id (fr : list frame) : N := len (filter (is_done_frame id) fr).
  Lemma end_markers_frames id fr : end_markers id (map (@EFrame M) fr) = count_done id fr.
  Proof.
    unfold end_markers, count_done. induction fr as [|f r IH]; [reflexivity|]. cbn [map filter].
    destruct (is_done_frame id f); [rewrite !len_cons|]; unfold len in *; lia.
  Qed.
  Lemma count_done_app id a b : count_done id (a ++ b) = count_done id a + count_done id b.
  Proof. unfold count_done. rewrite filter_app, len_app. reflexivity. Qed.
  Lemma count_done_none id fr : (forall f, In f fr -> is_done_frame id f = false) -> count_done id fr = 0.
  Proof.
    intros H. unfold count_done. induction fr as [|f r IH]; [reflexivity|]. cbn [filter].
    rewrite (H f (or_introl eq_refl)). apply IH. intros g Hg. apply H. right. exact Hg.
  Qed.

  Lemma tick_rel_ids all fin (s : sctx) (r : sctx * list frame) : tick_rel all fin s (fst r) (snd r) ->
    s_id (fst r) = s_id s /\ (forall f, In f (snd r) -> frame_id f = s_id (fst r)) /\ no_done (snd r).
  Proof.
    intros [_ [Eid [_ [_ [_ [_ [_ [_ [_ [_ [_ [_ [Hfid [Hnod _]]]]]]]]]]]]]].
    split; [exact Eid|]. split; [|exact Hnod]. intros f Hf. rewrite Eid. apply Hfid. exact Hf.
  Qed.

  (* streams with other ids contribute nothing under this id *)
  Lemma others_nothing all fin id l rs :
    Forall2 (fun s r => tick_rel all fin s (fst r) (snd r)) l rs -> ~ In id (map (@s_id M) l) ->
    frames_msgs id (flat_map frames_of rs) = [] /\ count_done id (flat_map frames_of rs) = 0.
  Proof.
    intros Hf. induction Hf as [|s1 r1 l' rs' Hrel Hrest IH]; intros Hnotin; [split; reflexivity|].
    cbn [flat_map]. rewrite frames_msgs_app, count_done_app.
    destruct (tick_rel_ids _ _ _ _ Hrel) as [E1 [E2 _]].
    assert (Hne : s_id (fst r1) <> id).
    { rewrite E1. intros E. apply Hnotin. cbn [map]. left. exact E. }
    destruct (frames_of_other id r1 E2 Hne) as [G1 G2].
    rewrite G1, (count_done_none _ _ G2).
    destruct IH as [G3 G4]; [intros Hx; apply Hnotin; right; exact Hx|].
    rewrite G3, G4. split; reflexivity.
  Qed.

  (* what the frames of one whole tick contain for the id of one of the streams *)
  Lemma tick_frames_for all fin l rs :
    Forall2 (fun s r => tick_rel all fin s (fst r) (snd r)) l rs -> NoDup (map (@s_id M) l) ->
    forall s r, In (s, r) (combine l rs) ->
      frames_msgs (s_id s) (flat_map frames_of rs) = frames_msgs (s_id s) (snd r) /\
      count_done (s_id s) (flat_map frames_of rs) = (if s_is_done (fst r) then 1 else 0).
  Proof.
    intros Hf. induction Hf as [|s0 r0 l' rs' Hrel Hrest IH]; intros Hnd s r Hin; [contradiction|].
    cbn [combine] in Hin. cbn [map] in Hnd. inversion Hnd as [|? ? Hnotin Hnd']; subst.
    cbn [flat_map]. rewrite frames_msgs_app, count_done_app.
    destruct Hin as [Hin|Hin].
    - inversion Hin; subst s0 r0. clear Hin.
      destruct (tick_rel_ids _ _ _ _ Hrel) as [Eid [Hfid Hnod]].
      destruct (others_nothing all fin (s_id s) l' rs' Hrest Hnotin) as [R1 R2].
      rewrite R1, R2, app_nil_r, N.add_0_r.
      unfold frames_of. rewrite frames_msgs_app, count_done_app.
      rewrite (count_done_none (s_id s) (snd r)).
      2:{ intros f Hf0. destruct f; try reflexivity. exfalso. exact (Hnod _ _ Hf0 eq_refl). }
      destruct (s_is_done (fst r)).
      + cbn [frames_msgs flat_map frame_msgs]. rewrite app_nil_r. split; [reflexivity|].
        unfold count_done. cbn [filter is_done_frame]. rewrite Eid, N.eqb_refl. reflexivity.
      + cbn. rewrite app_nil_r. split; reflexivity.
    - destruct (tick_rel_ids _ _ _ _ Hrel) as [Eid [Hfid _]].
      assert (Hne : s_id (fst r0) <> s_id s).
      { rewrite Eid. intros E. apply Hnotin.
        apply in_map_iff. exists s. split; [symmetry; exact E|]. eapply in_combine_l. exact Hin. }
      destruct (frames_of_other (s_id s) r0 Hfid Hne) as [G1 G2].
      rewrite G1, (count_done_none _ _ G2). cbn [app]. rewrite N.add_0_l.
      apply (IH Hnd' s r Hin).
  Qed.

  (* ------------------------------------------------------------------ Forall2 / combine helpers *)
  Lemma Forall2_combine_in {A B} (R : A -> B -> Prop) l rs : Forall2 R l rs ->
    forall a b, In (a, b) (combine l rs) -> R a b.
  Proof.
    intros H. induction H as [|x y l' rs' Hxy Hr IH]; intros a b Hin; [contradiction|].
    cbn [combine] in Hin. destruct Hin as [Hin|Hin]; [inversion Hin; subst; exact Hxy|apply IH; exact Hin].
  Qed.
  Lemma Forall2_in_r {A B} (R : A -> B -> Prop) l rs : Forall2 R l rs ->
    forall b, In b rs -> exists a, In (a, b) (combine l rs).
  Proof.
    intros H. induction H as [|x y l' rs' Hxy Hr IH]; intros b Hin; [contradiction|].
    destruct Hin as [<-|Hin]; [exists x; left; reflexivity|]. destruct (IH b Hin) as [a Ha]. exists a. right. exact Ha.
  Qed.
  Lemma Forall2_in_l {A B} (R : A -> B -> Prop) l rs : Forall2 R l rs ->
    forall a, In a l -> exists b, In (a, b) (combine l rs).
  Proof.
    intros H. induction H as [|x y l' rs' Hxy Hr IH]; intros a Hin; [contradiction|].
    destruct Hin as [<-|Hin]; [exists y; left; reflexivity|]. destruct (IH a Hin) as [b Hb]. exists b. right. exact Hb.
  Qed.

  Lemma tick_ids_same all fin l rs : Forall2 (fun s r => tick_rel all fin s (fst r) (snd r)) l rs ->
    map (@s_id M) (map fst rs) = map (@s_id M) l.
  Proof.
    intros H. induction H as [|x y l' rs' Hxy Hr IH]; [reflexivity|]. cbn [map]. rewrite IH.
    destruct (tick_rel_ids _ _ _ _ Hxy) as [E _]. rewrite E. reflexivity.
  Qed.

  Lemma NoDup_map_filter {A B} (f : A -> B) (p : A -> bool) l : NoDup (map f l) -> NoDup (map f (filter p l)).
  Proof.
    induction l as [|x r IH]; intros H; [constructor|]. cbn [map] in H. inversion H as [|? ? Hn Hr]; subst.
    cbn [filter]. destruct (p x); [|apply IH; exact Hr]. cbn [map]. constructor; [|apply IH; exact Hr].
    intros Hin. apply Hn. apply in_map_iff in Hin. destruct Hin as [y [Ey Hy]]. apply filter_In in Hy.
    apply in_map_iff. exists y. split; [exact Ey|apply Hy].
  Qed.

  Lemma in_frames_of_flat (f : frame) rs : In f (flat_map frames_of rs) ->
    exists r, In r rs /\ In f (frames_of r).
  Proof. intros H. apply in_flat_map in H. exact H. Qed.

  (* ------------------------------------------------------------------ one call of process_file_context *)
  Lemma step_tick (sv : server) evs0 new fin : SInv sv evs0 ->
    exists rs,
      let all' := sv_all sv ++ new in
      Forall2 (fun s r => tick_rel all' fin s (fst r) (snd r)) (sv_streams sv) rs /\
      step sv (OTick new fin) =
        Ok ({| sv_all := all'; sv_streams := keep (map fst rs); sv_next_id := sv_next_id sv |},
            map (@EFrame M) (flat_map frames_of rs)) /\
      SInv {| sv_all := all'; sv_streams := keep (map fst rs); sv_next_id := sv_next_id sv |}
           (evs0 ++ map (@EFrame M) (flat_map frames_of rs)) /\
      (* for every stream, live or just ended: what was delivered under its id so far is the window up to
         the sent position, and the end marker count *)
      (forall s r, In (s, r) (combine (sv_streams sv) rs) ->
         is_window all' (fst r) (s_to_start s) (s_sent_end (fst r))
                   (delivered (s_id s) (evs0 ++ map (@EFrame M) (flat_map frames_of rs))) /\
         end_markers (s_id s) (evs0 ++ map (@EFrame M) (flat_map frames_of rs)) = (if s_is_done (fst r) then 1 else 0)).
  Proof.
    intros [Hlive [Hnd Hbelow]]. cbv zeta.
    set (all' := sv_all sv ++ new).
    assert (Hpre : Forall (pre_ok all') (sv_streams sv)).
    { apply Forall_forall. intros s Hs. pose proof (proj1 (Forall_forall _ _) Hlive s Hs) as [[H1 [H2 H3]] _].
      split; [apply inv_arrive; exact H1|]. split; [apply sent_ok_arrive; exact H2|exact H3]. }
    destruct (tick_streams_spec all' fin (sv_streams sv) Hpre) as [rs [Hf Hts]].
    exists rs. split; [exact Hf|].
    split.
    { unfold Stream.step. fold all'. rewrite Hts. cbn [bind fst snd]. reflexivity. }
    assert (Hdeliv : forall s r, In (s, r) (combine (sv_streams sv) rs) ->
         is_window all' (fst r) (s_to_start s) (s_sent_end (fst r))
                   (delivered (s_id s) (evs0 ++ map (@EFrame M) (flat_map frames_of rs))) /\
         end_markers (s_id s) (evs0 ++ map (@EFrame M) (flat_map frames_of rs)) = (if s_is_done (fst r) then 1 else 0)).
    { intros s r Hin.
      assert (Hs : In s (sv_streams sv)) by (eapply in_combine_l; exact Hin).
      pose proof (proj1 (Forall_forall _ _) Hlive s Hs) as [[H1 [H2 H3]] [H4 [H5 H6]]].
      pose proof (Forall2_combine_in _ _ _ Hf s r Hin) as Hrel.
      destruct (tick_frames_for all' fin _ _ Hf Hnd s r Hin) as [T1 T2].
      destruct Hrel as [R1 [R2 [R3 [R4 [R5 [R6 [R7 [R8 [R9 [R10 [R11 [R12 [R13 [R14 [R15 R16]]]]]]]]]]]]]]].
      destruct H2 as [S1 [S2 S3]].
      assert (Hmono : stream_len s (len (sv_all sv)) <= stream_len (fst r) (len all')).
      { apply stream_len_mono; [exact R6|exact R10|unfold all'; rewrite len_app; lia]. }
      split.
      - rewrite delivered_app, delivered_frames, T1.
        apply (is_window_app all' (fst r) (s_to_start s) (s_sent_end s)); [exact S2|rewrite R12; lia| |exact R15].
        unfold all'. apply (is_window_stable (sv_all sv) new s); [exact R6|exact R10|exact H5].
      - rewrite end_markers_app, end_markers_frames, T2, H6. destruct (s_is_done (fst r)); reflexivity. }
    split; [|exact Hdeliv].
    split; [|split].
    - cbn [sv_streams sv_all sv_next_id]. apply Forall_forall. intros s' Hs'.
      unfold keep in Hs'. apply filter_In in Hs'. destruct Hs' as [Hs' Hnd']. apply negb_true_iff in Hnd'.
      apply in_map_iff in Hs'. destruct Hs' as [r [<- Hr]].
      destruct (Forall2_in_r _ _ _ Hf r Hr) as [s Hin].
      assert (Hs : In s (sv_streams sv)) by (eapply in_combine_l; exact Hin).
      pose proof (proj1 (Forall_forall _ _) Hlive s Hs) as [[H1 [H2 H3]] [H4 [H5 H6]]].
      pose proof (Forall2_combine_in _ _ _ Hf s r Hin) as Hrel.
      destruct (Hdeliv s r Hin) as [D1 D2].
      destruct Hrel as [R1 [R2 [R3 [R4 [R5 [R6 [R7 [R8 [R9 [R10 [R11 [R12 [R13 [R14 [R15 R16]]]]]]]]]]]]]]].
      destruct H2 as [S1 [S2 S3]].
      split; [|split; [|split]].
      + split; [exact R1|]. split; [|exact Hnd'].
        split; [rewrite R9, R3; exact S1|]. rewrite R3, R4, R12. split; lia.
      + rewrite R2. exact H4.
      + rewrite R2, R3. exact D1.
      + rewrite R2, D2, Hnd'. reflexivity.
    - cbn [sv_streams]. unfold keep. apply NoDup_map_filter. rewrite (tick_ids_same _ _ _ _ Hf). exact Hnd.
    - cbn [sv_next_id]. intros f Hfin. apply in_app_or in Hfin. destruct Hfin as [Hfin|Hfin]; [apply Hbelow; exact Hfin|].
      apply in_map_iff in Hfin. destruct Hfin as [f' [Ef Hf']]. inversion Ef; subst f'. clear Ef.
      destruct (in_frames_of_flat f rs Hf') as [r [Hr Hfr]].
      destruct (Forall2_in_r _ _ _ Hf r Hr) as [s Hin].
      assert (Hs : In s (sv_streams sv)) by (eapply in_combine_l; exact Hin).
      pose proof (proj1 (Forall_forall _ _) Hlive s Hs) as [_ [H4 _]].
      destruct (tick_rel_ids _ _ _ _ (Forall2_combine_in _ _ _ Hf s r Hin)) as [Eid [Hfid _]].
      unfold frames_of in Hfr. apply in_app_or in Hfr. destruct Hfr as [Hfr|Hfr].
      + rewrite (Hfid f Hfr), Eid. exact H4.
      + destruct (s_is_done (fst r)); [|contradiction]. destruct Hfr as [<-|[]]. cbn. rewrite Eid. exact H4.
  Qed.

  (* ------------------------------------------------------------------ the other commands *)
  Definition no_frames (ev : list event) : Prop := forall f, ~ In (EFrame f) ev.

  Lemma delivered_no_frames id evs ev : no_frames ev -> delivered id (evs ++ ev) = delivered id evs.
  Proof.
    intros H. rewrite delivered_app. replace (delivered id ev) with (@nil M); [apply app_nil_r|].
    unfold delivered. induction ev as [|e r IH]; [reflexivity|]. cbn [flat_map].
    rewrite <- IH by (intros f Hf; apply (H f); right; exact Hf).
    destruct e; try reflexivity. exfalso. apply (H f). left. reflexivity.
  Qed.
  Lemma end_markers_no_frames id evs ev : no_frames ev -> end_markers id (evs ++ ev) = end_markers id evs.
  Proof.
    intros H. rewrite end_markers_app. replace (end_markers id ev) with 0; [lia|].
    unfold end_markers. induction ev as [|e r IH]; [reflexivity|]. cbn [filter].
    assert (IH' := IH (fun f Hf => H f (or_intror Hf))).
    destruct e; try exact IH'. exfalso. apply (H f). left. reflexivity.
  Qed.
  Lemma frames_below_no_frames next next' evs ev : frames_below next evs -> no_frames ev -> next <= next' ->
    frames_below next' (evs ++ ev).
  Proof.
    intros Hb Hn Hle f Hf. apply in_app_or in Hf. destruct Hf as [Hf|Hf]; [pose proof (Hb f Hf); lia|].
    exfalso. exact (Hn f Hf).
  Qed.

  Lemma live_ok_weaken all next next' evs ev (s : sctx) : live_ok all next evs s -> no_frames ev -> next <= next' ->
    live_ok all next' (evs ++ ev) s.
  Proof.
    intros [H1 [H2 [H3 H4]]] Hn Hle. split; [exact H1|]. split; [lia|].
    rewrite delivered_no_frames, end_markers_no_frames by exact Hn. auto.
  Qed.

  Lemma find_stream_split id (l : list sctx) s : find_stream id l = Some s ->
    exists l1 l2, l = l1 ++ s :: l2 /\ s_id s = id /\
                  (forall s', replace_stream id s' l = l1 ++ s' :: l2) /\ remove_stream id l = l1 ++ l2.
  Proof.
    induction l as [|x r IH]; cbn [find_stream]; [discriminate|].
    destruct (s_id x =? id) eqn:E.
    - intros H. inversion H; subst x. pose proof E as E'. apply N.eqb_eq in E'. exists [], r.
      cbn [app replace_stream remove_stream]. rewrite E. auto.
    - intros H. destruct (IH H) as [l1 [l2 [E1 [E2 [E3 E4]]]]]. exists (x :: l1), l2.
      cbn [app replace_stream remove_stream]. rewrite E. rewrite E1 at 1. split; [reflexivity|]. split; [exact E2|].
      split; [intros s'; rewrite E3; reflexivity|rewrite E4; reflexivity].
  Qed.

  Lemma fresh_live_ok all next evs ev id is_stream binary fs a b :
    frames_below next evs -> no_frames ev -> next <= id ->
    live_ok all (id + 1) (evs ++ ev) (new_ctx id is_stream binary fs a b).
  Proof.
    intros Hb Hn Hid. split; [|split; [|split]].
    - split; [apply inv_new|]. split; [|reflexivity]. unfold sent_ok, new_ctx. cbn. split; [reflexivity|]. split; lia.
    - cbn. lia.
    - cbn [s_id new_ctx s_to_start s_sent_end]. rewrite delivered_no_frames by exact Hn.
      rewrite (delivered_fresh next evs id Hb Hid). apply is_window_nil. lia.
    - cbn [s_id new_ctx]. rewrite end_markers_no_frames by exact Hn. apply (end_markers_fresh next evs id Hb Hid).
  Qed.

  Lemma window_live_ok all next evs ev (s : sctx) nid a b :
    live_ok all next evs s -> frames_below next evs -> no_frames ev -> next <= nid ->
    live_ok all (nid + 1) (evs ++ ev) (set_window s nid a b).
  Proof.
    intros [[H1 [H2 H3]] _] Hb Hn Hid. split; [|split; [|split]].
    - split; [exact H1|]. split; [|exact H3]. unfold sent_ok, set_window. cbn. split; [reflexivity|]. split; lia.
    - cbn. lia.
    - cbn [s_id set_window s_to_start s_sent_end]. rewrite delivered_no_frames by exact Hn.
      rewrite (delivered_fresh next evs nid Hb Hid). apply is_window_nil. lia.
    - cbn [s_id set_window]. rewrite end_markers_no_frames by exact Hn. apply (end_markers_fresh next evs nid Hb Hid).
  Qed.

  Lemma NoDup_insert {A} (l1 l2 : list A) x : NoDup (l1 ++ l2) -> ~ In x (l1 ++ l2) -> NoDup (l1 ++ x :: l2).
  Proof.
    induction l1 as [|y r IH]; cbn [app]; intros Hnd Hx.
    - constructor; assumption.
    - inversion Hnd as [|? ? Hy Hr]; subst. constructor.
      + intros Hin. apply in_app_or in Hin. destruct Hin as [Hin|[Hin|Hin]].
        * apply Hy. apply in_or_app. left. exact Hin.
        * subst. apply Hx. left. reflexivity.
        * apply Hy. apply in_or_app. right. exact Hin.
      + apply IH; [exact Hr|]. intros Hin. apply Hx. right. exact Hin.
  Qed.
  Lemma NoDup_app_single {A} (l : list A) x : NoDup l -> ~ In x l -> NoDup (l ++ [x]).
  Proof. intros H1 H2. apply NoDup_insert; rewrite app_nil_r; assumption. Qed.
  Lemma NoDup_replace_fresh {A} (l1 l2 : list A) old new :
    NoDup (l1 ++ old :: l2) -> ~ In new (l1 ++ l2) -> NoDup (l1 ++ new :: l2).
  Proof. intros H1 H2. apply NoDup_insert; [apply NoDup_remove_1 in H1; exact H1|exact H2]. Qed.

  Lemma no_frames_single (e : event) : (forall f, e <> EFrame f) -> no_frames [e].
  Proof. intros H f [Hf|[]]. exact (H f Hf). Qed.

  Lemma step_preserves (sv : server) evs0 o : SInv sv evs0 ->
    exists sv' ev, step sv o = Ok (sv', ev) /\ SInv sv' (evs0 ++ ev).
  Proof.
    intros HI. destruct o as [new fin|is_stream binary fs a b|id a b|id|id a maxr fs|id idx|id t|].
    - destruct (step_tick sv evs0 new fin HI) as [rs [_ [Hs [HI' _]]]]. cbv zeta in *. eauto.
    - destruct HI as [Hlive [Hnd Hbelow]]. cbn [Stream.step]. eexists _, _. split; [reflexivity|].
      assert (Hn : no_frames [EReplyNew (M:=M) (sv_next_id sv)]) by (apply no_frames_single; discriminate).
      split; [|split]; cbn [sv_all sv_streams sv_next_id].
      + apply Forall_app. split.
        * apply Forall_forall. intros s Hs. apply (live_ok_weaken _ (sv_next_id sv)); [exact (proj1 (Forall_forall _ _) Hlive s Hs)|exact Hn|lia].
        * constructor; [|constructor]. apply (fresh_live_ok _ (sv_next_id sv)); [exact Hbelow|exact Hn|lia].
      + rewrite map_app. cbn [map]. apply NoDup_app_single; [exact Hnd|].
        intros Hin. apply in_map_iff in Hin. destruct Hin as [s [Es Hs]].
        pose proof (proj1 (Forall_forall _ _) Hlive s Hs) as [_ [H4 _]]. cbn in Es. lia.
      + apply (frames_below_no_frames (sv_next_id sv)); [exact Hbelow|exact Hn|lia].
    - destruct HI as [Hlive [Hnd Hbelow]]. cbn [Stream.step].
      destruct (find_stream id (sv_streams sv)) as [s|] eqn:Ef.
      + destruct (find_stream_split _ _ _ Ef) as [l1 [l2 [E1 [E2 [E3 E4]]]]].
        eexists _, _. split; [reflexivity|].
        assert (Hn : no_frames [EReplyWindow (M:=M) id (sv_next_id sv) a b]) by (apply no_frames_single; discriminate).
        rewrite E3. rewrite E1 in Hlive, Hnd.
        apply Forall_app in Hlive. destruct Hlive as [HL1 HL2]. inversion HL2 as [|? ? Hs HL3]; subst.
        split; [|split]; cbn [sv_all sv_streams sv_next_id].
        * apply Forall_app. split.
          -- apply Forall_forall. intros x Hx. apply (live_ok_weaken _ (sv_next_id sv)); [exact (proj1 (Forall_forall _ _) HL1 x Hx)|exact Hn|lia].
          -- constructor.
             ++ apply (window_live_ok _ (sv_next_id sv)); [exact Hs|exact Hbelow|exact Hn|lia].
             ++ apply Forall_forall. intros x Hx. apply (live_ok_weaken _ (sv_next_id sv)); [exact (proj1 (Forall_forall _ _) HL3 x Hx)|exact Hn|lia].
        * rewrite map_app in *. cbn [map] in *. apply NoDup_replace_fresh with (old := s_id s); [exact Hnd|].
          cbn. intros Hin. apply in_app_or in Hin.
          assert (Hlt : forall x, In x (l1 ++ l2) -> s_id x < sv_next_id sv).
          { intros x Hx. apply in_app_or in Hx. destruct Hx as [Hx|Hx].
            - exact (proj1 (proj2 (proj1 (Forall_forall _ _) HL1 x Hx))).
            - exact (proj1 (proj2 (proj1 (Forall_forall _ _) HL3 x Hx))). }
          destruct Hin as [Hin|Hin]; apply in_map_iff in Hin; destruct Hin as [x [Ex Hx]];
            (assert (Hx' : In x (l1 ++ l2)) by (apply in_or_app; auto)); pose proof (Hlt x Hx'); lia.
        * apply (frames_below_no_frames (sv_next_id sv)); [exact Hbelow|exact Hn|lia].
      + eexists _, _. split; [reflexivity|].
        assert (Hn : no_frames [EErr (M:=M)]) by (apply no_frames_single; discriminate).
        split; [|split].
        * apply Forall_forall. intros x Hx. apply (live_ok_weaken _ (sv_next_id sv)); [exact (proj1 (Forall_forall _ _) Hlive x Hx)|exact Hn|lia].
        * exact Hnd.
        * apply (frames_below_no_frames (sv_next_id sv)); [exact Hbelow|exact Hn|lia].
    - destruct HI as [Hlive [Hnd Hbelow]]. cbn [Stream.step].
      destruct (find_stream id (sv_streams sv)) as [s|] eqn:Ef.
      + destruct (find_stream_split _ _ _ Ef) as [l1 [l2 [E1 [E2 [E3 E4]]]]].
        eexists _, _. split; [reflexivity|].
        assert (Hn : no_frames [EReplyStop (M:=M) id]) by (apply no_frames_single; discriminate).
        rewrite E4. rewrite E1 in Hlive, Hnd.
        apply Forall_app in Hlive. destruct Hlive as [HL1 HL2]. inversion HL2 as [|? ? Hs HL3]; subst.
        split; [|split]; cbn [sv_all sv_streams sv_next_id].
        * apply Forall_app. split; apply Forall_forall; intros x Hx;
            (apply (live_ok_weaken _ (sv_next_id sv)); [|exact Hn|lia]);
            [exact (proj1 (Forall_forall _ _) HL1 x Hx)|exact (proj1 (Forall_forall _ _) HL3 x Hx)].
        * rewrite map_app in *. cbn [map] in Hnd. apply NoDup_remove_1 in Hnd. exact Hnd.
        * apply (frames_below_no_frames (sv_next_id sv)); [exact Hbelow|exact Hn|lia].
      + eexists _, _. split; [reflexivity|].
        assert (Hn : no_frames [EErr (M:=M)]) by (apply no_frames_single; discriminate).
        split; [|split].
        * apply Forall_forall. intros x Hx. apply (live_ok_weaken _ (sv_next_id sv)); [exact (proj1 (Forall_forall _ _) Hlive x Hx)|exact Hn|lia].
        * exact Hnd.
        * apply (frames_below_no_frames (sv_next_id sv)); [exact Hbelow|exact Hn|lia].
    - destruct HI as [Hlive [Hnd Hbelow]]. cbn [Stream.step].
      assert (Hgen : forall ev, no_frames ev -> SInv sv (evs0 ++ ev)).
      { intros ev Hn. split; [|split].
        - apply Forall_forall. intros x Hx. apply (live_ok_weaken _ (sv_next_id sv)); [exact (proj1 (Forall_forall _ _) Hlive x Hx)|exact Hn|lia].
        - exact Hnd.
        - apply (frames_below_no_frames (sv_next_id sv)); [exact Hbelow|exact Hn|lia]. }
      destruct (find_stream id (sv_streams sv)) as [s|] eqn:Ef.
      + destruct (find_stream_split _ _ _ Ef) as [l1 [l2 [E1 _]]].
        assert (Hs : In s (sv_streams sv)) by (rewrite E1; apply in_or_app; right; left; reflexivity).
        pose proof (proj1 (Forall_forall _ _) Hlive s Hs) as [[H1 _] _].
        destruct (stream_search_spec (sv_all sv) s fs maxr (inv_stream_ok _ _ H1) a) as [j [Hj _]].
        rewrite Hj. cbn [bind fst snd]. eexists _, _. split; [reflexivity|]. apply Hgen. apply no_frames_single. discriminate.
      + eexists _, _. split; [reflexivity|]. apply Hgen. apply no_frames_single. discriminate.
    - destruct HI as [Hlive [Hnd Hbelow]]. cbn [Stream.step].
      assert (Hgen : forall ev, no_frames ev -> SInv sv (evs0 ++ ev)).
      { intros ev Hn. split; [|split].
        - apply Forall_forall. intros x Hx. apply (live_ok_weaken _ (sv_next_id sv)); [exact (proj1 (Forall_forall _ _) Hlive x Hx)|exact Hn|lia].
        - exact Hnd.
        - apply (frames_below_no_frames (sv_next_id sv)); [exact Hbelow|exact Hn|lia]. }
      destruct (find_stream id (sv_streams sv)); eexists _, _; (split; [reflexivity|]); apply Hgen; apply no_frames_single; discriminate.
    - destruct HI as [Hlive [Hnd Hbelow]]. cbn [Stream.step].
      assert (Hgen : forall ev, no_frames ev -> SInv sv (evs0 ++ ev)).
      { intros ev Hn. split; [|split].
        - apply Forall_forall. intros x Hx. apply (live_ok_weaken _ (sv_next_id sv)); [exact (proj1 (Forall_forall _ _) Hlive x Hx)|exact Hn|lia].
        - exact Hnd.
        - apply (frames_below_no_frames (sv_next_id sv)); [exact Hbelow|exact Hn|lia]. }
      destruct (find_stream id (sv_streams sv)); eexists _, _; (split; [reflexivity|]); apply Hgen; apply no_frames_single; discriminate.
    - destruct HI as [Hlive [Hnd Hbelow]]. cbn [Stream.step]. eexists _, _. split; [reflexivity|].
      assert (Hn : no_frames [EErr (M:=M)]) by (apply no_frames_single; discriminate).
      split; [|split].
      + apply Forall_forall. intros x Hx. apply (live_ok_weaken _ (sv_next_id sv)); [exact (proj1 (Forall_forall _ _) Hlive x Hx)|exact Hn|lia].
      + exact Hnd.
      + apply (frames_below_no_frames (sv_next_id sv)); [exact Hbelow|exact Hn|lia].
  Qed.

  (* no history of commands and arrivals makes the stream machinery panic; the invariant holds throughout *)
  Theorem run_preserves ops : forall (sv : server) evs0, SInv sv evs0 ->
    exists sv' evs, run sv ops = Ok (sv', evs) /\ SInv sv' (evs0 ++ evs).
  Proof.
    induction ops as [|o r IH]; intros sv evs0 HI.
    - exists sv, []. split; [reflexivity|]. rewrite app_nil_r. exact HI.
    - destruct (step_preserves sv evs0 o HI) as [sv1 [ev [Hs HI1]]].
      destruct (IH sv1 (evs0 ++ ev) HI1) as [sv2 [evs [Hr HI2]]].
      exists sv2, (ev ++ evs). cbn [Stream.run]. rewrite Hs. cbn [bind fst snd]. rewrite Hr. cbn [bind fst snd].
      split; [reflexivity|]. rewrite app_assoc. exact HI2.
  Qed.

  Lemma SInv_init n0 : SInv (server0 n0) [].
  Proof. split; [constructor|]. split; [constructor|]. intros f []. Qed.

  (* ------------------------------------------------------------------ the filtered message sequence *)
  (* the stream's message sequence once everything is processed *)
  Definition fseq (all : list M) (s : sctx) : list M :=
    if s_filters_active s then filter (match_filters (s_filters s)) all else all.

  Lemma matching_filter_nth (fs : fset M) l : forall pre i p m,
    nthN (matching_idxs fs l (len pre)) i = Some p -> nthN (pre ++ l) p = Some m ->
    nthN (filter (match_filters fs) l) i = Some m.
  Proof.
    induction l as [|x r IH]; intros pre i p m Hi Hp; cbn [matching_idxs filter] in *.
    - unfold nthN in Hi. destruct (N.to_nat i); discriminate.
    - assert (Epre : pre ++ x :: r = (pre ++ [x]) ++ r) by (rewrite <- app_assoc; reflexivity).
      assert (Elen : len pre + 1 = len (pre ++ [x])) by (rewrite len_app, len_cons, len_nil; lia).
      destruct (match_filters fs x).
      + destruct (N.eq_dec i 0) as [->|Hn].
        * rewrite nthN_cons_0 in Hi. inversion Hi; subst p.
          rewrite nthN_app_r in Hp by lia. rewrite N.sub_diag, nthN_cons_0 in Hp. rewrite nthN_cons_0. exact Hp.
        * replace i with ((i - 1) + 1) in Hi |- * by lia. rewrite nthN_cons_succ in Hi. rewrite nthN_cons_succ.
          rewrite Elen in Hi. rewrite Epre in Hp. exact (IH _ _ _ _ Hi Hp).
      + rewrite Elen in Hi. rewrite Epre in Hp. exact (IH _ _ _ _ Hi Hp).
  Qed.
  Lemma len_matching_filter (fs : fset M) l : forall off, len (matching_idxs fs l off) = len (filter (match_filters fs) l).
  Proof.
    induction l as [|x r IH]; intros off; cbn [matching_idxs filter]; [reflexivity|].
    destruct (match_filters fs x); [rewrite !len_cons|]; rewrite IH; reflexivity.
  Qed.

  Lemma stream_is_fseq all (s : sctx) : inv all s -> s_last s = len all ->
    stream_len s (len all) = len (fseq all s) /\
    forall i m, stream_msg all s i = Ok m -> nthN (fseq all s) i = Some m.
  Proof.
    intros [Hl [Ha Hna]] Hall. unfold stream_len, fseq, stream_msg. destruct (s_filters_active s).
    - rewrite (Ha eq_refl), Hall, firstN_all by lia. split; [apply len_matching_filter|].
      intros i m. unfold nth_chk at 1.
      destruct (nthN (matching_idxs (s_filters s) all 0) i) as [p|] eqn:Ep; cbn [bind]; [|discriminate].
      unfold nth_chk. destruct (nthN all p) as [m'|] eqn:Em; [|discriminate]. intros H; inversion H; subst m'.
      apply (matching_filter_nth (s_filters s) all [] i p m); [exact Ep|exact Em].
    - split; [reflexivity|]. intros i m. cbn [bind]. unfold nth_chk. destruct (nthN all i); [|discriminate].
      intros H; inversion H; reflexivity.
  Qed.

  Lemma nthN_ext {A} (l1 l2 : list A) : len l1 = len l2 ->
    (forall k m, nthN l1 k = Some m -> nthN l2 k = Some m) -> l1 = l2.
  Proof.
    revert l2. induction l1 as [|x r IH]; intros l2 Hlen H.
    - rewrite len_nil in Hlen. symmetry. apply len_zero_nil. lia.
    - destruct l2 as [|y r2]; [rewrite len_cons, len_nil in Hlen; lia|].
      pose proof (H 0 x (nthN_cons_0 _ _)) as H0. rewrite nthN_cons_0 in H0. inversion H0; subst y.
      f_equal. apply IH; [rewrite !len_cons in Hlen; lia|].
      intros k m Hk. specialize (H (k + 1) m). rewrite !nthN_cons_succ in H. exact (H Hk).
  Qed.

  Lemma nthN_skipN {A} (l : list A) a k : nthN (skipN a l) k = nthN l (a + k).
  Proof.
    unfold nthN, skipN. replace (N.to_nat (a + k)) with (N.to_nat a + N.to_nat k)%nat by lia.
    generalize (N.to_nat a) as x. intros x. revert l. induction x as [|x IH]; intros l; [reflexivity|].
    destruct l as [|h t]; cbn [skipn Nat.add nth_error]; [destruct (N.to_nat k); reflexivity|apply IH].
  Qed.
  Lemma nthN_firstN {A} (l : list A) n k : k < n -> nthN (firstN n l) k = nthN l k.
  Proof.
    unfold nthN, firstN. intros H.
    assert (Hk : (N.to_nat k < N.to_nat n)%nat) by lia. revert Hk.
    generalize (N.to_nat k) as x. generalize (N.to_nat n) as y. intros y x. revert l y.
    induction x as [|x IH]; intros l y Hy; (destruct y as [|y]; [lia|]); destruct l as [|h t]; cbn; try reflexivity.
    apply IH. lia.
  Qed.

  (* a window of the stream is that slice of the filtered sequence *)
  Lemma is_window_slice all (s : sctx) F a b l :
    (forall i m, stream_msg all s i = Ok m -> nthN F i = Some m) -> a <= b -> b <= len F \/ a = b ->
    is_window all s a b l -> l = firstN (b - a) (skipN a F).
  Proof.
    intros HF Hab Hb [Hlen Hnth]. destruct (N.eq_dec a b) as [->|Hne].
    - rewrite N.sub_diag in *. rewrite firstN_0. apply len_zero_nil. exact Hlen.
    - assert (Hb' : b <= len F) by (destruct Hb; [assumption|contradiction]).
      apply nthN_ext.
      + rewrite len_firstN, len_skipN. lia.
      + intros k m Hk. pose proof (nthN_some_lt _ _ _ Hk) as Hlt.
        rewrite nthN_firstN by lia. rewrite nthN_skipN. apply HF. apply Hnth. exact Hk.
  Qed.

  (* ------------------------------------------------------------------ the headline theorem of the send step *)
  Lemma run_app ops1 : forall ops2 (sv : server),
    run sv (ops1 ++ ops2) =
    bind (run sv ops1) (fun r1 => bind (run (fst r1) ops2) (fun r2 => Ok (fst r2, snd r1 ++ snd r2))).
  Proof.
    induction ops1 as [|o r IH]; intros ops2 sv; cbn [app Stream.run].
    - cbn [bind fst snd app]. destruct (run sv ops2) as [[sv2 e2]| |]; reflexivity.
    - destruct (step sv o) as [[sv1 e1]| |]; cbn [bind fst snd]; try reflexivity.
      rewrite IH. destruct (run sv1 r) as [[sv2 e2]| |]; cbn [bind fst snd]; try reflexivity.
      destruct (run sv2 ops2) as [[sv3 e3]| |]; cbn [bind fst snd]; try reflexivity.
      rewrite app_assoc. reflexivity.
  Qed.

  Theorem window_delivered n0 ops new fin :
    exists sv1 evs1,
      run (server0 n0) ops = Ok (sv1, evs1) /\
      forall s, In s (sv_streams sv1) ->
        exists sv2 ev s',
          run (server0 n0) (ops ++ [OTick new fin]) = Ok (sv2, evs1 ++ ev) /\
          sv_all sv2 = sv_all sv1 ++ new /\
          s_id s' = s_id s /\ s_to_start s' = s_to_start s /\ s_to_end s' = s_to_end s /\
          s_filters s' = s_filters s /\ s_filters_active s' = s_filters_active s /\
          inv (sv_all sv2) s' /\
          let all := sv_all sv2 in
          let e := N.max (s_to_start s) (N.min (s_to_end s) (stream_len s' (len all))) in
          (* under the current id exactly the stream positions [start, min(end, n)) were delivered, in order, once *)
          s_sent_end s' = e /\
          is_window all s' (s_to_start s) e (delivered (s_id s) (evs1 ++ ev)) /\
          (* the end marker: never for a stream, exactly once for a query, exactly when it is finished *)
          end_markers (s_id s) (evs1 ++ ev) = (if s_is_done s' then 1 else 0) /\
          s_is_done s' = done_cond fin (len all) s' /\
          (s_is_done s' = false -> In s' (sv_streams sv2)) /\
          (* once everything is processed: the slice of the filtered message sequence *)
          (s_last s' = len all ->
             stream_len s' (len all) = len (fseq all s') /\
             delivered (s_id s) (evs1 ++ ev) = firstN (e - s_to_start s) (skipN (s_to_start s) (fseq all s'))).
  Proof.
    destruct (run_preserves ops (server0 n0) [] (SInv_init n0)) as [sv1 [evs1 [Hr HI]]]. cbn [app] in HI.
    exists sv1, evs1. split; [exact Hr|]. intros s Hs.
    destruct (step_tick sv1 evs1 new fin HI) as [rs [Hf [Hst [HI2 Hdel]]]]. cbv zeta in *.
    destruct (Forall2_in_l _ _ _ Hf s Hs) as [r Hin].
    pose proof (Forall2_combine_in _ _ _ Hf s r Hin) as Hrel.
    destruct (Hdel s r Hin) as [D1 D2].
    destruct Hrel as [R1 [R2 [R3 [R4 [R5 [R6 [R7 [R8 [R9 [R10 [R11 [R12 [R13 [R14 [R15 R16]]]]]]]]]]]]]]].
    eexists _, _, (fst r). split.
    { rewrite run_app, Hr. cbn [bind fst snd Stream.run]. rewrite Hst. cbn [bind fst snd]. rewrite app_nil_r. reflexivity. }
    cbn [sv_all sv_streams].
    split; [reflexivity|]. split; [exact R2|]. split; [exact R3|]. split; [exact R4|]. split; [exact R5|].
    split; [exact R6|]. split; [exact R1|].
    split; [exact R12|]. split; [rewrite <- R12; exact D1|]. split; [exact D2|]. split; [exact R16|].
    split.
    { intros Hnd. unfold keep. apply filter_In. split; [|rewrite Hnd; reflexivity].
      apply in_map. eapply in_combine_r. exact Hin. }
    intros Hall. destruct (stream_is_fseq _ _ R1 Hall) as [F1 F2]. split; [exact F1|].
    rewrite <- R12.
    apply (is_window_slice _ (fst r) _ _ _ _ F2); [rewrite R12; lia|rewrite R12, <- F1; lia|exact D1].
  Qed.

  (* at every moment (not only right after a tick) what was delivered under the current id of a live stream is
     the window up to the sent position: never a message outside the window, never one twice or out of order *)
  Theorem window_prefix_always n0 ops :
    exists sv evs,
      run (server0 n0) ops = Ok (sv, evs) /\
      forall s, In s (sv_streams sv) ->
        s_to_start s <= s_sent_end s /\
        s_sent_end s <= N.max (s_to_start s) (N.min (s_to_end s) (stream_len s (len (sv_all sv)))) /\
        is_window (sv_all sv) s (s_to_start s) (s_sent_end s) (delivered (s_id s) evs) /\
        end_markers (s_id s) evs = 0.
  Proof.
    destruct (run_preserves ops (server0 n0) [] (SInv_init n0)) as [sv [evs [Hr [Hlive _]]]]. cbn [app] in Hlive.
    exists sv, evs. split; [exact Hr|]. intros s Hs.
    pose proof (proj1 (Forall_forall _ _) Hlive s Hs) as [[_ [[_ [S2 S3]] _]] [_ [H5 H6]]]. auto.
  Qed.

  (* every live stream of every reachable state satisfies the index invariant (so the search and lookup
     theorems apply to it) *)
  Theorem reachable_inv n0 ops :
    exists sv evs, run (server0 n0) ops = Ok (sv, evs) /\ forall s, In s (sv_streams sv) -> inv (sv_all sv) s.
  Proof.
    destruct (run_preserves ops (server0 n0) [] (SInv_init n0)) as [sv [evs [Hr [Hlive _]]]]. cbn [app] in Hlive.
    exists sv, evs. split; [exact Hr|]. intros s Hs.
    exact (proj1 (proj1 (proj1 (Forall_forall _ _) Hlive s Hs))).
  Qed.

  (* ------------------------------------------------------------------ rejected commands *)
  (* the replies that tell the client that the command failed *)
  Definition is_error_reply (e : event) : bool :=
    match e with EErr => true | EReplyLookup _ None => true | _ => false end.

  Lemma no_error_in_frames (fr : list frame) : existsb is_error_reply (map (@EFrame M) fr) = false.
  Proof. induction fr as [|f r IH]; [reflexivity|]. cbn [map existsb is_error_reply]. exact IH. Qed.

  (* whatever the command (window change, stop, search, lookup, a rejected request; known or unknown id): if it is
     answered with an error, the server state - every stream's id, window, sent range, index, the id counter -
     is exactly what it was, and the error reply is the only thing sent *)
  Theorem rejected_command_changes_nothing (sv sv' : server) o ev :
    step sv o = Ok (sv', ev) -> existsb is_error_reply ev = true ->
    sv' = sv /\ (ev = [EErr] \/ exists id, ev = [EReplyLookup id None]).
  Proof.
    intros Hs He. destruct o as [new fin|is_stream binary fs a b|id a b|id|id a maxr fs|id idx|id t|]; cbn [Stream.step] in Hs.
    - destruct (tick_streams (sv_all sv ++ new) fin (sv_streams sv)) as [r| |]; cbn [bind] in Hs; try discriminate.
      inversion Hs; subst sv' ev. rewrite no_error_in_frames in He. discriminate.
    - inversion Hs; subst sv' ev. discriminate.
    - destruct (find_stream id (sv_streams sv)); inversion Hs; subst sv' ev; [discriminate|auto].
    - destruct (find_stream id (sv_streams sv)); inversion Hs; subst sv' ev; [discriminate|auto].
    - destruct (find_stream id (sv_streams sv)) as [s0|].
      + destruct (stream_search (sv_all sv) s0 a maxr fs) as [r| |]; cbn [bind] in Hs; try discriminate.
        inversion Hs; subst sv' ev. discriminate.
      + inversion Hs; subst sv' ev. auto.
    - destruct (find_stream id (sv_streams sv)) as [s0|]; inversion Hs; subst sv' ev; [|auto].
      split; [reflexivity|]. right. exists id.
      destruct (if sort_by_time then lookup_index_sorted index_of (sv_all sv) s0 idx else lookup_index index_of (sv_all sv) s0 idx);
        [discriminate|reflexivity].
    - destruct (find_stream id (sv_streams sv)); inversion Hs; subst sv' ev; [discriminate|auto].
    - inversion Hs; subst sv' ev. auto.
  Qed.

  (* per command: a rejected one is the identity *)
  Corollary rejected_request_is_identity (sv : server) : step sv OReject = Ok (sv, [EErr]).
  Proof. reflexivity. Qed.
  Corollary window_change_unknown_id_is_identity (sv : server) id a b :
    find_stream id (sv_streams sv) = None -> step sv (OWindow id a b) = Ok (sv, [EErr]).
  Proof. intros H. cbn [Stream.step]. rewrite H. reflexivity. Qed.
  Corollary stop_unknown_id_is_identity (sv : server) id :
    find_stream id (sv_streams sv) = None -> step sv (OStop id) = Ok (sv, [EErr]).
  Proof. intros H. cbn [Stream.step]. rewrite H. reflexivity. Qed.
  Corollary search_unknown_id_is_identity (sv : server) id a maxr fs :
    find_stream id (sv_streams sv) = None -> step sv (OSearch id a maxr fs) = Ok (sv, [EErr]).
  Proof. intros H. cbn [Stream.step]. rewrite H. reflexivity. Qed.
  Corollary lookup_unknown_id_is_identity (sv : server) id x :
    find_stream id (sv_streams sv) = None ->
    step sv (OLookupIdx id x) = Ok (sv, [EErr]) /\ step sv (OLookupTime id x) = Ok (sv, [EErr]).
  Proof. intros H. cbn [Stream.step]. rewrite H. split; reflexivity. Qed.

  (* so after any run of rejected commands the announced ids are still the ids of the streams: a later valid
     command on an announced id finds its stream, with the window and sent range it had *)
  Theorem rejected_commands_keep_streams (sv : server) (ops : list (op M)) sv' evs :
    (forall o, In o ops -> o = OReject \/ (exists id, (o = OStop id \/ (exists a b, o = OWindow id a b)) /\ find_stream id (sv_streams sv) = None)) ->
    run sv ops = Ok (sv', evs) -> sv' = sv /\ evs = map (fun _ => EErr) ops.
  Proof.
    revert sv' evs. induction ops as [|o r IH]; intros sv' evs Hall Hr; cbn [Stream.run] in Hr.
    - inversion Hr; subst. auto.
    - assert (Hs : step sv o = Ok (sv, [EErr])).
      { destruct (Hall o (or_introl eq_refl)) as [->|[id [[->|[a [b ->]]] Hn]]].
        - reflexivity.
        - apply stop_unknown_id_is_identity; exact Hn.
        - apply window_change_unknown_id_is_identity; exact Hn. }
      rewrite Hs in Hr. cbn [bind fst snd] in Hr.
      destruct (run sv r) as [[sv2 e2]| |] eqn:Hr2; cbn [bind fst snd] in Hr; try discriminate.
      inversion Hr; subst sv' evs. destruct (IH sv2 e2 (fun o' Ho' => Hall o' (or_intror Ho')) eq_refl) as [E1 E2].
      subst. split; reflexivity.
  Qed.

  (* ------------------------------------------------------------------ ids are announced before they are used *)
  Fixpoint well_announced (seen : list N) (evs : list event) : Prop :=
    match evs with
    | [] => True
    | EFrame f :: r => In (frame_id f) seen /\ well_announced seen r
    | EReplyNew id :: r => well_announced (id :: seen) r
    | EReplyWindow _ nid _ _ :: r => well_announced (nid :: seen) r
    | _ :: r => well_announced seen r
    end.
  Fixpoint announced (evs : list event) : list N :=
    match evs with
    | [] => []
    | EReplyNew id :: r => announced r ++ [id]
    | EReplyWindow _ nid _ _ :: r => announced r ++ [nid]
    | _ :: r => announced r
    end.

  Lemma well_announced_frames seen fr : (forall f, In f fr -> In (frame_id f) seen) ->
    well_announced seen (map (@EFrame M) fr).
  Proof.
    induction fr as [|f r IH]; intros H; [exact I|]. cbn [map well_announced].
    split; [apply H; left; reflexivity|apply IH; intros g Hg; apply H; right; exact Hg].
  Qed.
  Lemma well_announced_app seen a b :
    well_announced seen a -> well_announced (announced a ++ seen) b -> well_announced seen (a ++ b).
  Proof.
    revert seen. induction a as [|e r IH]; intros seen Ha Hb; [exact Hb|].
    destruct e; cbn [app well_announced announced] in *;
      try (apply IH; [exact Ha|]; try exact Hb; rewrite <- app_assoc in Hb; exact Hb).
    destruct Ha as [H1 H2]. split; [exact H1|apply IH; [exact H2|exact Hb]].
  Qed.

  Lemma step_announced (sv : server) o sv' ev seen :
    step sv o = Ok (sv', ev) -> SInv sv [] \/ True ->
    (forall s, In s (sv_streams sv) -> In (s_id s) seen) ->
    Forall (pre_ok (sv_all sv)) (sv_streams sv) ->
    well_announced seen ev /\ (forall s, In s (sv_streams sv') -> In (s_id s) (announced ev ++ seen)).
  Proof.
    intros Hs _ Hseen Hpre. destruct o as [new fin|is_stream binary fs a b|id a b|id|id a maxr fs|id idx|id t|]; cbn [Stream.step] in Hs.
    - assert (Hpre' : Forall (pre_ok (sv_all sv ++ new)) (sv_streams sv)).
      { apply Forall_forall. intros s Hin. pose proof (proj1 (Forall_forall _ _) Hpre s Hin) as [H1 [H2 H3]].
        split; [apply inv_arrive; exact H1|]. split; [apply sent_ok_arrive; exact H2|exact H3]. }
      destruct (tick_streams_spec (sv_all sv ++ new) fin (sv_streams sv) Hpre') as [rs [Hf Hts]].
      rewrite Hts in Hs. cbn [bind fst snd] in Hs. inversion Hs; subst sv' ev. clear Hs.
      assert (Hids : forall r, In r rs -> In (s_id (fst r)) seen /\ forall f, In f (frames_of r) -> frame_id f = s_id (fst r)).
      { intros r Hr. destruct (Forall2_in_r _ _ _ Hf r Hr) as [s Hin].
        destruct (tick_rel_ids _ _ _ _ (Forall2_combine_in _ _ _ Hf s r Hin)) as [Eid [Hfid _]].
        split; [rewrite Eid; apply Hseen; eapply in_combine_l; exact Hin|].
        intros f Hfr. unfold frames_of in Hfr. apply in_app_or in Hfr. destruct Hfr as [Hfr|Hfr]; [exact (Hfid f Hfr)|].
        destruct (s_is_done (fst r)); [|contradiction]. destruct Hfr as [<-|[]]. reflexivity. }
      split.
      + apply well_announced_frames. intros f Hfl. destruct (in_frames_of_flat f rs Hfl) as [r [Hr Hfr]].
        destruct (Hids r Hr) as [H1 H2]. rewrite (H2 f Hfr). exact H1.
      + intros s' Hs'. cbn [sv_streams] in Hs'. unfold keep in Hs'. apply filter_In in Hs'. destruct Hs' as [Hs' _].
        apply in_map_iff in Hs'. destruct Hs' as [r [<- Hr]]. apply in_or_app. right. exact (proj1 (Hids r Hr)).
    - inversion Hs; subst sv' ev. clear Hs. cbn [well_announced announced app sv_streams]. split; [exact I|].
      intros s Hin. apply in_app_or in Hin. destruct Hin as [Hin|[<-|[]]]; [right; apply Hseen; exact Hin|left; reflexivity].
    - destruct (find_stream id (sv_streams sv)) as [s0|] eqn:Ef.
      + destruct (find_stream_split _ _ _ Ef) as [l1 [l2 [E1 [E2 [E3 E4]]]]].
        inversion Hs; subst sv' ev. clear Hs. cbn [well_announced announced app sv_streams]. split; [exact I|].
        rewrite E3. intros s Hin. apply in_app_or in Hin. destruct Hin as [Hin|[<-|Hin]].
        * right. apply Hseen. rewrite E1. apply in_or_app. left. exact Hin.
        * left. reflexivity.
        * right. apply Hseen. rewrite E1. apply in_or_app. right. right. exact Hin.
      + inversion Hs; subst sv' ev. cbn [well_announced announced app]. split; [exact I|exact Hseen].
    - destruct (find_stream id (sv_streams sv)) as [s0|] eqn:Ef.
      + destruct (find_stream_split _ _ _ Ef) as [l1 [l2 [E1 [E2 [E3 E4]]]]].
        inversion Hs; subst sv' ev. clear Hs. cbn [well_announced announced app sv_streams]. split; [exact I|].
        rewrite E4. intros s Hin. apply Hseen. rewrite E1. apply in_app_or in Hin. apply in_or_app.
        destruct Hin as [Hin|Hin]; [left; exact Hin|right; right; exact Hin].
      + inversion Hs; subst sv' ev. cbn [well_announced announced app]. split; [exact I|exact Hseen].
    - destruct (find_stream id (sv_streams sv)) as [s0|].
      + destruct (stream_search (sv_all sv) s0 a maxr fs) as [r| |]; cbn [bind] in Hs; try discriminate.
        inversion Hs; subst sv' ev. cbn [well_announced announced app]. split; [exact I|exact Hseen].
      + inversion Hs; subst sv' ev. cbn [well_announced announced app]. split; [exact I|exact Hseen].
    - destruct (find_stream id (sv_streams sv)); inversion Hs; subst sv' ev; cbn [well_announced announced app]; (split; [exact I|exact Hseen]).
    - destruct (find_stream id (sv_streams sv)); inversion Hs; subst sv' ev; cbn [well_announced announced app]; (split; [exact I|exact Hseen]).
    - inversion Hs; subst sv' ev. cbn [well_announced announced app]. split; [exact I|exact Hseen].
  Qed.

  (* no frame carries a stream id before the reply that announced that id *)
  Theorem ids_announced_first n0 ops sv evs :
    run (server0 n0) ops = Ok (sv, evs) -> well_announced [] evs.
  Proof.
    assert (Hgen : forall ops (sv0 : server) evs0 seen sv evs, SInv sv0 evs0 ->
              (forall s, In s (sv_streams sv0) -> In (s_id s) seen) ->
              run sv0 ops = Ok (sv, evs) -> well_announced seen evs).
    { clear ops sv evs. induction ops as [|o r IH]; intros sv0 evs0 seen sv evs HI Hseen Hr; cbn [Stream.run] in Hr.
      - inversion Hr; subst. exact I.
      - destruct (step_preserves sv0 evs0 o HI) as [sv1 [ev [Hs HI1]]]. rewrite Hs in Hr. cbn [bind fst snd] in Hr.
        destruct (run sv1 r) as [[sv2 evs2]| |] eqn:Hr2; cbn [bind fst snd] in Hr; try discriminate.
        inversion Hr; subst sv evs. clear Hr.
        assert (Hpre : Forall (pre_ok (sv_all sv0)) (sv_streams sv0)).
        { destruct HI as [Hlive _]. apply Forall_forall. intros s Hin. exact (proj1 (proj1 (Forall_forall _ _) Hlive s Hin)). }
        destruct (step_announced sv0 o sv1 ev seen Hs (or_intror I) Hseen Hpre) as [W1 W2].
        apply well_announced_app; [exact W1|]. exact (IH sv1 (evs0 ++ ev) _ sv2 evs2 HI1 W2 Hr2). }
    intros Hr. apply (Hgen ops (server0 n0) [] [] sv evs (SInv_init n0)); [intros s []|exact Hr].
  Qed.
End Send.
