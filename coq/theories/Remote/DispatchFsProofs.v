(* Proofs about the model of the `fs` command (Remote/DispatchFs.v): for EVERY value of the environment oracle
   process_fs_cmd returns (no panic), the time fallback, and the variant with `unwrap()` that would panic. *)
From Coq Require Import List Arith NArith ZArith Bool Ascii String Lia.
From AdltV Require Import Base.Res Base.MachInt Remote.DispatchFs.
Import ListNotations.
Open Scope string_scope.
Open Scope N_scope.

(* ------------------------------------------------------------------ text layer *)
Lemma ends_with_char_get c s :
  ends_with_char c s = true ->
  (1 <= String.length s)%nat /\ String.get (String.length s - 1) s = Some c.
Proof.
  induction s as [|a r IH]; cbn [ends_with_char]; [discriminate|].
  destruct r as [|b r'].
  - intros H. apply Ascii.eqb_eq in H. subst a. cbn. split; [lia|reflexivity].
  - intros H. destruct (IH H) as [L G]. split; [cbn; lia|].
    cbn [String.length] in *. replace (S (S (String.length r')) - 1)%nat with (S (S (String.length r') - 1))%nat by lia.
    cbn [String.get]. exact G.
Qed.

Lemma archive_split_total p : exists r, archive_split p = Ok r.
Proof.
  unfold archive_split, splitn2_2.
  destruct (split_once2 bang slash p) as [[a b]|] eqn:E.
  - cbn [List.length Nat.eqb negb andb nth_str nth_error bind]. eauto.
  - cbn [List.length Nat.eqb negb andb]. destruct (ends_with_char bang p) eqn:W; cbn [negb]; [|eauto].
    cbn [nth_str nth_error bind].
    destruct (ends_with_char_get _ _ W) as [L G].
    unfold sub_chk. assert (H1 : (1 <=? N.of_nat (String.length p)) = true) by (apply N.leb_le; lia).
    rewrite H1. cbn [bind].
    unfold slice_to, is_char_boundary.
    destruct (N.of_nat (String.length p) - 1 =? 0) eqn:Z; [cbn [bind]; eauto|].
    replace (N.to_nat (N.of_nat (String.length p) - 1)) with (String.length p - 1)%nat by lia.
    rewrite G. unfold bang. cbn. eauto.
Qed.

Lemma single_data_total files : exists b, single_data files = Ok b.
Proof.
  unfold single_data. destruct files as [|f0 [|f1 r]]; cbn; eauto.
Qed.

(* ------------------------------------------------------------------ no panic, whatever the environment is *)
Lemma fs_cmd_archive_total f : exists r, fs_cmd_archive f = Ok r.
Proof.
  unfold fs_cmd_archive. destruct (archive_split_total (fo_path f)) as [sp ->]. cbn [bind].
  destruct sp as [x|]; [|eauto].
  destruct (fo_exists f); [|eauto]. destruct (fo_supported f); [|eauto].
  destruct (negb (fo_multi f) && negb (fo_open_ok f)); [eauto|].
  destruct (fo_cmd f); [| |eauto].
  - destruct (fo_list f) as [files|]; [|eauto]. destruct (single_data_total files) as [d ->]. cbn [bind].
    destruct d; [eauto|]. destruct (fo_ameta f) as [[ty size]|]; eauto.
  - destruct (fo_list f) as [files|]; [|eauto]. destruct (single_data_total files) as [d ->]. cbn [bind].
    destruct d; eauto.
Qed.

Lemma process_fs_cmd_total f : exists r, process_fs_cmd f = Ok r.
Proof.
  unfold process_fs_cmd. destruct (fo_cmd_path f); [|eauto].
  destruct (fo_cmd f); [| |eauto].
  - destruct (fo_meta f) as [m|[|]]; [eauto|apply fs_cmd_archive_total|eauto].
  - destruct (fo_readdir f) as [n|[|]]; [eauto|apply fs_cmd_archive_total|eauto].
Qed.

(* ------------------------------------------------------------------ the file times *)
Lemma as_millis_u64_bound n : as_millis_u64 n < 2 ^ 64.
Proof. unfold as_millis_u64, trunc. apply N.mod_lt. discriminate. Qed.

Lemma time_ms_bound t : time_ms t < 2 ^ 64.
Proof. unfold time_ms. apply as_millis_u64_bound. Qed.

(* a time before the epoch (and a time the platform cannot tell) is reported as 0 *)
Lemma time_ms_before_epoch t : (t < 0)%Z -> time_ms (Some t) = 0.
Proof.
  intros H. unfold time_ms, duration_since_epoch. destruct (0 <=? t)%Z eqn:E; [apply Z.leb_le in E; lia|]. reflexivity.
Qed.
Lemma time_ms_unavailable : time_ms None = 0.
Proof. reflexivity. Qed.
Lemma time_ms_after_epoch t : (0 <= t)%Z -> time_ms (Some t) = (Z.to_N t / 1000000) mod 2 ^ 64.
Proof.
  intros H. unfold time_ms, duration_since_epoch. apply Z.leb_le in H. rewrite H. reflexivity.
Qed.

(* the variant with `unwrap()`: agrees with the code for times at / after the epoch, panics for every time before it *)
Lemma time_ms_unwrap_agrees t : (0 <= t)%Z -> time_ms_unwrap (Some t) = Ok (time_ms (Some t)).
Proof.
  intros H. unfold time_ms_unwrap, time_ms, duration_since_epoch. apply Z.leb_le in H. rewrite H. reflexivity.
Qed.
Lemma time_ms_unwrap_panics t : (t < 0)%Z -> time_ms_unwrap (Some t) = Panic site_fs_time_unwrap.
Proof.
  intros H. unfold time_ms_unwrap, duration_since_epoch. destruct (0 <=? t)%Z eqn:E; [apply Z.leb_le in E; lia|]. reflexivity.
Qed.

(* stat of a path that exists: always the stat value, whatever the metadata says *)
Lemma process_fs_cmd_stat_existing f m :
  fo_cmd_path f = true -> fo_cmd f = FsCmdStat -> fo_meta f = MetaOk m ->
  process_fs_cmd f = Ok (Some (stat_value m)).
Proof. intros H1 H2 H3. unfold process_fs_cmd. rewrite H1, H2, H3. reflexivity. Qed.
