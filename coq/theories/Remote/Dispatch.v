(* Remote/Dispatch.v — model of the websocket text-command dispatcher of `adlt remote`
   (src/bin/adlt/remote.rs, process_incoming_text_message, lines 617-1162, plus the parts of the
   per-connection event loop that change what the dispatcher sees).  Model only, no proofs.

   What is transcribed line by line:
     * the text layer: `t.splitn(2,' ')`, `params.split(' ')`, `split_once(' ' / '=' / ',')`,
       `parse::<u32/u64/usize>` (Rust's from_str for unsigned types: optional '+', decimal digits, overflow = Err),
       every indexing / `unwrap` / `Vec::remove` as a possible [Panic];
     * the session state: `file_context : Option<FileContext>` with collect mode, sort flag, plugin
       list, paused flag and the list of live streams (id, stream/query, one_pass, window); the global
       NEXT_STREAM_ID counter (AtomicU32, wraps);
     * every `websocket.write_message(Message::Text(..))` of the dispatcher as one element of the list of
       written replies (so "exactly one reply per command" is a theorem and not a definition).
   What is an oracle input (the trusted parsers / other components, result supplied per frame in [orc]):
     FileContext::from (open ok/err + options), StreamContext::from (ok/err + window, one_pass, #filters),
     process_stream_search_params (returns Ok after having written its one ok-frame, or Err having
     written nothing), serde_json::from_str + member lookups for plugin_cmd / fs, the ENVIRONMENT an `fs`
     command refers to (file metadata incl. times before the epoch, read_dir, archives: [fs_orc] of
     Remote/DispatchFs.v, where process_fs_cmd itself is transcribed), the number of collected messages (for `stream_binary_search <id> index=<n>`; the lookups themselves
     belong to C16).
   What the event loop contributes between two commands is an explicit list of events ([EvDone id]: a
   query finished and was removed by process_file_context).  All theorems quantify over every event
   list, i.e. over every schedule of the parser threads relative to the commands. *)
From Coq Require Import List NArith Bool Ascii String.
From AdltV Require Import Base.Res Base.MachInt.
From AdltV Require Export Remote.DispatchFs.
Import ListNotations.
Open Scope string_scope.
Open Scope N_scope.

Infix "=?s" := String.eqb (at level 70, no associativity).

(* ------------------------------------------------------------------ panic sites *)
Definition site_params_splitted_0 : N := 1501.   (* remote.rs:821  params_splitted[0] *)
Definition site_fc_unwrap_open : N := 1502.      (* remote.rs:644  file_context.as_ref().unwrap() *)
Definition site_fc_take_unwrap : N := 1503.      (* remote.rs:707  file_context.take().unwrap() *)
Definition site_streams_index : N := 1504.       (* remote.rs:831/850/926  fc.streams[pos] *)
Definition site_streams_remove : N := 1505.      (* remote.rs:974  fc.streams.remove(pos) *)
Definition site_params_splitted_1 : N := 1506.   (* remote.rs:855/928  params_splitted[1] *)

(* ------------------------------------------------------------------ text layer *)
Definition sp : ascii := " "%char.

(* str::split(c): the pieces between the separators; never empty, "" gives [""] *)
Fixpoint split_on (c : ascii) (s : string) : list string :=
  match s with
  | EmptyString => [EmptyString]
  | String a r =>
      if Ascii.eqb a c then EmptyString :: split_on c r
      else match split_on c r with
           | [] => [String a EmptyString]
           | w :: ws => String a w :: ws
           end
  end.

(* str::split_once(c) *)
Fixpoint split_once (c : ascii) (s : string) : option (string * string) :=
  match s with
  | EmptyString => None
  | String a r =>
      if Ascii.eqb a c then Some (EmptyString, r)
      else match split_once c r with
           | Some (x, y) => Some (String a x, y)
           | None => None
           end
  end.

(* str::splitn(2, c).collect::<Vec<_>>() *)
Definition splitn2 (c : ascii) (s : string) : list string :=
  match split_once c s with
  | Some (a, b) => [a; b]
  | None => [s]
  end.

(* <uN as FromStr>::from_str: Err on "", on "+"/"-" alone, on any non-digit (a leading '-' is one for
   unsigned types), on overflow; a single leading '+' is accepted *)
Definition digit_of (a : ascii) : option N :=
  let n := N_of_ascii a in
  if (48 <=? n) && (n <=? 57) then Some (n - 48) else None.

Fixpoint parse_digits (max acc : N) (s : string) : option N :=
  match s with
  | EmptyString => Some acc
  | String a r =>
      match digit_of a with
      | None => None
      | Some d => let acc' := acc * 10 + d in
                  if acc' <=? max then parse_digits max acc' r else None
      end
  end.

Definition parse_uint (max : N) (s : string) : option N :=
  match s with
  | EmptyString => None
  | String a r =>
      if Ascii.eqb a "+"%char then
        match r with
        | EmptyString => None
        | _ => parse_digits max 0 r
        end
      else parse_digits max 0 s
  end.

Definition parse_u32 : string -> option N := parse_uint u32max.
Definition parse_u64 : string -> option N := parse_uint u64max.
Definition parse_usize : string -> option N := parse_uint usizemax.
Definition or_default (o : option N) : N := match o with Some n => n | None => 0 end.
Definition saturating_mul (max a b : N) : N := if a * b <=? max then a * b else max.

(* checked container operations *)
Definition nth_chk {A} (site : N) (l : list A) (i : nat) : res A :=
  match nth_error l i with
  | Some a => Ok a
  | None => Panic site
  end.
Definition unwrap_chk {A} (site : N) (o : option A) : res A :=
  match o with
  | Some a => Ok a
  | None => Panic site
  end.
Fixpoint remove_at {A} (l : list A) (i : nat) : list A :=
  match l, i with
  | [], _ => []
  | _ :: r, O => r
  | a :: r, S j => a :: remove_at r j
  end.
(* Vec::remove panics when the index is out of bounds *)
Definition remove_chk {A} (site : N) (l : list A) (i : nat) : res (list A) :=
  if Nat.ltb i (List.length l) then Ok (remove_at l i) else Panic site.
Fixpoint replace_at {A} (l : list A) (i : nat) (x : A) : list A :=
  match l, i with
  | [], _ => []
  | _ :: r, O => x :: r
  | a :: r, S j => a :: replace_at r j x
  end.

(* ------------------------------------------------------------------ session state *)
Inductive collect_mode := CAll | COnePass | CNone.
Definition collect_eqb (a b : collect_mode) : bool :=
  match a, b with CAll, CAll | COnePass, COnePass | CNone, CNone => true | _, _ => false end.

Record stream := {
  s_id : N;
  s_is_stream : bool;     (* `stream` (true) or `query` (false) *)
  s_one_pass : bool;
  s_start : N;            (* msgs_to_send.start *)
  s_end : N;              (* msgs_to_send.end *)
  (* the part of StreamContext that only process_file_context uses (Remote/DispatchTick.v) *)
  s_sent_end : N;                 (* msgs_sent.end *)
  s_filter : option (N -> bool);  (* filters_active: which message indices match_filters accepts *)
  s_filtered : list N;            (* filtered_msgs *)
  s_last : N                      (* all_msgs_last_processed_len *)
}.

Record fctx := {
  fc_collect : collect_mode;
  fc_sort : bool;
  fc_plugins : list (string * bool);   (* plugin_states in order: name in the state value, has apply_command *)
  fc_paused : bool;
  fc_streams : list stream;
  fc_all_len : N;                      (* all_msgs.len() + drained_all_msgs *)
  fc_drained : N;                      (* drained_all_msgs *)
  fc_nfiles : N;                       (* number of files in file_streams (0 on the archive path of open until the
                                          extraction result is taken over, and for good if nothing usable was extracted) *)
  fc_extracting : bool                 (* pending_extract.is_some(): no parser thread yet *)
}.

Record state := {
  st_fc : option fctx;    (* file_context *)
  st_next_id : N          (* NEXT_STREAM_ID (process-global AtomicU32) *)
}.

Definition init_state (first_id : N) : state := {| st_fc := None; st_next_id := first_id |}.

Definition with_fc (st : state) (fc : fctx) : state := {| st_fc := Some fc; st_next_id := st_next_id st |}.
Definition set_paused (fc : fctx) (p : bool) : fctx :=
  {| fc_collect := fc_collect fc; fc_sort := fc_sort fc; fc_plugins := fc_plugins fc; fc_paused := p; fc_streams := fc_streams fc;
     fc_all_len := fc_all_len fc; fc_drained := fc_drained fc; fc_nfiles := fc_nfiles fc; fc_extracting := fc_extracting fc |}.
Definition set_streams (fc : fctx) (l : list stream) : fctx :=
  {| fc_collect := fc_collect fc; fc_sort := fc_sort fc; fc_plugins := fc_plugins fc; fc_paused := fc_paused fc; fc_streams := l;
     fc_all_len := fc_all_len fc; fc_drained := fc_drained fc; fc_nfiles := fc_nfiles fc; fc_extracting := fc_extracting fc |}.
(* fetch_add(1, Relaxed) on an AtomicU32: returns the old value, wraps *)
Definition bump (st : state) : state := {| st_fc := st_fc st; st_next_id := wrapping_add 32 (st_next_id st) 1 |}.

(* fc.streams.iter().position(|x| x.id == id) *)
Fixpoint position (id : N) (l : list stream) : option nat :=
  match l with
  | [] => None
  | s :: r => if s_id s =? id then Some O
              else match position id r with Some p => Some (S p) | None => None end
  end.

(* ------------------------------------------------------------------ oracle inputs *)
Inductive open_res :=
| OpenErr
| OpenOk (mode : collect_mode) (sort : bool) (plugins : list (string * bool)).
Inductive stream_res :=
| StreamErr
| StreamOk (one_pass : bool) (w_start w_end : N) (nf_pos nf_neg nf_ev : N)
           (matches : N -> bool).   (* match_filters on the message with index i (used while a filter is active) *)
Inductive json_shape :=
| JBad            (* serde_json::from_str fails *)
| JNotObject      (* parses, but as_object() is None *)
| JMissing        (* object without string members cmd/name (plugin_cmd) *)
| JGood (name : string).   (* object with string members; name = the plugin addressed (plugin_cmd) *)

Record orc := {
  o_open : open_res;        (* FileContext::from(params) *)
  o_archive : bool;         (* ... took the archive path (some file name is an archive / archive!/glob): Ok at once with
                               file_streams = [] and a pending background extraction *)
  o_nfiles : N;             (* ... otherwise: the number of files (with a DLT message) it put into file_streams *)
  o_stream : stream_res;    (* StreamContext::from(command, params) *)
  o_search_ok : bool;       (* process_stream_search_params(non-empty body) returns Ok *)
  o_nmsgs : N;              (* all_msgs holds the messages with index 0..o_nmsgs-1 *)
  o_json : json_shape;      (* plugin_cmd / fs: shape of the JSON body *)
  o_fs : fs_orc             (* fs: what the operating system / the archive helpers return for the path (Remote/DispatchFs.v) *)
}.

(* events of process_file_context between two commands *)
Inductive event :=
| EvDone (id : N).          (* the query with this id was marked done and removed (streams.retain) *)

(* ------------------------------------------------------------------ replies *)
Inductive ok_kind :=
| OkOpen (nplugins : N)
| OkPaused (p : bool)
| OkClose
| OkStream (is_stream : bool) (id nf_pos nf_neg nf_ev : N)
| OkSearch (id : N)
| OkBinSearch (id : N)
| OkWindow (old_id new_id w_start w_end : N)
| OkStop (id : N)
| OkPluginCmd
| OkFs (v : fs_value).

Inductive err_kind :=
| EOpenAlready (nfiles : N)   (* open ... failed as file(s) '<dump of file_streams>' is open. close first! *)
| EOpenFailed             (* open ... failed with ...! *)
| ENoFileOpenFirst        (* <cmd> failed as no file open. open first! *)
| EOnePassOnly            (* ... Only one_pass streams supported. *)
| EStreamCtx              (* stream/query failed with err ... from ...! *)
| ECollectNone            (* ... 'collect:false' was used. Stream not supported then. *)
| ESearchParams           (* stream_search failed with err ... from ...! *)
| EBinSearchFailed (id : N)   (* failed. stream_id N: all_msgs#=.., reason=.. *)
| EBinSearchUnknown (id : N)  (* search ... unknown! *)
| ETooFewParams (id : N)      (* too few params_splitted *)
| EWindowParse (id : N)       (* failure parsing= *)
| EIdNotFound (id : N)        (* <cmd> stream failed. stream_id N not found! *)
| ENoFileOpened               (* <cmd> stream failed. No file opened! *)
| ENotValidId                 (* param .. is no valid stream_id! *)
| EInnerDefault (id : N)      (* the `_ =>` arm of the inner match (<cmd> failed. stream_id N not found!) *)
| EPluginNoCmds | EPluginNotFound | EMissCmdName | ENotObject | EJsonParse | EFsErr.

Inductive reply :=
| ROk (k : ok_kind)           (* text frame starting with "ok:" *)
| RErr (k : err_kind)         (* text frame starting with "err:" *)
| RUnknown (echo : string).   (* "unknown command '<frame>'!" *)

(* ------------------------------------------------------------------ the dispatcher *)
Definition is_some {A} (o : option A) : bool := match o with Some _ => true | None => false end.

(* process_stream_search_params: Ok(()) is returned after exactly one write (the last statement);
   every Err is returned before anything is written.  An empty body is never valid JSON. *)
Definition search_params (o : orc) (id : N) (params_json : string) : list reply * bool :=
  if o_search_ok o && negb (params_json =?s "") then ([ROk (OkSearch id)], true) else ([], false).

(* the `for plugin_state in &fc.plugin_states` loop of plugin_cmd: replies written, found_plugin *)
Fixpoint plugin_loop (name : string) (ps : list (string * bool)) : list reply * bool :=
  match ps with
  | [] => ([], false)
  | (n, has_cmd) :: r =>
      if n =?s name then ((if has_cmd then [ROk OkPluginCmd] else [RErr EPluginNoCmds]), true)
      else plugin_loop name r
  end.

(* StreamContext::from: nothing processed or sent yet *)
Definition new_stream (id : N) (is_stream one_pass : bool) (ws we : N) (filter : option (N -> bool)) : stream :=
  {| s_id := id; s_is_stream := is_stream; s_one_pass := one_pass; s_start := ws; s_end := we;
     s_sent_end := ws; s_filter := filter; s_filtered := []; s_last := 0 |}.
(* stream_change_window: msgs_to_send = start..end, msgs_sent = start..start, new id; the rest is kept *)
Definition renew_stream (s : stream) (new_id ws we : N) : stream :=
  {| s_id := new_id; s_is_stream := s_is_stream s; s_one_pass := s_one_pass s; s_start := ws; s_end := we;
     s_sent_end := ws; s_filter := s_filter s; s_filtered := s_filtered s; s_last := s_last s |}.

(* command word and argument text: `t.splitn(2, ' ')` with the guarded accesses [0] and [1] *)
Definition command_of (t : string) : string :=
  match splitn2 sp t with [] => "" | c :: _ => c end.
Definition params_of (t : string) : string :=
  match splitn2 sp t with _ :: p :: _ => p | _ => "" end.

Definition do_open (st : state) (o : orc) : res (state * list reply) :=
  if is_some (st_fc st) then
    (_fc <- unwrap_chk site_fc_unwrap_open (st_fc st) ;;
     Ok (st, [RErr (EOpenAlready (fc_nfiles _fc))]))%res
  else
    match o_open o with
    | OpenOk mode sort plugins =>
        let fc := {| fc_collect := mode; fc_sort := sort; fc_plugins := plugins;
                     fc_paused := collect_eqb mode COnePass; fc_streams := [];
                     fc_all_len := 0; fc_drained := 0;
                     fc_nfiles := (if o_archive o then 0 else o_nfiles o); fc_extracting := o_archive o |} in
        Ok (with_fc st fc, [ROk (OkOpen (N.of_nat (List.length plugins)))])
    | OpenErr => Ok (st, [RErr EOpenFailed])
    end.

Definition do_pause (st : state) (command : string) : res (state * list reply) :=
  match st_fc st with
  | Some fc =>
      let p := command =?s "pause" in
      Ok (with_fc st (set_paused fc p), [ROk (OkPaused p)])
  | None => Ok (st, [RErr ENoFileOpenFirst])
  end.

(* take(): the context is gone whatever follows; stop flag, drain of the final channel until it is
   disconnected and the joins are thread-level (C13: a dropped/drained consumer terminates) *)
Definition do_close (st : state) : res (state * list reply) :=
  if is_some (st_fc st) then
    (_old <- unwrap_chk site_fc_take_unwrap (st_fc st) ;;
     Ok ({| st_fc := None; st_next_id := st_next_id st |}, [ROk OkClose]))%res
  else Ok (st, [RErr ENoFileOpenFirst]).

Definition do_stream (st : state) (command : string) (o : orc) : res (state * list reply) :=
  match st_fc st with
  | Some fc =>
      match fc_collect fc with
      | CNone => Ok (st, [RErr ECollectNone])
      | _ =>
          match o_stream o with
          | StreamOk one_pass ws we np nn ne matches =>
              (* StreamContext::from took an id from the global counter *)
              let id := st_next_id st in
              let st1 := bump st in
              if negb one_pass && collect_eqb (fc_collect fc) COnePass then
                Ok (st1, [RErr EOnePassOnly])
              else
                let filters_active := 0 <? np + nn + ne in
                let s := new_stream id (command =?s "stream") one_pass ws we
                                    (if filters_active then Some matches else None) in
                Ok (with_fc st1 (set_streams fc (fc_streams fc ++ [s])%list),
                    [ROk (OkStream (command =?s "stream") id np nn ne)])
          | StreamErr => Ok (st, [RErr EStreamCtx])
          end
      end
  | None => Ok (st, [RErr ENoFileOpenFirst])
  end.

(* the inner `match command` once the stream was found at index pos *)
Definition do_id_found (st : state) (fc : fctx) (command params : string) (params_splitted : list string)
    (id : N) (pos : nat) (o : orc) : res (state * list reply) :=
  if command =?s "stream_search" then
    (_stream <- nth_chk site_streams_index (fc_streams fc) pos ;;
     (* params.split_once(' ').map_or("", |p| p.1) *)
     let params_json := match split_once sp params with Some (_, j) => j | None => "" end in
     let r := search_params o id params_json in    (* frames it wrote, Ok/Err *)
     Ok (st, (fst r ++ (if snd r then [] else [RErr ESearchParams]))%list))%res
  else if command =?s "stream_binary_search" then
    (_stream <- nth_chk site_streams_index (fc_streams fc) pos ;;
     if Nat.ltb 1 (List.length params_splitted) then
       (search_text <- nth_chk site_params_splitted_1 params_splitted 1 ;;
        match split_once "="%char search_text with
        | Some (k, what) =>
            if k =?s "index" then
              let wanted := or_default (parse_u32 what) in
              if wanted <? o_nmsgs o then Ok (st, [ROk (OkBinSearch id)])
              else Ok (st, [RErr (EBinSearchFailed id)])
            else if k =?s "time_ms" then
              let _time_us := saturating_mul u64max (or_default (parse_u64 what)) 1000 in
              Ok (st, [ROk (OkBinSearch id)])
            else Ok (st, [RErr (EBinSearchUnknown id)])
        | None => Ok (st, [RErr (EBinSearchUnknown id)])
        end)
     else Ok (st, [RErr (ETooFewParams id)]))%res
  else if command =?s "stream_change_window" then
    if Nat.ltb 1 (List.length params_splitted) then
      (stream <- nth_chk site_streams_index (fc_streams fc) pos ;;
       window_text <- nth_chk site_params_splitted_1 params_splitted 1 ;;
       match split_once ","%char window_text with
       | Some (s, e) =>
           let ws := or_default (parse_usize s) in
           let we := or_default (parse_usize e) in
           let new_id := st_next_id st in      (* stream.new_id() *)
           let stream' := renew_stream stream new_id ws we in
           Ok (with_fc (bump st) (set_streams fc (replace_at (fc_streams fc) pos stream')),
               [ROk (OkWindow id new_id ws we)])
       | None => Ok (st, [RErr (EWindowParse id)])
       end)%res
    else Ok (st, [RErr (ETooFewParams id)])
  else if command =?s "stop" then
    (streams' <- remove_chk site_streams_remove (fc_streams fc) pos ;;
     Ok (with_fc st (set_streams fc streams'), [ROk (OkStop id)]))%res
  else Ok (st, [RErr (EInnerDefault id)]).

Definition do_id (st : state) (command params : string) (o : orc) : res (state * list reply) :=
  let params_splitted := split_on sp params in
  (param0 <- nth_chk site_params_splitted_0 params_splitted 0 ;;
   match parse_u32 param0 with
   | Some id =>
       match st_fc st with
       | Some fc =>
           match position id (fc_streams fc) with
           | Some pos => do_id_found st fc command params params_splitted id pos o
           | None => Ok (st, [RErr (EIdNotFound id)])
           end
       | None => Ok (st, [RErr ENoFileOpened])
       end
   | None => Ok (st, [RErr ENotValidId])
   end)%res.

Definition do_plugin (st : state) (o : orc) : res (state * list reply) :=
  match st_fc st with
  | Some fc =>
      match o_json o with
      | JBad => Ok (st, [RErr EJsonParse])
      | JNotObject => Ok (st, [RErr ENotObject])
      | JMissing => Ok (st, [RErr EMissCmdName])
      | JGood name =>
          let r := plugin_loop name (fc_plugins fc) in   (* frames written in the loop, found_plugin *)
          Ok (st, (fst r ++ (if snd r then [] else [RErr EPluginNotFound]))%list)
      end
  | None => Ok (st, [RErr ENoFileOpenFirst])
  end.

Definition do_fs (st : state) (o : orc) : res (state * list reply) :=
  match o_json o with
  | JBad => Ok (st, [RErr EJsonParse])
  | JNotObject => Ok (st, [RErr ENotObject])
  | _ =>
      (* match process_fs_cmd(log, params) { Ok(res) => "ok: fs:<res>", Err(e) => "err: fs <e>" } *)
      (r <- process_fs_cmd (o_fs o) ;;
       match r with
       | Some v => Ok (st, [ROk (OkFs v)])
       | None => Ok (st, [RErr EFsErr])
       end)%res
  end.

Definition is_id_command (command : string) : bool :=
  (command =?s "stop") || (command =?s "stream_binary_search") || (command =?s "stream_change_window")
  || (command =?s "stream_search").

(* process_incoming_text_message: the outer `match command` *)
Definition step (st : state) (t : string) (o : orc) : res (state * list reply) :=
  let command := command_of t in
  let params := params_of t in
  if command =?s "open" then do_open st o
  else if (command =?s "pause") || (command =?s "resume") then do_pause st command
  else if command =?s "close" then do_close st
  else if (command =?s "stream") || (command =?s "query") then do_stream st command o
  else if is_id_command command then do_id st command params o
  else if command =?s "plugin_cmd" then do_plugin st o
  else if command =?s "fs" then do_fs st o
  else Ok (st, [RUnknown t]).

(* ------------------------------------------------------------------ events and histories *)
Definition apply_event (st : state) (ev : event) : state :=
  match ev, st_fc st with
  | EvDone id, Some fc =>
      with_fc st (set_streams fc (filter (fun s => negb ((s_id s =? id) && negb (s_is_stream s))) (fc_streams fc)))
  | _, None => st
  end.
Definition apply_events (st : state) (evs : list event) : state := fold_left apply_event evs st.

Record item := {
  i_pre : list event;     (* what process_file_context did since the previous command *)
  i_frame : string;       (* the text frame *)
  i_orc : orc
}.

Fixpoint run (st : state) (h : list item) : res (state * list (list reply)) :=
  match h with
  | [] => Ok (st, [])
  | it :: r =>
      (x <- step (apply_events st (i_pre it)) (i_frame it) (i_orc it) ;;
       y <- run (fst x) r ;;
       Ok (fst y, snd x :: snd y))%res
  end.

(* ------------------------------------------------------------------ what the replies say about the state *)
(* abstract session state that a client can compute from the replies (and the done-notifications)
   alone: None = no file open; Some l = file open with live stream ids l (with stream/query flag) *)
Definition spec := option (list (N * bool)).

Fixpoint remove_first (id : N) (l : list (N * bool)) : list (N * bool) :=
  match l with
  | [] => []
  | x :: r => if fst x =? id then r else x :: remove_first id r
  end.
Fixpoint renew_first (id new_id : N) (l : list (N * bool)) : list (N * bool) :=
  match l with
  | [] => []
  | x :: r => if fst x =? id then (new_id, snd x) :: r else x :: renew_first id new_id r
  end.

Definition spec_reply (sp : spec) (r : reply) : spec :=
  match r with
  | ROk (OkOpen _) => Some []
  | ROk OkClose => None
  | ROk (OkStream is_stream id _ _ _) => match sp with Some l => Some (l ++ [(id, is_stream)])%list | None => None end
  | ROk (OkStop id) => match sp with Some l => Some (remove_first id l) | None => None end
  | ROk (OkWindow old new _ _) => match sp with Some l => Some (renew_first old new l) | None => None end
  | _ => sp
  end.
Definition spec_event (sp : spec) (ev : event) : spec :=
  match ev, sp with
  | EvDone id, Some l => Some (filter (fun x => negb ((fst x =? id) && negb (snd x))) l)
  | _, None => None
  end.
Definition spec_item (sp : spec) (pre : list event) (written : list reply) : spec :=
  fold_left spec_reply written (fold_left spec_event pre sp).
Fixpoint spec_run (sp : spec) (h : list item) (ws : list (list reply)) : spec :=
  match h, ws with
  | it :: r, w :: ws' => spec_run (spec_item sp (i_pre it) w) r ws'
  | _, _ => sp
  end.

(* the abstraction of the model state *)
Definition abs (st : state) : spec :=
  match st_fc st with
  | Some fc => Some (map (fun s => (s_id s, s_is_stream s)) (fc_streams fc))
  | None => None
  end.
Definition spec_open (sp : spec) : bool := is_some sp.
Definition spec_live (sp : spec) (id : N) : bool :=
  match sp with Some l => existsb (fun x => fst x =? id) l | None => false end.
