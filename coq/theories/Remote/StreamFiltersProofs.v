(* Proofs about Remote/StreamFilters.v: the container built from a command's "filters" array, read by match_filters,
   selects exactly by the set semantics of the ENABLED filters of the array (positive: OR, none = pass; negative: veto;
   event: at least one matches when any exist); disabled and marker filters, and the order of the array, have no effect;
   the filtered sequence of a stream and the union of the pages of a search are the positions selected that way. *)
From Coq Require Import List NArith Bool Lia Permutation.
From AdltV Require Import Base.Res Base.MachInt Remote.Stream Remote.StreamProofs Remote.StreamSearchProofs Remote.StreamFilters.
Import ListNotations.
Open Scope N_scope.

Lemma fkind_eqb_eq a b : fkind_eqb a b = true <-> a = b.
Proof. destruct a, b; cbn; split; intros H; try reflexivity; try discriminate. Qed.

Section FiltersProofs.
  Context {M : Type}.
  Notation pfilter := (@pfilter M).

  Lemma is_en_iff k (f : pfilter) : is_en k f = true <-> pf_enabled f = true /\ pf_kind f = k.
  Proof. unfold is_en. rewrite andb_true_iff, fkind_eqb_eq. tauto. Qed.

  Lemma any_of_kind k (l : list pfilter) m : any_matches (of_kind k l) m = kind_hits k l m.
  Proof.
    unfold any_matches, of_kind, kind_hits. induction l as [|f r IH]; [reflexivity|].
    cbn [filter existsb]. destruct (is_en k f) eqn:E.
    - cbn [map existsb]. rewrite IH. f_equal. unfold pf_matches. unfold is_en in E.
      apply andb_true_iff in E. destruct E as [E _]. rewrite E. reflexivity.
    - rewrite IH. reflexivity.
  Qed.

  Lemma nil_of_kind k (l : list pfilter) : is_nil (of_kind k l) = negb (has_kind k l).
  Proof.
    unfold of_kind, has_kind. induction l as [|f r IH]; [reflexivity|].
    cbn [filter existsb]. destruct (is_en k f); [reflexivity|exact IH].
  Qed.

  (* match_filters on the container = the set semantics on the array *)
  Theorem match_filters_selects (l : list pfilter) m : match_filters (fset_of l) m = selects l m.
  Proof.
    unfold match_filters, selects, fset_of. cbn [f_pos f_neg f_ev].
    rewrite !nil_of_kind, !any_of_kind.
    destruct (negb (has_kind KPos l) || kind_hits KPos l m); [|reflexivity].
    destruct (kind_hits KNeg l m); reflexivity.
  Qed.

  Lemma has_kind_iff k (l : list pfilter) :
    has_kind k l = true <-> exists f, In f l /\ pf_enabled f = true /\ pf_kind f = k.
  Proof.
    unfold has_kind. rewrite existsb_exists. split; intros [f [Hi H]]; exists f; (split; [exact Hi|]); apply is_en_iff; exact H.
  Qed.
  Lemma kind_hits_iff k (l : list pfilter) m :
    kind_hits k l m = true <-> exists f, In f l /\ pf_enabled f = true /\ pf_kind f = k /\ pf_crit f m = true.
  Proof.
    unfold kind_hits. rewrite existsb_exists. split; intros [f [Hi H]]; exists f; (split; [exact Hi|]).
    - apply andb_true_iff in H. destruct H as [H1 H2]. apply is_en_iff in H1. tauto.
    - apply andb_true_iff. split; [apply is_en_iff; tauto|tauto].
  Qed.

  (* the same as propositions about the filters of the array *)
  Theorem filter_set_semantics (l : list pfilter) m :
    match_filters (fset_of l) m = true <->
      ((~ exists f, In f l /\ pf_enabled f = true /\ pf_kind f = KPos) \/
       (exists f, In f l /\ pf_enabled f = true /\ pf_kind f = KPos /\ pf_crit f m = true)) /\
      (~ exists f, In f l /\ pf_enabled f = true /\ pf_kind f = KNeg /\ pf_crit f m = true) /\
      ((~ exists f, In f l /\ pf_enabled f = true /\ pf_kind f = KEvent) \/
       (exists f, In f l /\ pf_enabled f = true /\ pf_kind f = KEvent /\ pf_crit f m = true)).
  Proof.
    rewrite match_filters_selects. unfold selects.
    rewrite !andb_true_iff, !orb_true_iff, !negb_true_iff.
    rewrite <- !kind_hits_iff, <- !has_kind_iff.
    destruct (has_kind KPos l), (has_kind KEvent l), (kind_hits KPos l m), (kind_hits KNeg l m), (kind_hits KEvent l m);
      intuition congruence.
  Qed.

  (* ---------------------------------------------------------------- what has no effect *)
  Lemma of_kind_app k (a b : list pfilter) : of_kind k (a ++ b) = of_kind k a ++ of_kind k b.
  Proof. unfold of_kind. rewrite filter_app, map_app. reflexivity. Qed.

  Lemma of_kind_skip k (f : pfilter) r : is_en k f = false -> of_kind k (f :: r) = of_kind k r.
  Proof. intros H. unfold of_kind. cbn [filter]. rewrite H. reflexivity. Qed.

  (* a disabled filter (of any kind) or a marker filter anywhere in the array: the same container *)
  Theorem ineffective_filter_ignored (a b : list pfilter) f :
    pf_enabled f = false \/ pf_kind f = KMarker -> fset_of (a ++ f :: b) = fset_of (a ++ b).
  Proof.
    intros H. assert (Hk : forall k, k <> KMarker -> is_en k f = false).
    { intros k Hk. unfold is_en. destruct H as [H|H]; [rewrite H; reflexivity|].
      rewrite H. destruct k; try (rewrite andb_false_r; reflexivity). contradiction. }
    unfold fset_of. rewrite !of_kind_app, !of_kind_skip by (apply Hk; discriminate). reflexivity.
  Qed.

  Lemma filter_filter_sub {A} (p q : A -> bool) (l : list A) :
    (forall x, p x = true -> q x = true) -> filter p (filter q l) = filter p l.
  Proof.
    intros H. induction l as [|x r IH]; [reflexivity|]. cbn [filter].
    destruct (q x) eqn:Eq.
    - cbn [filter]. rewrite IH. reflexivity.
    - rewrite IH. destruct (p x) eqn:Ep; [|reflexivity]. rewrite (H x Ep) in Eq. discriminate.
  Qed.

  Theorem disabled_filters_dropped (l : list pfilter) : fset_of l = fset_of (filter (@pf_enabled M) l).
  Proof.
    assert (H : forall k, of_kind k (filter (@pf_enabled M) l) = of_kind k l).
    { intros k. unfold of_kind. f_equal. apply filter_filter_sub. intros f Hf. apply is_en_iff in Hf. tauto. }
    unfold fset_of. rewrite !H. reflexivity.
  Qed.

  Lemma existsb_perm {A} (p : A -> bool) a b : Permutation a b -> existsb p a = existsb p b.
  Proof.
    induction 1 as [|x a b _ IH|x y a|a b c _ IH1 _ IH2]; cbn [existsb].
    - reflexivity.
    - rewrite IH. reflexivity.
    - rewrite !orb_assoc, (orb_comm (p y)). reflexivity.
    - rewrite IH1. exact IH2.
  Qed.

  (* the order of the array is irrelevant for the selection *)
  Theorem selection_order_irrelevant (a b : list pfilter) m :
    Permutation a b -> match_filters (fset_of a) m = match_filters (fset_of b) m.
  Proof.
    intros H. rewrite !match_filters_selects. unfold selects, has_kind, kind_hits.
    rewrite !(existsb_perm _ a b H). reflexivity.
  Qed.

  (* ---------------------------------------------------------------- union, not intersection *)
  Lemma is_en_other k k' (f : pfilter) : pf_kind f = k -> k' <> k -> is_en k' f = false.
  Proof. intros H Hn. unfold is_en. rewrite H. destruct k, k'; try (apply andb_false_r); contradiction. Qed.

  (* exactly: with an enabled event filter f in front, the event rule is "f matches or one of the others does" *)
  Lemma selects_cons_event (l : list pfilter) f m :
    pf_enabled f = true -> pf_kind f = KEvent ->
    selects (f :: l) m =
      ((negb (has_kind KPos l) || kind_hits KPos l m) && negb (kind_hits KNeg l m) && (pf_crit f m || kind_hits KEvent l m)).
  Proof.
    intros He Hk. assert (H3 : is_en KEvent f = true) by (apply is_en_iff; auto).
    assert (H0 : is_en KPos f = false) by (apply (is_en_other KEvent); [exact Hk|discriminate]).
    assert (H1 : is_en KNeg f = false) by (apply (is_en_other KEvent); [exact Hk|discriminate]).
    unfold selects, has_kind, kind_hits. cbn [existsb]. rewrite H0, H1, H3. cbn [andb orb negb]. reflexivity.
  Qed.
  Lemma selects_cons_pos (l : list pfilter) f m :
    pf_enabled f = true -> pf_kind f = KPos ->
    selects (f :: l) m =
      ((pf_crit f m || kind_hits KPos l m) && negb (kind_hits KNeg l m) && (negb (has_kind KEvent l) || kind_hits KEvent l m)).
  Proof.
    intros He Hk. assert (H0 : is_en KPos f = true) by (apply is_en_iff; auto).
    assert (H3 : is_en KEvent f = false) by (apply (is_en_other KPos); [exact Hk|discriminate]).
    assert (H1 : is_en KNeg f = false) by (apply (is_en_other KPos); [exact Hk|discriminate]).
    unfold selects, has_kind, kind_hits. cbn [existsb]. rewrite H0, H1, H3. cbn [andb orb negb]. reflexivity.
  Qed.

  Theorem event_rule_is_or (l : list pfilter) f m :
    pf_enabled f = true -> pf_kind f = KEvent ->
    match_filters (fset_of (f :: l)) m =
      ((negb (has_kind KPos l) || kind_hits KPos l m) && negb (kind_hits KNeg l m) && (pf_crit f m || kind_hits KEvent l m)).
  Proof. intros He Hk. rewrite match_filters_selects. apply selects_cons_event; assumption. Qed.

  (* a further enabled event filter never removes a message from a selection that already has an event filter,
     a further enabled positive filter never removes one from a selection that already has a positive filter
     (negative filters only remove) *)
  Theorem more_event_filters_select_more (l : list pfilter) f m :
    pf_enabled f = true -> pf_kind f = KEvent -> has_kind KEvent l = true ->
    match_filters (fset_of l) m = true -> match_filters (fset_of (f :: l)) m = true.
  Proof.
    intros He Hk Hh. rewrite !match_filters_selects, (selects_cons_event l f m He Hk). unfold selects. rewrite Hh.
    cbn [negb orb]. intros H. apply andb_true_iff in H. destruct H as [H1 H2]. rewrite H1, H2. cbn [andb]. apply orb_true_r.
  Qed.
  Theorem more_positive_filters_select_more (l : list pfilter) f m :
    pf_enabled f = true -> pf_kind f = KPos -> has_kind KPos l = true ->
    match_filters (fset_of l) m = true -> match_filters (fset_of (f :: l)) m = true.
  Proof.
    intros He Hk Hh. rewrite !match_filters_selects, (selects_cons_pos l f m He Hk). unfold selects. rewrite Hh.
    cbn [negb orb]. intros H. apply andb_true_iff in H. destruct H as [H1 H3]. apply andb_true_iff in H1. destruct H1 as [H1 H2].
    rewrite H1, H2, H3. rewrite orb_true_r. reflexivity.
  Qed.

  (* ---------------------------------------------------------------- the filtered sequence *)
  Lemma matching_is_where (fs : fset M) (p : M -> bool) : (forall m, match_filters fs m = p m) ->
    forall msgs off, matching_idxs fs msgs off = idxs_where p msgs off.
  Proof.
    intros H msgs. induction msgs as [|m r IH]; intros off; [reflexivity|].
    cbn [matching_idxs idxs_where]. rewrite H, !IH. reflexivity.
  Qed.

  Theorem filtered_sequence_is_selection (l : list pfilter) all :
    matching (fset_of l) all = idxs_where (selects l) all 0.
  Proof. unfold matching. apply matching_is_where. intros m. apply match_filters_selects. Qed.

  Lemma idxs_where_in (p : M -> bool) msgs : forall off i,
    In i (idxs_where p msgs off) <-> exists m, off <= i /\ nthN msgs (i - off) = Some m /\ p m = true.
  Proof.
    induction msgs as [|x r IH]; intros off i; cbn [idxs_where].
    - split; [contradiction|]. intros [m [_ [H _]]]. unfold nthN in H. destruct (N.to_nat (i - off)); discriminate.
    - assert (Hr : In i (idxs_where p r (off + 1)) <-> exists m, off + 1 <= i /\ nthN r (i - (off + 1)) = Some m /\ p m = true)
        by apply IH.
      assert (Hs : forall m, off + 1 <= i -> nthN (x :: r) (i - off) = Some m <-> nthN r (i - (off + 1)) = Some m).
      { intros m Hle. replace (i - off) with (i - (off + 1) + 1) by lia. rewrite nthN_cons_succ. tauto. }
      destruct (p x) eqn:Ex; cbn [In]; rewrite ?Hr; split.
      + intros [H|[m [H1 [H2 H3]]]].
        * subst i. exists x. split; [lia|]. replace (off - off) with 0 by lia. rewrite nthN_cons_0. auto.
        * exists m. split; [lia|]. split; [apply Hs; assumption|assumption].
      + intros [m [H1 [H2 H3]]]. destruct (N.eq_dec i off) as [->|Hn]; [left; reflexivity|right].
        exists m. assert (Hle : off + 1 <= i) by lia. split; [exact Hle|]. split; [apply Hs; assumption|assumption].
      + intros [m [H1 [H2 H3]]]. exists m. split; [lia|]. split; [apply Hs; assumption|assumption].
      + intros [m [H1 [H2 H3]]]. destruct (N.eq_dec i off) as [->|Hn].
        * replace (off - off) with 0 in H2 by lia. rewrite nthN_cons_0 in H2. inversion H2; subst m. congruence.
        * exists m. assert (Hle : off + 1 <= i) by lia. split; [exact Hle|]. split; [apply Hs; assumption|assumption].
  Qed.

  (* position i of the log is in the filtered sequence iff the enabled filters of the array select its message *)
  Theorem in_filtered_sequence_iff (l : list pfilter) all i :
    In i (matching (fset_of l) all) <-> exists m, nthN all i = Some m /\ selects l m = true.
  Proof.
    rewrite filtered_sequence_is_selection, idxs_where_in. replace (i - 0) with i by lia.
    split; intros [m H]; exists m; [tauto|]. split; [lia|tauto].
  Qed.

  (* ---------------------------------------------------------------- searches *)
  (* the union of the pages of a search whose request carried the array l = the stream positions from [start] on whose
     message the ENABLED filters of l select (disabled ones have no effect: [selects] does not read them) *)
  Theorem search_pages_union_is_selection (all : list M) (s : sctx M) (l : list pfilter) maxr fuel start :
    stream_ok all s ->
    (N.to_nat (stream_len s (len all) - start) < fuel)%nat ->
    exists pages,
      search_pages fuel all s start maxr (fset_of l) = Ok pages /\
      chain start pages (N.max start (stream_len s (len all))) /\
      concat (map fst pages) =
        filter (fun i => match stream_msg all s i with Ok m => selects l m | _ => false end)
               (range start (N.max start (stream_len s (len all)))).
  Proof.
    intros Hok Hf. destruct (search_pages_partition all s (fset_of l) maxr Hok fuel start Hf) as [pages [H1 [H2 [_ H4]]]].
    exists pages. split; [exact H1|]. split; [exact H2|]. rewrite H4. unfold hits. apply filter_ext.
    intros i. unfold hit. destruct (stream_msg all s i); try reflexivity. apply match_filters_selects.
  Qed.
End FiltersProofs.

(* ---------------------------------------------------------------- the two near misses, on concrete inputs *)
(* messages are numbers; a filter's criterion is "equals v" *)
Definition nf (k : fkind) (en : bool) (v : N) : @pfilter N := {| pf_kind := k; pf_enabled := en; pf_crit := N.eqb v |}.

(* "every event filter matches" instead of "at least one": two event filters 1 and 2 select {1, 2} of the log
   [0;1;2;1]; the all() rule selects nothing.  With at most one enabled event filter the two rules agree. *)
Lemma event_all_rule_is_wrong :
  let l := [nf KEvent true 1; nf KEvent true 2] in
  idxs_where (selects l) [0; 1; 2; 1] 0 = [1; 2; 3] /\ idxs_where (selects_event_all l) [0; 1; 2; 1] 0 = [].
Proof. vm_compute. split; reflexivity. Qed.

Lemma event_all_rule_agrees_up_to_one {M} (l : list (@pfilter M)) m :
  (length (filter (is_en KEvent) l) <= 1)%nat -> selects_event_all l m = selects l m.
Proof.
  intros H. unfold selects_event_all, selects. f_equal. unfold has_kind, kind_hits, kind_all.
  induction l as [|f r IH]; [reflexivity|]. cbn [filter existsb forallb] in *.
  destruct (is_en KEvent f) eqn:E.
  - cbn [length negb orb andb] in *. assert (Hr : filter (is_en KEvent) r = []) by (destruct (filter (is_en KEvent) r); [reflexivity|cbn in H; lia]).
    assert (H1 : forallb (fun f0 => negb (is_en KEvent f0) || pf_crit f0 m) r = true).
    { clear -Hr. induction r as [|g r IH]; [reflexivity|]. cbn [filter forallb] in *. destruct (is_en KEvent g); [discriminate|]. cbn [negb orb andb]. apply IH, Hr. }
    assert (H2 : existsb (fun f0 => is_en KEvent f0 && pf_crit f0 m) r = false).
    { clear -Hr. induction r as [|g r IH]; [reflexivity|]. cbn [filter existsb] in *. destruct (is_en KEvent g); [discriminate|]. cbn [andb orb]. apply IH, Hr. }
    rewrite H1, H2, andb_true_r, orb_false_r. reflexivity.
  - cbn [negb orb andb]. apply IH. exact H.
Qed.

(* the loop without the `enabled` guard: a single disabled positive (or event) filter makes the selection empty *)
Lemma unguarded_disabled_filter_is_wrong :
  let l := [nf KPos false 7] in
  matching (fset_of l) [0; 1; 2] = [0; 1; 2] /\ matching (fset_of_unguarded l) [0; 1; 2] = [] /\
  let l' := [nf KEvent false 7; nf KEvent true 1] in
  matching (fset_of l') [0; 1; 2] = [1] /\ matching (fset_of_unguarded l') [0; 1; 2] = [1] /\
  let l'' := [nf KEvent false 7] in
  matching (fset_of l'') [0; 1; 2] = [0; 1; 2] /\ matching (fset_of_unguarded l'') [0; 1; 2] = [].
Proof. vm_compute. repeat split; reflexivity. Qed.
