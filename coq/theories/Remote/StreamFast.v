(* A single-pass version of the loop that fetches the messages to send, and the server step built on it.
   [collect] (Remote/Stream.v) indexes `filtered_msgs[i]` and `all_msgs[msg_idx]` position by position, which
   on Coq lists costs O(position) per message; sessions with some 100 000 messages per window cannot be
   evaluated that way.  [collect_fast] takes the slice of filtered_msgs and walks all_msgs once.  It is NOT part
   of the model of the code: Remote/StreamFastProofs.v proves that on every reachable state [fast_run] = [run],
   and the correspondence shards evaluate [fast_run].  No proofs in this file. *)
From Coq Require Import List NArith Bool.
From AdltV Require Import Base.Res Base.MachInt Remote.Stream.
Import ListNotations.
Open Scope N_scope.

Section Fast.
  Context {M : Type}.
  Variable part_chunk_const : N.
  Variable time_of index_of : M -> N.
  Variable sort_by_time : bool.

  (* the messages of [all] (whose first element has position [pos]) at the ascending positions [idxs] *)
  Fixpoint pick (all : list M) (pos : N) (idxs : list N) : list M :=
    match all with
    | [] => []
    | m :: r =>
      match idxs with
      | [] => []
      | i :: is => if i =? pos then m :: pick r (pos + 1) is else pick r (pos + 1) idxs
      end
    end.

  Fixpoint positions (a : N) (n : nat) : list N :=
    match n with O => [] | S k => a :: positions (a + 1) k end.

  Definition collect_fast (all : list M) (s : sctx M) (from : N) (cnt : nat) : res (list (N * M)) :=
    let ms :=
      if s_filters_active s then pick all 0 (firstn cnt (skipN from (s_filtered s)))
      else firstn cnt (skipN from all) in
    if Nat.eqb (length ms) cnt then Ok (combine (positions from cnt) ms) else Panic site_index.

  Definition fast_tick_stream : list M -> bool -> sctx M -> res (sctx M * list (frame M)) :=
    tick_stream_gen part_chunk_const collect_fast send_budget.

  Fixpoint fast_tick_streams (all : list M) (finished : bool) (l : list (sctx M)) : res (list (sctx M) * list (frame M)) :=
    match l with
    | [] => Ok ([], [])
    | s :: r =>
      bind (fast_tick_stream all finished s) (fun sf =>
      bind (fast_tick_streams all finished r) (fun rf =>
        Ok ((if s_is_done (fst sf) then fst rf else fst sf :: fst rf), snd sf ++ snd rf)))
    end.

  (* as [step], with the tick replaced *)
  Definition fast_step (sv : server M) (o : op M) : res (server M * list (event M)) :=
    match o with
    | OTick new finished =>
        let all := sv_all sv ++ new in
        bind (fast_tick_streams all finished (sv_streams sv)) (fun r =>
          Ok ({| sv_all := all; sv_streams := fst r; sv_next_id := sv_next_id sv |}, map (@EFrame M) (snd r)))
    | _ => step part_chunk_const time_of index_of sort_by_time sv o
    end.

  Fixpoint fast_run (sv : server M) (ops : list (op M)) : res (server M * list (event M)) :=
    match ops with
    | [] => Ok (sv, [])
    | o :: r =>
      bind (fast_step sv o) (fun se =>
      bind (fast_run (fst se) r) (fun se' => Ok (fst se', snd se ++ snd se')))
    end.
End Fast.
