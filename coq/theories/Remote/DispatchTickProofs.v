(* Proofs about Remote/DispatchTick.v: outside the open option collect:one_pass_streams the index
   arithmetic of process_file_context cannot panic, and it never changes what the dispatcher sees. *)
From Coq Require Import List Arith NArith Bool Ascii String Lia.
From AdltV Require Import Base.Res Base.MachInt Remote.Dispatch Remote.DispatchProofs Remote.DispatchTick.
Import ListNotations.
Open Scope N_scope.

Lemma part_chunk_pos : 0 < part_chunk_size.
Proof. reflexivity. Qed.

(* ------------------------------------------------------------------ process_stream_new_msgs *)
Lemma matching_from_bound m c : forall from x, In x (matching_from m from c) -> from <= x < from + N.of_nat c.
Proof.
  induction c as [|c IH]; intros from x Hin; cbn [matching_from] in Hin; [destruct Hin|].
  rewrite Nat2N.inj_succ.
  destruct (m from).
  - destruct Hin as [<-|Hin]; [lia|]. specialize (IH _ _ Hin). lia.
  - specialize (IH _ _ Hin). lia.
Qed.

Lemma matching_idxs_bound m from to x : In x (matching_idxs m from to) -> from <= x < to.
Proof.
  unfold matching_idxs. intros Hin. apply matching_from_bound in Hin. rewrite N2Nat.id in Hin. lia.
Qed.

Definition below (b : N) (l : list N) : Prop := Forall (fun i => i < b) l.

Lemma below_app b l1 l2 : below b l1 -> below b l2 -> below b (l1 ++ l2).
Proof. intros H1 H2. apply Forall_app. split; assumption. Qed.
Lemma below_mono b b' l : b <= b' -> below b l -> below b' l.
Proof. intros Hb H. eapply Forall_impl; [|exact H]. cbn. intros a Ha. lia. Qed.
Lemma below_matching b m from to : to <= b -> below b (matching_idxs m from to).
Proof. intros Hb. apply Forall_forall. intros x Hin. apply matching_idxs_bound in Hin. lia. Qed.
Lemma in_firstn {A} (x : A) n : forall l, In x (firstn n l) -> In x l.
Proof. induction n as [|n IH]; intros l H; [destruct H|]. destruct l as [|a r]; [destruct H|]. cbn in H. destruct H as [H|H]; [left; exact H|right; exact (IH _ H)]. Qed.
Lemma below_firstn b n l : below b l -> below b (firstn n l).
Proof. intros H. apply Forall_forall. intros x Hin. apply in_firstn in Hin. revert x Hin. apply Forall_forall. exact H. Qed.
Lemma below_skipn b n l : below b l -> below b (skipn n l).
Proof.
  intros H. apply Forall_forall. intros x Hin.
  assert (Hin' : In x l) by (rewrite <- (firstn_skipn n l); apply in_or_app; right; exact Hin).
  clear Hin. revert x Hin'. apply Forall_forall. exact H.
Qed.

Lemma query_loop_ok m max_matching offset max_idx b : offset + max_idx <= b ->
  forall fuel start_idx filtered last,
    (N.to_nat (max_idx - start_idx) < fuel)%nat -> start_idx <= max_idx -> below b filtered ->
    exists f' l', query_loop fuel m max_matching offset max_idx start_idx filtered last = Ok (f', l') /\ below b f'.
Proof.
  intros Hb. induction fuel as [|fuel IH]; intros start_idx filtered last Hf Hs Hbl; [lia|].
  cbn [query_loop].
  destruct ((N.of_nat (List.length filtered) <? max_matching) && (start_idx <? max_idx)) eqn:C; [|eauto].
  apply andb_true_iff in C. destruct C as [C1 C2]. apply N.ltb_lt in C1, C2.
  pose proof part_chunk_pos as Hp.
  set (mt := N.min max_idx (start_idx + part_chunk_size)).
  assert (Hmt : start_idx < mt /\ mt <= max_idx) by (unfold mt; lia).
  set (mm := matching_idxs m (offset + start_idx) (offset + mt)).
  assert (Hmm : below b mm) by (apply below_matching; lia).
  destruct (N.of_nat (List.length mm) <=? max_matching - N.of_nat (List.length filtered)) eqn:W.
  - apply IH; [lia|lia|apply below_app; assumption].
  - apply N.leb_gt in W.
    destruct (nth_error mm (N.to_nat (max_matching - N.of_nat (List.length filtered)))) as [fu|] eqn:E.
    + apply IH; [lia|lia|apply below_app; [assumption|apply below_firstn; assumption]].
    + apply nth_error_None in E. lia.
Qed.

Lemma psnm_ok b s offset n : below b (s_filtered s) -> offset + n <= b ->
  exists s1, process_stream_new_msgs s offset n = Ok s1 /\ below b (s_filtered s1) /\
             s_filter s1 = s_filter s /\ s_end s1 = s_end s /\ s_sent_end s1 = s_sent_end s /\
             s_id s1 = s_id s /\ s_is_stream s1 = s_is_stream s.
Proof.
  intros Hbl Hb. unfold process_stream_new_msgs.
  destruct (n =? 0); [exists s; repeat split; auto|].
  destruct (s_filter s) as [m|] eqn:F.
  - assert (Hmi : N.min n max_chunk_size <= n) by lia.
    destruct (s_is_stream s) eqn:IS.
    + eexists. split; [reflexivity|]. cbn. repeat split; auto.
      apply below_app; [assumption|apply below_matching; lia].
    + destruct (query_loop_ok m (s_end s) offset (N.min n max_chunk_size) b ltac:(lia)
                  (S (N.to_nat (N.min n max_chunk_size))) 0 (s_filtered s) (s_last s)) as [f' [l' [H Hb']]]; [lia|lia|assumption|].
      rewrite H. cbn [bind fst snd]. eexists. split; [reflexivity|]. cbn. repeat split; auto.
  - eexists. split; [reflexivity|]. cbn. repeat split; auto.
Qed.

(* ------------------------------------------------------------------ one stream, nothing drained *)
Lemma send_filtered_ok len idxs : below len idxs -> send_filtered 0 len idxs = Ok tt.
Proof.
  induction 1 as [|x r Hx Hr IH]; cbn [send_filtered]; [reflexivity|].
  rewrite (proj2 (N.leb_le 0 x) (N.le_0_l x)). cbn [bind]. rewrite N.sub_0_r. apply N.ltb_lt in Hx. rewrite Hx. exact IH.
Qed.

Lemma tick_stream_ok all s : below all (s_filtered s) ->
  exists s', tick_stream all 0 s = Ok s' /\ below all (s_filtered s') /\ s_id s' = s_id s /\ s_is_stream s' = s_is_stream s.
Proof.
  intros Hbl. unfold tick_stream. rewrite N.sub_0_r.
  set (last0 := N.min (s_last s) all).
  assert (L0 : last0 <= all) by (unfold last0; lia).
  rewrite (proj2 (N.leb_le 0 last0) (N.le_0_l last0)). cbn [bind]. rewrite N.sub_0_r.
  apply N.leb_le in L0. rewrite L0. apply N.leb_le in L0. cbn [bind].
  destruct (psnm_ok all s last0 (all - last0) Hbl ltac:(lia)) as [s1 [H1 [B1 [F1 [E1 [S1 [I1 IS1]]]]]]].
  rewrite H1. cbn [bind].
  destruct ((s_sent_end s1 <? s_end s1) &&
            (s_sent_end s1 <? match s_filter s1 with Some _ => N.of_nat (List.length (s_filtered s1)) | None => all end)) eqn:C;
    [|exists s1; auto].
  apply andb_true_iff in C. destruct C as [C1 C2]. apply N.ltb_lt in C1, C2.
  destruct (s_filter s1) as [m|].
  - set (new_end := N.min (N.of_nat (List.length (s_filtered s1))) (s_end s1)).
    set (idxs := firstn (N.to_nat (new_end - s_sent_end s1)) (skipn (N.to_nat (s_sent_end s1)) (s_filtered s1))).
    assert (HL : N.of_nat (List.length idxs) = new_end - s_sent_end s1).
    { unfold idxs. rewrite firstn_length, skipn_length. unfold new_end in *. lia. }
    rewrite HL, N.eqb_refl.
    rewrite send_filtered_ok; [|unfold idxs; apply below_firstn, below_skipn; exact B1].
    cbn [bind]. eexists. split; [reflexivity|]. cbn. auto.
  - rewrite (proj2 (N.leb_le 0 (s_sent_end s1)) (N.le_0_l _)).
    assert (HN : N.min all (s_end s1) - 1 - 0 <? all = true) by (apply N.ltb_lt; lia).
    rewrite HN. cbn [bind]. eexists. split; [reflexivity|]. cbn. auto.
Qed.

Lemma tick_streams_ok all l : Forall (fun s => below all (s_filtered s)) l ->
  exists l', tick_streams all 0 l = Ok l' /\ Forall (fun s => below all (s_filtered s)) l' /\ map sview l' = map sview l.
Proof.
  induction 1 as [|s r Hs Hr IH]; cbn [tick_streams]; [exists []; auto|].
  destruct (tick_stream_ok all s Hs) as [s' [H1 [B1 [I1 IS1]]]]. rewrite H1. cbn [bind].
  destruct IH as [r' [H2 [B2 M2]]]. rewrite H2. cbn [bind].
  exists (s' :: r'). split; [reflexivity|]. split; [constructor; assumption|].
  cbn [map]. unfold sview at 1 3. rewrite I1, IS1, M2. reflexivity.
Qed.

(* ------------------------------------------------------------------ the invariant *)
Definition fc_inv (fc : fctx) : Prop :=
  fc_collect fc <> COnePass /\ fc_drained fc = 0 /\ Forall (fun s => below (fc_all_len fc) (s_filtered s)) (fc_streams fc).
Definition tick_inv (st : state) : Prop :=
  match st_fc st with Some fc => fc_inv fc | None => True end.

Lemma tick_fc_ok fc now : fc_inv fc ->
  exists fc', tick_fc fc now = Ok fc' /\ fc_inv fc' /\ map sview (fc_streams fc') = map sview (fc_streams fc).
Proof.
  intros [Hc [Hd Hs]]. unfold tick_fc. destruct (fc_extracting fc); [exists fc; repeat split; auto|].
  destruct (fc_paused fc); [exists fc; repeat split; auto|].
  set (all := match fc_collect fc with CNone => fc_all_len fc | _ => N.max (fc_all_len fc) now end).
  assert (Ha : fc_all_len fc <= all) by (unfold all; destruct (fc_collect fc); lia).
  rewrite Hd.
  destruct (tick_streams_ok all (fc_streams fc)) as [l' [H1 [B1 M1]]].
  { eapply Forall_impl; [|exact Hs]. cbn. intros s. apply below_mono. exact Ha. }
  rewrite H1. cbn [bind].
  destruct (fc_collect fc) eqn:E; [|contradiction|];
    (eexists; split; [reflexivity|]; split; [|exact M1]; unfold fc_inv; cbn; rewrite E; repeat split; auto; discriminate).
Qed.

Lemma tick_ok st now : tick_inv st ->
  exists st', tick st now = Ok st' /\ tick_inv st' /\ abs st' = abs st /\ st_next_id st' = st_next_id st.
Proof.
  unfold tick, tick_inv. intros H. destruct (st_fc st) as [fc|] eqn:E; [|exists st; rewrite E; auto].
  destruct (tick_fc_ok fc now H) as [fc' [H1 [I1 M1]]]. rewrite H1. cbn [bind].
  exists (with_fc st fc'). split; [reflexivity|]. cbn. split; [exact I1|]. split; [|reflexivity].
  unfold abs. cbn. rewrite E. f_equal. exact M1.
Qed.

(* ------------------------------------------------------------------ the lifecycle table *)
(* with the contract of the lifecycle module (every published key has exactly one value) the loop body receives
   exactly one value per key and `get_one().unwrap()` cannot fail *)
Lemma lc_loop_ok entries : forallb (fun e => bag_single (snd e)) entries = true ->
  exists vs, lc_loop entries = Ok vs /\ map (fun v => [v]) vs = map snd entries.
Proof.
  induction entries as [|[k b] r IH]; cbn [forallb lc_loop map snd]; intros H; [exists []; auto|].
  apply andb_true_iff in H. destruct H as [Hb Hr].
  destruct b as [|v [|w b']]; cbn [bag_single] in Hb; try discriminate.
  destruct (IH Hr) as [vs [E M]]. cbn [get_one hd_error]. rewrite E. cbn [bind].
  exists (v :: vs). split; [reflexivity|]. cbn [map]. rewrite M. reflexivity.
Qed.

(* the dependency: ANY table with a key whose bag is empty makes the pass panic (there is no other outcome:
   the loop has this one panic site and reaches the entry unless it panicked before at the same site) *)
Lemma lc_loop_empty_bag entries k : In (k, []) entries -> lc_loop entries = Panic site_tick_lc_get_one.
Proof.
  induction entries as [|[k' b] r IH]; intros Hin; [destruct Hin|].
  cbn [lc_loop]. destruct b as [|v b']; cbn [get_one hd_error]; [reflexivity|].
  destruct Hin as [Hin|Hin]; [discriminate Hin|]. rewrite (IH Hin). reflexivity.
Qed.

Lemma tick_lcs_ok st t : published_key_single_value t = true -> tick_lcs st t = Ok st.
Proof.
  unfold tick_lcs, tick_lcs_fc, published_key_single_value. intros H.
  destruct (st_fc st) as [fc|]; [|reflexivity].
  destruct (fc_extracting fc); [reflexivity|]. destruct (fc_paused fc); [reflexivity|].
  destruct t as [entries|]; [|reflexivity].
  destruct (lc_loop_ok entries H) as [vs [E _]]. rewrite E. reflexivity.
Qed.

(* whatever it read, a pass that does not panic leaves the state alone *)
Lemma tick_lcs_state st t st' : tick_lcs st t = Ok st' -> st' = st.
Proof.
  unfold tick_lcs. destruct (st_fc st) as [fc|]; [|intros H; inversion H; reflexivity].
  destruct (tick_lcs_fc fc t); cbn [bind]; intros H; inversion H; reflexivity.
Qed.

(* tick never changes what the dispatcher sees, panicking or not *)
Lemma psnm_view s offset n s1 : process_stream_new_msgs s offset n = Ok s1 -> s_id s1 = s_id s /\ s_is_stream s1 = s_is_stream s.
Proof.
  unfold process_stream_new_msgs. intros H.
  destruct (n =? 0); [inversion H; auto|].
  destruct (s_filter s); [|inversion H; auto].
  destruct (s_is_stream s) eqn:IS; [inversion H; cbn; auto|].
  match type of H with (bind ?x _) = _ => destruct x end; cbn [bind] in H; try discriminate. inversion H; cbn; auto.
Qed.

Lemma tick_stream_view all d s s' : tick_stream all d s = Ok s' -> sview s' = sview s.
Proof.
  unfold tick_stream. intros H.
  destruct (d <=? N.min (s_last s) all); cbn [bind] in H; [|discriminate].
  destruct (_ <=? all - d); cbn [bind] in H; [|discriminate].
  destruct (process_stream_new_msgs s _ _) as [s1| |] eqn:P; cbn [bind] in H; try discriminate.
  destruct (psnm_view _ _ _ _ P) as [I1 IS1].
  destruct (_ && _).
  - match type of H with (bind ?x _) = _ => destruct x end; cbn [bind] in H; try discriminate.
    inversion H; subst. unfold sview. cbn. rewrite I1, IS1. reflexivity.
  - inversion H; subst. unfold sview. rewrite I1, IS1. reflexivity.
Qed.

Lemma tick_streams_view all d l : forall l', tick_streams all d l = Ok l' -> map sview l' = map sview l.
Proof.
  induction l as [|s r IH]; intros l' H; cbn [tick_streams] in H; [inversion H; reflexivity|].
  destruct (tick_stream all d s) as [s'| |] eqn:H1; cbn [bind] in H; try discriminate.
  destruct (tick_streams all d r) as [r'| |] eqn:H2; cbn [bind] in H; try discriminate.
  inversion H; subst. cbn [map]. rewrite (tick_stream_view _ _ _ _ H1), (IH _ eq_refl). reflexivity.
Qed.

Lemma tick_abs st now st' : tick st now = Ok st' -> abs st' = abs st /\ st_next_id st' = st_next_id st.
Proof.
  unfold tick. intros H. destruct (st_fc st) as [fc|] eqn:E; [|inversion H; subst; auto].
  destruct (tick_fc fc now) as [fc'| |] eqn:T; cbn [bind] in H; try discriminate. inversion H; subst. split; [|reflexivity].
  unfold abs. cbn. rewrite E. f_equal. unfold tick_fc in T.
  destruct (fc_extracting fc); [inversion T; reflexivity|].
  destruct (fc_paused fc); [inversion T; reflexivity|].
  destruct (tick_streams _ _ _) as [l'| |] eqn:TS; cbn [bind] in T; try discriminate.
  pose proof (tick_streams_view _ _ _ _ TS) as M.
  destruct (fc_collect fc); try (inversion T; subst; exact M).
  destruct (_ <=? _); inversion T; subst; exact M.
Qed.

(* ------------------------------------------------------------------ the dispatcher keeps the invariant *)
Lemma Forall_replace_at {A} (P : A -> Prop) l i x : Forall P l -> P x -> Forall P (replace_at l i x).
Proof.
  intros H Hx. revert i. induction H as [|a r Ha Hr IH]; intros i; destruct i; cbn [replace_at]; constructor; auto.
Qed.
Lemma Forall_remove_at {A} (P : A -> Prop) l i : Forall P l -> Forall P (remove_at l i).
Proof.
  intros H. revert i. induction H as [|a r Ha Hr IH]; intros i; destruct i; cbn [remove_at]; auto.
Qed.
Lemma Forall_filter {A} (P : A -> Prop) f l : Forall P l -> Forall P (filter f l).
Proof. induction 1 as [|a r Ha Hr IH]; cbn [filter]; [constructor|]. destruct (f a); auto. Qed.

Definition not_one_pass_open (o : orc) : bool :=
  match o_open o with OpenOk COnePass _ _ => false | _ => true end.

Lemma step_inv st t o st' w : tick_inv st -> not_one_pass_open o = true -> step st t o = Ok (st', w) -> tick_inv st'.
Proof.
  unfold tick_inv, step, not_one_pass_open. intros I Ho H.
  destruct (command_of t =?s "open").
  { unfold do_open, unwrap_chk in H. destruct (st_fc st) as [fc|] eqn:E; cbn [is_some bind] in H.
    - inversion H; subst. rewrite E. exact I.
    - destruct (o_open o) as [|mode srt pl]; inversion H; subst; cbn; [rewrite E; exact I|].
      unfold fc_inv. cbn. split; [destruct mode; [discriminate|discriminate Ho|discriminate]|]. split; [reflexivity|constructor]. }
  destruct ((command_of t =?s "pause") || (command_of t =?s "resume")).
  { unfold do_pause in H. destruct (st_fc st) as [fc|] eqn:E; inversion H; subst; cbn; [exact I|rewrite E; exact I]. }
  destruct (command_of t =?s "close").
  { unfold do_close, unwrap_chk in H. destruct (st_fc st) as [fc|] eqn:E; cbn [is_some bind] in H; inversion H; subst; cbn; [exact Logic.I|rewrite E; exact I]. }
  destruct ((command_of t =?s "stream") || (command_of t =?s "query")).
  { unfold do_stream in H. destruct (st_fc st) as [fc|] eqn:E; [|inversion H; subst; rewrite E; exact I].
    destruct I as [Ic [Id Is]].
    destruct (fc_collect fc) eqn:EC; destruct (o_stream o); try (inversion H; subst; rewrite E; unfold fc_inv; rewrite EC; auto; fail);
      try contradiction;
      match type of H with context [if ?b then _ else _] => destruct b end; inversion H; subst; cbn [st_fc bump with_fc];
      try (rewrite E; unfold fc_inv; rewrite EC; auto; fail);
      unfold fc_inv; cbn; rewrite EC; (split; [discriminate|]); (split; [exact Id|]);
      apply Forall_app; (split; [exact Is|]); constructor; [constructor|constructor]. }
  destruct (is_id_command (command_of t)).
  { unfold do_id in H.
    destruct (nth_chk site_params_splitted_0 (split_on sp (params_of t)) 0); cbn [bind] in H; try discriminate.
    destruct (parse_u32 a); [|inversion H; subst; exact I].
    destruct (st_fc st) as [fc|] eqn:E; [|inversion H; subst; rewrite E; exact I].
    destruct (position n (fc_streams fc)) as [pos|]; [|inversion H; subst; rewrite E; exact I].
    destruct I as [Ic [Id Is]].
    unfold do_id_found, search_params, remove_chk in H.
    destruct (command_of t =?s "stream_search"); [split_res H; inversion H; subst; rewrite E; unfold fc_inv; auto|].
    destruct (command_of t =?s "stream_binary_search"); [split_res H; inversion H; subst; rewrite E; unfold fc_inv; auto|].
    destruct (command_of t =?s "stream_change_window").
    { destruct (Nat.ltb 1 _); [|inversion H; subst; rewrite E; unfold fc_inv; auto].
      destruct (nth_chk site_streams_index (fc_streams fc) pos) as [s| |] eqn:Hs; cbn [bind] in H; try discriminate.
      destruct (nth_chk site_params_splitted_1 _ 1); cbn [bind] in H; try discriminate.
      destruct (split_once ","%char a0) as [[x y]|]; [|inversion H; subst; rewrite E; unfold fc_inv; auto].
      inversion H; subst. cbn. unfold fc_inv. cbn. split; [exact Ic|]. split; [exact Id|].
      apply Forall_replace_at; [exact Is|]. cbn.
      unfold nth_chk in Hs. destruct (nth_error (fc_streams fc) pos) eqn:Hn; [|discriminate]. inversion Hs; subst.
      rewrite Forall_forall in Is. apply Is. eapply nth_error_In. exact Hn. }
    destruct (command_of t =?s "stop"); [|inversion H; subst; rewrite E; unfold fc_inv; auto].
    destruct (Nat.ltb pos _); cbn [bind] in H; [|discriminate].
    inversion H; subst. cbn. unfold fc_inv. cbn. split; [exact Ic|]. split; [exact Id|]. apply Forall_remove_at. exact Is. }
  destruct (command_of t =?s "plugin_cmd").
  { unfold do_plugin in H. split_res H; inversion H; subst; try rewrite Heqo0; exact I. }
  destruct (command_of t =?s "fs").
  { destruct (do_fs_inv _ _ _ _ H) as [-> _]. exact I. }
  inversion H; subst. exact I.
Qed.

Lemma apply_event_inv st ev : tick_inv st -> tick_inv (apply_event st ev).
Proof.
  unfold tick_inv, apply_event. destruct ev as [id]. destruct (st_fc st) as [fc|] eqn:E; [|rewrite E; auto].
  intros [Ic [Id Is]]. cbn. unfold fc_inv. cbn. repeat split; auto. apply Forall_filter. exact Is.
Qed.

Lemma extracted_props st n :
  (tick_inv st -> tick_inv (extracted st n)) /\ abs (extracted st n) = abs st /\ st_next_id (extracted st n) = st_next_id st.
Proof.
  unfold extracted, tick_inv, abs. destruct (st_fc st) as [fc|] eqn:E; [|rewrite E; auto].
  destruct (fc_extracting fc); [|rewrite E; auto]. cbn. split; [|auto]. intros [H1 [H2 H3]]. unfold fc_inv. cbn. auto.
Qed.

Lemma apply_tevents_ok evs : forall st, tick_inv st -> forallb tevent_contract evs = true ->
  exists st', apply_tevents st evs = Ok st' /\ tick_inv st' /\
              abs st' = fold_left spec_event (flat_map (fun e => match e with TDone id => [EvDone id] | _ => [] end) evs) (abs st) /\
              st_next_id st' = st_next_id st.
Proof.
  induction evs as [|e r IH]; intros st I HC; cbn [apply_tevents flat_map fold_left]; [exists st; auto|].
  cbn [forallb] in HC. apply andb_true_iff in HC. destruct HC as [HC1 HC2].
  destruct e as [now|id|n|t]; cbn [apply_tevent].
  - destruct (tick_ok st now I) as [st1 [H1 [I1 [A1 N1]]]]. rewrite H1. cbn [bind app].
    destruct (IH st1 I1 HC2) as [st' [H2 [I2 [A2 N2]]]]. exists st'. rewrite H2, A2, A1, N2, N1. auto.
  - cbn [bind app fold_left].
    destruct (IH _ (apply_event_inv st (EvDone id) I) HC2) as [st' [H2 [I2 [A2 N2]]]]. exists st'.
    rewrite H2, A2, apply_event_abs, N2. repeat split; auto.
    unfold apply_event. destruct (st_fc st); reflexivity.
  - cbn [bind app]. destruct (extracted_props st n) as [P1 [P2 P3]].
    destruct (IH _ (P1 I) HC2) as [st' [H2 [I2 [A2 N2]]]]. exists st'. rewrite H2, A2, P2, N2, P3. auto.
  - cbn [tevent_contract] in HC1. rewrite (tick_lcs_ok st t HC1). cbn [bind app].
    destruct (IH st I HC2) as [st' [H2 [I2 [A2 N2]]]]. exists st'. rewrite H2, A2, N2. auto.
Qed.

(* the history the dispatcher model sees *)
Definition proj_item (i : titem) : item :=
  {| i_pre := flat_map (fun e => match e with TDone id => [EvDone id] | _ => [] end) (t_pre i);
     i_frame := t_frame i; i_orc := t_orc i |}.

Lemma run_loop_ok h : forall st, tick_inv st -> forallb (fun i => not_one_pass_open (t_orc i)) h = true ->
  forallb (fun i => forallb tevent_contract (t_pre i)) h = true ->
  exists st' ws, run_loop st h = Ok (st', ws) /\ List.length ws = List.length h /\
                 Forall (fun w => exists r : reply, w = [r]) ws /\ tick_inv st' /\
                 abs st' = spec_run (abs st) (map proj_item h) ws.
Proof.
  induction h as [|i r IH]; intros st I Hn HC; cbn [run_loop].
  - exists st, []. repeat split; auto.
  - cbn [forallb] in Hn. apply andb_true_iff in Hn. destruct Hn as [Hn1 Hn2].
    cbn [forallb] in HC. apply andb_true_iff in HC. destruct HC as [HC1 HC2].
    destruct (apply_tevents_ok (t_pre i) st I HC1) as [st0 [H0 [I0 [A0 _]]]]. rewrite H0. cbn [bind].
    destruct (step_one st0 (t_frame i) (t_orc i)) as [st1 [rp H1]]. rewrite H1. cbn [bind fst snd].
    pose proof (step_inv _ _ _ _ _ I0 Hn1 H1) as I1.
    destruct (tick_ok st1 0 I1) as [st2 [H2 [I2 [A2 _]]]]. rewrite H2. cbn [bind].
    destruct (IH st2 I2 Hn2 HC2) as [st' [ws [H3 [L3 [F3 [I3 A3]]]]]]. rewrite H3. cbn [bind fst snd].
    exists st', ([rp] :: ws). split; [reflexivity|]. split; [cbn; lia|]. split; [constructor; eauto|]. split; [exact I3|].
    cbn [map spec_run]. rewrite A3, A2. f_equal. unfold spec_item, proj_item. cbn [i_pre].
    rewrite <- A0. exact (step_abs _ _ _ _ _ H1).
Qed.

(* state consistency holds for every run of the loop that does not panic, one-pass or not *)
Lemma apply_tevents_abs evs : forall st st', apply_tevents st evs = Ok st' ->
  abs st' = fold_left spec_event (flat_map (fun e => match e with TDone id => [EvDone id] | _ => [] end) evs) (abs st).
Proof.
  induction evs as [|e r IH]; intros st st' H; cbn [apply_tevents flat_map fold_left] in *; [inversion H; reflexivity|].
  destruct (apply_tevent st e) as [st1| |] eqn:H1; cbn [bind] in H; try discriminate.
  rewrite (IH _ _ H). destruct e as [now|id|n|t]; cbn [apply_tevent] in H1; cbn [app fold_left].
  - destruct (tick_abs _ _ _ H1) as [A _]. rewrite A. reflexivity.
  - inversion H1 as [H1']. rewrite <- (apply_event_abs st (EvDone id)). reflexivity.
  - inversion H1 as [H1']. destruct (extracted_props st n) as [_ [P2 _]]. rewrite P2. reflexivity.
  - rewrite (tick_lcs_state _ _ _ H1). reflexivity.
Qed.

Lemma run_loop_abs h : forall st st' ws, run_loop st h = Ok (st', ws) -> abs st' = spec_run (abs st) (map proj_item h) ws.
Proof.
  induction h as [|i r IH]; intros st st' ws H; cbn [run_loop] in H; [inversion H; reflexivity|].
  destruct (apply_tevents st (t_pre i)) as [st0| |] eqn:H0; cbn [bind] in H; try discriminate.
  destruct (step st0 (t_frame i) (t_orc i)) as [[st1 w]| |] eqn:H1; cbn [bind fst snd] in H; try discriminate.
  destruct (tick st1 0) as [st2| |] eqn:H2; cbn [bind] in H; try discriminate.
  destruct (run_loop st2 r) as [[st3 ws3]| |] eqn:H3; cbn [bind fst snd] in H; try discriminate.
  inversion H; subst. cbn [map spec_run]. rewrite (IH _ _ _ H3). destruct (tick_abs _ _ _ H2) as [A2 _]. rewrite A2. f_equal.
  unfold spec_item, proj_item. cbn [i_pre]. rewrite <- (apply_tevents_abs _ _ _ H0). exact (step_abs _ _ _ _ _ H1).
Qed.
